import CpModel.Reader
import CpModel.Cursor
/-
  Model of the multipart parser of `cherrypy._cpreqbody`:
  `process_multipart` (first-marker search, part loop, termination on `fp.done`),
  `Part.read_headers`, `Part.read_lines_to_boundary` (deferred line terminator `delim`, `prev_lf`,
  `strip()` comparison against boundary / end marker, `maxrambytes` spill-over), `Part.default_proc`,
  the Content-Disposition / Content-Type extraction of `Entity.__init__` (`header_elements` comma
  split outside quotes, cgi-style `parse_header`), and the parameter assembly of
  `process_multipart_form_data` / `_old_process_multipart`.  Core Lean only.

  The reader underneath is the CURSOR that `SizedReader` is proved to refine (C05): for a request
  with a declared Content-Length that the connection really delivers, every `fp.readline(...)`
  (also `readline(1 << 16)`: its size is never decremented, so it returns a whole line) returns
  `takeLine rest`, advances by exactly that, and sets `done` iff the rest held no LF
  (`CpProofs.C05.LinePost`); `fp.finish()` sets `done`.  Fragmentation and buffer size therefore do
  not appear in this model; that they do not matter in the real code is what the correspondence run
  checks (and what C05 proves for the reader).

  Exceptions: `EOFError` / `ValueError` of the part loop are turned into `HTTPError(400)` by
  `process_multipart` (`err400`); an invalid boundary is `err400` too (harness side).
  Not modelled: nested processors (`Part.processors` inherits the urlencoded and multipart processors
  — parts with those content types are outside the generator), `filename*`, charset decoding of
  field values (done by the harness on both sides), `tempfile`.
-/
namespace CpModel.Multipart
open CpModel.Reader CpModel.Cursor

def CR : UInt8 := 13
def DASH : UInt8 := 45
def CRLF : Bytes := [13, 10]

/-! ### the line source (cursor) -/

structure Src where
  rest : Bytes
  done : Bool
  deriving Repr, DecidableEq, Inhabited

def Src.readline (s : Src) : Bytes × Src :=
  let l := takeLine s.rest
  (l, { rest := s.rest.drop l.length, done := s.done || !hasLF s.rest })

def Src.finish (s : Src) : Src := { s with done := true }

/-! ### Python bytes primitives -/

/-- `bytes.strip()` whitespace: `\t \n \v \f \r` and space -/
def isWs (b : UInt8) : Bool := b == 9 || b == 10 || b == 11 || b == 12 || b == 13 || b == 32

def lstrip : Bytes → Bytes
  | [] => []
  | b :: bs => if isWs b then lstrip bs else b :: bs

def rstrip (l : Bytes) : Bytes := (lstrip l.reverse).reverse

def strip (l : Bytes) : Bytes := rstrip (lstrip l)

def startsDashes : Bytes → Bool
  | a :: b :: _ => a == DASH && b == DASH
  | _ => false

def endsWith (l suf : Bytes) : Bool := suf.reverse.isPrefixOf l.reverse

/-- the `if line.endswith(b'\r\n') … elif line.endswith(b'\n') … else` of read_lines_to_boundary:
    (line without its terminator, the terminator, prev_lf) -/
def splitTerm (l : Bytes) : Bytes × Bytes × Bool :=
  if endsWith l CRLF then (l.take (l.length - 2), CRLF, true)
  else if endsWith l [LF] then (l.take (l.length - 1), [LF], true)
  else (l, [], false)

inductive Err where
  | eofHeaders      -- EOFError('Illegal end of headers.')
  | eofBody         -- EOFError('Illegal end of multipart body.')
  | noCRLF          -- ValueError('MIME requires CRLF terminators')
  | noColon         -- ValueError (unpacking `line.split(b':', 1)`)
  | badContinuation -- ValueError('Illegal continuation line')
  | reader413       -- HTTPError(413) out of SizedReader (only in the concrete version, MultipartR)
  | fuel            -- model artefact
  deriving Repr, DecidableEq, Inhabited

/-! ### Part.read_lines_to_boundary -/

/-- does this line end the part?  `line.startswith(b'--') and prev_lf` then `strip()` compare;
    `some false` = boundary, `some true` = end marker -/
def delimKind (bnd line : Bytes) (prevLf : Bool) : Option Bool :=
  if startsDashes line && prevLf then
    let s := strip line
    if s = bnd then some false
    else if s = bnd ++ [DASH, DASH] then some true
    else none
  else none

/-- Result: content written, whether it ever exceeded `maxram` while held in memory (spilled to a
    file), and the reader afterwards. `seen`/spill follow the code: `seen` counts only while in RAM. -/
def readLines (bnd : Bytes) (maxram : Nat) :
    Nat → Src → Bytes → Bool → Bytes → Bool → Except Err (Bytes × Bool × Src)
  | 0, _, _, _, _, _ => .error .fuel
  | fuel + 1, src, delim, prevLf, acc, spilled =>
    let (line, src1) := src.readline
    if line.isEmpty then .error .eofBody else
    match delimKind bnd line prevLf with
    | some false => .ok (acc, spilled, src1)
    | some true => .ok (acc, spilled, src1.finish)
    | none =>
      let (out, delim', prevLf') := splitTerm (delim ++ line)
      let acc' := acc ++ out
      readLines bnd maxram fuel src1 delim' prevLf' acc' (spilled || decide (acc'.length > maxram))

/-! ### Part.read_headers -/

def splitColon : Bytes → Option (Bytes × Bytes)
  | [] => none
  | b :: bs =>
    if b = 58 then some ([], bs) else
    match splitColon bs with
    | none => none
    | some (k, v) => some (b :: k, v)

def lowerB (b : UInt8) : UInt8 := if 65 ≤ b && b ≤ 90 then b + 32 else b
def lower (l : Bytes) : Bytes := l.map lowerB

/-- `existing = headers.get(k); if existing: v = ', '.join((existing, v)); headers[k] = v`
    on an association list with case-insensitive keys (first-insertion position kept, as a dict). -/
def hdrSet (hs : List (Bytes × Bytes)) (k v : Bytes) : List (Bytes × Bytes) :=
  match hs with
  | [] => [(k, v)]
  | (k', v') :: t =>
    if lower k' = lower k then (k', if v'.isEmpty then v else v' ++ [44, 32] ++ v) :: t
    else (k', v') :: hdrSet t k v

/-- one header line (already known to end in CRLF and not to be the blank line):
    continuation line or `k, v = line.split(b':', 1)`; returns the new "current key" and header list -/
def hdrStep (line : Bytes) (lastKey : Option Bytes) (hs : List (Bytes × Bytes)) :
    Except Err (Option Bytes × List (Bytes × Bytes)) :=
  match line with
  | [] => .error .eofHeaders
  | c :: _ =>
    if c = 32 || c = 9 then
      match lastKey with
      | none => .error .badContinuation
      | some k => .ok (lastKey, hdrSet hs k (strip line))
    else
      match splitColon line with
      | none => .error .noColon
      | some (k, v) => .ok (some (strip k), hdrSet hs (strip k) (strip v))

def readHeaders : Nat → Src → Option Bytes → List (Bytes × Bytes) →
    Except Err (List (Bytes × Bytes) × Src)
  | 0, _, _, _ => .error .fuel
  | fuel + 1, src, lastKey, hs =>
    let (line, src1) := src.readline
    if line.isEmpty then .error .eofHeaders else
    if line = CRLF then .ok (hs, src1) else
    if !endsWith line CRLF then .error .noCRLF else
    match hdrStep line lastKey hs with
    | .error e => .error e
    | .ok (lk, hs') => readHeaders fuel src1 lk hs'

/-! ### process_multipart -/

structure RawPart where
  headers : List (Bytes × Bytes)
  content : Bytes
  spilled : Bool
  deriving Repr, DecidableEq, Inhabited

/-- "Find the first marker": `none` = body exhausted without one (no parts at all). -/
def findFirst (bnd : Bytes) : Nat → Src → Option Src
  | 0, _ => none
  | fuel + 1, src =>
    let (line, src1) := src.readline
    if line.isEmpty then none
    else if strip line = bnd then some src1
    else findFirst bnd fuel src1

def partsLoop (bnd : Bytes) (maxram : Nat) : Nat → Src → List RawPart → Except Err (List RawPart × Src)
  | 0, _, _ => .error .fuel
  | fuel + 1, src, acc =>
    match readHeaders (src.rest.length + 2) src none [] with
    | .error e => .error e
    | .ok (hs, src1) =>
      match readLines bnd maxram (src1.rest.length + 2) src1 [] true [] false with
      | .error e => .error e
      | .ok (content, spilled, src2) =>
        let acc' := acc ++ [{ headers := hs, content := content, spilled := spilled }]
        if src2.done then .ok (acc', src2) else partsLoop bnd maxram fuel src2 acc'

/-- `process_multipart` with `ib = b'--' + boundary`; `body` = the declared request body. -/
def processMultipart (boundary : Bytes) (maxram : Nat) (body : Bytes) : Except Err (List RawPart × Src) :=
  let bnd := [DASH, DASH] ++ boundary
  match findFirst bnd (body.length + 2) { rest := body, done := false } with
  | none => .ok ([], { rest := [], done := true })
  | some src => partsLoop bnd maxram (body.length + 2) src []

/-! ### Content-Disposition / Content-Type extraction (Entity.__init__) -/

def hdrGet (hs : List (Bytes × Bytes)) (k : Bytes) : Option Bytes :=
  match hs with
  | [] => none
  | (k', v) :: t => if lower k' = lower k then some v else hdrGet t k

def countQ (l : Bytes) : Nat := (l.filter (· == 34)).length

/-- `RE_HEADER_SPLIT.split`: split at commas followed by an even number of `"` up to the end. -/
def splitCommas : Bytes → List Bytes
  | [] => [[]]
  | b :: bs =>
    if b = 44 && countQ bs % 2 = 0 then [] :: splitCommas bs
    else match splitCommas bs with
      | [] => [[b]]
      | h :: t => (b :: h) :: t

/-- number of `"` minus number of `\"` in `l` -/
def quoteBalance : Bytes → Nat → Nat → Nat × Nat
  | [], q, e => (q, e)
  | [b], q, e => (if b = 34 then q + 1 else q, e)
  | a :: b :: t, q, e =>
    quoteBalance (b :: t) (if a = 34 then q + 1 else q) (if a = 92 && b = 34 then e + 1 else e)

def unbalanced (l : Bytes) : Bool :=
  let (q, e) := quoteBalance l 0 0
  (q - e) % 2 = 1

/-- `_parse_param`: the pieces between `;` that are not inside a quoted string; `s` starts after a `;`.
    `cur` is the piece collected so far (reversed). -/
def splitParams : Nat → Bytes → Bytes → List Bytes
  | 0, _, cur => [cur.reverse]
  | _ + 1, [], cur => [cur.reverse]
  | fuel + 1, b :: bs, cur =>
    if b = 59 && !cur.isEmpty && !unbalanced cur.reverse then cur.reverse :: splitParams fuel bs []
    else if b = 59 && cur.isEmpty then
      -- `end = s.find(';')` = 0: `while end > 0` not entered, empty piece
      [] :: splitParams fuel bs []
    else splitParams fuel bs (b :: cur)

def findEq : Bytes → Option (Bytes × Bytes)
  | [] => none
  | b :: bs =>
    if b = 61 then some ([], bs) else
    match findEq bs with
    | none => none
    | some (k, v) => some (b :: k, v)

/-- `value.replace('\\\\', '\\').replace('\\"', '"')` (two passes, left to right, non-overlapping) -/
def unescape1 : Bytes → Bytes
  | [] => []
  | [a] => [a]
  | a :: b :: t => if a = 92 && b = 92 then 92 :: unescape1 t else a :: unescape1 (b :: t)

def unescape2 : Bytes → Bytes
  | [] => []
  | [a] => [a]
  | a :: b :: t => if a = 92 && b = 34 then 34 :: unescape2 t else a :: unescape2 (b :: t)

def unquote (v : Bytes) : Bytes :=
  if v.length ≥ 2 && v.head? = some 34 && v.getLast? = some 34 then
    unescape2 (unescape1 ((v.drop 1).take (v.length - 2)))
  else v

/-- `parse_header(line)` → (value, params as association list; later duplicates win) -/
def parseHeader (line : Bytes) : Bytes × List (Bytes × Bytes) :=
  match (splitParams (line.length + 1) line []).map strip with
  | [] => ([], [])
  | key :: ps =>
    (key, ps.filterMap fun p =>
      match findEq p with
      | none => none
      | some (k, v) => some (lower (strip k), unquote (strip v)))

def paramGet (ps : List (Bytes × Bytes)) (k : Bytes) : Option Bytes :=
  (ps.reverse.find? (·.1 = k)).map (·.2)

def bytesLe : Bytes → Bytes → Bool
  | [], _ => true
  | _ :: _, [] => false
  | a :: as, b :: bs => a < b || (a == b && bytesLe as bs)

/-- `headers.elements(name)[0]`: `reversed(sorted(elements))[0]` = the LAST element among those with
    the greatest value -/
def firstElement (v : Bytes) : Option (Bytes × List (Bytes × Bytes)) :=
  if v.isEmpty then none else
  (splitCommas v).foldl (fun best e =>
    let pe := parseHeader e
    match best with
    | none => some pe
    | some b => if bytesLe b.1 pe.1 then some pe else some b) none

/-- strip one pair of surrounding quotes (`Entity.__init__` does this again after parse_header) -/
def stripQuotes (v : Bytes) : Bytes :=
  if v.head? = some 34 && v.getLast? = some 34 && v.length ≥ 1 then (v.drop 1).take (v.length - 2) else v

structure Info where
  name : Option Bytes
  filename : Option Bytes
  ctype : Bytes
  deriving Repr, DecidableEq, Inhabited

def K_CT : Bytes := [67,111,110,116,101,110,116,45,84,121,112,101]   -- Content-Type
def K_CD : Bytes := [67,111,110,116,101,110,116,45,68,105,115,112,111,115,105,116,105,111,110]   -- Content-Disposition
def K_NAME : Bytes := [110,97,109,101]   -- name
def K_FILENAME : Bytes := [102,105,108,101,110,97,109,101]   -- filename
def TEXT_PLAIN : Bytes := [116,101,120,116,47,112,108,97,105,110]   -- text/plain (Part.default_content_type)

def partInfo (hs : List (Bytes × Bytes)) : Info :=
  let ct := match (hdrGet hs K_CT).bind firstElement with
    | some (v, _) => v
    | none => TEXT_PLAIN
  match (hdrGet hs K_CD).bind firstElement with
  | none => { name := none, filename := none, ctype := ct }
  | some (_, ps) =>
    { name := (paramGet ps K_NAME).map stripQuotes,
      filename := (paramGet ps K_FILENAME).map stripQuotes,
      ctype := ct }

/-! ### process_multipart_form_data / _old_process_multipart: the parameter dict -/

/-- `if name in params: (promote to list) append(value) else params[name] = value` on an
    insertion-ordered association list; a key with one value is delivered bare, with several as a list -/
def paramAdd {α : Type} (ps : List (Bytes × List α)) (k : Bytes) (v : α) : List (Bytes × List α) :=
  match ps with
  | [] => [(k, [v])]
  | (k', vs) :: t => if k' = k then (k', vs ++ [v]) :: t else (k', vs) :: paramAdd t k v

def assemble {α : Type} (named : List (Bytes × α)) : List (Bytes × List α) :=
  named.foldl (fun ps kv => paramAdd ps kv.1 kv.2) []

/-- form-data: parts with a name become parameters (wire index as the value), the others stay parts -/
def formParams (infos : List Info) : List (Bytes × List Nat) :=
  assemble ((infos.zipIdx).filterMap fun (i, idx) => i.name.map fun n => (n, idx))

end CpModel.Multipart
