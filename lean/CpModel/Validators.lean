import CpModel.Ranges
/-!
  C16 (conditional part) — transcription of

    cherrypy/lib/cptools.py   validate_since, validate_etags (incl. the autotags branch)
    cherrypy/_cperror.py      HTTPRedirect.set_response (304: entity headers stripped, body None),
                              HTTPError.set_response / clean_headers (412, 416: Content-Range kept
                              only for 416)
    cherrypy/_cprequest.py    the order handler -> before_finalize (tools.etags, priority 75) ->
                              finalize (304: no body, no Content-Length) -> HEAD body removal

  as a decision function to `pass | 304 | 412`, then `respond`, the whole request for the two
  resource kinds the property names:
    * `file`: a handler that (optionally sets its own ETag and) returns `serve_file(path)`:
      Last-Modified from the mtime, `validate_since()`, then `_serve_fileobj` (CpModel.Ranges);
    * `gen`: a handler that sets a status / ETag / Last-Modified, optionally calls
      `validate_since()`, and returns the content as its body;
  both optionally under `tools.etags` (with or without `autotags`).

  Parameters (not modelled): `md5` (the autotag text is an input), `HTTPDate(mtime)` (the
  Last-Modified text is an input), `HeaderMap.elements` + `str(HeaderElement)` (the If-Match /
  If-None-Match lists arrive already split and rendered; `elementsSimple` below transcribes the
  split for parameter-free entity tags and is compared with the real function by the harness).
-/
namespace CpModel.Validators
open CpModel.Ranges

inductive Verdict
  | pass
  | notModified        -- `raise HTTPRedirect([], 304)`
  | precondFailed      -- `raise HTTPError(412)`
  deriving DecidableEq, Repr

def is2xx (status : Nat) : Bool := 200 ≤ status && status ≤ 299

/-- Python truthiness of an optional header string -/
def truthy : Option Text → Bool
  | none => false
  | some [] => false
  | some _ => true

/-- `cptools.validate_since()`.  `getHead` is `request.method in ('GET', 'HEAD')`. -/
def validateSince (lastmod : Option Text) (status : Nat) (getHead : Bool)
    (ius ims : Option Text) : Verdict :=
  if !truthy lastmod then .pass
  else if truthy ius && ius != lastmod && (is2xx status || status == 412) then .precondFailed
  else if truthy ims && ims == lastmod && (is2xx status || status == 304) then
    (if getHead then .notModified else .precondFailed)
  else .pass

/-- the ETag `validate_etags` works with: an ETag already on the response wins; otherwise, with
    `autotags` and status exactly 200, the md5 tag of the collapsed body (`auto`). -/
def effectiveEtag (etag0 : Option Text) (autotags : Bool) (status : Nat) (auto : Text) :
    Option Text :=
  if truthy etag0 then etag0
  else if !autotags then etag0
  else if status != 200 then etag0
  else some auto

/-- `etag in conditions` (`None in [...]` is False) -/
def etagIn (etag : Option Text) (conds : List Text) : Bool :=
  match etag with
  | none => false
  | some e => conds.contains e

def star : Text := ['*']

/-- the conditional part of `cptools.validate_etags` -/
def validateEtags (etag : Option Text) (status : Nat) (getHead : Bool)
    (im inm : List Text) : Verdict :=
  if is2xx status then
    if !im.isEmpty && !(im == [star] || etagIn etag im) then .precondFailed
    else if inm == [star] || etagIn etag inm then
      (if getHead then .notModified else .precondFailed)
    else .pass
  else .pass

/-! ### `header_elements` for parameter-free elements (entity tags)

  `RE_HEADER_SPLIT` splits at every comma followed by an even number of double quotes, i.e. at
  commas outside quotes when quotes are balanced; each element is `strip()`ped by
  `parse_header`; the list is `reversed(sorted(...))` by value.  Only the split + strip is
  transcribed (membership and `== ['*']` do not depend on the order). -/

def countQuotes (s : Text) : Nat := (s.filter (· = '"')).length

def splitOutsideQuotes : Text → Text × List Text
  | [] => ([], [])
  | c :: cs =>
    let r := splitOutsideQuotes cs
    if c = ',' ∧ countQuotes cs % 2 = 0 then ([], r.1 :: r.2) else (c :: r.1, r.2)

def elementsSimple (hv : Option Text) : List Text :=
  match hv with
  | none => []
  | some [] => []
  | some s => ((splitOutsideQuotes s).1 :: (splitOutsideQuotes s).2).map strip

/-! ### the whole request -/

inductive Kind | file | gen
  deriving DecidableEq, Repr

structure Req where
  kind : Kind
  getHead : Bool            -- method in ('GET', 'HEAD')
  isHead : Bool
  proto11 : Bool            -- request.protocol >= (1, 1)
  lenKnown : Bool           -- `file`: content_length is not None (false: serve_fileobj(BytesIO))
  baseStatus : Nat          -- `gen`: what the handler sets (200 = untouched); `file`: 200
  callSince : Bool          -- `gen`: does the handler call validate_since()
  etagsOn : Bool            -- tools.etags.on
  autotags : Bool
  handlerEtag : Option Text -- ETag header set by the handler
  autoTag : Text            -- '"' + md5(entity).hexdigest() + '"'   (parameter)
  lastmod : Option Text     -- Last-Modified text (file: HTTPDate(mtime); gen: set by handler)
  im : List Text            -- If-Match elements as rendered by str(HeaderElement)
  inm : List Text
  ims : Option Text         -- If-Modified-Since / If-Unmodified-Since raw header values
  ius : Option Text
  range : Option Text
  content : Bytes

inductive Body
  | empty                   -- no message body
  | bytes (b : Bytes)       -- exactly these bytes
  | parts (ps : List Part)  -- multipart/byteranges
  | errorPage               -- an HTML error page (content not observed)
  deriving DecidableEq, Repr

structure Resp where
  status : Nat
  contentRange : Option (Option (Nat × Nat) × Nat)   -- `bytes a-b/total` or `bytes */total`
  contentLength : Option Nat                          -- `none`: absent or not observed
  etag : Option Text
  body : Body
  deriving DecidableEq, Repr

/-- what the handler phase leaves behind -/
inductive Handled
  | raised (v : Verdict)            -- validate_since raised 304 / 412
  | served (s : Served)             -- file kind
  | plain (status : Nat)            -- gen kind: body = content
  deriving DecidableEq, Repr

def handler (r : Req) : Handled :=
  match r.kind with
  | .file =>
    match validateSince r.lastmod 200 r.getHead r.ius r.ims with
    | .pass => .served (serveFileobj r.proto11 r.lenKnown r.range r.content)
    | v => .raised v
  | .gen =>
    if r.callSince then
      match validateSince r.lastmod r.baseStatus r.getHead r.ius r.ims with
      | .pass => .plain r.baseStatus
      | v => .raised v
    else .plain r.baseStatus

def noBodyStatus (s : Nat) : Bool := s < 200 || s == 204 || s == 205 || s == 304

/-- response for a 304 / 412 raised anywhere -/
def conditionalResp (v : Verdict) (etag : Option Text) : Resp :=
  match v with
  | .notModified => ⟨304, none, none, etag, .empty⟩           -- entity headers stripped, ETag stays
  | _ => ⟨412, none, none, none, .errorPage⟩                 -- clean_headers drops ETag, Content-Range

def finish (r : Req) (x : Resp) : Resp :=
  if r.isHead then { x with body := .empty } else x

/-- the ETag `tools.etags` ends up with for a response of the given status -/
def etagOf (r : Req) (status : Nat) : Option Text :=
  if r.etagsOn then effectiveEtag r.handlerEtag r.autotags status r.autoTag else r.handlerEtag

/-- before_finalize: `tools.etags` (when on) may turn the response `ok etag` into 304 / 412 -/
def etagPhase (r : Req) (status : Nat) (ok : Option Text → Resp) : Resp :=
  let etag := etagOf r status
  let v := if r.etagsOn then validateEtags etag status r.getHead r.im r.inm else .pass
  match v with
  | .pass => finish r (ok etag)
  | .notModified => finish r (conditionalResp .notModified etag)
  | .precondFailed => finish r (conditionalResp .precondFailed etag)

def servedStatus : Served → Nat
  | .whole .. => 200
  | .unsat _ => 416
  | _ => 206

/-- the response for what `_serve_fileobj` prepared -/
def servedResp (s : Served) (etag : Option Text) : Resp :=
  match s with
  | .whole _ clen body => ⟨200, none, some clen, etag, .bytes body⟩
  | .single a b total clen body => ⟨206, some (some (a, b), total), some clen, etag, .bytes body⟩
  | .multi ps => ⟨206, none, none, etag, .parts ps⟩
  -- HTTPError(416): clean_headers keeps Content-Range for 416 only; ETag dropped
  | .unsat total => ⟨416, some (none, total), none, none, .errorPage⟩

/-- the response for a handler-generated body -/
def plainResp (r : Req) (status : Nat) (etag : Option Text) : Resp :=
  if noBodyStatus status then ⟨status, none, none, etag, .empty⟩
  else ⟨status, none, some r.content.length, etag, .bytes r.content⟩

def respond (r : Req) : Resp :=
  match handler r with
  | .raised v =>
    -- tools.etags still runs (before_finalize after set_response) but only records the ETag:
    -- the status is 304 / 412, outside 2xx, and autotags needs status 200
    finish r (conditionalResp v r.handlerEtag)
  | .served (.unsat total) =>
    -- raised inside the handler: tools.etags sees status 416 and does nothing
    finish r (servedResp (.unsat total) none)
  | .served s => etagPhase r (servedStatus s) (servedResp s)
  | .plain status => etagPhase r status (plainResp r status)

end CpModel.Validators
