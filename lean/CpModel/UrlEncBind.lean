import CpModel.UrlEncReq
/-
  C03, the last step of "reach the handler": binding `request.params` to the page handler's signature.

    cherrypy/_cpdispatch.py  PageHandler.__call__           → `bindDecision`
                             test_callable_spec              → `specCheck`
                             LateParamPageHandler.kwargs     → `respond` passes `request.params` on
    CPython                  `callable(*args, **kwargs)`     → `pyCallOk`

  `PageHandler.__call__` first CALLS the handler; only when that raises TypeError it asks
  `test_callable_spec` whether the arguments fit: an HTTPError (404 / 400) from there replaces the
  TypeError; when `test_callable_spec` finds nothing to complain about (or fails itself), the TypeError is
  re-raised and the response is 500.
  Transcribed quirks: `test_callable_spec` looks at `getfullargspec(callable)[:4]` only, i.e. it does not
  know keyword-only parameters nor which parameters are positional-only; it strips the first name of
  `args` whenever `args` is non-empty (also for a plain function, which has no `self`); a `defaults`
  tuple longer than the stripped `args` makes its own loop raise IndexError.
  Repaired in /repo (172eec3): `test_callable_spec` remembers the bound first argument it strips and answers
  404 / 400 to a request parameter of that name (`?self=1` used to end in 500 on every method handler).  The
  model takes this as the flag `fix`; the driver reads it from the table probed on the live function on every
  run (`Gen.C03.specChecksBoundArg`), so a tree without the repair still compares.
  Not modelled: handlers whose body raises TypeError itself, `handler.kwargs` set by a dispatcher,
  `request.show_mismatched_params` (message text only).
-/
namespace CpModel.UrlEnc

/-- The handler's signature as `inspect` reports it. -/
structure Sig where
  /-- the parameter Python binds itself (bound method, `__call__` of an instance): name and whether it is
      positional-only; `none` for a plain function / staticmethod -/
  self? : Option (Text × Bool)
  /-- `getfullargspec(callable).args` without that one -/
  params : List Text
  /-- how many leading `params` are positional-only -/
  posOnly : Nat
  /-- `len(defaults)` -/
  defaults : Nat
  varargs : Bool
  /-- keyword-only parameters: name, has a default -/
  kwonly : List (Text × Bool)
  varkw : Bool
  deriving Repr

def idxOf? (l : List Text) (k : Text) : Option Nat :=
  match l with
  | [] => none
  | x :: rest => if x = k then some 0 else (idxOf? rest k).map (· + 1)

/-- Does one keyword argument find a place (Python's rules)? -/
def kwOk (s : Sig) (nargs : Nat) (key : Text) : Bool :=
  match idxOf? s.params key with
  | some i =>
    if i < s.posOnly then s.varkw          -- the name of a positional-only parameter is free for **kw
    else !(i < nargs)                       -- already filled positionally: "multiple values"
  | none =>
    if (s.kwonly.map (·.1)).contains key then true
    else if s.self? = some (key, false) then false   -- "got multiple values for argument 'self'"
    else s.varkw

/-- Is positional parameter number `i` filled (positionally, by keyword, or by its default)? -/
def posFilled (s : Sig) (nargs : Nat) (keys : List Text) (i : Nat) (name : Text) : Bool :=
  i < nargs || (s.posOnly ≤ i && keys.contains name) || s.params.length - s.defaults ≤ i

/-- `callable(*args, **kwargs)` binds (`true`) or raises TypeError (`false`). -/
def pyCallOk (s : Sig) (nargs : Nat) (keys : List Text) : Bool :=
  (nargs ≤ s.params.length || s.varargs) &&
  keys.all (kwOk s nargs) &&
  s.params.zipIdx.all (fun ni => posFilled s nargs keys ni.2 ni.1) &&
  s.kwonly.all (fun kd => kd.2 || keys.contains kd.1)

/-- `args` as `test_callable_spec` sees them after "Strip 'self'". -/
def specArgs (s : Sig) : List Text := ((s.self?.map (·.1)).toList ++ s.params).drop 1

/-- `bound_arg in callable_kwargs`: the name of the bound first argument is one of the request's keys. -/
def selfKeyed (s : Sig) (keys : List Text) : Bool :=
  match s.self? with
  | some sn => keys.contains sn.1
  | none => false

/-- `bound_arg in qs_params`: … and that key did not come with the body. -/
def selfKeyFromQs (s : Sig) (kwargs : List (Text × Bool)) : Bool :=
  match s.self? with
  | some sn => kwargs.any (fun kb => kb.1 = sn.1 && !kb.2)
  | none => false

/-- `test_callable_spec(callable, args, kwargs)`; `kwargs` = (key, key ∈ `request.body.params`).
    `some code` = HTTPError(code); `none` = it returns (or raises something else): the TypeError stands. -/
def specCheck (fix : Bool) (s : Sig) (nargs : Nat) (kwargs : List (Text × Bool)) : Option Nat :=
  let args := specArgs s
  let keys := kwargs.map (·.1)
  let isQs (k : Text) : Bool := kwargs.any (fun kb => kb.1 = k && !kb.2)
  if args.length < s.defaults then none                      -- IndexError in the defaults loop
  else if args.zipIdx.any (fun ni => !(ni.2 < nargs) && !keys.contains ni.1 && !(args.length - s.defaults ≤ ni.2))
  then some 404                                              -- missing_args
  else if !s.varargs && args.length < nargs then some 404    -- too many path atoms
  else if fix && selfKeyed s keys then
    -- repaired: a parameter named like the bound first argument is an unexpected parameter
    (if selfKeyFromQs s kwargs then some 404 else some 400)
  else
    let multiple := (args.zipIdx.filter (fun ni => ni.2 < nargs && keys.contains ni.1)).map (·.1)
    if !multiple.isEmpty then (if multiple.any isQs then some 404 else some 400)
    else
      let extra := keys.filter (fun k => !args.contains k)
      if !s.varkw && !extra.isEmpty then
        (if extra.any isQs then some 404
         else if extra.any (fun k => kwargs.any (fun kb => kb.1 = k && kb.2)) then some 400
         else none)
      else none

inductive Decision where
  | call
  | status (code : Nat)
  deriving DecidableEq, Repr

/-- `PageHandler.__call__`. -/
def bindDecision (fix : Bool) (s : Sig) (nargs : Nat) (kwargs : List (Text × Bool)) : Decision :=
  if pyCallOk s nargs (kwargs.map (·.1)) then .call
  else
    match specCheck fix s nargs kwargs with
    | some c => .status c
    | none => .status 500

/-- `LateParamPageHandler.kwargs`: the keyword arguments are computed when the handler is CALLED —
    `request.params.copy()` as it is then (so a `before_handler` tool that sets `request.params[k] = v`
    is seen), updated with the handler's own `kwargs` (set by a dispatcher or tool; they override).
    `late` lists both kinds of assignment in the order they take effect. -/
def lateKwargs (params : Params) (late : List (Text × Text)) : Params :=
  late.foldl (fun d kv => assign d kv.1 (.one (.str kv.2))) params

/-- The whole request with a handler of signature `s` reached with `nargs` path atoms; `late` = what tools
    assign to `request.params` / `handler.kwargs` between dispatch and the call. -/
def respond (fix : Bool) (r : ReqX) (s : Sig) (nargs : Nat) (late : List (Text × Text) := []) : Outcome :=
  match handleX r with
  | .status c => .status c
  | .handler kw0 =>
    let kw := lateKwargs kw0 late
    let bodyKeys : List Text :=
      match processBody r with
      | .params bp => bp.map (·.1)
      | _ => []
    match bindDecision fix s nargs (kw.map fun kv => (kv.1, bodyKeys.contains kv.1)) with
    | .call => .handler kw
    | .status c => .status c

end CpModel.UrlEnc
