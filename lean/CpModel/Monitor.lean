/-
  C20, part M: interleaving model of `cherrypy.process.plugins.BackgroundTask` (run / cancel /
  start) and `Monitor` (start / stop / graceful).  Core Lean only.

  Granularity: one model step = one source line of the function as it stood when the model was
  written; every such line performs at most one access to the shared variables `Monitor.thread` and
  `BackgroundTask.running`, so the model exhibits the same interleavings of shared accesses as
  bytecode granularity (CPython switches threads only between bytecodes; attribute loads and stores
  are single bytecodes).  Program-counter names carry the line offset of that time (`sp13` =
  `self.thread = None`); they are NAMES only: the tie to the real code is trace inclusion modulo
  stuttering over the observation `obs` below (real threads are driven at shared-state accesses, not
  at lines; model steps that do not change the observation are stuttering steps), so the line
  structure of the live source may differ freely.

  Two protocols (`Mode`):
  * `asIs`  – the worker arms itself: `run()` starts with `self.running = True`
              (the code before the proposed fix `C20-lost-cancel`);
  * `fixed` – the starter arms the task in `BackgroundTask.start()` before the thread exists;
              `run()` only tests the flag.

  What is modelled: any number of workers (one per `Monitor.start` that found `thread is None`),
  one controller thread issuing an arbitrary finite sequence of `start/stop/graceful` calls (calls
  do not overlap each other; they interleave freely with all workers), `frequency > 0` or not,
  daemon or non-daemon workers (`join` blocks the controller until the worker has left `run`).
  Ghost fields (`calls`, `after`, `stopRet`, `lastRet`, `nret`) record what the property talks about.
  A callback that raises is modelled (`Tid.wx`: the worker dies with `running` and `Monitor.thread` still
  set).  Not modelled: overlapping controller calls, `Monitor.stop` called from the worker itself, `bus.log` output.
-/
namespace CpModel.Monitor

inductive Mode where
  | asIs | fixed
  deriving DecidableEq, Repr, Inhabited

/-- Program counter of a worker (`BackgroundTask.run`).  `created`: object exists, thread not
    started; `held`: thread started, before its first instruction. -/
inductive WPc where
  | created | held | arm | loop | slp | chk | ret | try_ | call | done
  deriving DecidableEq, Repr, Inhabited

structure Worker where
  pc : WPc := .created
  running : Bool := false
  /-- ghost: number of callback invocations so far -/
  calls : Nat := 0
  /-- ghost: a `stop()` that cancelled this worker has returned -/
  stopRet : Bool := false
  /-- ghost: callback invocations begun after that `stop()` returned -/
  after : Nat := 0
  /-- the callback raised: `run()` logged, re-raised and the thread died (with `running` still set) -/
  crashed : Bool := false
  deriving DecidableEq, Repr, Inhabited

inductive Call where
  | start | stop | graceful
  deriving DecidableEq, Repr, Inhabited

/-- Program counter of the controller: `stN` = `Monitor.start`+N, `spN` = `Monitor.stop`+N,
    `grN` = `Monitor.graceful`+N, `cn2` = `BackgroundTask.cancel`+2, `bsN` = `BackgroundTask.start`+N
    (fixed protocol only).  `sp11w` = blocked inside `join()`.  `crashed` = AttributeError on
    `None` (unreachable with one controller; kept so that nothing is totalised away). -/
inductive CPc where
  | st2 | st3 | st4 | st5a | st6 | st5b | st7 | st8 | bs7 | bs8 | st9 | st11
  | sp2 | sp3a | sp4 | sp3b | sp6 | sp7 | sp8 | cn2 | sp9 | sp10 | sp11 | sp11w | sp12 | sp13
  | gr2 | gr3
  | done | crashed
  deriving DecidableEq, Repr, Inhabited

/-- Which half of `graceful()` the current `stop()`/`start()` frame belongs to. -/
inductive GPhase where
  | none | inStop | inStart
  deriving DecidableEq, Repr, Inhabited

structure Params where
  mode : Mode
  /-- `frequency > 0` -/
  freqPos : Bool := true
  /-- `BackgroundTask.daemon` (True unless somebody changes it before `start`) -/
  daemon : Bool := true
  deriving DecidableEq, Repr, Inhabited

/-- The registers of a controller thread (used for the SECOND controller; the first one's live
    directly in `Cfg`, so that the single-controller proofs read as before). -/
structure Ctl where
  cpc : CPc := .done
  g : GPhase := .none
  todo : List Call := []
  tgt : Nat := 0
  cur : Option Call := none
  lastRet : Option Call := none
  nret : Nat := 0
  cancelled : Option Nat := none
  deriving DecidableEq, Repr, Inhabited

structure Cfg where
  /-- `Monitor.thread`: index of the worker object, or `None` -/
  thread : Option Nat := none
  /-- worker objects by creation index; only indices `< nw` exist -/
  ws : Nat → Worker := fun _ => {}
  nw : Nat := 0
  cpc : CPc := .done
  g : GPhase := .none
  /-- remaining top-level calls of the controller -/
  todo : List Call := []
  /-- controller local: the task object `self.thread` evaluated to at `sp8` / `st8` -/
  tgt : Nat := 0
  /-- ghost: the top-level call in progress / the last one that returned / how many returned -/
  cur : Option Call := none
  lastRet : Option Call := none
  nret : Nat := 0
  /-- ghost: the worker cancelled by the `stop()` frame in progress -/
  cancelled : Option Nat := none
  /-- a second controller thread whose calls OVERLAP those of the first (outside the property's
      quantifier; idle unless `init2` gives it calls) -/
  c2 : Ctl := {}

instance : Inhabited Cfg := ⟨{}⟩

def setW (c : Cfg) (i : Nat) (w : Worker) : Cfg :=
  { c with ws := fun j => if j = i then w else c.ws j }

/-- Enter the next top-level call (or finish). -/
def enter (c : Cfg) : Cfg :=
  match c.todo with
  | [] => { c with cpc := .done, cur := none, g := .none }
  | .start :: r => { c with cpc := .st2, cur := some .start, todo := r, g := .none }
  | .stop :: r => { c with cpc := .sp2, cur := some .stop, todo := r, g := .none }
  | .graceful :: r => { c with cpc := .gr2, cur := some .graceful, todo := r, g := .none }

def init (calls : List Call) : Cfg := enter { todo := calls }

/-- The top-level call in progress returns. -/
def retTop (c : Cfg) : Cfg :=
  enter { c with lastRet := c.cur, nret := c.nret + 1 }

/-- `Monitor.start` returns to its caller. -/
def retStart (c : Cfg) : Cfg :=
  match c.g with
  | .inStart => retTop c         -- `graceful` has no line after `self.start()`
  | _ => retTop c

/-- `Monitor.stop` returns to its caller; the ghost `stopRet` of the worker it cancelled is set. -/
def retStop (c : Cfg) : Cfg :=
  let c := match c.cancelled with
    | some k => { setW c k { c.ws k with stopRet := true } with cancelled := none }
    | none => c
  match c.g with
  | .inStop => { c with cpc := .gr3 }
  | _ => retTop c

/-- One step (= one source line) of the controller. -/
def stepCtl (p : Params) (c : Cfg) : Cfg :=
  match c.cpc with
  -- Monitor.start
  | .st2 => if p.freqPos then { c with cpc := .st3 } else retStart c
  | .st3 => { c with cpc := .st4 }
  | .st4 =>
    match c.thread with
    | none => { c with cpc := .st5a }
    | some _ => { c with cpc := .st11 }
  | .st5a => { c with cpc := .st6 }
  | .st6 => { c with cpc := .st5b }
  | .st5b =>                       -- self.thread = BackgroundTask(...)
    { setW c c.nw {} with thread := some c.nw, nw := c.nw + 1, cpc := .st7 }
  | .st7 =>                        -- self.thread.name = threadname
    match c.thread with
    | some _ => { c with cpc := .st8 }
    | none => { c with cpc := .crashed }
  | .st8 =>                        -- self.thread.start()
    match c.thread with
    | none => { c with cpc := .crashed }
    | some k =>
      match p.mode with
      | .asIs =>
        -- `Thread.start()` of a thread that was started already raises RuntimeError (only reachable
        -- when a second controller overlaps)
        if (c.ws k).pc = .created then { setW c k { c.ws k with pc := .held } with cpc := .st9, tgt := k }
        else { c with cpc := .crashed }
      | .fixed => { c with cpc := .bs7, tgt := k }
  | .bs7 =>                        -- (fixed) self.running = True, in the starter thread
    { setW c c.tgt { c.ws c.tgt with running := true } with cpc := .bs8 }
  | .bs8 =>                        -- (fixed) super().start(); RuntimeError if started already
    if (c.ws c.tgt).pc = .created then { setW c c.tgt { c.ws c.tgt with pc := .held } with cpc := .st9 }
    else { c with cpc := .crashed }
  | .st9 => retStart c
  | .st11 => retStart c
  -- Monitor.stop
  | .sp2 =>
    match c.thread with
    | none => { c with cpc := .sp3a }
    | some _ => { c with cpc := .sp6 }
  | .sp3a => { c with cpc := .sp4 }
  | .sp4 => { c with cpc := .sp3b }
  | .sp3b => retStop c
  | .sp6 => { c with cpc := .sp7 }       -- the controller is never the worker thread itself
  | .sp7 =>
    match c.thread with
    | some _ => { c with cpc := .sp8 }
    | none => { c with cpc := .crashed }
  | .sp8 =>                        -- self.thread.cancel(): evaluates self.thread, enters cancel
    match c.thread with
    | some k => { c with cpc := .cn2, tgt := k }
    | none => { c with cpc := .crashed }
  | .cn2 =>                        -- self.running = False
    { setW c c.tgt { c.ws c.tgt with running := false } with cpc := .sp9, cancelled := some c.tgt }
  | .sp9 =>                        -- if not self.thread.daemon
    match c.thread with
    | some _ => if p.daemon then { c with cpc := .sp12 } else { c with cpc := .sp10 }
    | none => { c with cpc := .crashed }
  | .sp10 => { c with cpc := .sp11 }
  | .sp11 =>                       -- self.thread.join()
    match c.thread with
    | some k => if (c.ws k).pc = .done then { c with cpc := .sp12 } else { c with cpc := .sp11w, tgt := k }
    | none => { c with cpc := .crashed }
  | .sp11w => { c with cpc := .sp12 }    -- enabled only once the joined worker is done
  | .sp12 => { c with cpc := .sp13 }
  | .sp13 => retStop { c with thread := none }
  -- Monitor.graceful
  | .gr2 => { c with cpc := .sp2, g := .inStop }
  | .gr3 => { c with cpc := .st2, g := .inStart }
  | .done => c
  | .crashed => c

/-- One step (= one source line) of worker `i`.  `boom`: if this step is the callback invocation,
    the callback raises (`except Exception: log; raise` — the thread dies, nobody clears `running`
    or `Monitor.thread`). -/
def stepW (p : Params) (c : Cfg) (i : Nat) (boom : Bool := false) : Cfg :=
  let w := c.ws i
  match w.pc with
  | .created => c
  | .held => setW c i { w with pc := match p.mode with | .asIs => .arm | .fixed => .loop }
  | .arm => setW c i { w with running := true, pc := .loop }
  | .loop => setW c i { w with pc := if w.running then .slp else .done }
  | .slp => setW c i { w with pc := .chk }
  | .chk => setW c i { w with pc := if w.running then .try_ else .ret }
  | .ret => setW c i { w with pc := .done }
  | .try_ => setW c i { w with pc := .call }
  | .call => setW c i { w with pc := if boom then .done else .loop, calls := w.calls + 1,
                               after := if w.stopRet then w.after + 1 else w.after,
                               crashed := boom }
  | .done => c

/-- exchange the registers of the two controllers -/
def swap (c : Cfg) : Cfg :=
  { c with cpc := c.c2.cpc, g := c.c2.g, todo := c.c2.todo, tgt := c.c2.tgt, cur := c.c2.cur,
           lastRet := c.c2.lastRet, nret := c.c2.nret, cancelled := c.c2.cancelled,
           c2 := { cpc := c.cpc, g := c.g, todo := c.todo, tgt := c.tgt, cur := c.cur,
                   lastRet := c.lastRet, nret := c.nret, cancelled := c.cancelled } }

/-- one step (= one source line) of the second controller: the same code, its own registers -/
def stepCtl2 (p : Params) (c : Cfg) : Cfg := swap (stepCtl p (swap c))

/-- both controllers start their first call -/
def init2 (calls calls2 : List Call) : Cfg :=
  swap (enter { swap (init calls) with todo := calls2 })

inductive Tid where
  | ctl
  /-- the second controller (overlapping calls) -/
  | ctl2
  | w (i : Nat)
  /-- a turn of worker `i` in which the callback, if it is invoked, raises -/
  | wx (i : Nat)
  deriving DecidableEq, Repr, Inhabited

/-- Is the thread schedulable (exists, not finished, not blocked)? -/
def enabled (c : Cfg) : Tid → Bool
  | .ctl =>
    match c.cpc with
    | .done => false
    | .crashed => false
    | .sp11w => (c.ws c.tgt).pc = .done
    | _ => true
  | .ctl2 =>
    match c.c2.cpc with
    | .done => false
    | .crashed => false
    | .sp11w => (c.ws c.c2.tgt).pc = .done
    | _ => true
  | .w i => i < c.nw && (c.ws i).pc ≠ .created && (c.ws i).pc ≠ .done
  | .wx i => i < c.nw && (c.ws i).pc ≠ .created && (c.ws i).pc ≠ .done

/-- A scheduling choice of a thread that is not enabled is a no-op. -/
def step (p : Params) (c : Cfg) (t : Tid) : Cfg :=
  if enabled c t then
    match t with
    | .ctl => stepCtl p c
    | .ctl2 => stepCtl2 p c
    | .w i => stepW p c i
    | .wx i => stepW p c i true
  else c

def run (p : Params) (c : Cfg) : List Tid → Cfg
  | [] => c
  | t :: ts => run p (step p c t) ts

/-- The worker still invokes the callback an unbounded number of times if left alone. -/
def active (p : Params) (w : Worker) : Bool :=
  w.running || (p.mode = .asIs && (w.pc = .held || w.pc = .arm))

/-- A cancel executed before the worker armed itself (the lost-cancel window, `asIs` only). -/
def earlyCancel (c : Cfg) (t : Tid) : Bool :=
  t = .ctl && c.cpc = .cn2 && ((c.ws c.tgt).pc = .held || (c.ws c.tgt).pc = .arm)

/-! ### observation of the shared state (trace inclusion, see `CpModel/C20Admit.lean`)

  What another thread (or the property's oracle) can see, free of program counters and line
  numbers: `Monitor.thread` (which worker object, by creation index), the number of controller calls
  that have returned, whether the controller died, and per worker object: thread started / `running`
  flag / `run()` left / number of callback invocations. -/

def b01 (b : Bool) : String := if b then "1" else "0"

structure ObsW where
  started : Bool
  running : Bool
  done : Bool
  crashed : Bool
  calls : Nat
  deriving DecidableEq, Repr, Inhabited

structure Obs where
  thread : Option Nat
  nret : Nat
  crashed : Bool
  ws : List ObsW
  /-- the second controller: calls returned, died -/
  nret2 : Nat
  crashed2 : Bool
  deriving DecidableEq, Repr, Inhabited

def obsW (w : Worker) : ObsW :=
  { started := w.pc != .created, running := w.running, done := w.pc == .done, crashed := w.crashed,
    calls := w.calls }

def obs (c : Cfg) : Obs :=
  { thread := c.thread, nret := c.nret, crashed := c.cpc == .crashed,
    ws := (List.range c.nw).map fun i => obsW (c.ws i),
    nret2 := c.c2.nret, crashed2 := c.c2.cpc == .crashed }

def ObsW.render (w : ObsW) : String := s!"{b01 w.started}{b01 w.running}{b01 w.done}{b01 w.crashed}:{w.calls}"

/-- the text form the harness prints for the real objects -/
def Obs.render (o : Obs) : String :=
  let t := match o.thread with
    | none => "N"
    | some k => toString k
  s!"T={t};R={o.nret};X={b01 o.crashed};W={"/".intercalate (o.ws.map ObsW.render)};R2={o.nret2};X2={b01 o.crashed2}"

def obsStr (c : Cfg) : String := (obs c).render

def WPc.code : WPc → Nat
  | .created => 0 | .held => 1 | .arm => 2 | .loop => 3 | .slp => 4 | .chk => 5 | .ret => 6
  | .try_ => 7 | .call => 8 | .done => 9

def CPc.code : CPc → Nat
  | .st2 => 0 | .st3 => 1 | .st4 => 2 | .st5a => 3 | .st6 => 4 | .st5b => 5 | .st7 => 6 | .st8 => 7
  | .bs7 => 8 | .bs8 => 9 | .st9 => 10 | .st11 => 11 | .sp2 => 12 | .sp3a => 13 | .sp4 => 14
  | .sp3b => 15 | .sp6 => 16 | .sp7 => 17 | .sp8 => 18 | .cn2 => 19 | .sp9 => 20 | .sp10 => 21
  | .sp11 => 22 | .sp11w => 23 | .sp12 => 24 | .sp13 => 25 | .gr2 => 26 | .gr3 => 27 | .done => 28
  | .crashed => 29

def Call.code : Call → Nat
  | .start => 0 | .stop => 1 | .graceful => 2

def GPhase.code : GPhase → Nat
  | .none => 0 | .inStop => 1 | .inStart => 2

def optCode (f : α → Nat) : Option α → Nat
  | none => 0
  | some a => f a + 1

/-- identifies a configuration up to the fields the step function reads (duplicate removal in the
    subset construction; completeness only, soundness does not depend on it) -/
def keyStr (c : Cfg) : String :=
  let ws := (List.range c.nw).foldl (fun acc i =>
    let w := c.ws i
    acc ++ s!"{w.pc.code}.{b01 w.running}{b01 w.stopRet}{b01 w.crashed}{w.calls}.{w.after},") ""
  s!"{optCode id c.thread}|{ws}|{c.cpc.code}|{c.g.code}|{c.todo.length}|{c.tgt}|{optCode Call.code c.cur}|{optCode Call.code c.lastRet}|{c.nret}|{optCode id c.cancelled}|{c.c2.cpc.code}.{c.c2.g.code}.{c.c2.todo.length}.{c.c2.tgt}.{optCode Call.code c.c2.cur}.{optCode Call.code c.c2.lastRet}.{c.c2.nret}.{optCode id c.c2.cancelled}"

end CpModel.Monitor
