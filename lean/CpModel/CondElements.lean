import CpModel.Validators
/-!
  C16 — `HeaderMap.elements('If-Match' / 'If-None-Match')` in full, as `validate_etags` consumes it:

    cherrypy/lib/httputil.py                 header_elements, HeaderElement.from_str / parse / __str__ / __lt__
    cherrypy/_private_api/compat/headers.py  parse_header, _parse_param

      if not fieldvalue: return []
      for element in RE_HEADER_SPLIT.split(fieldvalue):         # commas followed by an even number of quotes
          hv = HeaderElement.from_str(element)                   # parse_header(element) -> (value, params)
      return list(reversed(sorted(result)))                      # sorted by `value` (`__lt__`), stable
      conditions = [str(x) for x in ...]                         # value + ''.join(';%s=%s' % (k, v))

  `_parse_param(';' + line)`: while the rest starts with ';', drop it, find the next ';' that is not
  inside quotes (`end > 0 and (count('"', 0, end) - count('\\"', 0, end)) % 2` -> look further), yield
  the stripped piece.  `parse_header`: the first piece is the value; every other piece with an '=' is a
  parameter `name.strip().lower() = value.strip()`, the value unquoted (`"…"` removed, `\\\\` -> `\\`,
  `\\"` -> `"`) ; a dict: a repeated name keeps its first position and takes the last value.

  Quirks transcribed: `end > 0` (a piece that starts with ';' is empty, the scan does not look inside
  quotes for it), the quote count is taken over the *whole* rest up to `end` (not only the current
  piece), pieces without '=' are dropped, `str()` re-joins the parameters without re-quoting.

  Not modelled: `str.lower()` beyond ASCII (parameter *names* with cased non-ASCII letters are outside
  the model; the generator does not produce them; stated as an assumption).
-/
namespace CpModel.CondElements
open CpModel.Ranges CpModel.Validators

/-- `s.find(c, start)`: index of the first `c` at a position ≥ `start`, `none` = -1 -/
def findFrom (c : Char) : Text → Nat → Option Nat
  | [], _ => none
  | x :: xs, 0 => if x = c then some 0 else (findFrom c xs 0).map (· + 1)
  | _ :: xs, k + 1 => (findFrom c xs k).map (· + 1)

/-- `s.count('\\"', 0, end)` for `s` already cut to `end` characters: occurrences of backslash-quote
    (they cannot overlap) -/
def countBQ : Text → Nat
  | [] => 0
  | [_] => 0
  | a :: b :: rest => if a = '\\' ∧ b = '"' then 1 + countBQ rest else countBQ (b :: rest)

/-- is position `e` of `s` inside quotes, the way `_parse_param` counts? -/
def insideQuotes (s : Text) (e : Nat) : Bool :=
  (countQuotes (s.take e) - countBQ (s.take e)) % 2 == 1

/-- the inner `while end > 0 and …: end = s.find(';', end + 1)`; `none` = -1 -/
def adjustEnd (s : Text) : Nat → Option Nat → Option Nat
  | 0, e => e
  | _ + 1, none => none
  | fuel + 1, some e =>
    if e > 0 && insideQuotes s e then adjustEnd s fuel (findFrom ';' s (e + 1)) else some e

/-- `_parse_param(s)`: the stripped pieces -/
def parseParam : Nat → Text → List Text
  | 0, _ => []
  | fuel + 1, s =>
    match s with
    | ';' :: s' =>
      let e := (adjustEnd s' (s'.length + 1) (findFrom ';' s' 0)).getD s'.length
      strip (s'.take e) :: parseParam fuel (s'.drop e)
    | _ => []

/-- ASCII `lower()` (see the header: non-ASCII cased letters are outside the model) -/
def lowerAscii (c : Char) : Char :=
  if 65 ≤ c.toNat ∧ c.toNat ≤ 90 then Char.ofNat (c.toNat + 32) else c

/-- `s.replace(a ++ b, [r])` for a two-character pattern -/
def replace2 (a b r : Char) : Text → Text
  | [] => []
  | [x] => [x]
  | x :: y :: rest => if x = a ∧ y = b then r :: replace2 a b r rest else x :: replace2 a b r (y :: rest)

/-- the unquoting of a parameter value -/
def unquote (v : Text) : Text :=
  if v.length ≥ 2 ∧ v.head? = some '"' ∧ v.getLast? = some '"' then
    replace2 '\\' '"' '"' (replace2 '\\' '\\' '\\' ((v.drop 1).take (v.length - 2)))
  else v

/-- `pdict[name] = value` on an insertion-ordered dict -/
def dictSet : List (Text × Text) → Text → Text → List (Text × Text)
  | [], k, v => [(k, v)]
  | (k', v') :: rest, k, v => if k' = k then (k', v) :: rest else (k', v') :: dictSet rest k v

structure Elem where
  value : Text
  params : List (Text × Text)
  deriving DecidableEq, Repr

/-- the `for p in parts` loop of `parse_header` -/
def addParam (d : List (Text × Text)) (p : Text) : List (Text × Text) :=
  match split1 '=' p with
  | none => d
  | some (n, v) => dictSet d ((strip n).map lowerAscii) (unquote (strip v))

/-- `HeaderElement.from_str(element)` -/
def parseElement (e : Text) : Elem :=
  match parseParam (e.length + 2) (';' :: e) with
  | [] => ⟨[], []⟩                       -- not reached: the text starts with ';'
  | key :: ps => ⟨key, ps.foldl addParam []⟩

/-- `str(HeaderElement)` -/
def render (e : Elem) : Text :=
  e.value ++ (e.params.flatMap fun (k, v) => ';' :: k ++ '=' :: v)

/-- Python `str.__lt__`: lexicographic by code point -/
def ltText : Text → Text → Bool
  | [], [] => false
  | [], _ :: _ => true
  | _ :: _, [] => false
  | a :: as, b :: bs =>
    if a.toNat < b.toNat then true else if b.toNat < a.toNat then false else ltText as bs

/-- stable insertion: `x` goes behind everything that is not greater than it -/
def insertSorted (x : Elem) : List Elem → List Elem
  | [] => [x]
  | y :: ys => if ltText x.value y.value then x :: y :: ys else y :: insertSorted x ys

/-- `sorted(result)` (stable, by `value`) -/
def sortStable (l : List Elem) : List Elem := l.foldl (fun acc x => insertSorted x acc) []

/-- the elements of a header value in header order -/
def parsed (s : Text) : List Elem :=
  ((splitOutsideQuotes s).1 :: (splitOutsideQuotes s).2).map parseElement

/-- `[str(x) for x in request.headers.elements(name)]` -/
def elementsFull (hv : Option Text) : List Text :=
  match hv with
  | none => []
  | some [] => []
  | some s => ((sortStable (parsed s)).reverse).map render

end CpModel.CondElements
