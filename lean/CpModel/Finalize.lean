import CpModel.Gen.C06Tables
/-!
  C06 — response framing.  Transcription of

    cherrypy/_cprequest.py   Response.__init__ / collapse_body / _flush_body / finalize,
                             ResponseBody.__set__, Request.respond / _do_respond / handle_error,
                             the HEAD body removal in Request.run
    cherrypy/_cperror.py     clean_headers, HTTPError.set_response (+ get_error_page's Content-Type),
                             _be_ie_unfriendly, HTTPRedirect.set_response, bare_error
    cherrypy/lib/encoding.py prepare_iter, ResponseEncoder.__call__ / find_acceptable_charset /
                             encode_string / encode_stream, gzip, compress
    cherrypy/lib/cptools.py  validate_etags (autotags), flatten
    cherrypy/lib/caching.py  get (hit / miss / POST invalidation), tee_output, expires
    cherrypy/lib/static.py   serve_file -> _serve_fileobj (whole / one range / multipart / 416)
    cherrypy/lib/jsontools.py json_out (handler whose value is the iterencode chunk generator)
    cherrypy/_cpwsgi.py      body iteration at the WSGI boundary, ExceptionTrapper's bare 500

  as steps `Resp -> Resp × Option Exn` composed in hook-priority order
  (before_handler: json_out 30, encode 70, caching 90; before_finalize: expires 50, flatten 50,
  etags 75, gzip 80, tee_output 100) with the exact try/except nesting of `respond`.

  What the model keeps: the response status, the header *dict* (a finite map over the header names
  the anchored code touches; values: number | None | content-type | entity tag | opaque), the body as
  a list of chunk producers (bytes | str | nested iterator | raise) inside a container that is a
  `list` (falsy when empty) or a one-shot iterator (always truthy), the `stream` flag, the
  "validate_etags already ran" guard, the tee wrapper, the process-wide cache.
  Finite tables come from the live code (`Gen.C06`): the statuses for which `finalize` strips the
  body, the legal statuses, `_ie_friendly_error_sizes`, the HTTPRedirect status classes.

  Parameters (not modelled, contracts only): `z` = zlib/gzip framing of a byte string (any function);
  md5 = injective on the bodies of one case (entity tag = the collapsed body); the text of error /
  redirect pages and of the multipart boundary (`Pages`); `get_ranges` (its result is an input —
  C16 owns it); charset codecs other than UTF-8 / Latin-1 / ASCII; Accept-Charset negotiation is
  reduced to the ordered list of charsets `find_acceptable_charset` tries (C17 owns it).
  Not modelled: cookies, `Age`/`Date` values, logging, sizes above `maxobj_size`.

  Round 2 additions: nested iterators of any depth (a nested chunk carries its leaves in iteration
  order — bytes, str or a raising producer; `flatten` is recursive, so depth is not observable), the
  stages before the page handler (`tools.accept` 406, `tools.json_in` 400 / 411 / 415 while the request
  body is processed, `tools.response_headers` setting Content-Length, `tools.json_out` at priority 30,
  `tools.staticfile` / `tools.staticdir` at 50 — the page handler and the encode wrapper are skipped —,
  `tools.trailing_slash` 301 at 60), `validate_since` inside `serve_file` (If-Modified-Since -> 304 /
  412), HTTP/1.0 requests (no ranges, default redirect status 302), `tools.sessions` (`sessions.save`,
  failsafe, collapses an iterator body), `tools.autovary`, failsafe hooks in `HookMap.run`,
  XML-RPC responses (`xmlrpcutil._set_response` for results and faults), a custom `request.error_response`.
  Two behaviours are read from the live code into `Gen.C06` flags so that the model follows a repair:
  `encodeStreamKeepsCL` (finding C06-F1) and `xmlrpcCountsChars` (finding C06-F2); a third flag,
  `nextRefusesNonBytes`, says whether `AppResponse.__next__` answers a non-bytes body item with a TypeError
  (then the exception trapper treats it like a failing producer: bare 500 before the first byte, abort after).
-/
namespace CpModel.Finalize

abbrev Bytes := List UInt8

/-! ### bodies -/

/-- what a nested iterator (of any depth) yields, in iteration order -/
inductive Leaf where
  | bytes (b : Bytes)
  | text (t : List Char)
  | raise
  deriving DecidableEq, Repr

inductive Chunk where
  | bytes (b : Bytes)
  | text (t : List Char)          -- a `str` chunk
  | nested (ls : List Leaf)       -- an iterator chunk (what tools.flatten is for): its leaves
  | raise                         -- the producer raises here
  deriving DecidableEq, Repr

def Leaf.toChunk : Leaf → Chunk
  | .bytes b => .bytes b
  | .text t => .text t
  | .raise => .raise

inductive Kind where
  | list | iter
  deriving DecidableEq, Repr

structure Body where
  kind : Kind
  chunks : List Chunk
  deriving DecidableEq, Repr

/-- `bool(body)` -/
def Body.truthy (b : Body) : Bool := b.kind == .iter || !b.chunks.isEmpty

def allBytes : List Chunk → Bool
  | [] => true
  | .bytes _ :: cs => allBytes cs
  | _ :: _ => false

def hasRaise : List Chunk → Bool
  | [] => false
  | .raise :: _ => true
  | _ :: cs => hasRaise cs

/-- concatenation of the byte chunks (meaningful when `allBytes`) -/
def concat : List Chunk → Bytes
  | [] => []
  | .bytes b :: cs => b ++ concat cs
  | _ :: cs => concat cs

/-- `b''.join(body)`: the iterable is exhausted first (a raising producer propagates), then any
    non-bytes item is a TypeError.  `none` = an exception. -/
def join (cs : List Chunk) : Option Bytes := if allBytes cs then some (concat cs) else none

/-- no chunk for an empty byte string, else one -/
def oneChunk (b : Bytes) : List Chunk := if b.isEmpty then [] else [.bytes b]

/-- `response.body = <bytes>` through ResponseBody.__set__ / prepare_iter: `[]` when empty -/
def bytesBody (b : Bytes) : Body := ⟨.list, oneChunk b⟩

/-- what iterating the body delivers at the WSGI boundary:
    (bytes delivered, how it ended) -/
inductive End where
  | clean | nonBytes | raised
  deriving DecidableEq, Repr

def deliver : List Chunk → Bytes × End
  | [] => ([], .clean)
  | .bytes b :: cs => let (d, e) := deliver cs; (b ++ d, e)
  | .text _ :: _ => ([], .nonBytes)
  | .nested _ :: _ => ([], .nonBytes)
  | .raise :: _ => ([], .raised)

/-- how the end of the iteration reaches the server: `AppResponse.__next__` turns a non-bytes item into a
    TypeError (flag read from the live code), i.e. into a failure of the body iterator -/
def endOf (e : End) : End :=
  if Gen.C06.nextRefusesNonBytes && e == .nonBytes then .raised else e

/-! ### headers -/

inductive HKey where
  | contentLength | contentType | contentEncoding | etag | vary | expires | pragma | cacheControl
  | lastModified | age | acceptRanges | contentRange | location | allow | contentLanguage
  | contentLocation | contentMD5 | retryAfter
  deriving DecidableEq, Repr

inductive Charset where
  | utf8 | latin1 | ascii
  deriving DecidableEq, Repr

inductive CtBase where
  | textHtml | textPlain | appJson | octet | multipart | textXml
  deriving DecidableEq, Repr

/-- `ct.value.lower().startswith('text/')` -/
def CtBase.isText : CtBase → Bool
  | .textHtml | .textPlain | .textXml => true
  | _ => false

inductive HVal where
  | nat (n : Nat)                               -- an int or its decimal text
  | pyNone                                      -- the header is present with value None
  | ctype (b : CtBase) (cs : Option Charset)
  | tag (b : Bytes)                             -- '"md5(body)"'
  | other
  deriving DecidableEq, Repr

/-- the header dict -/
abbrev Hdrs := HKey → Option HVal

def Hdrs.set (h : Hdrs) (k : HKey) (v : HVal) : Hdrs := fun k' => if k' = k then some v else h k'
def Hdrs.del (h : Hdrs) (k : HKey) : Hdrs := fun k' => if k' = k then none else h k'
def Hdrs.delAll (h : Hdrs) (ks : List HKey) : Hdrs := fun k' => if k' ∈ ks then none else h k'
def Hdrs.has (h : Hdrs) (k : HKey) : Bool := (h k).isSome

/-! ### responses, requests, exceptions -/

/-- ghost: where the current body text came from (only used to tell the harness which byte counts
    the model knows exactly) -/
inductive Src where
  | handler | tmplPage | customPage | redirPage | multipart | bare | none
  deriving DecidableEq, Repr

structure Resp where
  status : Option Nat := none      -- `response.status`; `none` = unset; illegal = not in legalCodes
  hdrs : Hdrs := fun k => if k = .contentType then some (.ctype .textHtml none) else none
  body : Body := ⟨.list, []⟩
  stream : Bool := false
  etagDone : Bool := false         -- hasattr(response, 'ETag')
  tee : Bool := false              -- body wrapped by caching.tee_output
  src : Src := .none
  gz : Bool := false               -- ghost: body went through compress
  fired : Bool := false            -- the probe hook already acted in this request
  sessSaved : Bool := false        -- hasattr(request, '_sessionsaved')
  sessInit : Bool := true          -- hasattr(cherrypy.serving, 'session'): sessions.init (before_request_body) ran

inductive Exn where
  | httpError (code : Nat)
  | redirect (code : Nat)
  | exc                             -- any other Exception
  deriving DecidableEq, Repr

inductive Method where
  | get | head | post
  deriving DecidableEq, Repr

inductive AEnc where
  | absent | gzip | identity | gzipq0 | other | idq0     -- other: e.g. `compress`; idq0: `identity;q=0` / `*;q=0`
  deriving DecidableEq, Repr

inductive Cond where
  | absent | star | matching | other
  deriving DecidableEq, Repr

/-- the text of generated pages: parameters -/
structure Pages where
  tmpl : Nat → Bytes          -- default error template for a status
  custom : Option Body        -- `error_page.default` callable: bytes/str (a list body) or an iterator
                              -- (wrapped in UTF8StreamEncoder: the chunks are the encoded ones)
  redir : Nat → Bytes         -- redirect note
  partHead : Nat → Nat → Bytes  -- multipart part header for a range
  partTail : Bytes            -- closing boundary
  bare : Bytes
  z : Bytes → Bytes           -- gzip framing
  zHead : Bytes               -- the 10 header bytes compress yields first

/-- what the request says about caches: one `Cache-Control` directive or `Pragma: no-cache` -/
inductive CC where
  | none | maxAge (n : Nat) | noCache | pragma | noStore | badMaxAge
  deriving DecidableEq, Repr

/-- the request entity, as far as `tools.json_in` cares -/
inductive Entity where
  | none          -- what the other requests carry: an empty urlencoded form
  | jsonOk        -- application/json, well-formed
  | jsonBad       -- application/json, not a JSON document
  | noLength      -- application/json without Content-Length
  deriving DecidableEq, Repr

structure Req where
  method : Method := .get
  ae : AEnc := .absent
  inm : Cond := .absent
  im : Cond := .absent
  charsets : List Charset := [.utf8]   -- what find_acceptable_charset tries, in order
  dfltOnly : Bool := true              -- no Accept-Charset header: a failure is a 500, not a 406
  ranges : Option (List (Nat × Nat)) := none   -- get_ranges(Range, size) for a static body
  cc : CC := .none
  now : Nat := 0                       -- logical clock: `response.time` of this request (seconds)
  http10 : Bool := false               -- request.protocol < (1, 1)
  ims : Bool := false                  -- If-Modified-Since equals the static file's Last-Modified
  acceptOk : Bool := true              -- the Accept header admits the media type of tools.accept
  noSlash : Bool := false              -- the path names an index resource without its trailing slash
  entity : Entity := .none             -- the request entity as tools.json_in sees it (POST only)

def Req.safe (r : Req) : Bool := r.method != .post    -- method in ('GET', 'HEAD')

abbrev Out := Resp × Option Exn

/-! ### status tables (from the live code) -/

def legal (c : Nat) : Bool := Gen.C06.legalCodes.contains c
def noBody (c : Nat) : Bool := Gen.C06.noBodyCodes.contains c
/-- the same for a streamed response (read from the live `finalize` with `stream = True`) -/
def noBodyS (c : Nat) : Bool := Gen.C06.noBodyStreamCodes.contains c
/-- does `finalize` remove Content-Length and the body for this status? -/
def strips (stream : Bool) (c : Nat) : Bool := if stream then noBodyS c else noBody c
def ieSize (c : Nat) : Nat := (Gen.C06.ieSizes.lookup c).getD 0
/-- 0 = page with Location, 1 = 304, 2 = 305, none = "status code is unknown" -/
def redirKind (c : Nat) : Option Nat := Gen.C06.redirKinds.lookup c

/-- `valid_status(response.status)`: `None`/0 is 200; `none` = ValueError -/
def validStatus (s : Option Nat) : Option Nat :=
  match s with
  | none => some 200
  | some 0 => some 200
  | some c => if legal c then some c else none

/-! ### Response.collapse_body, finalize -/

/-- `collapse_body`: `none` = the join raised (body untouched: the assignment is not reached) -/
def collapse (r : Resp) : Option (Resp × Bytes) :=
  match join r.body.chunks with
  | none => none
  | some b => some ({ r with body := bytesBody b }, b)

/-- the cache: per URI the selecting header list (here: does it contain Accept-Encoding) and the
    variants -/
structure Entry where
  status : Nat
  hdrs : Hdrs
  body : Bytes
  src : Src
  gz : Bool
  created : Nat := 0               -- `response.time` of the request that produced it

structure Cache where
  selAE : Bool
  variants : List (Option AEnc × Entry)

def Cache.key (c : Cache) (rq : Req) : Option AEnc := if c.selAE then some rq.ae else none

def Cache.find (c : Cache) (rq : Req) : Option Entry := c.variants.lookup (c.key rq)

def lookupDel (k : Option AEnc) : List (Option AEnc × Entry) → List (Option AEnc × Entry)
  | [] => []
  | (k', e) :: rest => if k' = k then lookupDel k rest else (k', e) :: lookupDel k rest

/-- `MemoryCache.put` (sizes below the limits) -/
def cachePut (c : Option Cache) (rq : Req) (e : Entry) : Option Cache :=
  match c with
  | none =>
    let sel := (e.hdrs .vary).isSome
    some ⟨sel, [((if sel then some rq.ae else none), e)]⟩
  | some c => some { c with variants := (c.key rq, e) :: lookupDel (c.key rq) c.variants }

/-- the completion code of the `tee` generator: runs when the wrapped body is exhausted.
    `none` = its own `b''.join(output)` raised a TypeError. -/
def teeDone (c : Option Cache) (rq : Req) (r : Resp) (code : Nat) (chunks : List Chunk) :
    Option (Option Cache) :=
  if !r.tee then some c else
  -- `'no-cache' in response.headers.values('Pragma')` (set by tools.expires with secs=0): passed through, not stored
  if (r.hdrs .pragma).isSome then some c else
  match join chunks with
  | none => none
  | some b =>
    if b.isEmpty then some none     -- cherrypy._cache.delete()
    else some (cachePut c rq ⟨code, r.hdrs, b, r.src, r.gz, rq.now⟩)

/-- State threaded through one request: the response and the cache. -/
structure St where
  r : Resp
  cache : Option Cache

/-- `Response.finalize`.  The tee wrapper (if any) completes inside collapse / flush; its `put`
    stores a *reference* to the header dict, so the stored headers are the final ones: the put is
    therefore done after Content-Length is set. -/
def finalize (rq : Req) (s : St) : St × Option Exn :=
  let r := s.r
  match validStatus r.status with
  | none => (s, some (.httpError 500))
  | some code =>
    let r := { r with status := some code }
    if strips r.stream code then
      -- "All 1xx, 204 and 304 responses MUST NOT include a message-body": tested first, streamed or not
      let r := { r with hdrs := r.hdrs.del .contentLength }
      -- _flush_body: consume(iter(body))
      if hasRaise r.body.chunks then ({ s with r := r }, some .exc) else
      match teeDone s.cache rq r code r.body.chunks with
      | none => ({ s with r := r }, some .exc)
      | some c => ({ r := { r with body := ⟨.list, []⟩, tee := false }, cache := c }, none)
    else if r.stream then
      let h := if r.hdrs .contentLength = some .pyNone then r.hdrs.del .contentLength else r.hdrs
      ({ s with r := { r with hdrs := h } }, none)
    else
      match r.hdrs .contentLength with
      | some (.nat _) => ({ s with r := r }, none)      -- user/tool supplied length is kept
      | some .other => ({ s with r := r }, none)
      | some (.ctype _ _) => ({ s with r := r }, none)
      | some (.tag _) => ({ s with r := r }, none)
      | _ =>
        match join r.body.chunks with
        | none => ({ s with r := r }, some .exc)
        | some b =>
          let r' := { r with body := bytesBody b, hdrs := r.hdrs.set .contentLength (.nat b.length),
                             tee := false }
          match teeDone s.cache rq { r with hdrs := r'.hdrs } code r.body.chunks with
          | none => ({ s with r := r }, some .exc)
          | some c => ({ r := r', cache := c }, none)

/-! ### error and redirect responses -/

def cleanKeys : List HKey :=
  [.acceptRanges, .age, .etag, .location, .retryAfter, .vary, .contentEncoding, .contentLength,
   .expires, .contentLocation, .contentMD5, .lastModified]

/-- `_be_ie_unfriendly` -/
def ieUnfriendly (code : Nat) (r : Resp) : Out :=
  let s := ieSize code
  if s = 0 then (r, none) else
  match join r.body.chunks with
  | none => (r, some .exc)
  | some content =>
    let l := content.length
    let content := if l ≠ 0 ∧ l < s + 1 then content ++ List.replicate (s + 1 - l) 32 else content
    ({ r with body := bytesBody content, hdrs := r.hdrs.set .contentLength (.nat content.length),
              tee := false }, none)

/-- `HTTPError(code).set_response()` -/
def setError (pg : Pages) (code : Nat) (r : Resp) : Out :=
  let h := r.hdrs.delAll cleanKeys
  let h := if code ≠ 416 then h.del .contentRange else h
  let h := h.del .contentLength
  let (content, h, src) :=
    match pg.custom with
    | some b => (b, h, Src.customPage)
    | none => (bytesBody (pg.tmpl code), h.set .contentType (.ctype .textHtml (some .utf8)), Src.tmplPage)
  ieUnfriendly code { r with hdrs := h, status := some code, body := content, tee := false,
                             src := src, gz := false }

def notModifiedKeys : List HKey :=
  [.allow, .contentEncoding, .contentLanguage, .contentLength, .contentLocation, .contentMD5,
   .contentRange, .contentType, .expires, .lastModified]

/-- `HTTPRedirect(urls, code).set_response()` -/
def setRedirect (pg : Pages) (code : Nat) (r : Resp) : Out :=
  let r := { r with status := some code }
  match redirKind code with
  | some 0 =>
    let h := (r.hdrs.set .contentType (.ctype .textHtml (some .utf8))).set .location .other
    ({ r with hdrs := h.del .contentLength, body := bytesBody (pg.redir code), tee := false,
              src := .redirPage, gz := false }, none)
  | some 1 =>
    ({ r with hdrs := (r.hdrs.delAll notModifiedKeys).del .contentLength, body := ⟨.list, []⟩,
              tee := false, src := .none, gz := false }, none)
  | some 2 =>
    ({ r with hdrs := (r.hdrs.set .location .other).del .contentLength, body := ⟨.list, []⟩,
              tee := false, src := .none, gz := false }, none)
  | _ => (r, some .exc)

def setResponse (pg : Pages) : Exn → Resp → Out
  | .httpError c, r => setError pg c r
  | .redirect c, r => setRedirect pg c r
  | .exc, r => (r, some .exc)

/-! ### the before_finalize tools -/

/-- `tools.expires` configuration: (secs = 60 | 0) × force -/
inductive ExpiresCfg where
  | secs60Force | zeroForce | secs60 | zero
  deriving DecidableEq, Repr

def ExpiresCfg.force : ExpiresCfg → Bool
  | .secs60Force | .zeroForce => true
  | _ => false

def ExpiresCfg.isZero : ExpiresCfg → Bool
  | .zeroForce | .zero => true
  | _ => false

/-- `expires(secs, force)`: headers only.  Without `force` nothing happens unless ETag / Last-Modified / Age /
    Expires is already there; `secs=0` marks the response `Pragma: no-cache` (which `tee_output` honours). -/
def expiresStep (cfg : ExpiresCfg) (r : Resp) : Out :=
  let cacheable := (r.hdrs .etag).isSome || (r.hdrs .lastModified).isSome || (r.hdrs .age).isSome ||
                   (r.hdrs .expires).isSome
  if !cacheable && !cfg.force then (r, none) else
  let h := if cfg.isZero then (r.hdrs.set .pragma .other).set .cacheControl .other else r.hdrs
  ({ r with hdrs := h.set .expires .other }, none)

def flattenChunks : List Chunk → List Chunk
  | [] => []
  | .nested ls :: cs => ls.map Leaf.toChunk ++ flattenChunks cs
  | c :: cs => c :: flattenChunks cs

/-- `flatten`: the body becomes the flattener generator -/
def flattenStep (r : Resp) : Out := ({ r with body := ⟨.iter, flattenChunks r.body.chunks⟩ }, none)

/-- `validate_etags(autotags=True)`, first half: provide the entity tag (`none` = collapse raised) -/
def etagsTag (code : Nat) (r : Resp) : Option Resp :=
  match r.hdrs .etag with
  | some _ => some r
  | none =>
    if code ≠ 200 then some r else
    match collapse r with
    | none => none
    | some (r', b) => some { r' with hdrs := r'.hdrs.set .etag (.tag b), tee := false }

/-- second half: If-Match / If-None-Match against the tag -/
def etagsCond (rq : Req) (code : Nat) (r : Resp) : Option Exn :=
  let tagged := (r.hdrs .etag).isSome
  if 200 ≤ code ∧ code ≤ 299 then
    if rq.im = .other ∨ (rq.im = .matching ∧ !tagged) then some (.httpError 412)
    else if rq.inm = .star ∨ (rq.inm = .matching ∧ tagged) then
      if rq.safe then some (.redirect 304) else some (.httpError 412)
    else none
  else none

/-- `validate_etags(autotags=True)` -/
def etagsStep (rq : Req) (r : Resp) : Out :=
  if r.etagDone then (r, none) else
  match validStatus r.status with
  | none => (r, some .exc)                       -- ValueError from valid_status
  | some code =>
    match etagsTag code r with
    | none => (r, some .exc)
    | some r1 => ({ r1 with etagDone := true }, etagsCond rq code { r1 with etagDone := true })

/-- `compress(body, level)`: lazily wraps the body; a non-bytes item raises after the gzip header
    went out -/
def compressChunks (pg : Pages) (cs : List Chunk) : List Chunk :=
  if allBytes cs then [.bytes (pg.z (concat cs))] else [.bytes pg.zHead, .raise]

def ctBase (r : Resp) : Option CtBase :=
  match r.hdrs .contentType with
  | some (.ctype b _) => some b
  | _ => none

/-- `gzip()` with the default mime types -/
def gzipStep (pg : Pages) (rq : Req) (cached : Bool) (r : Resp) : Out :=
  let r := { r with hdrs := r.hdrs.set .vary .other }
  if !r.body.truthy then (r, none) else
  if cached then (r, none) else
  match rq.ae with
  | .absent => (r, none)
  | .identity => (r, none)
  | .gzipq0 => (r, none)
  | .gzip =>
    if ctBase r = some .textHtml ∨ ctBase r = some .textPlain then
      ({ r with hdrs := (r.hdrs.set .contentEncoding .other).del .contentLength,
                body := ⟨.iter, compressChunks pg r.body.chunks⟩, gz := true }, none)
    else (r, none)
  | .other => (r, none)                  -- identity not excluded: body untouched
  | .idq0 => setError pg 406 r           -- set_response() without raising

/-- `tee_output` -/
def teeStep (rq : Req) (r : Resp) : Out :=
  -- `if 'no-store' in request.headers.values('Cache-Control'): return`
  if rq.cc = .noStore then (r, none) else ({ r with body := ⟨.iter, r.body.chunks⟩, tee := true }, none)

/-- what a user-supplied before_finalize hook (the harness's probe tool) does when it runs -/
inductive ProbeAct where
  | raise (e : Exn)                 -- raise HTTPError / HTTPRedirect / another exception
  | rewrite (b : Bytes)             -- a third-party tool that follows the rule: new body, delete C-L
  | setStatus (code : Nat)          -- response.status = code
  deriving DecidableEq, Repr

inductive Step where
  | expires (cfg : ExpiresCfg) | flatten | etags | gzip | tee
  | probe (act : ProbeAct) (once : Bool)
  | sessions | autovary
  deriving DecidableEq, Repr

/-- `sessions.save` (before_finalize, priority 50, failsafe): runs once per request; when the response is
    not streamed and its body is an iterator, `response.collapse_body()` -/
def sessionsStep (r : Resp) : Out :=
  if !r.sessInit || r.sessSaved then (r, none) else
  let r := { r with sessSaved := true }
  if r.stream then (r, none) else
  if r.body.kind == .iter then
    match collapse r with
    | none => (r, some .exc)
    | some (r', _) => (r', none)
  else (r, none)

/-- the hook `tools.autovary` attaches at priority 95: only the Vary header -/
def autovaryStep (r : Resp) : Out := ({ r with hdrs := r.hdrs.set .vary .other }, none)

/-- `Hook.failsafe`: the hook runs even when an earlier one at the same point raised -/
def Step.failsafe : Step → Bool
  | .sessions => true
  | _ => false

/-- the probe hook; `once` = it acts only the first time it runs in a request (hooks run a second
    time after an HTTPError / HTTPRedirect) -/
def probeStep (act : ProbeAct) (once : Bool) (r : Resp) : Out :=
  if once && r.fired then (r, none) else
  let r := { r with fired := true }
  match act with
  | .raise e => (r, some e)
  | .rewrite b => ({ r with body := bytesBody b, hdrs := r.hdrs.del .contentLength, src := .handler, gz := false,
                            tee := false }, none)
  | .setStatus c => ({ r with status := some c }, none)

def applyStep (pg : Pages) (rq : Req) (cached : Bool) : Step → Resp → Out
  | .expires cfg, r => expiresStep cfg r
  | .flatten, r => flattenStep r
  | .etags, r => etagsStep rq r
  | .gzip, r => gzipStep pg rq cached r
  | .tee, r => teeStep rq r
  | .probe act once, r => probeStep act once r
  | .sessions, r => sessionsStep r
  | .autovary, r => autovaryStep r

/-- `HookMap.run_hooks(safe)`: after a hook raised, the remaining failsafe hooks still run; the exception
    that finally propagates is the one raised last -/
def runFailsafe (pg : Pages) (rq : Req) (cached : Bool) : List Step → Resp → Exn → Out
  | [], r, e => (r, some e)
  | s :: rest, r, e =>
    if s.failsafe then
      match applyStep pg rq cached s r with
      | (r', none) => runFailsafe pg rq cached rest r' e
      | (r', some e') => runFailsafe pg rq cached rest r' e'
    else runFailsafe pg rq cached rest r e

/-- `HookMap.run`: hooks in priority order up to the first exception, then the failsafe ones -/
def runSteps (pg : Pages) (rq : Req) (cached : Bool) : List Step → Resp → Out
  | [], r => (r, none)
  | s :: rest, r =>
    match applyStep pg rq cached s r with
    | (r', none) => runSteps pg rq cached rest r'
    | (r', some e) => runFailsafe pg rq cached rest r' e

/-! ### the handler stage -/

inductive Shape where
  | bytesV (b : Bytes)                 -- return b'...'
  | strV (t : List Char)               -- return '...'
  | noneV                              -- return None
  | listV (cs : List Chunk)            -- return [ ... ]
  | genV (cs : List Chunk)             -- a generator (also the json_out handler: iterencode chunks)
  | fileV (b : Bytes)                  -- an object with .read()
  | staticV (b : Bytes)                -- return serve_file(path) on a file with this content
  | fileObjV (b : Bytes)               -- return serve_fileobj(io.BytesIO(...)): length unknown
  | xmlrpcV (t : List Char)            -- an XML-RPC method: `xmlrpcutil.respond` on the marshalled text `t`
  deriving DecidableEq, Repr

inductive HStatus where
  | unset
  | set (code : Nat)                   -- response.status = code (999 stands for an illegal value)
  | raiseError (code : Nat)
  | raiseRedirect (code : Nat)         -- 0 = `HTTPRedirect(url)` without a status: 303, or 302 for HTTP/1.0
  | raiseExc
  deriving DecidableEq, Repr

structure Handler where
  shape : Shape
  st : HStatus := .unset
  ct : CtBase := .textHtml
  setCL : Option Nat := none           -- handler sets Content-Length itself
  setStream : Bool := false
  later : List Shape := []             -- what the handler returns on its 2nd, 3rd, … invocation
                                       -- (default: the same value every time)

/-- `request.error_response` -/
inductive ErrResp where
  | dflt                               -- HTTPError(500).set_response
  | custom (code : Nat) (b : Bytes)    -- a callable that sets status and body and pops Content-Length
  | xmlrpc (t : List Char)             -- tools.xmlrpc (`xmlrpcutil.on_error`): a Fault marshalled as `t`
  | redirect (code : Nat)              -- a callable that raises HTTPRedirect
  deriving DecidableEq, Repr

structure Tools where
  encode : Bool := false
  gzip : Bool := false
  etags : Bool := false
  caching : Bool := false
  expires : Bool := false
  expiresCfg : ExpiresCfg := .secs60Force
  flatten : Bool := false
  stream : Bool := false
  probe : Option (Nat × ProbeAct × Bool) := none     -- (priority, action, once)
  errFails : Bool := false         -- request.error_response is a callable that raises
  jsonOut : Bool := false          -- tools.json_out: sets Content-Type at before_handler (priority 30)
  rhCL : Option Nat := none        -- tools.response_headers sets Content-Length (on_start_resource, failsafe)
  accept : Bool := false           -- tools.accept with one media type
  jsonIn : Bool := false           -- tools.json_in (force=True)
  noSlashTool : Bool := false      -- tools.trailing_slash switched off (it is on by default)
  staticTool : Option Bytes := none  -- tools.staticfile on a file with this content (before_handler 50)
  sessions : Bool := false         -- tools.sessions
  autovary : Bool := false         -- tools.autovary
  errResp : ErrResp := .dflt       -- request.error_response (`errFails` = a callable that raises)

structure Plan where
  h : Handler
  t : Tools := {}

def encodable (cs : Charset) (t : List Char) : Bool :=
  match cs with
  | .utf8 => true
  | .latin1 => t.all (fun c => c.toNat < 256)
  | .ascii => t.all (fun c => c.toNat < 128)

/-- the UTF-8 encoding of one character (1–4 bytes), written out so that it reduces in the kernel -/
def utf8Char (c : Char) : Bytes :=
  let n := c.toNat
  if n < 0x80 then [UInt8.ofNat n]
  else if n < 0x800 then [UInt8.ofNat (0xC0 + n / 64), UInt8.ofNat (0x80 + n % 64)]
  else if n < 0x10000 then
    [UInt8.ofNat (0xE0 + n / 4096), UInt8.ofNat (0x80 + n / 64 % 64), UInt8.ofNat (0x80 + n % 64)]
  else
    [UInt8.ofNat (0xF0 + n / 262144), UInt8.ofNat (0x80 + n / 4096 % 64), UInt8.ofNat (0x80 + n / 64 % 64),
     UInt8.ofNat (0x80 + n % 64)]

def encodeText (cs : Charset) (t : List Char) : Bytes :=
  match cs with
  | .utf8 => t.flatMap utf8Char
  | _ => t.map (fun c => UInt8.ofNat c.toNat)

/-- `prepare_iter(value)` -/
def prepareIter : Shape → Body
  | .bytesV b => ⟨.list, oneChunk b⟩
  | .strV t => ⟨.list, if t.isEmpty then [] else [.text t]⟩
  | .noneV => ⟨.list, []⟩
  | .listV cs => ⟨.list, cs⟩
  | .genV cs => ⟨.iter, cs⟩
  | .fileV b => ⟨.iter, oneChunk b⟩
  | .staticV b => ⟨.iter, oneChunk b⟩
  | .fileObjV b => ⟨.iter, oneChunk b⟩
  | .xmlrpcV t => ⟨.list, oneChunk (encodeText .utf8 t)⟩

/-- ResponseBody.__set__: a `str`, or a `list` containing a `str`, is a ValueError -/
def setterRejects (b : Body) : Bool :=
  b.kind == .list && b.chunks.any (fun c => match c with | .text _ => true | _ => false)

/-- `encode_string` on the materialised body: `none` = this charset cannot encode it -/
def encodeString (cs : Charset) : List Chunk → Option (List Chunk)
  | [] => some []
  | .text t :: rest =>
    if encodable cs t then (encodeString cs rest).map (Chunk.bytes (encodeText cs t) :: ·) else none
  | c :: rest => (encodeString cs rest).map (c :: ·)

/-- `encode_stream`: lazy; an unencodable chunk raises when reached -/
def encodeStream (cs : Charset) : List Chunk → List Chunk
  | [] => []
  | .text t :: rest => if encodable cs t then .bytes (encodeText cs t) :: encodeStream cs rest else [.raise]
  | c :: rest => c :: encodeStream cs rest

/-- the loop of `find_acceptable_charset` over the charsets it tries (non-streaming); every
    attempt sees the whole body (`self.body = list(self.body)` before the first one) -/
def tryCharsets : List Charset → List Chunk → Option (Charset × List Chunk)
  | [], _ => none
  | cs :: more, chunks =>
    match encodeString cs chunks with
    | some enc => some (cs, enc)
    | none => tryCharsets more chunks

/-- `ResponseEncoder.__call__` after the inner handler returned `body` -/
def encodeStage (rq : Req) (r : Resp) (body : Body) : Out :=
  match r.hdrs .contentType with
  | some (.ctype base _) =>
    if base.isText then
      if r.stream then
        -- the streaming branch leaves Content-Length alone ("just pray it works"); a repaired
        -- encode_stream deletes it like the buffered branch (flag read from the live code)
        let r := if Gen.C06.encodeStreamKeepsCL then r else { r with hdrs := r.hdrs.del .contentLength }
        match rq.charsets with
        | [] => (r, some (.httpError 406))
        | cs :: _ =>
          ({ r with body := ⟨.iter, encodeStream cs body.chunks⟩,
                    hdrs := r.hdrs.set .contentType (.ctype base (some cs)) }, none)
      else
        let r := { r with hdrs := r.hdrs.del .contentLength }
        -- no charset to try (a forced `encoding` the client does not admit): 406 without looking at the body
        if rq.charsets.isEmpty then (r, some (.httpError (if rq.dfltOnly then 500 else 406))) else
        -- list(self.body): a raising producer propagates
        if hasRaise body.chunks then (r, some .exc) else
        match tryCharsets rq.charsets body.chunks with
        | none => (r, some (.httpError (if rq.dfltOnly then 500 else 406)))
        | some (cs, enc) =>
          ({ r with body := ⟨.list, enc⟩, hdrs := r.hdrs.set .contentType (.ctype base (some cs)) }, none)
    else
      if setterRejects body then (r, some .exc) else ({ r with body := body }, none)
  | _ => if setterRejects body then (r, some .exc) else ({ r with body := body }, none)

/-- `cptools.validate_since()` once Last-Modified is set: `valid_status(response.status)` (a ValueError for an
    illegal one), then If-Modified-Since equal to Last-Modified -> 304 for GET / HEAD, 412 otherwise -/
def validateSince (rq : Req) (r : Resp) : Option Exn :=
  match validStatus r.status with
  | none => some .exc
  | some c =>
    if rq.ims ∧ ((200 ≤ c ∧ c ≤ 299) ∨ c = 304) then
      (if rq.safe then some (.redirect 304) else some (.httpError 412))
    else none

/-- `serve_file` -> `_serve_fileobj` for a file with content `b` -/
def serveFile (pg : Pages) (rq : Req) (b : Bytes) (r : Resp) : Out :=
  let r := { r with hdrs := r.hdrs.set .lastModified .other }
  match validateSince rq r with
  | some e => (r, some e)
  | none =>
  let r := if rq.http10 then r else { r with hdrs := r.hdrs.set .acceptRanges .other }
  -- "HTTP/1.0 didn't have Range/Accept-Ranges headers, or the 206 code"
  match (if rq.http10 then none else rq.ranges) with
  | some [] => ({ r with hdrs := r.hdrs.set .contentRange .other }, some (.httpError 416))
  | some [(start, stop)] =>
    -- `if stop > content_length: stop = content_length`; file_generator_limited(fileobj, r_len)
    ({ r with status := some 206,
              hdrs := (r.hdrs.set .contentRange .other).set .contentLength (.nat (min stop b.length - start)),
              body := ⟨.iter, oneChunk ((b.drop start).take (min stop b.length - start))⟩ }, none)
  | some rs =>
    let parts := rs.flatMap fun (a, z) =>
      [Chunk.bytes (pg.partHead a z), .bytes ((b.drop a).take (z - a)), .bytes [13, 10]]
    ({ r with status := some 206,
              hdrs := (r.hdrs.set .contentType (.ctype .multipart none)).del .contentLength,
              body := ⟨.iter, .bytes [13, 10] :: parts ++ [.bytes pg.partTail]⟩, src := .multipart }, none)
  | none =>
    ({ r with hdrs := r.hdrs.set .contentLength (.nat b.length), body := ⟨.iter, oneChunk b⟩ }, none)

/-- `isinstance(value, str)`: ResponseBody.__set__ rejects it even when empty -/
def shapeIsStr : Shape → Bool
  | .strV _ => true
  | _ => false

/-- assigning the handler's value to `response.body` (through the encode wrapper when tools.encode is on) -/
def assignBody (rq : Req) (p : Plan) (isStr : Bool) (r : Resp) (body : Body) : Out :=
  if p.t.encode then encodeStage rq r body
  else if setterRejects body || isStr then (r, some .exc) else ({ r with body := body }, none)

/-- `response.status = code` when the handler sets one -/
def withStatus (st : HStatus) (r : Resp) : Resp :=
  match st with
  | .set c => { r with status := some c }
  | _ => r

/-- the handler's own `response.headers['Content-Length'] = n` -/
def withOwnCL (cl : Option Nat) (r : Resp) : Resp :=
  match cl with
  | some n => { r with hdrs := r.hdrs.set .contentLength (.nat n) }
  | none => r

/-- a handler that sets its headers and returns `serve_file(path)` -/
def handlerStatic (pg : Pages) (rq : Req) (p : Plan) (b : Bytes) (r : Resp) : Out :=
  match serveFile pg rq b (withStatus p.h.st (withOwnCL p.h.setCL r)) with
  | (r, some e) => (r, some e)
  | (r, none) =>
    -- the value returned is response.body itself (already prepared)
    if p.t.encode then encodeStage rq r r.body else (r, none)

/-- a handler that returns `serve_fileobj(fileobj)` for an object without a file descriptor: the length
    is unknown, `Content-Length: None` is stored (finalize computes or pops it), no ranges -/
def handlerFileObj (rq : Req) (p : Plan) (b : Bytes) (r : Resp) : Out :=
  let r := withStatus p.h.st (withOwnCL p.h.setCL r)
  let r := { r with hdrs := r.hdrs.set .contentLength .pyNone, body := ⟨.iter, oneChunk b⟩ }
  if p.t.encode then encodeStage rq r r.body else (r, none)

/-- `HTTPRedirect(url)` without a status: 303 for HTTP/1.1 requests, 302 for HTTP/1.0 -/
def redirectCode (rq : Req) (c : Nat) : Nat :=
  if c = 0 then (if rq.http10 then 302 else 303) else c

/-- any other handler: own Content-Length, status / raise, then the returned value -/
def handlerPlain (rq : Req) (p : Plan) (shape : Shape) (r : Resp) : Out :=
  let r := match p.h.setCL with
           | some n => { r with hdrs := r.hdrs.set .contentLength (.nat n) }
           | none => r
  match p.h.st with
  | .raiseError c => (r, some (.httpError c))
  | .raiseRedirect c => (r, some (.redirect (redirectCode rq c)))
  | .raiseExc => (r, some .exc)
  | .set c => assignBody rq p (shapeIsStr shape) { r with status := some c } (prepareIter shape)
  | .unset => assignBody rq p (shapeIsStr shape) r (prepareIter shape)

/-- the Content-Length `xmlrpcutil._set_response` stores: `len(body)` of the *text* (characters) on the
    unchanged code, of the encoded bytes once repaired (flag read from the live code) -/
def xmlLen (t : List Char) : Nat :=
  if Gen.C06.xmlrpcCountsChars then t.length else (encodeText .utf8 t).length

/-- `xmlrpcutil._set_response(text)`: 200, the text as UTF-8, text/xml, its own Content-Length -/
def xmlrpcSet (t : List Char) (r : Resp) : Resp :=
  { r with status := some 200, body := bytesBody (encodeText .utf8 t),
           hdrs := (r.hdrs.set .contentType (.ctype .textXml none)).set .contentLength (.nat (xmlLen t)),
           tee := false, src := .handler, gz := false }

/-- `XMLRPCController.default`: the method runs (and may raise), `xmlrpcutil.respond` builds the response,
    `response.body` is returned (through the encode wrapper when tools.encode is on) -/
def handlerXmlrpc (rq : Req) (p : Plan) (t : List Char) (r : Resp) : Out :=
  match p.h.st with
  | .raiseError c => (r, some (.httpError c))
  | .raiseRedirect c => (r, some (.redirect (redirectCode rq c)))
  | .raiseExc => (r, some .exc)
  | _ =>
    let r := xmlrpcSet t r
    if p.t.encode then encodeStage rq r r.body else (r, none)

/-- the page handler -/
def handlerStage (pg : Pages) (rq : Req) (p : Plan) (r : Resp) : Out :=
  let r := { r with hdrs := r.hdrs.set .contentType (.ctype p.h.ct none),
                    stream := r.stream || p.h.setStream, src := .handler }
  match p.h.shape with
  | .staticV b => handlerStatic pg rq p b r
  | .fileObjV b => handlerFileObj rq p b r
  | .xmlrpcV t => handlerXmlrpc rq p t r
  | shape => handlerPlain rq p shape r

/-! ### caching.get, the request pipeline -/

/-- the probe hook when it is configured with a priority in [lo, hi) -/
def probeAt (t : Tools) (lo hi : Nat) : List Step :=
  match t.probe with
  | some (prio, act, once) => if lo ≤ prio ∧ prio < hi then [.probe act once] else []
  | none => []

/-- the before_finalize hooks of a request in priority order (expires 50, flatten 50, sessions.save 50,
    etags 75, gzip 80, autovary 95, tee_output 100; the probe wherever its priority puts it) -/
def hooksOf (t : Tools) (teeOn : Bool) : List Step :=
  probeAt t 0 50 ++
  (if t.expires then [.expires t.expiresCfg] else []) ++ (if t.flatten then [.flatten] else []) ++
  (if t.sessions then [.sessions] else []) ++
  probeAt t 51 75 ++
  (if t.etags then [.etags] else []) ++
  probeAt t 76 80 ++
  (if t.gzip then [.gzip] else []) ++
  probeAt t 81 95 ++
  (if t.autovary then [.autovary] else []) ++
  probeAt t 96 100 ++
  (if teeOn then [.tee] else []) ++
  probeAt t 101 1000

/-- a fresh Response (+ `response.stream` from config) after the on_start_resource hooks:
    `tools.response_headers` (failsafe: it runs whatever else happens there) may have set Content-Length -/
def freshResp (rq : Req) (t : Tools) : Resp :=
  { stream := t.stream,
    sessInit := !(t.accept && !rq.acceptOk),   -- tools.accept (on_start_resource) refuses before sessions.init
    hdrs := fun k => if k = .contentType then some (.ctype .textHtml none)
                     else if k = .contentLength then t.rhCL.map HVal.nat else none }

/-- on_start_resource … `request.body.process()`: `tools.accept` (406), then `tools.json_in` with
    force=True while the entity of a POST is processed (415 for another media type, 411, 400) -/
def earlyExn (rq : Req) (t : Tools) : Option Exn :=
  if t.accept && !rq.acceptOk then some (.httpError 406)
  else if t.jsonIn && rq.method == .post then
    match rq.entity with
    | .none => some (.httpError 415)
    | .jsonOk => none
    | .jsonBad => some (.httpError 400)
    | .noLength => some (.httpError 411)
  else none

/-- `tools.json_out` (before_handler, priority 30): the Content-Type -/
def jsonOutStage (p : Plan) (r : Resp) : Resp :=
  if p.t.jsonOut then { r with hdrs := r.hdrs.set .contentType (.ctype .appJson none) } else r

/-- `tools.staticfile` (before_handler, priority 50): for GET / HEAD it serves its file and the page handler —
    and the encode wrapper around it — is skipped (`request.handler = None`); for other methods it declines.
    Returns the response, an exception, and whether the page handler is still to run. -/
def staticToolStage (pg : Pages) (rq : Req) (p : Plan) (r : Resp) : Resp × Option Exn × Bool :=
  match p.t.staticTool with
  | some b =>
    if rq.safe then
      match serveFile pg rq b { r with hdrs := r.hdrs.set .contentType (.ctype p.h.ct none), src := .handler } with
      | (r', some e) => (r', some e, true)
      | (r', none) => (r', none, false)
    else (r, none, true)
  | none => (r, none, true)

/-- before_handler up to priority 60: json_out (30), the static tool (50), then `tools.trailing_slash` (60)
    redirects an index resource requested without its slash (whether or not a body is already there). -/
def beforeHandlerTools (pg : Pages) (rq : Req) (p : Plan) (r : Resp) : Resp × Option Exn × Bool :=
  match staticToolStage pg rq p (jsonOutStage p r) with
  | (r, some e, todo) => (r, some e, todo)
  | (r, none, todo) =>
    if !p.t.noSlashTool && rq.noSlash then (r, some (.redirect 301), todo) else (r, none, todo)

/-- the page handler unless a before_handler tool already produced the body (`request.handler = None`) -/
def runHandler (pg : Pages) (rq : Req) (p : Plan) (todo : Bool) (r : Resp) : Out :=
  if todo then handlerStage pg rq p r else (r, none)

/-- `MemoryCache.delay` -/
def cacheDelay : Nat := 600

/-- `caching.get` once a variant was found: `inl e` = it raises, `inr true` = serve the copy,
    `inr false` = ignore it (the handler runs, the response is teed again).  Only on `inr true` are the
    stored headers copied into the response. -/
def cacheDecision (rq : Req) (ent : Entry) : Sum Exn Bool :=
  match rq.cc with
  | .badMaxAge => .inl (.httpError 400)
  | .noCache => .inr false
  | cc =>
    let maxAge := match cc with | .maxAge n => min cacheDelay n | _ => cacheDelay
    -- age = int(response.time - create_time);  `if age > max_age: ... return False`
    .inr (decide (rq.now - ent.created ≤ maxAge))

/-- before_handler + handler: returns the state, whether the cache was hit, whether tee is attached -/
def beforeAndHandler (pg : Pages) (rq : Req) (p : Plan) (cache : Option Cache) :
    St × Option Exn × Bool × Bool :=
  let r := freshResp rq p.t
  match earlyExn rq p.t with
  | some e => (⟨r, cache⟩, some e, false, false)
  | none =>
  match beforeHandlerTools pg rq p r with
  | (r, some e, _) => (⟨r, cache⟩, some e, false, false)
  | (r, none, todo) =>
  if p.t.caching then
    if rq.method = .post then
      let (r, e) := runHandler pg rq p todo r
      (⟨r, none⟩, e, false, false)              -- cache.delete(); not cacheable
    else if rq.cc = .pragma then
      let (r, e) := runHandler pg rq p todo r    -- Pragma: no-cache: the cache is not consulted
      (⟨r, cache⟩, e, false, true)
    else
      match cache.bind (·.find rq) with
      | some ent =>
        match cacheDecision rq ent with
        | .inl e => (⟨r, cache⟩, some e, true, false)      -- raised with request.cached = True, no tee
        | .inr true =>
          -- the stored headers (+ Age) are installed, then `validate_since()` runs against them — before the
          -- stored status is: a copy with Last-Modified answers If-Modified-Since with 304 whatever it stored
          let r0 := { r with hdrs := ent.hdrs.set .age .other }
          match (if (ent.hdrs .lastModified).isSome then validateSince rq r0 else none) with
          | some e => (⟨r0, cache⟩, some e, true, false)
          | none =>
            let r := { r with hdrs := ent.hdrs.set .age .other, status := some ent.status,
                              body := bytesBody ent.body, src := ent.src, gz := ent.gz }
            (⟨r, cache⟩, none, true, false)
        | .inr false =>
          let (r, e) := runHandler pg rq p todo r  -- the stored copy is ignored together with its headers
          (⟨r, cache⟩, e, false, true)
      | none =>
        let (r, e) := runHandler pg rq p todo r
        (⟨r, cache⟩, e, false, true)
  else
    let (r, e) := runHandler pg rq p todo r
    (⟨r, cache⟩, e, false, false)

/-- hooks + finalize -/
def hooksAndFinalize (pg : Pages) (rq : Req) (cached : Bool) (hooks : List Step) (s : St) : St × Option Exn :=
  match runSteps pg rq cached hooks s.r with
  | (r, some e) => ({ s with r := r }, some e)
  | (r, none) => finalize rq { s with r := r }

/-- `request.error_response()` -/
def errorResponse (pg : Pages) (er : ErrResp) (r : Resp) : Out :=
  match er with
  | .dflt => setError pg 500 r
  | .custom c b =>
    ({ r with status := some c, body := bytesBody b, hdrs := r.hdrs.del .contentLength, tee := false,
              src := .customPage, gz := false }, none)
  | .xmlrpc t => ({ xmlrpcSet t r with src := .tmplPage }, none)   -- (the fault text depends on the exception)
  | .redirect c => (r, some (.redirect c))

/-- `handle_error`: error_response (default: HTTPError(500).set_response), then finalize; an HTTPRedirect
    raised on the way is answered by its own set_response + finalize.
    `none` = an exception escaped (run() then answers with bare_error). -/
def handleError (pg : Pages) (rq : Req) (fails : Bool) (er : ErrResp) (s : St) : Option St :=
  if fails then none else
  match errorResponse pg er s.r with
  | (r, some (.redirect c)) =>
    -- `except cherrypy.HTTPRedirect: inst.set_response(); response.finalize()`
    match setRedirect pg c r with
    | (r, none) => (match finalize rq { s with r := r } with | (s', none) => some s' | _ => none)
    | _ => none
  | (_, some _) => none
  | (r, none) =>
    match finalize rq { s with r := r } with
    | (s', none) => some s'
    | _ => none

/-- `bare_error()` as installed by `Request.run` -/
def bareResp (pg : Pages) (r : Resp) : Resp :=
  { r with status := some 500,
           hdrs := fun k => if k = .contentType then some (.ctype .textPlain none)
                            else if k = .contentLength then some (.nat pg.bare.length) else none,
           body := ⟨.list, [.bytes pg.bare]⟩, tee := false, src := .bare, gz := false }

/-- `_do_respond`: before_handler hooks, handler, before_finalize hooks, finalize.
    Returns the outcome, whether the cache was hit, and the before_finalize hook list of this request. -/
def firstPass (pg : Pages) (rq : Req) (p : Plan) (cache : Option Cache) :
    (St × Option Exn) × Bool × List Step :=
  let (s, e, cached, teeOn) := beforeAndHandler pg rq p cache
  let hooks := hooksOf p.t teeOn
  match e with
  | some e => ((s, some e), cached, hooks)
  | none => (hooksAndFinalize pg rq cached hooks s, cached, hooks)

/-- the `except` clauses of `respond`: HTTPError / HTTPRedirect -> set_response, the before_finalize
    hooks again, finalize; anything else (also from inside that clause) -> handle_error.
    `none` = an exception escaped to `run`. -/
def recover (pg : Pages) (rq : Req) (fails : Bool) (er : ErrResp) (cached : Bool) (hooks : List Step)
    (first : St × Option Exn) : Option St :=
  match first with
  | (s, none) => some s
  | (s, some .exc) => handleError pg rq fails er s
  | (s, some e) =>
    match setResponse pg e s.r with
    | (r, some _) => handleError pg rq fails er { s with r := r }
    | (r, none) =>
      match hooksAndFinalize pg rq cached hooks { s with r := r } with
      | (s, none) => some s
      | (s, some _) => handleError pg rq fails er s

/-- `Request.respond` (+ the last-resort branch of `run`): the finalized response, before the HEAD
    removal -/
def respond (pg : Pages) (rq : Req) (p : Plan) (cache : Option Cache) : St × Bool :=
  let (first, cached, hooks) := firstPass pg rq p cache
  match recover pg rq p.t.errFails p.t.errResp cached hooks first with
  | some s => (s, cached)
  | none => (⟨bareResp pg first.1.r, first.1.cache⟩, cached)

/-! ### the WSGI boundary -/

structure Obs where
  code : Nat
  cl : Option HVal
  ctype : Option HVal
  gzip : Bool
  delivered : Bytes
  ending : End
  stream : Bool
  cached : Bool
  src : Src
  gz : Bool

/-- `Request.run` (HEAD removal) + AppResponse iteration under ExceptionTrapper with a PEP 3333
    server: a producer that raises before any byte went out is replaced by the bare 500. -/
def serve (pg : Pages) (rq : Req) (p : Plan) (cache : Option Cache) : Obs × Option Cache :=
  let (s, cached) := respond pg rq p cache
  let r := s.r
  let code := r.status.getD 200
  let chunks := if rq.method = .head then [] else r.body.chunks
  let (d, e0) := deliver chunks
  let e := endOf e0
  if e = .raised ∧ d.isEmpty then
    (⟨500, some (.nat pg.bare.length), some (.ctype .textPlain none), false, pg.bare, .clean, r.stream,
      cached, .bare, false⟩, s.cache)
  else
    let cache' :=
      if rq.method ≠ .head ∧ e = .clean then
        match teeDone s.cache rq r code chunks with
        | some c => c
        | none => s.cache
      else s.cache
    (⟨code, r.hdrs .contentLength, r.hdrs .contentType, (r.hdrs .contentEncoding).isSome, d, e, r.stream,
      cached, r.src, r.gz⟩, cache')

/-- the plan as it behaves on the handler's `gen`-th invocation (0-based) -/
def planAt (p : Plan) (gen : Nat) : Plan :=
  match gen with
  | 0 => p
  | g + 1 => { p with h := { p.h with shape := p.h.later.getD g (p.h.later.getLastD p.h.shape) } }

/-- does the page handler run for this request?  Not when a tool refused / redirected / answered before it
    (accept, json_in, the static tool, trailing_slash), not when the cache answered or `caching.get` raised -/
def handlerRuns (pg : Pages) (rq : Req) (p : Plan) (cache : Option Cache) : Bool :=
  match earlyExn rq p.t with
  | some _ => false
  | none =>
    match beforeHandlerTools pg rq p (freshResp rq p.t) with
    | (_, some _, _) => false
    | (_, none, todo) => todo && !(beforeAndHandler pg rq p cache).2.2.1

/-- a request history against one application: the cache and the number of handler invocations so far
    are carried from request to request -/
def serveAll (pg : Pages) (p : Plan) : List Req → Option Cache → Nat → List Obs
  | [], _, _ => []
  | rq :: rest, c, gen =>
    let (o, c') := serve pg rq (planAt p gen) c
    o :: serveAll pg p rest c' (if handlerRuns pg rq (planAt p gen) c then gen + 1 else gen)

end CpModel.Finalize
