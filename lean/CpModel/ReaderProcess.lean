import CpModel.Reader
import CpModel.ReaderSink
import CpModel.Multipart
import CpModel.Gen.C05Tables
/-
  C05, what happens around the bounded reader — transcribed from `cherrypy/_cpreqbody.py`
  (`Entity.__init__`, `Entity.process`, `RequestBody.process`, `SizedReader.finish`) and
  `cherrypy/_cprequest.py` (`Request._do_respond`, `request_namespace`):

  * `pyInt`            `int(clen)` on the (already stripped, Latin-1) header text: optional sign, decimal digits
                       with single underscores between digits, surrounding whitespace; anything else is the
                       `ValueError` that leaves `length = None`;
  * `entityLength`     `Entity.__init__`: no Content-Length, or `'chunked' in Transfer-Encoding` (substring
                       test), or an unparsable value → `None`;
  * `lookupProc`       `Entity.process`: `processors[ct]`, else `processors[ct.split('/', 1)[0]]`, else
                       `default_proc`; the table is regenerated from a live `RequestBody` instance
                       (`Gen.C05.requestBodyProcessors`);
  * `applyNs` / `effective`   the `request` config namespace (`request_namespace`: `body.x` → attribute `x`
                       of `request.body`, else attribute of the request) applied to the merged per-path
                       configuration (global, then each path prefix, later levels overriding earlier ones);
                       class defaults from the generated table;
  * `decision`         `_do_respond` + `RequestBody.process`: body not processed at all (method without body
                       or `process_request_body` off: the raw stream is left untouched), 411 (neither
                       Content-Length nor Transfer-Encoding), or the stream wrapped in
                       `SizedReader(fp, length, maxbytes, bufsize, has_trailers='Trailer' in headers)` and the
                       processor chosen;
  * `serverLimit`      `CPWSGIServer.__init__`: `max_request_body_size or 0` (0 = no limit) — the limit behind
                       the `MaxSizeExceeded` event of the reader model;
  * `trailerLoop` / `finishT`   `SizedReader.finish`: `done = True`; when the request has a `Trailer` header
                       and the stream offers `read_trailer_lines()`, the trailer lines are parsed
                       (continuation lines, `k.strip().title()`, `', '`-joining for
                       `cheroot.server.comma_separated_headers`, otherwise last one wins), `MaxSizeExceeded`
                       → 413.  `read_trailer_lines()` itself (cheroot) is the environment: it hands out the
                       lines behind the body up to and including the first blank line, lazily.
                       `once` = the trailer is read by the FIRST `finish()` only (repaired code, measured into
                       `Gen.C05.trailersReadOnce`); `once = false` is the code that re-reads the connection on
                       every `finish()` (finding F27).
  Core Lean only.
-/
namespace CpModel.ReaderProcess
open CpModel.Reader CpModel.Multipart

abbrev Text := List Char

/-! ### `int(text)` -/

/-- what `int()` strips, for code points ≤ U+00FF: TAB..CR, space, NEL, NBSP (not the separators
    U+001C..U+001F that `str.isspace()` accepts) -/
def isPySpace (c : Char) : Bool :=
  let n := c.toNat
  (9 ≤ n && n ≤ 13) || n == 32 || n == 0x85 || n == 0xA0

def lstripT : Text → Text
  | [] => []
  | c :: cs => if isPySpace c then lstripT cs else c :: cs

def stripT (t : Text) : Text := (lstripT (lstripT t).reverse).reverse

def digitVal? (c : Char) : Option Nat :=
  if '0' ≤ c ∧ c ≤ '9' then some (c.toNat - 48) else none

/-- `digit (["_"] digit)*`; `prev` = the previous character was a digit -/
def digitsVal : Nat → Bool → Text → Option Nat
  | acc, prev, [] => if prev then some acc else none
  | acc, prev, c :: cs =>
    match digitVal? c with
    | some d => digitsVal (10 * acc + d) true cs
    | none => if c = '_' ∧ prev then digitsVal acc false cs else none

def pyInt (t : Text) : Option Int :=
  match stripT t with
  | [] => none
  | c :: ds =>
    if c = '-' then (digitsVal 0 false ds).map fun n => - (Int.ofNat n)
    else if c = '+' then (digitsVal 0 false ds).map Int.ofNat
    else (digitsVal 0 false (c :: ds)).map Int.ofNat

/-! ### `Entity.__init__`: the declared length -/

def isInfix (pat : Text) : Text → Bool
  | [] => pat.isEmpty
  | c :: cs => pat.isPrefixOf (c :: cs) || isInfix pat cs

def CHUNKED : Text := ['c', 'h', 'u', 'n', 'k', 'e', 'd']

/-- `clen` / `te`: values of the Content-Length / Transfer-Encoding headers (`none` = absent) -/
def entityLength (clen te : Option Text) : Option Int :=
  match clen with
  | none => none
  | some c => if isInfix CHUNKED (te.getD []) then none else pyInt c

/-! ### `Entity.process`: processor lookup -/

def tblGet (tbl : List (Text × Text)) (k : Text) : Option Text :=
  match tbl with
  | [] => none
  | (k', v) :: t => if k' = k then some v else tblGet t k

/-- `ct.split('/', 1)[0]` -/
def topType : Text → Text
  | [] => []
  | c :: cs => if c = '/' then [] else c :: topType cs

def DEFAULT_PROC : Text := ['d', 'e', 'f', 'a', 'u', 'l', 't', '_', 'p', 'r', 'o', 'c']

/-- (table key that matched or `none`, name of the function that runs) -/
def lookupProc (tbl : List (Text × Text)) (ct : Text) : Option Text × Text :=
  match tblGet tbl ct with
  | some f => (some ct, f)
  | none =>
    match tblGet tbl (topType ct) with
    | some f => (some (topType ct), f)
    | none => (none, DEFAULT_PROC)

/-! ### the `request` config namespace -/

inductive CfgVal where
  | none_
  | bool (b : Bool)
  | nat (n : Nat)
  | int (i : Int)
  | strs (l : List Text)
  deriving Repr, DecidableEq, Inhabited

structure Settings where
  processRequestBody : Bool
  methodsWithBodies : List Text
  maxbytes : Option Nat          -- `request.body.maxbytes`
  bufsize : Nat                  -- `request.body.bufsize`
  lengthOverride : Option (Option Int)   -- `request.body.length` assigned by config (after `__init__`)
  deriving Repr, DecidableEq, Inhabited

def defaults : Settings :=
  { processRequestBody := Gen.C05.processRequestBodyDefault,
    methodsWithBodies := Gen.C05.methodsWithBodies,
    maxbytes := Gen.C05.defaultMaxbytes,
    bufsize := Gen.C05.defaultBufsize,
    lengthOverride := none }

def K_PRB : Text := ['p', 'r', 'o', 'c', 'e', 's', 's', '_', 'r', 'e', 'q', 'u', 'e', 's', 't', '_', 'b', 'o', 'd', 'y']   -- process_request_body
def K_MWB : Text := ['m', 'e', 't', 'h', 'o', 'd', 's', '_', 'w', 'i', 't', 'h', '_', 'b', 'o', 'd', 'i', 'e', 's']   -- methods_with_bodies
def K_MAXBYTES : Text := ['b', 'o', 'd', 'y', '.', 'm', 'a', 'x', 'b', 'y', 't', 'e', 's']   -- body.maxbytes
def K_BUFSIZE : Text := ['b', 'o', 'd', 'y', '.', 'b', 'u', 'f', 's', 'i', 'z', 'e']   -- body.bufsize
def K_LENGTH : Text := ['b', 'o', 'd', 'y', '.', 'l', 'e', 'n', 'g', 't', 'h']   -- body.length

inductive NsKey where
  | prb | mwb | maxbytes | bufsize | length | other
  deriving Repr, DecidableEq, Inhabited

def nsKey (k : Text) : NsKey :=
  if k = K_PRB then .prb else if k = K_MWB then .mwb else if k = K_MAXBYTES then .maxbytes
  else if k = K_BUFSIZE then .bufsize else if k = K_LENGTH then .length else .other

def applyKey (st : Settings) : NsKey → CfgVal → Settings
  | .prb, .bool b => { st with processRequestBody := b }
  | .mwb, .strs l => { st with methodsWithBodies := l }
  | .maxbytes, .nat n => { st with maxbytes := some n }
  | .maxbytes, .none_ => { st with maxbytes := none }
  | .bufsize, .nat n => { st with bufsize := n }
  | .length, .nat n => { st with lengthOverride := some (some (Int.ofNat n)) }
  | .length, .int i => { st with lengthOverride := some (some i) }
  | .length, .none_ => { st with lengthOverride := some none }
  | _, _ => st

/-- `request_namespace(k, v)`: one `setattr`; keys are given without the `request.` prefix.  Only the
    attributes the body decision reads are tracked; a value of the wrong kind is not generated. -/
def applyNs (st : Settings) (k : Text) (v : CfgVal) : Settings := applyKey st (nsKey k) v

/-- `dict.update`: an existing key keeps its position and gets the new value -/
def dictSet (d : List (Text × CfgVal)) (k : Text) (v : CfgVal) : List (Text × CfgVal) :=
  match d with
  | [] => [(k, v)]
  | (k', v') :: t => if k' = k then (k', v) :: t else (k', v') :: dictSet t k v

def dictGet (d : List (Text × CfgVal)) (k : Text) : Option CfgVal :=
  match d with
  | [] => none
  | (k', v) :: t => if k' = k then some v else dictGet t k

/-- the request's merged config: global config, then the app's section of every prefix of the path,
    shortest first — each `dict.update`d over the previous ones -/
def mergeLevels (levels : List (List (Text × CfgVal))) : List (Text × CfgVal) :=
  levels.foldl (fun d lvl => lvl.foldl (fun d kv => dictSet d kv.1 kv.2) d) []

def effective (levels : List (List (Text × CfgVal))) : Settings :=
  (mergeLevels levels).foldl (fun st kv => applyNs st kv.1 kv.2) defaults

/-! ### `_do_respond` + `RequestBody.process` -/

structure ReqIn where
  method : Text
  clen : Option Text        -- Content-Length header (`none`: absent)
  te : Option Text          -- Transfer-Encoding header
  trailer : Bool            -- `'Trailer' in headers`
  ctype : Option Text       -- value of the first Content-Type element (`none`: no Content-Type header)
  deriving Repr, DecidableEq, Inhabited

inductive Decision where
  /-- `body.process()` is not called: `request.body.fp` stays the raw stream, nothing is read -/
  | skipped
  | err411
  /-- `SizedReader(fp, length, maxbytes, bufsize, has_trailers)`; processor = (matched key, function) -/
  | wrapped (length : Option Int) (maxbytes : Option Nat) (bufsize : Nat) (hasTrailers : Bool)
            (key : Option Text) (fn : Text)
  deriving Repr, DecidableEq, Inhabited

def decision (tbl : List (Text × Text)) (st : Settings) (r : ReqIn) : Decision :=
  if !(st.processRequestBody && st.methodsWithBodies.contains r.method) then .skipped
  else if r.clen.isNone && r.te.isNone then .err411
  else
    let len := match st.lengthOverride with
      | some l => l
      | none => entityLength r.clen r.te
    let p := lookupProc tbl (r.ctype.getD Gen.C05.requestBodyDefaultContentType)
    .wrapped len st.maxbytes st.bufsize r.trailer p.1 p.2

/-- The reader configuration the C05 theorems quantify over, for a wrapped body whose length is not
    negative (`int()` accepts a sign; a negative length makes every read return `b''`). -/
def cfgOf : Decision → Option Cfg
  | .wrapped len mb bs _ _ _ =>
    match len with
    | none => some { length := none, maxbytes := mb, bufsize := bs }
    | some (.ofNat n) => some { length := some n, maxbytes := mb, bufsize := bs }
    | some (.negSucc _) => none
  | _ => none

/-- `CPWSGIServer.__init__`: `self.max_request_body_size = adapter.max_request_body_size or 0` -/
def serverLimit (adapter : Option Nat) : Nat := adapter.getD 0

/-- One HTTP server among several: `_cpserver.Server` adapters (the global `cherrypy.server`, those made by
    `server.<name>.<key>` config entries, those constructed by hand) each hand THEIR OWN limits to the
    `CPWSGIServer` built by `httpserver_from_self()`; an attribute the adapter never got is the class
    default (`Gen.C05.serverMaxRequestBodySize` / `serverMaxRequestHeaderSize`).  `none` in `own` = not
    configured; `some none` / `some (some 0)` = configured `None` / 0 = no limit. -/
structure Adapter where
  body : Option (Option Nat)
  header : Option (Option Nat)
  deriving Repr, DecidableEq, Inhabited

def adapterBody (a : Adapter) : Option Nat := a.body.getD Gen.C05.serverMaxRequestBodySize
def adapterHeader (a : Adapter) : Option Nat := a.header.getD Gen.C05.serverMaxRequestHeaderSize

/-- (max_request_body_size, max_request_header_size) of the wsgi server of the `i`-th adapter; the global
    server is just one of the adapters -/
def wsgiLimits (adapters : List Adapter) (i : Nat) : Option (Nat × Nat) :=
  adapters[i]?.map fun a => (serverLimit (adapterBody a), serverLimit (adapterHeader a))

/-- is a body of `n` bytes refused by the server that received it? (0 = no limit) -/
def serverRefuses (limit n : Nat) : Bool := limit != 0 && decide (n > limit)

/-! ### `SizedReader.finish`: the trailer -/

/-- `bytes.title()`: ASCII letters only are cased -/
def titleB : Bool → Bytes → Bytes
  | _, [] => []
  | prevCased, b :: bs =>
    if 97 ≤ b && b ≤ 122 then (if prevCased then b else b - 32) :: titleB true bs
    else if 65 ≤ b && b ≤ 90 then (if prevCased then b + 32 else b) :: titleB true bs
    else b :: titleB false bs

abbrev Tr := List (Bytes × Bytes)

def trGet (tr : Tr) (k : Bytes) : Option Bytes :=
  match tr with
  | [] => none
  | (k', v) :: t => if k' = k then some v else trGet t k

def trSet (tr : Tr) (k v : Bytes) : Tr :=
  match tr with
  | [] => [(k, v)]
  | (k', v') :: t => if k' = k then (k', v) :: t else (k', v') :: trSet t k v

inductive TErr where
  | err413       -- the stream raised `MaxSizeExceeded`: `HTTPError(413)`
  | malformed    -- a line without a colon / a continuation line before any header line (ValueError,
                 -- UnboundLocalError, or 400 once C07's trailer-400 repair is in)
  | other        -- `read_trailer_lines()` itself failed (end of data, missing CRLF, its own size limit)
  deriving Repr, DecidableEq, Inhabited

/-- the `if k in comma_separated_headers: …; self.trailers[k] = v` part -/
def trStore (csh : List Bytes) (tr : Tr) (k v : Bytes) : Tr :=
  let v' := if csh.contains k then
      match trGet tr k with
      | some e => if e.isEmpty then v else e ++ [44, 32] ++ v
      | none => v
    else v
  trSet tr k v'

/-- body of the `for line in self.fp.read_trailer_lines()` loop; `k` = the current header name -/
def trailerStep (csh : List Bytes) (line : Bytes) (k : Option Bytes) (tr : Tr) : Except TErr (Option Bytes × Tr) :=
  match line with
  | [] => .error .malformed
  | c :: _ =>
    if c = 32 || c = 9 then
      match k with
      | none => .error .malformed
      | some k => .ok (some k, trStore csh tr k (strip line))
    else
      match splitColon line with
      | none => .error .malformed
      | some (k0, v0) =>
        let k := titleB false (strip k0)
        .ok (some k, trStore csh tr k (strip v0))

/-- `read_trailer_lines()` (environment, cheroot's contract) consumed lazily by the loop of `finish`:
    `tail` = the lines on the connection behind the body; `failAt = some i`: fetching the i-th next line
    raises (`maxSize`: the class is named `MaxSizeExceeded`).  Result, trailers, what is left of the
    connection, the failure event still pending. -/
def trailerLoop (csh : List Bytes) (maxSize : Bool) :
    List Bytes → Option Nat → Option Bytes → Tr → Option TErr × Tr × List Bytes × Option Nat
  | [], fa, _, tr => (some .other, tr, [], fa)
  | line :: rest, fa, k, tr =>
    if fa = some 0 then (some (if maxSize then .err413 else .other), tr, rest, none)
    else if line = CRLF then (none, tr, rest, fa.map (· - 1))
    else if !endsWith line CRLF then (some .other, tr, rest, fa.map (· - 1))
    else match trailerStep csh line k tr with
      | .error e => (some e, tr, rest, fa.map (· - 1))
      | .ok (k', tr') => trailerLoop csh maxSize rest (fa.map (· - 1)) k' tr'

structure TState where
  hasTrailers : Bool          -- `'Trailer' in headers`
  hasMethod : Bool            -- the stream has `read_trailer_lines`
  read : Bool                 -- the trailer has been read
  trailers : Option Tr        -- `SizedReader.trailers` (`none`: attribute never set)
  tail : List Bytes           -- lines on the connection behind the body
  failAt : Option Nat
  maxSize : Bool
  deriving Repr, DecidableEq, Inhabited

/-- one call of `finish()` as far as the trailer is concerned (`done = True` is `Reader.finish`) -/
def finishT (csh : List Bytes) (once : Bool) (t : TState) : Option TErr × TState :=
  if t.hasTrailers && t.hasMethod && !(once && t.read) then
    let (e, tr, tail', fa') := trailerLoop csh t.maxSize t.tail t.failAt none []
    (e, { t with read := true, trailers := some tr, tail := tail', failAt := fa' })
  else (none, t)

/-- `n` calls of `finish()`; stops at the first one that raises -/
def finishN (csh : List Bytes) (once : Bool) : Nat → TState → Option TErr × TState
  | 0, t => (none, t)
  | n + 1, t =>
    match finishT csh once t with
    | (some e, t1) => (some e, t1)
    | (none, t1) => finishN csh once n t1

/-! ### an operation history on a chunked body with a trailer behind it -/

inductive OutT where
  | op (o : OutX)
  | trailerErr (e : TErr)     -- the operation was aborted by what `finish()` raised while reading the trailer
  deriving Repr, DecidableEq, Inhabited

/-- Every operation is a `stepX`; each `finish()` call it made (ghost count `fins`) reads the trailer.
    The history stops at the first trailer error (the reader has no limit here, so it is the only
    error). -/
def runT (cfg : Cfg) (csh : List Bytes) (once : Bool) : St → TState → List OpX → List OutT × St × TState
  | s, t, [] => ([], s, t)
  | s, t, op :: ops =>
    let (o, s1) := stepX cfg s op
    match finishN csh once (s1.fins - s.fins) t with
    | (some e, t1) => ([.trailerErr e], s1, t1)
    | (none, t1) =>
      let (os, s2, t2) := runT cfg csh once s1 t1 ops
      (.op o :: os, s2, t2)

end CpModel.ReaderProcess
