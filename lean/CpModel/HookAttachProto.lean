import CpModel.Proto
import CpModel.PipelineProto
import CpModel.HookAttach
/-!
  Line protocol of the C09 driver for the attachment model (`CpModel.HookAttach`).  Lines that do not start
  with one of the keywords below are fault plans and go to `CpModel.PipelineProto.step`.

      attach NS CLS CBS TOOLS CONF
      NS    = comma list of  h | r | t<k> | o                      request.namespaces, handler order
      CLS   = - | HOOK;HOOK…     HOOK = <point>:<cb>:<fsVAL>:<prioVAL>:<KW>
                                                                    class-level Hook(cb, failsafe=, priority=, **kw)
      CBS   = - | <cbref>:<prioattr>:<fsattr>;…   attr = - (absent) | VAL;  cbref = u<id> | w<id> | l<id>
      TOOLS = - | <box>:<name>:<kind p|h|e|c|s>:<point>:<cb>:<prioVAL>;…
      CONF  = - | ENTRY;ENTRY…                                     the effective config, in order
        ENTRY = H<point>:<cb>:<fsVAL>:<prioVAL>:<KW> | B<point>:<cb> | D<point>:<cb> | E<cb>
              | T<box>:<name>:<KEY>:<VAL> | O<ns>
      KW    = - | KEY=VAL+KEY=VAL…      KEY = on | priority | failsafe | locking | k<n>
      VAL   = N | b0 | b1 | i<int> | f<quarters> | s | s<cp>_<cp>…

  Output: `X` (a tool named in config is missing from its toolbox) or
      A=<point>:<cbref>:<prioVAL>:<fsVAL>:<KW>;…     request.hooks in attachment order
      E=<N|cb>                                        request.error_response (N = default)
      M=<box>:<name>:<KW>;…                          request.toolmaps
      S=<point>:<T | i.j.k…>;…                       sorted(hooks[point]) as positions in hooks[point] (points with hooks)
      R=<T | rank.fs;…>                              natural-number priority code / fail-safe bit per entry of A

      heap N CLS ATT|ATT|…     N requests of one request class with class-level hooks CLS, each attaching ATT
      (HOOK lists): prints the class-level lists afterwards and each request's lists (`cbref` per point)
-/
namespace CpModel.HookAttachProto
open CpModel CpModel.Pipeline CpModel.HookAttach CpModel.PipelineProto

def parseInt (s : String) : Option Int :=
  if s.startsWith "-" then (s.drop 1).toString.toNat?.map (fun n => - (Int.ofNat n)) else s.toNat?.map Int.ofNat

def parseVal (s : String) : Option Val :=
  if s == "N" then some .none
  else if s == "b0" then some (.bool false)
  else if s == "b1" then some (.bool true)
  else if s.startsWith "i" then (parseInt (s.drop 1).toString).map .int
  else if s.startsWith "f" then (parseInt (s.drop 1).toString).map .float
  else if s == "s" then some (.str [])
  else if s.startsWith "s" then (((s.drop 1).toString.splitOn "_").mapM (fun (t : String) => t.toNat?)).map .str
  else none

def showVal : Val → String
  | .none => "N"
  | .bool b => if b then "b1" else "b0"
  | .int i => s!"i{i}"
  | .float q => s!"f{q}"
  | .str s => "s" ++ "_".intercalate (s.map toString)

def parseKey (s : String) : Option Key :=
  if s == "on" then some .on else if s == "priority" then some .priority
  else if s == "failsafe" then some .failsafe else if s == "locking" then some .locking
  else if s.startsWith "k" then (s.drop 1).toString.toNat?.map .other else none

def showKey : Key → String
  | .on => "on" | .priority => "priority" | .failsafe => "failsafe" | .locking => "locking"
  | .other n => s!"k{n}"

def parseKw (s : String) : Option Conf :=
  if s == "-" then some [] else
  (s.splitOn "+").mapM fun kv => match kv.splitOn "=" with
    | [k, v] => do pure (← parseKey k, ← parseVal v)
    | _ => none

def showKw (c : Conf) : String :=
  if c.isEmpty then "-" else "+".intercalate (c.map fun (k, v) => showKey k ++ "=" ++ showVal v)

def parsePoint (s : String) : Option Point := s.toNat?.bind pointOfNat

def parseCb (s : String) : Option Cb :=
  if s == "ss" then some .sessionsSave else if s == "sc" then some .sessionsClose
  else if s.startsWith "u" then (s.drop 1).toString.toNat?.map .user
  else if s.startsWith "w" then (s.drop 1).toString.toNat?.map .wrapper
  else if s.startsWith "l" then (s.drop 1).toString.toNat?.map .lock
  else none

def showCb : Cb → String
  | .user n => s!"u{n}" | .wrapper n => s!"w{n}" | .lock n => s!"l{n}"
  | .sessionsSave => "ss" | .sessionsClose => "sc"

def parseNs (s : String) : Option Ns :=
  if s == "h" then some .hooks else if s == "r" then some .request else if s == "o" then some .other
  else if s.startsWith "t" then (s.drop 1).toString.toNat?.map .toolbox else none

def parseList {α} (s : String) (f : String → Option α) : Option (List α) :=
  if s == "-" then some [] else (s.splitOn ";").mapM f

def parseKind (s : String) : Option Kind :=
  if s == "p" then some .plain else if s == "h" then some .handler else if s == "e" then some .error
  else if s == "c" then some .caching else if s == "s" then some .session else none

def parseTool (s : String) : Option (Nat × Tool) :=
  match s.splitOn ":" with
  | [b, n, k, p, cb, pr] => do
    pure (← b.toNat?, { name := ← n.toNat?, kind := ← parseKind k, point := ← parsePoint p, cb := ← cb.toNat?,
                         prio := ← parseVal pr })
  | _ => none

def parseAttr (s : String) : Option (Option Val) := if s == "-" then some none else (parseVal s).map some

def parseCbAttrs (s : String) : Option (Cb × Attrs) :=
  match s.splitOn ":" with
  | [c, p, f] => do pure (← parseCb c, { prio := ← parseAttr p, failsafe := ← parseAttr f })
  | _ => none

/-- a Hook object given by its constructor arguments -/
def parseHookArgs (s : String) : Option (Point × Nat × Val × Val × Conf) :=
  match s.splitOn ":" with
  | [p, cb, fs, pr, kw] => do pure (← parsePoint p, ← cb.toNat?, ← parseVal fs, ← parseVal pr, ← parseKw kw)
  | _ => none

def parseEntry (s : String) : Option Entry :=
  let body := (s.drop 1).toString
  if s.startsWith "H" then (parseHookArgs body).map fun (p, cb, fs, pr, kw) => .hook p (.hookObj cb fs pr kw)
  else if s.startsWith "B" then match body.splitOn ":" with
    | [p, cb] => do pure (.hook (← parsePoint p) (.callable (← cb.toNat?)))
    | _ => none
  else if s.startsWith "D" then match body.splitOn ":" with
    | [p, cb] => do pure (.hook (← parsePoint p) (.dotted (← cb.toNat?)))
    | _ => none
  else if s.startsWith "E" then body.toNat?.map .errorResponse
  else if s.startsWith "T" then match body.splitOn ":" with
    | [b, n, k, v] => do pure (.tool (← b.toNat?) (← n.toNat?) (← parseKey k) (← parseVal v))
    | _ => none
  else if s.startsWith "O" then (parseNs body).map .other
  else none

/-- attributes of `cherrypy.lib.sessions.save` / `.close` (generated table) -/
def codeAttrs (a : Option (Nat × Int) × Option (Nat × Int)) : Attrs :=
  { prio := a.1.map valOfCode, failsafe := a.2.map valOfCode }

def attrsOf (tab : List (Cb × Attrs)) (c : Cb) : Attrs :=
  match c with
  | .sessionsSave => codeAttrs Gen.C09.sessionsSaveAttrs
  | .sessionsClose => codeAttrs Gen.C09.sessionsCloseAttrs
  | c => ((tab.find? (·.1 = c)).map (·.2)).getD {}

def showHook (p : Point) (h : AHook) : String :=
  s!"{Point.toNat p}:{showCb h.cb}:{showVal h.prio}:{showVal h.failsafe}:{showKw h.kwargs}"

def joinOr (l : List String) : String := if l.isEmpty then "-" else ";".intercalate l

/-- the hooks of point `p` with their positions in `hooks[p]` -/
def positionsAt (hooks : List (Point × AHook)) (p : Point) : List (Nat × AHook) :=
  let l := (hooks.filter (·.1 = p)).map (·.2)
  (List.range l.length).zip l

/-- `sorted(hooks[p])` as positions in `hooks[p]`; the sort is run on hooks made distinguishable by their
    position (kwargs carry it; `sortedHooks` does not look at kwargs). -/
def sortedPositions (hooks : List (Point × AHook)) (p : Point) : Option (List Nat) :=
  let tagged := (positionsAt hooks p).map fun (i, h) => { h with kwargs := [(Key.other i, Val.none)] }
  (sortedHooks tagged).map fun l => l.filterMap fun h => match h.kwargs with
    | [(Key.other i, _)] => some i
    | _ => none

def showSorted (hooks : List (Point × AHook)) : String :=
  joinOr (allPoints.filterMap fun p =>
    if (positionsAt hooks p).isEmpty then none else
    some (s!"{Point.toNat p}:" ++ match sortedPositions hooks p with
      | none => "T"
      | some l => ".".intercalate (l.map toString)))

def showRanks (hooks : List (Point × AHook)) : String :=
  let hs := hooks.map (·.2)
  if hs.all (·.prio.num?.isSome) then
    let base := minQ hs
    joinOr (hs.map fun h => s!"{rank base h}.{b01 h.failsafe.truthy}")
  else "T"

def stepAttach (toks : List String) : String :=
  match toks with
  | [ns, cls, cbs, tools, conf] =>
    let r : Option String := do
      let nsOrder ← (ns.splitOn ",").mapM parseNs
      let clsArgs ← parseList cls parseHookArgs
      let tab ← parseList cbs parseCbAttrs
      let tls ← parseList tools parseTool
      let config ← parseList conf parseEntry
      let attrs := attrsOf tab
      let env : Env := { attrs := attrs, nsOrder := nsOrder,
                         toolboxes := fun b => (tls.filter (·.1 = b)).map (·.2) }
      let clsHooks := clsArgs.map fun (p, cb, fs, pr, kw) => (p, mkHook attrs (.user cb) fs pr kw)
      match attachAll env clsHooks config with
      | none => pure "X"
      | some r =>
        let a := joinOr (r.hooks.map fun (p, h) => showHook p h)
        let e := match r.errorResponse with | none => "N" | some c => toString c
        let m := joinOr (r.toolmaps.flatMap fun (b, tm) => tm.map fun (n, c) => s!"{b}:{n}:{showKw c}")
        pure s!"A={a} E={e} M={m} S={showSorted r.hooks} R={showRanks r.hooks}"
    r.getD "bad-op"
  | _ => "bad-op"

def showLists (h : Heap) (m : HMap) : String :=
  ",".intercalate (allPoints.map fun p => ".".intercalate ((h.read (m p)).map fun x => showCb x.cb))

def stepHeap (toks : List String) : String :=
  match toks with
  | [cls, atts] =>
    let r : Option String := do
      let clsArgs ← parseList cls parseHookArgs
      let reqs ← (atts.splitOn "|").mapM fun a => parseList a parseHookArgs
      let mk := fun (l : List (Point × Nat × Val × Val × Conf)) =>
        l.map fun (p, cb, fs, pr, kw) => (p, mkHook (fun _ => {}) (.user cb) fs pr kw)
      -- the class-level HookMap: eight list objects, then the class-level attachments
      let h0 : Heap := { cells := allPoints.map fun _ => [] }
      let clsMap : HMap := pointIdx
      let h1 := appendAll h0 clsMap (mk clsArgs)
      let (h2, maps) := serveAll h1 clsMap (reqs.map mk)
      pure (s!"C={showLists h2 clsMap} " ++ " ".intercalate (maps.map fun m => s!"Q={showLists h2 m}"))
    r.getD "bad-op"
  | _ => "bad-op"

def step (line : String) : String :=
  match Proto.fields line with
  | "attach" :: rest => stepAttach rest
  | "heap" :: rest => stepHeap rest
  | _ => PipelineProto.step line

end CpModel.HookAttachProto
