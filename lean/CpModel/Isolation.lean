/-
  Aliasing model for C10 (requests are isolated from one another across time and threads).
  Core Lean only.

  What is modelled
  * A store of *cells with identity* (`Addr`): process-lifetime cells (`ClassCell`: the class-level
    collections `Request.hooks/error_page/namespaces/toolmaps/params/headers/header_list/cookie/local/remote`,
    `Response.headers/cookie/header_list`, `Entity.processors/attempt_charsets`, the application- and
    WSGI-level class dicts, the global config, and the collections of the default request/response
    objects that `cherrypy.serving` falls back to when nothing is loaded) and per-request cells
    `obj rid slot` (one per collection attribute `Slot` of the Request / Response / RequestBody that
    `Application.get_serving` + `Request.run` + `_do_respond` build for request number `rid`).
  * The construction of a request is a TABLE `Slot → Src`: every attribute is a FRESH object
    (`{}`, `.copy()`, `[:]`, a constructor call; optionally initialised from a class-level cell), an
    ALIAS of a process-lifetime cell, or an alias of another attribute of the same request
    (`body.headers is request.headers`).  The table is not written by hand: it is regenerated on
    every run by introspecting live request objects (`CpModel/Gen/C10Tables.lean`).  Config-driven
    entries of the URL (`conf u s`: hooks / tools / error pages / headers the site enables for that
    path) are written into whatever cell the attribute denotes - into the class-level cell when the
    table says alias, which is how a dropped `.copy()` pollutes later requests even without any
    handler doing anything.
  * `serving : thread → Option rid` with `load` (begin) / `clear` (done), and the ad-hoc attributes
    of the serving container itself (`sattrs`).  Whether the container is really per-thread and
    whether release really clears it are `Lifecycle` facts, also introspected.
  * Request-side operations: `mutate t slot op` = any write (`add`/`del`/`clear`) to the cell that
    `slot` denotes for the request currently loaded on thread `t`; with nothing loaded the write
    goes to the default objects, i.e. to class-level state, exactly as `cherrypy.request.x[...] = …`
    does outside a request.
  Not modelled: what the entries mean (hooks are not run here; C09 does that), deep mutation
  inside shared config *values*, C-level `threading.local`.
-/
namespace CpModel.Isolation

/-- Process-lifetime collections. -/
inductive ClassCell where
  | reqHooks | reqHookLists | reqErrorPage | reqNamespaces | reqToolmaps | reqParams | reqHeaders
  | reqHeaderList | reqCookie | reqLocal | reqRemote | respHeaders | respCookie | respHeaderList
  | entProcessors | entAttemptCharsets | partAttemptCharsets
  | appConfig | appNamespaces | appToolboxes | wsgiPipeline | wsgiConfig | hookKwargs | globalConfig
  | defReq | defResp | defReqErrorPage | defReqNamespaces | defRespHeaders | defRespCookie | defRespBody
  | other
  deriving DecidableEq, Repr, Inhabited

/-- Per-request collection attributes (the object's own `__dict__` for the three objects). -/
inductive Slot where
  | reqObj | respObj | bodyObj
  | hooks | hookLists | errorPage | namespaces | toolmaps | toolmapTools
  | params | headers | headerList | cookie | config | uniqueId | local | remote
  | respHeaders | respCookie | respBody
  | processors | attemptCharsets | bodyParams | parts | bodyHeaders | requestParams
  deriving DecidableEq, Repr, Inhabited

def Slot.all : List Slot :=
  [.reqObj, .respObj, .bodyObj, .hooks, .hookLists, .errorPage, .namespaces, .toolmaps, .toolmapTools,
   .params, .headers, .headerList, .cookie, .config, .uniqueId, .local, .remote, .respHeaders, .respCookie, .respBody,
   .processors, .attemptCharsets, .bodyParams, .parts, .bodyHeaders, .requestParams]

theorem Slot.mem_all (s : Slot) : s ∈ Slot.all := by cases s <;> decide

/-- Where an attribute of a new request comes from. -/
inductive Src where
  | fresh (copyOf : Option ClassCell)
  | aliasClass (c : ClassCell)
  | aliasSlot (s : Slot)
  deriving DecidableEq, Repr, Inhabited

abbrev Table := Slot → Src

/-- Cell identity. -/
inductive Addr where
  | cls (c : ClassCell)
  | obj (rid : Nat) (s : Slot)
  deriving DecidableEq, Repr, Inhabited

abbrev Heap := Addr → List Nat

/-- The cell an attribute of request `rid` denotes. (`aliasSlot` is resolved one level; the generator
    always names the root attribute.) -/
def cellOf (tbl : Table) (rid : Nat) (s : Slot) : Addr :=
  match tbl s with
  | .fresh _ => .obj rid s
  | .aliasClass c => .cls c
  | .aliasSlot s' =>
    match tbl s' with
    | .aliasClass c => .cls c
    | _ => .obj rid s'

/-- The attribute whose object `s` denotes (itself unless it aliases another attribute). -/
def root (tbl : Table) (s : Slot) : Slot :=
  match tbl s with
  | .aliasSlot s' => s'
  | _ => s

/-- A table under which every attribute denotes a cell owned by the request. -/
def Src.ok (tbl : Table) : Src → Bool
  | .fresh _ => true
  | .aliasClass _ => false
  | .aliasSlot s' => match tbl s' with | .fresh _ => true | _ => false

def TableOK (tbl : Table) : Prop := ∀ s, (tbl s).ok tbl = true

def tableOKb (tbl : Table) : Bool := Slot.all.all fun s => (tbl s).ok tbl

theorem tableOK_of_b {tbl : Table} (h : tableOKb tbl = true) : TableOK tbl := by
  intro s
  exact (List.all_eq_true.mp h) s (Slot.mem_all s)

/-- Lifecycle facts of the serving container (introspected, like the table). -/
structure Lifecycle where
  threadLocal : Bool      -- a request loaded on one thread is not what another thread sees
  releaseClears : Bool    -- `release_serving` empties the container
  deriving DecidableEq, Repr, Inhabited

inductive Op where
  | add (i : Nat) | del (i : Nat) | clear
  deriving DecidableEq, Repr, Inhabited

def Op.apply : Op → List Nat → List Nat
  | .add i, xs => xs ++ [i]
  | .del i, xs => xs.filter (· ≠ i)
  | .clear, _ => []

/-- What a mutate op is aimed at: a collection attribute, or the serving container itself. -/
inductive Target where
  | slot (s : Slot)
  | serving
  deriving DecidableEq, Repr, Inhabited

inductive Ev where
  | begin (t : Nat) (u : Nat)
  | mutate (t : Nat) (tg : Target) (op : Op)
  | done (t : Nat)
  deriving DecidableEq, Repr, Inhabited

/-- The site: which entries the configuration in force for URL `u` puts into attribute `s`. -/
abbrev Conf := Nat → Slot → List Nat

structure Params where
  tbl : Table
  dflt : Slot → Option ClassCell      -- attribute of the DEFAULT request/response (nothing loaded)
  lc : Lifecycle
  conf : Conf

structure State where
  next : Nat
  heap : Heap
  serving : Nat → Option Nat
  sattrs : Nat → List Nat

def State.init (h : Heap) : State := { next := 0, heap := h, serving := fun _ => none, sattrs := fun _ => [] }

def upd {α : Type} (f : Nat → α) (k : Nat) (v : α) : Nat → α := fun x => if x = k then v else f x

def hupd (h : Heap) (a : Addr) (v : List Nat) : Heap := fun x => if x = a then v else h x

/-- The key under which thread `t` finds its serving entry. -/
def key (lc : Lifecycle) (t : Nat) : Nat := if lc.threadLocal then t else 0

/-- Entries written into a class-level cell because some attribute aliases it. -/
def aliasedConf (tbl : Table) (conf : Conf) (u : Nat) (c : ClassCell) : List Nat :=
  (Slot.all.filter fun s => tbl s = .aliasClass c).flatMap (conf u)

def copyOf (h : Heap) : Option ClassCell → List Nat
  | none => []
  | some c => h (.cls c)

/-- Heap after building request `rid` for URL `u`. -/
def build (p : Params) (h : Heap) (rid u : Nat) : Heap := fun a =>
  match a with
  | .obj r s =>
    if r = rid then
      match p.tbl s with
      | .fresh k => copyOf h k ++ p.conf u s
      | _ => h a
    else h a
  | .cls c => h a ++ aliasedConf p.tbl p.conf u c

/-- The cell a mutate op of thread `t` hits. `none`: the attribute does not exist there (the op raises). -/
def target (p : Params) (st : State) (t : Nat) (s : Slot) : Option Addr :=
  match st.serving (key p.lc t) with
  | some rid => some (cellOf p.tbl rid s)
  | none => (p.dflt s).map .cls

def step (p : Params) (st : State) : Ev → State
  | .begin t u =>
    { st with next := st.next + 1, heap := build p st.heap st.next u,
              serving := upd st.serving (key p.lc t) (some st.next) }
  | .mutate t (.slot s) op =>
    match target p st t s with
    | some a => { st with heap := hupd st.heap a (op.apply (st.heap a)) }
    | none => st
  | .mutate t .serving op => { st with sattrs := upd st.sattrs (key p.lc t) (op.apply (st.sattrs (key p.lc t))) }
  | .done t =>
    if p.lc.releaseClears then
      { st with serving := upd st.serving (key p.lc t) none, sattrs := upd st.sattrs (key p.lc t) [] }
    else st

def run (p : Params) (st : State) : List Ev → State
  | [] => st
  | e :: es => run p (step p st e) es

/-- What the request loaded on thread `t` observes: contents of every attribute (+ serving attributes). -/
def observe (p : Params) (st : State) (t : Nat) (s : Slot) : Option (List Nat) :=
  (target p st t s).map st.heap

/-- Well-formed history: requests mutate only while they are loaded (the property speaks about what
    *requests* set; code running outside any request writes to the default objects). -/
def WF (p : Params) (st : State) : List Ev → Prop
  | [] => True
  | e :: es =>
    (match e with
     | .mutate t _ _ => st.serving (key p.lc t) ≠ none
     | _ => True) ∧ WF p (step p st e) es

end CpModel.Isolation
