import CpModel.Isolation
/-
  Application-level part of the C10 aliasing model: what `Application.__init__` / `CPWSGIApp.__init__`
  build for a new application.  Same idea as `Isolation`: every collection attribute of an application is,
  per a TABLE obtained by introspecting live Application objects, either a fresh object (initialised from
  the class-level one) or the class-level object itself.  Operations: `newApp` and `write a slot op`
  (what `app.merge(config)` does through the `log.` / `wsgi.` namespace handlers, `app.config[...] = …`,
  `app.toolboxes[...] = …`).  Core Lean only.
-/
namespace CpModel.Isolation

inductive AppSlot where
  | config | namespaces | toolboxes | pipeline | wsgiConfig | log
  deriving DecidableEq, Repr, Inhabited

def AppSlot.all : List AppSlot := [.config, .namespaces, .toolboxes, .pipeline, .wsgiConfig, .log]

theorem AppSlot.mem_all (s : AppSlot) : s ∈ AppSlot.all := by cases s <;> decide

inductive AppSrc where
  | fresh (copyOf : Option ClassCell)
  | aliasClass (c : ClassCell)
  deriving DecidableEq, Repr, Inhabited

abbrev AppTable := AppSlot → AppSrc

inductive AAddr where
  | cls (c : ClassCell)
  | app (aid : Nat) (s : AppSlot)
  deriving DecidableEq, Repr, Inhabited

abbrev AHeap := AAddr → List Nat

def appCell (tbl : AppTable) (aid : Nat) (s : AppSlot) : AAddr :=
  match tbl s with
  | .fresh _ => .app aid s
  | .aliasClass c => .cls c

inductive AEv where
  | newApp
  | write (aid : Nat) (s : AppSlot) (op : Op)
  deriving DecidableEq, Repr, Inhabited

structure AState where
  next : Nat
  heap : AHeap

def ahupd (h : AHeap) (a : AAddr) (v : List Nat) : AHeap := fun x => if x = a then v else h x

def abuild (tbl : AppTable) (h : AHeap) (aid : Nat) : AHeap := fun a =>
  match a with
  | .app r s =>
    if r = aid then
      match tbl s with
      | .fresh (some c) => h (.cls c)
      | .fresh none => []
      | .aliasClass _ => h a
    else h a
  | .cls _ => h a

def astep (tbl : AppTable) (st : AState) : AEv → AState
  | .newApp => { next := st.next + 1, heap := abuild tbl st.heap st.next }
  | .write aid s op =>
    let a := appCell tbl aid s
    { st with heap := ahupd st.heap a (op.apply (st.heap a)) }

def arun (tbl : AppTable) (st : AState) : List AEv → AState
  | [] => st
  | e :: es => arun tbl (astep tbl st e) es

/-- The attributes that are per-application under `tbl`. -/
def AppSlot.isolated (tbl : AppTable) (s : AppSlot) : Bool :=
  match tbl s with
  | .fresh _ => true
  | .aliasClass _ => false

end CpModel.Isolation
