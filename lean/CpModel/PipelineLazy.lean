/-
  `CPWSGIApp.__call__`: the WSGI pipeline of an application (ExceptionTrapper, InternalRedirector, configured
  middleware; `n` layers around the tail) is assembled lazily by the first call and memoized in `self.head`.
  Any number of threads may make "first" calls at the same time.  Core Lean only.

      head = self.head                      -- read
      if head is None:
          head = self.tail                  -- local
          for name, callable in self.pipeline[::-1]:
              head = callable(head, **conf) -- wrap (local)
          self.head = head                  -- publish
      return head(environ, start_response)  -- call

  The value of `head` is abstracted to the NUMBER OF LAYERS wrapped around the tail (`n` = complete).  A thread
  step is one access to the shared attribute or one local wrapping.  `inPlace = true` is the variant that keeps
  the partial chain in `self.head` itself (`self.head = self.tail; for …: self.head = callable(self.head)`):
  every other thread sees the chain while it grows.
-/
namespace CpModel.PipelineLazy

inductive Pc where
  | start                 -- about to read self.head
  | build (k : Nat)       -- building, k layers wrapped so far (local variable; in-place: mirrors self.head)
  | ready (k : Nat)       -- holds the chain it is going to call (k layers)
  | called (k : Nat)      -- has called a chain of k layers
  deriving DecidableEq, Repr, Inhabited

structure State where
  head : Option Nat       -- self.head: None or a chain of that many layers
  pcs : List Pc           -- one entry per thread
  deriving DecidableEq, Repr, Inhabited

def init (threads : Nat) : State := { head := none, pcs := List.replicate threads .start }

/-- one step of thread `t` of the code as written (build in a local, publish once) -/
def stepLocal (n : Nat) (s : State) (t : Nat) : State :=
  match s.pcs[t]? with
  | none => s
  | some pc =>
    match pc with
    | .start =>
      match s.head with
      | some k => { s with pcs := s.pcs.set t (.ready k) }
      | none => { s with pcs := s.pcs.set t (.build 0) }
    | .build k =>
      if k < n then { s with pcs := s.pcs.set t (.build (k + 1)) }
      else { head := some k, pcs := s.pcs.set t (.ready k) }       -- self.head = head
    | .ready k => { s with pcs := s.pcs.set t (.called k) }
    | .called _ => s

/-- one step of thread `t` of the in-place variant (`self.head` holds the growing chain) -/
def stepInPlace (n : Nat) (s : State) (t : Nat) : State :=
  match s.pcs[t]? with
  | none => s
  | some pc =>
    match pc with
    | .start =>
      match s.head with
      | some k => { s with pcs := s.pcs.set t (.ready k) }          -- `if self.head is None` false: call self.head
      | none => { head := some 0, pcs := s.pcs.set t (.build 0) }   -- self.head = self.tail
    | .build k =>
      if k < n then
        -- self.head = callable(self.head): one more layer around whatever self.head is now
        let cur := (s.head.getD 0) + 1
        { head := some cur, pcs := s.pcs.set t (.build (k + 1)) }
      else { s with pcs := s.pcs.set t (.ready (s.head.getD 0)) }   -- return self.head(...)
    | .ready k => { s with pcs := s.pcs.set t (.called k) }
    | .called _ => s

def runLocal (n : Nat) (s : State) : List Nat → State
  | [] => s
  | t :: ts => runLocal n (stepLocal n s t) ts

def runInPlace (n : Nat) (s : State) : List Nat → State
  | [] => s
  | t :: ts => runInPlace n (stepInPlace n s t) ts

/-- the threads that assembled a chain of their own (their read of `self.head` saw None), in schedule order -/
def builders (n : Nat) (s : State) : List Nat → List Nat
  | [] => []
  | t :: ts =>
    let rest := builders n (stepLocal n s t) ts
    if s.pcs[t]? = some .start ∧ s.head = none then t :: rest else rest

def showPc : Pc → String
  | .start => "s"
  | .build k => s!"b{k}"
  | .ready k => s!"r{k}"
  | .called k => s!"c{k}"

/-- driver line `L <n> <threads> <t t t …>` -> `head=<k|N> pcs=<..> builders=<count>` -/
def driverLine (toks : List String) : String :=
  match toks with
  | n :: th :: sched =>
    match n.toNat?, th.toNat?, sched.mapM String.toNat? with
    | some n, some th, some sched =>
      let s := runLocal n (init th) sched
      let h := match s.head with | none => "N" | some k => toString k
      s!"head={h} pcs={",".intercalate (s.pcs.map showPc)} builders={(builders n (init th) sched).length}"
    | _, _, _ => "bad-op"
  | _ => "bad-op"

/-- what must hold of every chain anybody holds or has called -/
def pcOk (n : Nat) : Pc → Prop
  | .start => True
  | .build k => k ≤ n
  | .ready k => k = n
  | .called k => k = n

def Inv (n : Nat) (s : State) : Prop :=
  (∀ k, s.head = some k → k = n) ∧ (∀ pc ∈ s.pcs, pcOk n pc)

end CpModel.PipelineLazy
