import CpModel.Gen.PipelineTables
/-
  Model of `cherrypy._cprequest.Hook`, `HookMap.run`, `HookMap.run_hooks`, transcribed statement
  by statement.  Core Lean only.  Shared by C09 (hook order / fail-safe / end hooks) and C01.

  What is modelled
  * an *outcome* `Out` of any user-supplied callback (hook, handler, dispatcher, namespace handler,
    body processor, error_response, …): it returns, or it executes `raise HTTPError(c)`,
    `raise HTTPRedirect(url, c)`, `raise InternalRedirect(page t)`, or raises some other `Exception`.
    `KeyboardInterrupt` / `SystemExit` are excluded by the properties.
  * what actually emerges from such a `raise` statement (`Out.raised`): the constructors validate
    their status argument — `HTTPError(c)` with `c` rejected by `valid_status` becomes `HTTPError(500)`
    (the constructor re-raises its own class with 500), with an accepted `c` outside 400..599 it is a
    plain `ValueError`; `HTTPRedirect(url, c)` with `c` outside 300..399 is a plain `ValueError`.  The
    ranges are the generated tables `CpModel.Gen.Pipeline.*` (obtained by running the constructors over
    0..1199 on every check run).
  * a hook = identity + `priority` + `failsafe` + outcome (the same on every call).
  * `sorted(self[point])` with `Hook.__lt__` comparing priorities only: a stable insertion sort
    (structural, so it reduces in the kernel).
  * `run_hooks`: the `for` loop over a *shared iterator*, `safe = filter(failsafe, hooks)` consuming the
    same iterator, the recursive `cls.run_hooks(safe)` in both `except` branches followed by `raise`.
    Python semantics used: an exception raised inside an `except` block replaces the one being
    handled; a bare `raise` after a normally returning recursive call re-raises the handled one.
    Hence the exception that leaves `run_hooks` is the **last** one raised.
  Not modelled: hooks that mutate the hook list they are in; `Hook.kwargs`; the log call
  (`cherrypy.log(traceback=True)` — assumed not to raise).
-/
namespace CpModel.Hooks
open CpModel.Gen.Pipeline

/-- membership in a list of inclusive ranges (the generated tables) -/
def inRanges (rs : List (Nat × Nat)) (n : Nat) : Bool := rs.any fun r => r.1 ≤ n && n ≤ r.2

/-- What a user callback does. -/
inductive Out where
  | ok
  | httpError (code : Nat)
  | httpRedirect (code : Nat)
  | internalRedirect (target : Nat)
  | exc
  deriving DecidableEq, Repr, Inhabited

/-- A raised exception, as far as the request pipeline distinguishes classes. -/
inductive Exn where
  | httpError (code : Nat)
  | httpRedirect (code : Nat)
  | internalRedirect (target : Nat)
  | exc
  deriving DecidableEq, Repr, Inhabited

/-- What emerges from the callback (constructor validation of `HTTPError` / `HTTPRedirect`). -/
def Out.raised : Out → Option Exn
  | .ok => none
  | .httpError c =>
    if inRanges httpErrorOkRanges c then some (.httpError c)
    else if inRanges httpErrorExcRanges c then some .exc    -- ValueError('status must be between 400 and 599.')
    else some (.httpError httpErrorFallbackCode)             -- ValueError in valid_status → cls(500, msg)
  | .httpRedirect c =>
    if inRanges httpRedirectOkRanges c then some (.httpRedirect c) else some .exc
  | .internalRedirect t => some (.internalRedirect t)
  | .exc => some .exc

structure Hook where
  id : Nat
  prio : Nat
  failsafe : Bool
  out : Out
  deriving DecidableEq, Repr, Inhabited

/-- insert `h` *before* equal priorities (it came first in the input). -/
def insertByPrio (h : Hook) : List Hook → List Hook
  | [] => [h]
  | y :: ys => if h.prio ≤ y.prio then h :: y :: ys else y :: insertByPrio h ys

/-- `sorted(self[point])`: stable, ascending priority. -/
def sortByPrio : List Hook → List Hook
  | [] => []
  | x :: xs => insertByPrio x (sortByPrio xs)

/-- `run_hooks` over the rest of the shared iterator.  `safeOnly = true` is the recursive call on
    `safe = filter(failsafe, hooks)`: hooks that are not fail-safe are consumed without being called.
    Returns the hooks that were called (in call order) and the exception that propagates. -/
def runHooks : Bool → List Hook → List Hook × Option Exn
  | _, [] => ([], none)
  | safeOnly, h :: rest =>
    if safeOnly && !h.failsafe then runHooks safeOnly rest
    else
      match h.out.raised with
      | none =>
        let (ex, r) := runHooks safeOnly rest
        (h :: ex, r)
      | some e =>
        -- except …: cls.run_hooks(safe); raise
        let (ex, r) := runHooks true rest
        (h :: ex, some (r.getD e))

/-- `HookMap.run(point)` on the list attached to the point. -/
def run (hooks : List Hook) : List Hook × Option Exn := runHooks false (sortByPrio hooks)

end CpModel.Hooks
