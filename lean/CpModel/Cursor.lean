import CpModel.Reader
/-!
  The specification side of C05: a cursor over the declared body.  State = the undelivered rest;
  every operation returns a prefix of the rest and advances by exactly that many bytes.
  Written from the property statement (file-like semantics of read / readline / readlines /
  iteration), independent of buffers, chunk sizes and fragmentation.  Core Lean only.
-/
namespace CpModel.Cursor
open CpModel.Reader

/-- next line: up to and including the first LF, or everything when there is none -/
def takeLine : Bytes → Bytes
  | [] => []
  | b :: bs => if b = LF then [b] else b :: takeLine bs

def hasLF : Bytes → Bool
  | [] => false
  | b :: bs => if b = LF then true else hasLF bs

/-- `read(size)`: `hasLen` says whether a length was declared (the code's `read(0)` quirk: with a
    declared length `size = 0` is falsy and means "everything"; without one it reads nothing). -/
def readCount (hasLen : Bool) (size : Option Nat) (n : Nat) : Nat :=
  match size with
  | none => n
  | some 0 => if hasLen then n else 0
  | some k => min k n

/-- lines of `rest` until the cumulative length reaches `hint` (checked after each line) -/
def takeLines : Nat → Option Nat → Nat → Bytes → List Bytes
  | 0, _, _, _ => []
  | fuel + 1, hint, seen, rest =>
    let line := takeLine rest
    if line.isEmpty then [] else
    if hintReached hint (seen + line.length) then [line]
    else line :: takeLines fuel hint (seen + line.length) (rest.drop line.length)

/-- the cursor's answer to one operation on `rest`: (result, bytes consumed) -/
def specStep (hasLen : Bool) (rest : Bytes) : Op → Out × Nat
  | .read n => let k := readCount hasLen n rest.length; (.bytes (rest.take k), k)
  | .readline (some 0) => (.bytes [], 0)
  | .readline _ => (.bytes (takeLine rest), (takeLine rest).length)
  | .readlines h =>
    let ls := takeLines (rest.length + 1) h 0 rest
    (.lines ls, ls.flatten.length)
  | .next => if rest.isEmpty then (.stop, 0) else (.bytes (takeLine rest), (takeLine rest).length)

def specRun (hasLen : Bool) (rest : Bytes) : List Op → List Out
  | [] => []
  | op :: ops =>
    let (o, k) := specStep hasLen rest op
    o :: specRun hasLen (rest.drop k) ops

end CpModel.Cursor
