import CpModel.Gzip
/-
  C17 model, part 2: header-element parsing and the two negotiations.

  Transcribed (statement by statement, quirks included):
    * `httputil.header_elements` : `RE_HEADER_SPLIT` (a comma splits iff the number of `"` after it is
      even), `AcceptElement.from_str` (`; *q *=` split, first match), `parse_header/_parse_param`
      (the copied cgi parser: `;` inside quotes, `\"` escapes, lower-cased names, unquoting with the
      two `replace` calls, later duplicates overwrite in place), `qvalue` (`float()` of the q
      parameter, `HTTPError(400)` when it is not a number), `str(element)`, ordering
      `list(reversed(sorted(...)))` with `__lt__` = (q, str) — a stable insertion sort stands for
      `sorted` (same result for any stable sort because `<` is a strict weak order here);
      laziness of `qvalue`: a one-element list is never compared, so its q is only evaluated by the
      consumer.
    * `encoding.gzip` → `Decision` (Vary first, empty body, cached, no header, the element loop with
      its identity / gzip / x-gzip tests in element order, the mime_types matching with `type/*` and
      `type/*+suffix`, and the final 406 — as REPAIRED by proposed fix C17-gzip-406: only when
      `identity` or `*` carries q = 0), `lib.set_vary_header`.
    * `ResponseEncoder.find_acceptable_charset` / `__call__` over an abstract `can : charset → Bool`
      ("every text chunk encodes") with `encode_string` (buffered: all chunks or nothing) and
      `encode_stream` (streamed: always succeeds on first attempt, "just pray"), the
      `attempted_charsets` set, forced `encoding`, `*`, the ISO-8859-1 fallback, 406 / 500, and the
      Content-Type rewrite `ct.params['charset'] = …; str(ct)`.
  q-values are exact decimals (sign, integer digits, fraction digits); strings `float()` might accept
  in another notation (exponent, underscores, inf/nan, > 15 digits) are classified `exotic` and the
  harness compares such cases on nothing.  Header text is Latin-1 (WSGI): `strip`/`lower` are exact
  for code points < 256 (`strip` also for the other Unicode spaces).
  Not modelled: codecs (parameter), RFC 2047 decoding of header values (the generator avoids `=?`).
-/
namespace CpModel.Negotiate

abbrev Str := List Char

/-! ### Python `str` primitives -/

def isSpace (c : Char) : Bool :=
  let n := c.toNat
  (9 ≤ n && n ≤ 13) || (28 ≤ n && n ≤ 32) || n == 0x85 || n == 0xA0 || n == 0x1680 ||
  (0x2000 ≤ n && n ≤ 0x200A) || n == 0x2028 || n == 0x2029 || n == 0x202F || n == 0x205F || n == 0x3000

def lstrip (s : Str) : Str := s.dropWhile isSpace
def rstrip (s : Str) : Str := (s.reverse.dropWhile isSpace).reverse
def strip (s : Str) : Str := rstrip (lstrip s)

def lowerChar (c : Char) : Char :=
  let n := c.toNat
  if (65 ≤ n && n ≤ 90) || (0xC0 ≤ n && n ≤ 0xDE && n != 0xD7) then Char.ofNat (n + 32) else c

def lower (s : Str) : Str := s.map lowerChar

/-- `s < t` for Python strings: lexicographic by code point -/
def ltStr : Str → Str → Bool
  | [], [] => false
  | [], _ :: _ => true
  | _ :: _, [] => false
  | a :: as, b :: bs =>
    if a.toNat < b.toNat then true else if b.toNat < a.toNat then false else ltStr as bs

/-- `s.split(c)` -/
def splitOnChar (c : Char) (s : Str) : List Str :=
  let r := s.foldr (fun x (st : Str × List Str) => if x = c then ([], st.1 :: st.2) else (x :: st.1, st.2)) ([], [])
  r.1 :: r.2

def joinWith (sep : Str) : List Str → Str
  | [] => []
  | [x] => x
  | x :: xs => x ++ sep ++ joinWith sep xs

def startsWith (p s : Str) : Bool := p.isPrefixOf s

/-! ### `RE_HEADER_SPLIT.split` -/

structure SplitSt where
  odd : Bool
  cur : Str
  acc : List Str

def splitStep (c : Char) (s : SplitSt) : SplitSt :=
  if c = ',' ∧ s.odd = false then ⟨s.odd, [], s.cur :: s.acc⟩
  else ⟨if c = '"' then !s.odd else s.odd, c :: s.cur, s.acc⟩

def splitHeader (v : Str) : List Str :=
  let s := v.foldr splitStep ⟨false, [], []⟩
  s.cur :: s.acc

/-! ### `q_separator.split(elementstr, 1)` -/

def dropSpaces (s : Str) : Str := s.dropWhile (· = ' ')

def matchQ (s : Str) : Option Str :=
  match dropSpaces s with
  | 'q' :: r =>
    match dropSpaces r with
    | '=' :: r' => some r'
    | _ => none
  | _ => none

def qSplit : Str → Str × Option Str
  | [] => ([], none)
  | c :: cs =>
    if c = ';' then
      match matchQ cs with
      | some r => ([], some r)
      | none => let p := qSplit cs; (c :: p.1, p.2)
    else let p := qSplit cs; (c :: p.1, p.2)

/-! ### `_parse_param` / `parse_header` -/

/-- the raw fields of `';' + line` (before `strip`): a `;` ends a field unless the number of
    unescaped `"` before it in the field is odd -/
def pfields : Str → (prevBs odd : Bool) → (cur : Str) → List Str
  | [], _, _, cur => [cur.reverse]
  | c :: cs, prevBs, odd, cur =>
    if c = ';' ∧ odd = false then cur.reverse :: pfields cs false false []
    else pfields cs (c = '\\') (if c = '"' ∧ prevBs = false then !odd else odd) (c :: cur)

def replBsBs : Str → Str
  | '\\' :: '\\' :: r => '\\' :: replBsBs r
  | c :: r => c :: replBsBs r
  | [] => []

def replBsQ : Str → Str
  | '\\' :: '"' :: r => '"' :: replBsQ r
  | c :: r => c :: replBsQ r
  | [] => []

def unquote (v : Str) : Str :=
  if v.length ≥ 2 ∧ v.head? = some '"' ∧ v.getLast? = some '"' then
    replBsQ (replBsBs ((v.drop 1).dropLast))
  else v

/-- `p.find('=')` split -/
def findEq : Str → Option (Str × Str)
  | [] => none
  | c :: cs => if c = '=' then some ([], cs) else (findEq cs).map fun p => (c :: p.1, p.2)

/-- `pdict[name] = value` on an insertion-ordered dict -/
def setP {β : Type} (ps : List (Str × β)) (k : Str) (v : β) : List (Str × β) :=
  match ps with
  | [] => [(k, v)]
  | (k', v') :: r => if k' = k then (k', v) :: r else (k', v') :: setP r k v

def getP {β : Type} (ps : List (Str × β)) (k : Str) : Option β :=
  (ps.find? (fun p => p.1 = k)).map (·.2)

def parseHeader (line : Str) : Str × List (Str × Str) :=
  match (pfields line false false []).map strip with
  | [] => ([], [])
  | key :: parts =>
    (key, parts.foldl (fun pd p =>
      match findEq p with
      | none => pd
      | some (n, v) => setP pd (lower (strip n)) (unquote (strip v))) [])

/-! ### elements -/

inductive PVal where
  | str (s : Str)
  | elem (v : Str) (ps : List (Str × Str))
  deriving DecidableEq, Repr

structure Elem where
  value : Str
  params : List (Str × PVal)
  deriving DecidableEq, Repr

def plainFromStr (e : Str) : Elem :=
  let p := parseHeader e
  ⟨p.1, p.2.map fun kv => (kv.1, PVal.str kv.2)⟩

def acceptFromStr (e : Str) : Elem :=
  let sp := qSplit e
  let p := parseHeader (strip sp.1)
  let ps := p.2.map fun kv => (kv.1, PVal.str kv.2)
  match sp.2 with
  | none => ⟨p.1, ps⟩
  | some a =>
    let q := parseHeader (strip a)
    ⟨p.1, setP ps ['q'] (PVal.elem q.1 q.2)⟩

def showParams (ps : List (Str × Str)) : Str :=
  (ps.map fun kv => [';'] ++ kv.1 ++ ['='] ++ kv.2).flatten

def showPVal : PVal → Str
  | .str s => s
  | .elem v ps => v ++ showParams ps

/-- `str(element)` -/
def Elem.str (e : Elem) : Str :=
  e.value ++ (e.params.map fun kv => [';'] ++ kv.1 ++ ['='] ++ showPVal kv.2).flatten

/-! ### q-values: what `float()` accepts -/

/-- the value `float(s)` yields, as far as the consumers look at it (`== 0`, `!= 0`, `> 0`, `<`, `==`):
    `ok neg num scale` is the exact decimal (-1)^neg * num / 10^scale (the double it rounds to is a
    strictly monotone image of it: at most 15 significant digits inside the normal range, see `mkQ`);
    `inf`, `nan` are the IEEE classes; `bad` = ValueError; `exotic` = a finite decimal whose rounding
    to a double is not modelled (more than 15 significant digits, or a magnitude next to the overflow /
    underflow thresholds): the model says nothing about it. -/
inductive Q where
  | ok (neg : Bool) (num : Nat) (scale : Nat)
  | inf (neg : Bool)
  | nan
  | bad
  | exotic
  deriving DecidableEq, Repr

def isDigit (c : Char) : Bool := '0'.toNat ≤ c.toNat && c.toNat ≤ '9'.toNat

/-- value of a digit string (`% 10` is the identity on digits; it bounds the value for any text) -/
def digitsVal (ds : Str) : Nat := ds.foldl (fun n c => 10 * n + (c.toNat - '0'.toNat) % 10) 0

def sNan : Str := ['n', 'a', 'n']
def sInf : Str := ['i', 'n', 'f']
def sInfinity : Str := ['i', 'n', 'f', 'i', 'n', 'i', 't', 'y']

/-- ASCII lower case (what the `inf` / `nan` spelling test of `float()` folds) -/
def lowerAscii (s : Str) : Str :=
  s.map fun c => if 65 ≤ c.toNat && c.toNat ≤ 90 then Char.ofNat (c.toNat + 32) else c

/-- PEP 515: an underscore is accepted only between two digits; the result is the text without them
    (`prevDigit` = the previous character was a digit) -/
def dropUnderscores : (prevDigit : Bool) → Str → Option Str
  | _, [] => some []
  | p, c :: r =>
    if c = '_' then
      match r with
      | d :: _ => if p && isDigit d then dropUnderscores false r else none
      | [] => none
    else (dropUnderscores (isDigit c) r).map (c :: ·)

/-- the scale bound of finite values: `Q.key` is exact below it -/
def keyScale : Nat := 330

/-- the decimal `(-1)^neg * (ip.fp) * 10^exp` as `float()` sees it.  With `D` the digits without
    leading and trailing zeros, `sig = |D|` and `adj` the exponent of the leading digit:
    `adj ≥ 309` is above DBL_MAX → `inf`; `adj ≤ -325` is below half the smallest subnormal → `±0.0`;
    `sig ≤ 15` and `-307 ≤ adj ≤ 307` is the range where decimal → double is strictly monotone
    (DBL_DIG = 15, normal numbers); everything else is `exotic`. -/
def mkQ (neg : Bool) (ip fp : Str) (exp : Int) : Q :=
  let d1 := (ip ++ fp).dropWhile (· = '0')
  if d1 = [] then Q.ok neg 0 0
  else
    let tz := (d1.reverse.takeWhile (· = '0')).length
    let d2 := d1.take (d1.length - tz)
    let e2 : Int := exp - (fp.length : Int) + (tz : Int)
    let adj : Int := e2 + (d2.length : Int) - 1
    if adj ≥ 309 then Q.inf neg
    else if adj ≤ -325 then Q.ok neg 0 0
    else if d2.length > 15 ∨ adj > 307 ∨ adj < -307 then Q.exotic
    else if e2 ≥ 0 then Q.ok neg (digitsVal d2 * 10 ^ e2.toNat) 0
    else Q.ok neg (digitsVal d2) (-e2).toNat

/-- the exponent part: `[eE][+-]?digits` up to the end of the text -/
def parseExp : Str → Option Int
  | [] => some 0
  | c :: r =>
    if c = 'e' ∨ c = 'E' then
      let (eneg, ds) := match r with
        | '-' :: r' => (true, r')
        | '+' :: r' => (false, r')
        | r' => (false, r')
      if ds ≠ [] ∧ ds.all isDigit then
        some (if eneg then -(digitsVal ds : Int) else (digitsVal ds : Int))
      else none
    else none

/-- `float(s)`: blanks stripped, underscores between digits dropped, optional sign, then
    `inf` / `infinity` / `nan` in any case, or `digits [. digits] | . digits` with an optional exponent -/
def parseQ (s : Str) : Q :=
  match dropUnderscores false (strip s) with
  | none => Q.bad
  | some t =>
    let (neg, u) := match t with
      | '-' :: r => (true, r)
      | '+' :: r => (false, r)
      | r => (false, r)
    let lu := lowerAscii u
    if lu = sInf ∨ lu = sInfinity then Q.inf neg
    else if lu = sNan then Q.nan
    else
      let ip := u.takeWhile isDigit
      let r1 := u.dropWhile isDigit
      let (fp, r2) := match r1 with
        | '.' :: r => (r.takeWhile isDigit, r.dropWhile isDigit)
        | r => ([], r)
      if ip ≠ [] ∨ fp ≠ [] then
        match parseExp r2 with
        | some e => mkQ neg ip fp e
        | none => Q.bad
      else Q.bad

/-- the key of `+inf`: above every finite key (`CpProofs.C17.key_lt_infKey`) -/
def infKey : Int := Int.ofNat (10 ^ (keyScale + 320))

/-- comparison key: the decimal scaled to `keyScale` fraction digits (exact: `parseQ` yields
    scale ≤ keyScale, see `CpProofs.C17.parseQ_scale_le`); `nan` has no place in the order (a list with a
    `nan` is never sorted by the model) -/
def Q.key : Q → Int
  | .ok neg n sc =>
    if neg then -(Int.ofNat (n * 10 ^ (keyScale - sc))) else Int.ofNat (n * 10 ^ (keyScale - sc))
  | .inf neg => if neg then -infKey else infKey
  | _ => 0

/-- `qvalue == 0` -/
def Q.isZero : Q → Bool
  | .ok _ n _ => n == 0
  | _ => false

/-- `qvalue > 0` (false for `nan`) -/
def Q.isPos : Q → Bool
  | .ok neg n _ => !neg && n != 0
  | .inf neg => !neg
  | _ => false

/-- does the value take part in an order (`sorted` over a list with a `nan`, a malformed or an
    unmodelled value is outside the model) -/
def Q.ordered : Q → Bool
  | .ok _ _ _ => true
  | .inf _ => true
  | _ => false

/-- `a < b` / `a == b` on ordered values (callers test bad / exotic / nan first) -/
def Q.lt (a b : Q) : Bool := decide (a.key < b.key)

def Q.eq (a b : Q) : Bool := decide (a.key = b.key)

def sOne : Str := ['1']

def Elem.qRaw (e : Elem) : Str :=
  match getP e.params ['q'] with
  | none => sOne
  | some (.str s) => s
  | some (.elem v _) => v

def Elem.q (e : Elem) : Q := parseQ e.qRaw

/-! ### ordering -/

/-- `AcceptElement.__lt__` -/
def acceptLt (a b : Elem) : Bool :=
  if a.q.eq b.q then ltStr a.str b.str else a.q.lt b.q

/-- `HeaderElement.__lt__` -/
def plainLt (a b : Elem) : Bool := ltStr a.value b.value

def ins (lt : Elem → Elem → Bool) (x : Elem) : List Elem → List Elem
  | [] => [x]
  | y :: ys => if lt y x then y :: ins lt x ys else x :: y :: ys

/-- stable ascending sort (`sorted`) -/
def sortAsc (lt : Elem → Elem → Bool) : List Elem → List Elem
  | [] => []
  | x :: xs => ins lt x (sortAsc lt xs)

inductive Parsed where
  | ok (els : List Elem)
  | err400
  | exotic
  deriving DecidableEq, Repr

/-- `header_elements('Accept-…', v)`; `none` = header absent -/
def acceptElements (v : Option Str) : Parsed :=
  match v with
  | none => .ok []
  | some [] => .ok []
  | some v =>
    let els := (splitHeader v).map acceptFromStr
    if els.length ≥ 2 then
      if els.any (fun e => e.q = Q.bad) then .err400
      else if els.any (fun e => e.q.ordered = false) then .exotic
      else .ok (sortAsc acceptLt els).reverse
    else .ok els

/-- `header_elements('Content-Type', v)` -/
def plainElements (v : Option Str) : List Elem :=
  match v with
  | none => []
  | some [] => []
  | some v => (sortAsc plainLt ((splitHeader v).map plainFromStr)).reverse

/-! ### `encoding.gzip` -/

inductive Decision where
  | compress | passthrough | notAcceptable | err400 | crash | exotic
  deriving DecidableEq, Repr

inductive Mime where
  | yes | no | crash
  deriving DecidableEq, Repr

def sStar : Str := ['*']
def sIdentity : Str := ['i', 'd', 'e', 'n', 't', 'i', 't', 'y']
def sGzip : Str := ['g', 'z', 'i', 'p']
def sXGzip : Str := ['x', '-', 'g', 'z', 'i', 'p']

/-- the `for mime_type in mime_types` loop; `cm/cs` = the two halves of the response type -/
def mimeLoop (cm cs : Str) : List Str → Mime
  | [] => .no
  | m :: ms =>
    if m.contains '/' then
      match splitOnChar '/' m with
      | [mt, st] =>
        if cm = mt then
          if st = sStar then .yes
          else if st.contains '+' ∧ cs.contains '+' then
            match splitOnChar '+' cs, splitOnChar '+' st with
            | [_, cr], [l, r] => if l = sStar ∧ cr = r then .yes else mimeLoop cm cs ms
            | _, _ => .crash
          else mimeLoop cm cs ms
        else mimeLoop cm cs ms
      | _ => .crash
    else mimeLoop cm cs ms

/-- is `ct` (already cut at the first `;`) eligible? -/
def mimeMatch (ct : Str) (mimes : List Str) : Mime :=
  if mimes.contains ct then .yes
  else if ct.contains '/' then
    match splitOnChar '/' ct with
    | [cm, cs] => mimeLoop cm cs mimes
    | _ => .crash
  else .no

def mimeDecision (ct : Str) (mimes : List Str) : Decision :=
  match mimeMatch ct mimes with
  | .yes => .compress
  | .no => .passthrough
  | .crash => .crash

/-- the `for coding in acceptable` loop; `none` = fell off the end -/
def gzipLoop (ct : Str) (mimes : List Str) : List Elem → Option Decision
  | [] => none
  | e :: es =>
    if e.value = sIdentity then
      match e.q with
      | .bad => some .err400
      | .exotic => some .exotic
      | q => if q.isZero then gzipLoop ct mimes es else some .passthrough
    else if e.value = sGzip ∨ e.value = sXGzip then
      match e.q with
      | .bad => some .err400
      | .exotic => some .exotic
      | q => if q.isZero then some .passthrough else some (mimeDecision ct mimes)
    else gzipLoop ct mimes es

/-- the repaired tail: 406 only when `identity` or `*` is excluded with q = 0 -/
def refusalLoop : List Elem → Decision
  | [] => .passthrough
  | e :: es =>
    if e.value = sIdentity ∨ e.value = sStar then
      match e.q with
      | .bad => .err400
      | .exotic => .exotic
      | q => if q.isZero then .notAcceptable else refusalLoop es
    else refusalLoop es

/-- the decision over an element list (any order) -/
def decideEls (ct : Str) (mimes : List Str) (els : List Elem) : Decision :=
  match gzipLoop ct mimes els with
  | some d => d
  | none => refusalLoop els

structure GzipIn where
  bodyEmpty : Bool
  cached : Bool
  acceptEncoding : Option Str
  /-- `response.headers.get('Content-Type', '')` -/
  contentType : Str
  mimes : List Str

def ctHead (ct : Str) : Str := ct.takeWhile (· ≠ ';')

def gzipDecision (i : GzipIn) : Decision :=
  if i.bodyEmpty then .passthrough
  else if i.cached then .passthrough
  else
    match acceptElements i.acceptEncoding with
    | .err400 => .err400
    | .exotic => .exotic
    | .ok [] => .passthrough
    | .ok els => decideEls (ctHead i.contentType) i.mimes els

/-! ### response headers touched by the tool -/

def sAcceptEncoding : Str :=
  ['A', 'c', 'c', 'e', 'p', 't', '-', 'E', 'n', 'c', 'o', 'd', 'i', 'n', 'g']

/-- `set_vary_header(response, 'Accept-Encoding')` on the current Vary value (`none` = absent) -/
def setVary (vary : Option Str) : Str :=
  let varies := ((splitOnChar ',' (vary.getD [])).map strip).filter (· ≠ [])
  joinWith [',', ' '] (if varies.contains sAcceptEncoding then varies else varies ++ [sAcceptEncoding])

structure RespHeaders where
  vary : Option Str
  contentEncoding : Option Str
  contentLength : Option Str
  deriving DecidableEq, Repr

/-- header effects of `gzip()` for the three regular decisions (an error page replaces the headers) -/
def gzipHeaders (d : Decision) (h : RespHeaders) : RespHeaders :=
  let h1 := { h with vary := some (setVary h.vary) }
  match d with
  | .compress => { h1 with contentEncoding := some sGzip, contentLength := none }
  | _ => h1

/-- the whole tool on (headers, body chunks): an error page replaces everything, so only the three
    regular decisions produce a response here -/
def gzipTool (z : Gzip.Z) (i : GzipIn) (level mtime : Nat) (h : RespHeaders) (body : List Gzip.Bytes) :
    Decision × RespHeaders × List Gzip.Bytes :=
  let d := gzipDecision i
  (d, gzipHeaders d h, if d = .compress then Gzip.frame z level mtime body else body)

/-! ### `ResponseEncoder` -/

/-- `ResponseEncoder.default_encoding`, from the generated table -/
def sUtf8 : Str := Gen.C17.defaultEncoding
def sIso : Str := ['i', 's', 'o', '-', '8', '8', '5', '9', '-', '1']
def sCharset : Str := ['c', 'h', 'a', 'r', 's', 'e', 't']
def sTextSlash : Str := ['t', 'e', 'x', 't', '/']

inductive CsResult where
  | chosen (c : Str)
  | notAcceptable
  | err500
  | err400
  | exotic
  deriving DecidableEq, Repr

/-- `encoder(encoding)`: `encode_stream` / `encode_string` with the `attempted_charsets` set -/
def tryEnc (can : Str → Bool) (stream : Bool) (attempted : List Str) (enc : Str) : Bool × List Str :=
  if attempted.contains enc then (false, attempted)
  else (if stream then true else can enc, enc :: attempted)

/-- the `for element in encs` loop; returns the outcome or the attempted set to go on with.
    `dflListed`: the default charset has an entry of its own in the field — a `*` element is then
    skipped (`continue`), the explicit entry is honoured at its own rank -/
def csLoop (can : Str → Bool) (stream : Bool) (dflListed : Bool) : List Elem → List Str → Sum CsResult (List Str)
  | [], att => .inr att
  | e :: es, att =>
    match e.q with
    | .bad => .inl .err400
    | .exotic => .inl .exotic
    | q =>
      if q.isPos then
        if e.value = sStar ∧ dflListed = true then csLoop can stream dflListed es att
        else
          let name := if e.value = sStar then sUtf8 else e.value
          let r := tryEnc can stream att name
          if r.1 then .inl (.chosen name) else csLoop can stream dflListed es r.2
      else csLoop can stream dflListed es att

def findAcceptableCharset (can : Str → Bool) (stream : Bool) (forced : Option Str)
    (acceptCharset : Option Str) : CsResult :=
  match acceptElements acceptCharset with
  | .err400 => .err400
  | .exotic => .exotic
  | .ok encs =>
    let charsets := encs.map fun e => lower e.value
    match forced with
    | some f =>
      let enc := lower f
      if charsets = [] ∨ charsets.contains sStar ∨ charsets.contains enc then
        if (tryEnc can stream [] enc).1 then .chosen enc else .notAcceptable
      else .notAcceptable
    | none =>
      if encs = [] then
        if (tryEnc can stream [] sUtf8).1 then .chosen sUtf8 else .err500
      else
        match csLoop can stream (charsets.contains (lower sUtf8)) encs [] with
        | .inl r => r
        | .inr att =>
          if ¬ charsets.contains sStar ∧ ¬ charsets.contains sIso then
            if (tryEnc can stream att sIso).1 then .chosen sIso else .notAcceptable
          else .notAcceptable

structure EncodeIn where
  /-- response Content-Type header as the handler left it -/
  contentType : Option Str
  addCharset : Bool
  textOnly : Bool
  stream : Bool
  forced : Option Str
  acceptCharset : Option Str

inductive EncodeOut where
  /-- `find_acceptable_charset` not called: body handed on as it is -/
  | noFind
  | found (charset : Str) (newContentType : Str)
  | fail (r : CsResult)
  deriving DecidableEq, Repr

/-- `ResponseEncoder.__call__` after the handler returned -/
def encodeCall (can : Str → Bool) (i : EncodeIn) : EncodeOut :=
  match plainElements i.contentType with
  | [] => .noFind
  | ct :: _ =>
    if i.addCharset = false then .noFind
    else if i.textOnly ∧ ¬ startsWith sTextSlash (lower ct.value) then .noFind
    else
      match findAcceptableCharset can i.stream i.forced i.acceptCharset with
      | .chosen c => .found c (Elem.str { ct with params := setP ct.params sCharset (.str c) })
      | r => .fail r

/-! ### the bytes `encode_string` emits, over a codec parameter -/

structure Codec where
  /-- `text.encode(name)`; `none` = LookupError / UnicodeError -/
  enc : Str → Str → Option Gzip.Bytes
  /-- `bytes.decode(name)` -/
  dec : Str → Gzip.Bytes → Option Str
  /-- ONE incremental encoder (`codecs.getincrementalencoder(name)`) run over the str chunks of a body,
      the flush after the last chunk included: the bytes per chunk; `none` = LookupError / UnicodeError -/
  inc : Str → List Str → Option (List Gzip.Bytes)

/-- `encode_string` (fix C17-incremental-encoder): the chunks are pieces of one text, encoded by one
    incremental encoder, all or nothing -/
def encodeString (k : Codec) (name : Str) (chunks : List Str) : Option (List Gzip.Bytes) :=
  k.inc name chunks

/-- `encode_string` as it was BEFORE the fix (finding F18c): every str chunk on its own -/
def encodeStringPerChunk (k : Codec) (name : Str) (chunks : List Str) : Option (List Gzip.Bytes) :=
  chunks.mapM (k.enc name)

/-- the abstract `can` of a body under a codec -/
def canOf (k : Codec) (chunks : List Str) (name : Str) : Bool := (encodeString k name chunks).isSome

/-! ### both tools on one response

  `tools.encode` is a `before_handler` hook (priority 70) that wraps the page handler, so the body is
  charset-encoded when the handler call returns; `tools.gzip` runs at `before_finalize` (priority 80),
  i.e. on the encoded chunks and on the Content-Type the encoder wrote back (generated table:
  `Gen.C17.encodePoint/gzipPoint/hookpoints`). -/

structure BothOut where
  charset : Str
  decision : Decision
  headers : RespHeaders
  contentType : Str
  body : List Gzip.Bytes

/-- a buffered text body through `ResponseEncoder.__call__`, then `encoding.gzip`; `none` when the
    encoder did not produce a body (no negotiation, 406, 500 …) -/
def encodeThenGzip (k : Codec) (z : Gzip.Z) (ei : EncodeIn) (ae : Option Str) (cached : Bool)
    (mimes : List Str) (level mtime : Nat) (h : RespHeaders) (chunks : List Str) : Option BothOut :=
  match encodeCall (canOf k chunks) ei with
  | .found c nct =>
    match encodeString k c chunks with
    | some bs =>
      let r := gzipTool z ⟨bs.isEmpty, cached, ae, nct, mimes⟩ level mtime h bs
      some ⟨c, r.1, r.2.1, nct, r.2.2⟩
    | none => none
  | _ => none

end CpModel.Negotiate
