/-
  C20, part B: `wspbus.Bus.block()` / `wait()` on the main thread against `stop / start / graceful /
  exit / restart` called from a second thread.  Core Lean only; one model step = one source line at
  the time of writing; the tie to the live code is trace inclusion modulo stuttering over `obsStr`
  (see `CpModel/Monitor.lean` for the convention).

  Modelled: the bus `state`, the `execv` flag, the polling loop of `wait`
  (`w4: while self.state not in states` / `w5: time.sleep` / `w6: self.publish('main')`), the
  second thread's calls line by line (only the lines that write `state`/`execv` have an effect),
  the tail of `block` after `wait` returned: `tail` = `threading.enumerate()` (a snapshot of the
  threads alive at that moment: the main thread, the caller, the second bus thread, the foreign
  threads of the application that have not finished), `jn` = one iteration of the join loop (a
  candidate is joined iff it is not the caller, not the `_MainThread` and not daemonic), `jw` =
  blocked in `t.join()` until that foreign thread has finished (`Tid.f k` = the turn in which
  foreign thread `k` finishes), `ex` = `if self.execv`, `dx` = `self._do_execv()`; ghost fields for
  what the property talks about (`pubs` = 'main' publications, `exited` = an `exit()` has written
  EXITING, `sawExiting` = `wait` left its loop, `joined` = the foreign threads joined, in order).
  Not modelled: listeners that raise (C18), `KeyboardInterrupt`/`SystemExit` inside `wait`,
  `_do_execv` itself, `os._exit` when `exit()` is called in state STARTING by a third thread
  (kept as the terminal pc `osExit`).
-/
namespace CpModel.BlockWait

inductive St where
  | stopped | starting | started | stopping | exiting
  deriving DecidableEq, Repr, Inhabited

/-- main thread: `bN` = `Bus.block`+N, `wN` = `Bus.wait`+N -/
inductive MPc where
  | b10 | b11 | w2 | w4 | w5 | w6 | tail | jn | jw | ex | dx | done
  deriving DecidableEq, Repr, Inhabited

/-- a thread as `threading.enumerate()` shows it to `block()` -/
structure Cand where
  /-- `t is threading.current_thread()` -/
  cur : Bool := false
  /-- `isinstance(t, threading._MainThread)` -/
  main : Bool := false
  daemon : Bool := false
  /-- index among the application's foreign threads (`none`: main thread, caller, bus thread) -/
  fid : Option Nat := none
  deriving DecidableEq, Repr, Inhabited

inductive BCall where
  | stop | start | graceful | exit | restart
  deriving DecidableEq, Repr, Inhabited

/-- second thread: `sN` = `Bus.stop`+N, `aN` = `Bus.start`+N, `gN` = `Bus.graceful`+N,
    `eN` = `Bus.exit`+N, `rN` = `Bus.restart`+N -/
inductive XPc where
  | s2 | s3 | s4 | s5 | s6
  | a2 | a4 | a5 | a6 | a7 | a8 | a9
  | g2 | g3
  | r7 | r8
  | e2 | e3 | e4 | e5 | e7 | e8 | e9 | e12 | e20
  | done | osExit
  deriving DecidableEq, Repr, Inhabited

structure Cfg where
  state : St := .started
  execv : Bool := false
  mpc : MPc := .b10
  xpc : XPc := .done
  /-- the `Bus.stop` frame in progress was entered from `exit()` -/
  inExit : Bool := false
  /-- `exitstate` local of `exit()` -/
  exitstate : St := .started
  todo : List BCall := []
  /-- ghost -/
  pubs : Nat := 0
  exited : Bool := false
  execvDone : Bool := false
  sawExiting : Bool := false
  /-- the application's foreign threads: `daemon` flag of each (fixed) -/
  foreign : List Bool := []
  /-- ... and whether each has finished -/
  fdone : List Bool := []
  /-- what is left of the `threading.enumerate()` snapshot -/
  snap : List Cand := []
  /-- the foreign thread being joined (`jw`) -/
  jtgt : Nat := 0
  /-- ghost: foreign threads joined so far, in order -/
  joined : List Nat := []
  deriving DecidableEq, Repr, Inhabited

def enter (c : Cfg) : Cfg :=
  match c.todo with
  | [] => { c with xpc := .done }
  | .stop :: r => { c with xpc := .s2, todo := r, inExit := false }
  | .start :: r => { c with xpc := .a2, todo := r }
  | .graceful :: r => { c with xpc := .g2, todo := r }
  | .exit :: r => { c with xpc := .e2, todo := r }
  | .restart :: r => { c with xpc := .r7, todo := r }

def init (s0 : St) (calls : List BCall) (foreign : List Bool := []) : Cfg :=
  enter { state := s0, todo := calls, foreign := foreign, fdone := foreign.map fun _ => false }

def isDone (c : Cfg) (k : Nat) : Bool := c.fdone.getD k false

/-- foreign threads still alive, as candidates -/
def aliveForeign (c : Cfg) : List Cand :=
  (List.range c.foreign.length).filterMap fun k =>
    if isDone c k then none else some { daemon := c.foreign.getD k true, fid := some k }

/-- `threading.enumerate()` at this moment: the real main thread, the caller of `block()`, the second
    bus thread (daemonic), the foreign threads that have not finished -/
def cands (c : Cfg) : List Cand :=
  [{ main := true }, { cur := true }, { daemon := true }] ++ aliveForeign c

/-- the test in `block()`: `t != current and not isinstance(t, _MainThread) and not t.daemon` -/
def Cand.mustJoin (t : Cand) : Bool := !t.cur && !t.main && !t.daemon

def stepMain (c : Cfg) : Cfg :=
  match c.mpc with
  | .b10 => { c with mpc := .b11 }
  | .b11 => { c with mpc := .w2 }
  | .w2 => { c with mpc := .w4 }
  | .w4 => if c.state = .exiting then { c with mpc := .tail, sawExiting := true }
           else { c with mpc := .w5 }
  | .w5 => { c with mpc := .w6 }
  | .w6 => { c with mpc := .w4, pubs := c.pubs + 1 }
  | .tail => { c with mpc := .jn, snap := cands c }
  | .jn =>
    match c.snap with
    | [] => { c with mpc := .ex }
    | t :: r =>
      if t.mustJoin then
        match t.fid with
        | some k => { c with snap := r, mpc := .jw, jtgt := k, joined := c.joined ++ [k] }
        | none => { c with snap := r }
      else { c with snap := r }
  | .jw => { c with mpc := .jn }           -- enabled only once the joined thread has finished
  | .ex => if c.execv then { c with mpc := .dx } else { c with mpc := .done }
  | .dx => { c with mpc := .done, execvDone := true }
  | .done => c

def stepX (c : Cfg) : Cfg :=
  match c.xpc with
  | .s2 => { c with xpc := .s3, state := .stopping }
  | .s3 => { c with xpc := .s4 }
  | .s4 => { c with xpc := .s5 }
  | .s5 => { c with xpc := .s6, state := .stopped }
  | .s6 => if c.inExit then { c with xpc := .e7, inExit := false } else enter c
  | .a2 => { c with xpc := .a4 }
  | .a4 => { c with xpc := .a5, state := .starting }
  | .a5 => { c with xpc := .a6 }
  | .a6 => { c with xpc := .a7 }
  | .a7 => { c with xpc := .a8 }
  | .a8 => { c with xpc := .a9, state := .started }
  | .a9 => enter c
  | .g2 => { c with xpc := .g3 }
  | .g3 => enter c
  | .r7 => { c with xpc := .r8, execv := true }
  | .r8 => { c with xpc := .e2 }
  | .e2 => { c with xpc := .e3, exitstate := c.state }
  | .e3 => { c with xpc := .e4 }
  | .e4 => { c with xpc := .e5 }
  | .e5 => { c with xpc := .s2, inExit := true }
  | .e7 => { c with xpc := .e8, state := .exiting, exited := true }
  | .e8 => { c with xpc := .e9 }
  | .e9 => { c with xpc := .e12 }
  | .e12 => { c with xpc := .e20 }
  | .e20 => if c.exitstate = .starting then { c with xpc := .osExit } else enter c
  | .done => c
  | .osExit => c

inductive Tid where
  | main | x
  /-- the turn in which foreign thread `k` finishes -/
  | f (k : Nat)
  deriving DecidableEq, Repr, Inhabited

def enabled (c : Cfg) : Tid → Bool
  | .main => c.mpc ≠ .done && (c.mpc ≠ .jw || isDone c c.jtgt)
  | .x => c.xpc ≠ .done && c.xpc ≠ .osExit
  | .f k => k < c.fdone.length && !isDone c k

def step (c : Cfg) (t : Tid) : Cfg :=
  if enabled c t then
    match t with
    | .main => stepMain c
    | .x => stepX c
    | .f k => { c with fdone := c.fdone.set k true }
  else c

def run (c : Cfg) : List Tid → Cfg
  | [] => c
  | t :: ts => run (step c t) ts

/-- `exit`/`restart`, if present, is the last call of the second thread. -/
def ExitLast : List BCall → Bool
  | [] => true
  | .exit :: r => r.isEmpty
  | .restart :: r => r.isEmpty
  | _ :: r => ExitLast r

/-! ### observation of the shared state (trace inclusion, see `CpModel/C20Admit.lean`) -/

def b01 (b : Bool) : String := if b then "1" else "0"

def showSt : St → String
  | .stopped => "STOPPED" | .starting => "STARTING" | .started => "STARTED"
  | .stopping => "STOPPING" | .exiting => "EXITING"

/-- number of calls of the second thread that have returned (`total` = length of its call list) -/
def xret (total : Nat) (c : Cfg) : Nat :=
  total - c.todo.length - (if c.xpc == .done then 0 else 1)

/-- bus state, `execv` flag, number of 'main' publications, execv performed, `block()` returned,
    calls of the second thread returned, second thread killed the process -/
def obsStr (total : Nat) (c : Cfg) : String :=
  let f := String.join (c.fdone.map b01)
  let j := if c.joined.isEmpty then "-" else ",".intercalate (c.joined.map fun k => s!"f{k + 1}")
  s!"S={showSt c.state};X={b01 c.execv};P={c.pubs};D={b01 c.execvDone};M={b01 (c.mpc == .done)};R={xret total c};E={b01 (c.xpc == .osExit)};F={f};J={j}"

def St.code : St → Nat
  | .stopped => 0 | .starting => 1 | .started => 2 | .stopping => 3 | .exiting => 4

def MPc.code : MPc → Nat
  | .b10 => 0 | .b11 => 1 | .w2 => 2 | .w4 => 3 | .w5 => 4 | .w6 => 5 | .tail => 6 | .done => 7
  | .jn => 8 | .jw => 9 | .ex => 10 | .dx => 11

def XPc.code : XPc → Nat
  | .s2 => 0 | .s3 => 1 | .s4 => 2 | .s5 => 3 | .s6 => 4 | .a2 => 5 | .a4 => 6 | .a5 => 7 | .a6 => 8
  | .a7 => 9 | .a8 => 10 | .a9 => 11 | .g2 => 12 | .g3 => 13 | .r7 => 14 | .r8 => 15 | .e2 => 16
  | .e3 => 17 | .e4 => 18 | .e5 => 19 | .e7 => 20 | .e8 => 21 | .e9 => 22 | .e12 => 23 | .e20 => 24
  | .done => 25 | .osExit => 26

def keyStr (c : Cfg) : String :=
  s!"{c.state.code}{b01 c.execv}.{c.mpc.code}.{c.xpc.code}.{b01 c.inExit}{c.exitstate.code}|{c.todo.length}|{c.pubs}{b01 c.exited}{b01 c.execvDone}{b01 c.sawExiting}|{String.join (c.fdone.map b01)}|{String.join (c.snap.map fun t => match t.fid with | some k => toString k | none => "_")}.{c.jtgt}.{c.joined.length}"

end CpModel.BlockWait
