import CpModel.Hooks
import CpModel.Gen.C01Tables
/-
  C01 — the WSGI boundary of one request whose body iterator misbehaves (cherrypy/_cpwsgi.py
  `AppResponse.__init__ / __next__ / close`, `_TrappedResponse`, cherrypy/_cptree.py `release_serving`,
  cherrypy/_cprequest.py `ResponseBody.__set__`, `Response.finalize / collapse_body / _flush_body`,
  cherrypy/lib/__init__.py `file_generator`, `is_closable_iterator`), transcribed statement by statement.
  Core Lean only.

  What is modelled
  * what the page handler returns (`BodySpec`): bytes / '' / str / None / non-iterable / list / tuple /
    generator / iterator object / file-like object, the *types* of the items the iterator produces one
    after the other (`Item`: bytes, b'', str, int, or an exception), an exception instead of
    `StopIteration` at exhaustion, the iterator's own `close()` (absent, returns, raises, needs an
    argument; for a generator: its `finally` block raises), a file object whose `read()` / `close()` raise.
  * Python's generator protocol as far as it matters here: a generator that was never started is closed
    without running any of its code; `close()` on a suspended generator runs its `finally` block (whose
    exception leaves `close()`); a generator that returned or raised is finished (`next` → StopIteration,
    `close()` → nothing).
  * `ResponseBody.__set__`: `ValueError` for a `str` and for a *list* containing a `str` (the generated
    table `Gen.C01.bodyKindsRefused`; a tuple is not examined); `prepare_iter`: bytes → `[value]` / `[]`,
    `None` → `[]`, an object with `read` → `file_generator`.
  * `Response.finalize`: invalid status → `HTTPError(500)` → error page; no-body status → `_flush_body`
    (iterate to the end, types ignored; also for a streamed response where the running code tests the status
    first: generated table `Gen.Pipeline.noBodyStreamRanges`); streaming → body untouched; explicit `Content-Length` → body
    untouched; otherwise `collapse_body` = `b''.join(body)`, which first consumes the whole iterator and
    then rejects a non-bytes item (`TypeError`).  Any exception → `handle_error` → 500 error page.
  * an `on_end_resource` hook that leaves a non-bytes `output_status` / `header_list` item behind (it runs in
    the `finally` of `respond`, after `finalize`; a later `handle_error` → `finalize` overwrites both);
    `AppResponse.__init__` type checks (generated tables `statusKindsRejected`, `headerKindsRejected`),
    `iter(r.body)`, `start_response`; `except BaseException: self.close(); raise` → trapper → one
    `start_response('500 …', …, exc_info)`.
  * `__next__` through `_TrappedResponse.trap`: an exception of the body iterator → second
    `start_response` with `exc_info` and the bare body as one more chunk, afterwards `StopIteration`; a
    non-bytes item is passed on unless `Gen.C01.chunkTypeChecked` (probed on every run).
  * `close()`: `streaming = serving.response.stream` (the *default* Response once the request was
    released: false), `release_serving()` (→ `on_end_request` once), then
    `if streaming and is_closable_iterator(iter_response)`: the iterator's `close()` inside
    `try … except Exception: log`.  `HEAD`: `response.body = []`.
  * the *class* of what a failing site raises is not a parameter: `Item.raise` / a raising `close()` stand for any
    `Exception` subclass, CherryPy's own control-flow classes included (InternalRedirect, HTTPRedirect, HTTPError,
    NotFound — the members of `Request.throws` other than KeyboardInterrupt / SystemExit).  Once the request layer
    is done with the body (streamed / explicit Content-Length) `_TrappedResponse.trap` and the `try … except
    Exception` of `close()` / `release_serving` make no difference between them; the B-plans raise each class at
    every such site (`xk=` / `relx=` tokens) and are compared with this one answer.  (While `finalize` still
    consumes the body these classes are instructions to the request layer — redirect, error page — and the plans
    are judged by the oracle only.)
  Not modelled: tools (judged by the oracle only), hooks other than the tampering one, the content of the
  chunks beyond "page chunk / error page / bare error", `start_response` raising.
-/
namespace CpModel.WsgiBoundary
open CpModel.Hooks CpModel.Gen.Pipeline CpModel.Gen.C01

/-- what one `__next__()` / `read()` produces -/
inductive Item where
  | bytes | empty | str | int | raise
  deriving DecidableEq, Repr, Inhabited

def Item.isBytes : Item → Bool
  | .bytes | .empty => true
  | _ => false

inductive Shape where
  | bytes | bytes0 | str | str0 | none | nonIter | list | tuple | gen | iter | file
  deriving DecidableEq, Repr, Inhabited

inductive CloseK where
  | absent | ok | raises | needsArg
  deriving DecidableEq, Repr, Inhabited

structure BodySpec where
  shape : Shape := .bytes
  items : List Item := []
  /-- iterator object / file: an exception instead of `StopIteration` / `b''` at exhaustion (once) -/
  endRaises : Bool := false
  close : CloseK := .absent
  deriving DecidableEq, Repr, Inhabited

inductive ItKind where
  | listIter
  | gen (finRaises : Bool)
  | obj (close : CloseK)
  | fileGen (fclose : CloseK)
  deriving DecidableEq, Repr, Inhabited

/-- An iterator and its state (with the call counters of the probe object behind it). -/
structure It where
  kind : ItKind := .listIter
  rest : List Item := []
  endRaises : Bool := false
  started : Bool := false
  done : Bool := false
  /-- `__next__()` calls on the probe iterator / `read()` calls on the probe file -/
  nextCalls : Nat := 0
  /-- `close()` calls on the probe iterator -/
  closeCalls : Nat := 0
  /-- `close()` calls on the probe file -/
  fileCloses : Nat := 0
  deriving DecidableEq, Repr, Inhabited

inductive NextRes where
  | yield (i : Item) | stop | raise
  deriving DecidableEq, Repr, Inhabited

/-- `file_generator.__next__` after a falsy chunk: `if hasattr(self.input, 'close'): self.input.close()`,
    then `StopIteration` -/
def closeInput (fc : CloseK) (s : It) : NextRes × It :=
  match fc with
  | .absent => (.stop, s)
  | .ok => (.stop, { s with fileCloses := s.fileCloses + 1 })
  | _ => (.raise, { s with fileCloses := s.fileCloses + 1 })

def It.bump (s : It) : It := { s with nextCalls := s.nextCalls + 1 }

/-- `list_iterator.__next__` -/
def nextList (s : It) : NextRes × It :=
  match s.rest with
  | [] => (.stop, s)
  | .raise :: r => (.raise, { s with rest := r })
  | i :: r => (.yield i, { s with rest := r })

/-- resuming a generator (`fin`: its `finally` block raises) -/
def nextGen (fin : Bool) (s : It) : NextRes × It :=
  if s.done then (.stop, s)
  else
    match s.rest with
    | [] => (if fin then .raise else .stop, { s with started := true, done := true })
    | .raise :: r => (.raise, { s with rest := r, started := true, done := true })
    | i :: r => (.yield i, { s with rest := r, started := true })

/-- `__next__` of the probe iterator object (after the call was counted) -/
def nextObj (s : It) : NextRes × It :=
  match s.rest with
  | [] => if s.endRaises then (.raise, { s with endRaises := false }) else (.stop, s)
  | .raise :: r => (.raise, { s with rest := r })
  | i :: r => (.yield i, { s with rest := r })

/-- `file_generator.__next__` (after the `read()` call was counted): `chunk = self.input.read(…)`;
    a truthy chunk is returned, a falsy one closes the input and ends the iteration -/
def nextFile (fc : CloseK) (s : It) : NextRes × It :=
  match s.rest with
  | [] => if s.endRaises then (.raise, { s with endRaises := false }) else closeInput fc s
  | .raise :: r => (.raise, { s with rest := r })
  | .empty :: r => closeInput fc { s with rest := r }
  | i :: r => (.yield i, { s with rest := r })

/-- `next(it)` -/
def It.next (s : It) : NextRes × It :=
  match s.kind with
  | .listIter => nextList s
  | .gen fin => nextGen fin s
  | .obj _ => nextObj s.bump
  | .fileGen fc => nextFile fc s.bump

/-- `is_closable_iterator(it)` -/
def It.closable (s : It) : Bool :=
  match s.kind with
  | .gen _ => true
  | .obj .ok => true
  | .obj .raises => true
  | _ => false

/-- `it.close()` of a closable iterator: did it raise? -/
def It.close (s : It) : Bool × It :=
  match s.kind with
  | .gen fin => if !s.started || s.done then (false, { s with done := true }) else (fin, { s with done := true })
  | .obj c => (c == .raises, { s with closeCalls := s.closeCalls + 1 })
  | _ => (false, s)

/-- `response.body` -/
inductive Body where
  | seq (items : List Item)
  | it (i : It)
  | nonIter
  deriving DecidableEq, Repr, Inhabited

/-- index into the generated table `bodyKindsRefused` -/
def BodySpec.setKind (b : BodySpec) : Nat :=
  match b.shape with
  | .bytes => 0
  | .bytes0 => 0
  | .str => 1
  | .str0 => 8
  | .none => 2
  | .list => if b.items.any (· == .str) then 4 else 3
  | .tuple => 5
  | .gen | .iter | .file => 6
  | .nonIter => 7

/-- `ResponseBody.__set__` (+ `prepare_iter`): `none` = `ValueError` -/
def bodySet (b : BodySpec) : Option Body :=
  if bodyKindsRefused.contains b.setKind then none
  else
    match b.shape with
    | .bytes => some (.seq [.bytes])
    | .bytes0 | .none | .str0 => some (.seq [])
    | .str => some (.seq [.str])
    | .list | .tuple => some (.seq b.items)
    | .nonIter => some .nonIter
    | .gen => some (.it { kind := .gen (b.close == .raises), rest := b.items })
    | .iter => some (.it { kind := .obj b.close, rest := b.items, endRaises := b.endRaises })
    | .file => some (.it { kind := .fileGen b.close, rest := b.items, endRaises := b.endRaises })

/-- `iter(body)` (`none`: `TypeError`) -/
def Body.iter : Body → Option It
  | .seq items => some { kind := .listIter, rest := items }
  | .it i => some i
  | .nonIter => none

/-- iterate to the end: (raised?, items produced, final state) -/
def drain : Nat → It → List Item → Bool × List Item × It
  | 0, s, acc => (false, acc.reverse, s)
  | n + 1, s, acc =>
    match s.next with
    | (.yield i, s') => drain n s' (i :: acc)
    | (.stop, s') => (false, acc.reverse, s')
    | (.raise, s') => (true, acc.reverse, s')

def drainAll (s : It) : Bool × List Item × It := drain (s.rest.length + 1) s []

structure Ctr where
  next : Nat := 0
  close : Nat := 0
  fclose : Nat := 0
  deriving DecidableEq, Repr, Inhabited

def It.ctr (s : It) : Ctr := { next := s.nextCalls, close := s.closeCalls, fclose := s.fileCloses }

inductive StatusT where
  | keep | str | none | int
  deriving DecidableEq, Repr, Inhabited

def StatusT.kind : StatusT → Nat
  | .keep => 0 | .str => 1 | .none => 2 | .int => 3

inductive HdrT where
  | none | bytesPair | strKey | strVal | uniVal | strPair | triple | nonPair | intVal | noList
  deriving DecidableEq, Repr, Inhabited

/-- index into `headerKindsRejected` (`none`: nothing appended) -/
def HdrT.kind : HdrT → Option Nat
  | .none => Option.none | .bytesPair => some 0 | .strKey => some 1 | .strVal => some 2 | .uniVal => some 3
  | .strPair => some 4 | .triple => some 5 | .nonPair => some 6 | .intVal => some 7 | .noList => some 8

/-- what a PEP 3333 server may be handed: a pair of byte strings (decoded as Latin-1 by `AppResponse`) -/
def HdrT.wellTyped : HdrT → Bool
  | .none | .bytesPair => true
  | _ => false

structure Plan where
  head : Bool := false
  stream : Bool := false
  /-- the handler sets `Content-Length` itself -/
  cl : Bool := false
  status : Option Nat := none
  body : BodySpec := {}
  tamperS : StatusT := .keep
  tamperH : HdrT := .none
  reads : Option Nat := none
  closes : Nat := 1
  deriving Repr, Inhabited

/-- the response entity when `Request.run` returns -/
inductive Ent where
  | page (b : Body)
  | errorPage
  deriving DecidableEq, Repr, Inhabited

structure Req where
  code : Nat
  ent : Ent
  /-- the edits of the `on_end_resource` hook are still there (no `handle_error` → `finalize` after it) -/
  tampered : Bool
  /-- counters of a probe iterator that was consumed and dropped inside `Request.run` -/
  ctr : Ctr := {}
  deriving Repr, Inhabited

/-- `handle_error()`: `HTTPError(500).set_response(); finalize()` -/
def errorResp (c : Ctr) : Req := { code := 500, ent := .errorPage, tampered := false, ctr := c }

def statusCode (st : Option Nat) : Nat :=
  match st with
  | none => falsyStatusCode
  | some 0 => falsyStatusCode
  | some c => c

/-- statuses for which `finalize` drops the body (generated tables, read from the live code without / with
    `response.stream`) -/
def noBodyFor (stream : Bool) (code : Nat) : Bool :=
  inRanges (if stream then noBodyStreamRanges else noBodyRanges) code

/-- `_do_respond` from the handler on, `finalize`, `on_end_resource`, `handle_error` -/
def requestCore (p : Plan) : Req :=
  match bodySet p.body with
  | none => errorResp {}
  | some b =>
    let code := statusCode p.status
    if !inRanges validStatusRanges code then { code := 500, ent := .errorPage, tampered := true }
    else if noBodyFor p.stream code then
      -- _flush_body(): consume(iter(self.body)); self.body = b''
      match b.iter with
      | none => errorResp {}
      | some i =>
        let d := drainAll i
        if d.1 then errorResp d.2.2.ctr
        else { code := code, ent := .page (.seq []), tampered := true, ctr := d.2.2.ctr }
    else if p.stream then { code := code, ent := .page b, tampered := true }
    else if p.cl then { code := code, ent := .page b, tampered := true }
    else
      -- collapse_body(): b''.join(self.body)
      match b.iter with
      | none => errorResp {}
      | some i =>
        let d := drainAll i
        if d.1 || d.2.1.any (fun x => !x.isBytes) then errorResp d.2.2.ctr
        else { code := code, ent := .page (.seq d.2.1), tampered := true, ctr := d.2.2.ctr }

/-- `Request.run` for a page without failing callbacks: …, then `if self.method == 'HEAD': response.body = []` -/
def request (p : Plan) : Req :=
  let r := requestCore p
  if p.head then { r with ent := .page (.seq []) } else r

def StatusT.rejected (t : StatusT) : Bool := statusKindsRejected.contains t.kind
def HdrT.rejected (t : HdrT) : Bool :=
  match t.kind with
  | Option.none => false
  | some k => headerKindsRejected.contains k

/-- a chunk handed to the server -/
inductive Chunk where
  | item (i : Item)
  | errorPage
  | bare
  deriving DecidableEq, Repr, Inhabited

def Chunk.isBytes : Chunk → Bool
  | .item i => i.isBytes
  | _ => true

/-- The conversation as the server sees it. -/
structure Srv where
  /-- `AppResponse.iter_response` (`none`: the trapper answered before `AppResponse` existed) -/
  it : Option It := none
  /-- the error page still to be delivered (one chunk) -/
  pendingPage : Bool := false
  /-- the trapper's own iterator: `some true` the bare body is still to be delivered, `some false` emptied -/
  trapper : Option Bool := none
  starts : List (Nat × Bool) := []
  out : List Chunk := []
  /-- how often `Request.close()` did its work (`on_end_request`) -/
  released : Nat := 0
  /-- `cherrypy.serving` still holds the page's request -/
  live : Bool := false
  /-- exceptions of the iterator's `close()` that were logged and dropped -/
  closeLogged : Nat := 0
  ctr : Ctr := {}
  /-- an exception left `app()`, `next` or `close()` -/
  escaped : Bool := false
  deriving Repr, Inhabited

/-- `app(environ, start_response)` -/
def appCall (p : Plan) : Srv :=
  let r := request p
  let tamperBad := r.tampered && (p.tamperS.rejected || p.tamperH.rejected)
  let body : Option It :=
    match r.ent with
    | .errorPage => some {}
    | .page b => b.iter
  match tamperBad, body with
  | false, some i =>
    { it := some i, pendingPage := r.ent == .errorPage, starts := [(r.code, false)], live := true, ctr := r.ctr }
  | _, _ =>
    -- except BaseException: self.close(); raise  → trapper: start_response(500, exc_info), bare body
    { it := none, trapper := some true, starts := [(500, true)], released := 1, live := false, ctr := r.ctr }

/-- one `next()` by the server; `true`: `StopIteration`.  `chk`: non-bytes items are refused
    (`Gen.C01.chunkTypeChecked` for the running code) -/
def srvNext (chk : Bool) (s : Srv) : Srv × Bool :=
  match s.trapper with
  | some true => ({ s with trapper := some false, out := s.out ++ [.bare] }, false)
  | some false => (s, true)
  | none =>
    if s.pendingPage then ({ s with pendingPage := false, out := s.out ++ [.errorPage] }, false)
    else
      match s.it with
      | none => (s, true)
      | some i =>
        let trap (i' : It) : Srv × Bool :=
          -- _TrappedResponse.trap: start_response(500, exc_info); the bare body is this chunk
          ({ s with it := some i', trapper := some false, starts := s.starts ++ [(500, true)],
                    out := s.out ++ [.bare] }, false)
        match i.next with
        | (.yield x, i') =>
          if x.isBytes || !chk then ({ s with it := some i', out := s.out ++ [.item x] }, false)
          else trap i'
        | (.stop, i') => ({ s with it := some i' }, true)
        | (.raise, i') => trap i'

/-- the server's iteration: `none` = to the end -/
def srvReadN (chk : Bool) : Nat → Srv → Srv
  | 0, s => s
  | n + 1, s =>
    let (s', stop) := srvNext chk s
    if stop then s' else srvReadN chk n s'

def fuelOf (s : Srv) : Nat :=
  (match s.it with | some i => i.rest.length | none => 0) + 4

def srvRead (chk : Bool) (reads : Option Nat) (s : Srv) : Srv :=
  match reads with
  | some m => srvReadN chk m s
  | none => srvReadN chk (fuelOf s) s

/-- `try: iter_close() except Exception: log` — nothing propagates -/
def guardedClose (i : It) : It × Nat :=
  let (raised, i') := i.close
  (i', if raised then 1 else 0)

/-- one `close()` by the server -/
def srvClose (stream : Bool) (s : Srv) : Srv :=
  match s.it with
  | none => s          -- the trapper's `response` is a list: `hasattr(self.response, 'close')` is false
  | some i =>
    let streaming := s.live && stream
    let s1 := { s with released := if s.live then s.released + 1 else s.released, live := false }
    if streaming && i.closable then
      let (i', logged) := guardedClose i
      { s1 with it := some i', closeLogged := s1.closeLogged + logged }
    else s1

def srvCloses (stream : Bool) : Nat → Srv → Srv
  | 0, s => s
  | n + 1, s => srvCloses stream n (srvClose stream s)

def convWith (chk : Bool) (p : Plan) : Srv :=
  srvCloses p.stream p.closes (srvRead chk p.reads (appCall p))

/-- the conversation with the running code -/
def conv (p : Plan) : Srv := convWith chunkTypeChecked p

/-- counters of the probe object at the end -/
def Srv.counters (s : Srv) : Ctr :=
  match s.it with
  | some i => { next := s.ctr.next + i.nextCalls, close := s.ctr.close + i.closeCalls, fclose := s.ctr.fclose + i.fileCloses }
  | none => s.ctr

end CpModel.WsgiBoundary
