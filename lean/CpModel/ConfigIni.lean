import CpModel.Dispatch
/-!
  The INI layer under `reprconf.Parser.as_dict` (C08): option names through `optionxform`, the `DEFAULT`
  section, `%(name)s` interpolation (`configparser.BasicInterpolation`).  Core Lean only.

  The document is what the file denotes (sections in file order, each option with its raw text; the
  `[DEFAULT]` section apart); the line syntax itself (configparser's reader) is not modelled.

  * reading: every option name goes through `optionxform` (`Parser` overrides it with the identity, stock
    `ConfigParser` lower-cases); two options of one section with the same transformed name are a
    `DuplicateOptionError` (strict mode);
  * `options(section)`: the section's own options, then the `DEFAULT` options it does not have itself;
  * `get(section, option)`: the raw text from the section, else from `DEFAULT`, then interpolated:
    `%%` ↦ `%`; `%(name)s` ↦ the text of option `optionxform(name)` (section first, then `DEFAULT`),
    interpolated itself when it holds a `%` (at most 10 levels: `InterpolationDepthError`); a missing
    option is `InterpolationMissingOptionError`, any other `%` `InterpolationSyntaxError`;
  * `as_dict`: for every section (file order) and every option (order above) the interpolated text, which
    then goes to `unrepr` (Unrepr.lean).
-/
namespace CpModel.ConfigIni
open CpModel.Dispatch

inductive IniErr where
  | syntaxErr
  | missingOption
  | depth
  | duplicateOption
  deriving DecidableEq, Repr, Inhabited

abbrev Raw := List Char
abbrev Opts := List (List Char × Raw)

structure Doc where
  defaults : Opts
  sections : List (List Char × Opts)
  deriving Repr, Inhabited

/-- ASCII `str.lower` (stock `optionxform`) -/
def lowerAscii (n : List Char) : List Char :=
  n.map fun c => if 'A' ≤ c ∧ c ≤ 'Z' then Char.ofNat (c.toNat + 32) else c

/-- the reader: names through `optionxform`; a repeated name is an error -/
def readOpts (xf : List Char → List Char) : Opts → Except IniErr Opts
  | [] => .ok []
  | (n, v) :: rest =>
    match readOpts xf rest with
    | .error e => .error e
    | .ok r => if r.any (·.1 = xf n) then .error .duplicateOption else .ok ((xf n, v) :: r)

/-- `ChainMap(section, defaults)[name]` -/
def lookupOpt (own dflt : Opts) (name : List Char) : Option Raw :=
  match lookup own name with
  | some v => some v
  | none => lookup dflt name

/-- after `%(`: the name is everything before the first `)` (not empty) and an `s` follows: `%\(([^)]+)\)s` -/
def splitRef : List Char → Option (List Char × List Char)
  | [] => none
  | ')' :: _ => none
  | c :: rest =>
    let rec go : List Char → List Char → Option (List Char × List Char)
      | _, [] => none
      | acc, ')' :: 's' :: r => some (acc.reverse, r)
      | _, ')' :: _ => none
      | acc, x :: r => go (x :: acc) r
    go [c] rest

/-- the `while rest:` loop of `_interpolate_some`; `sub` interpolates a referenced text one level deeper -/
def scan (sub : Raw → Except IniErr (List Char)) (xf : List Char → List Char) (own dflt : Opts) :
    Nat → Raw → Except IniErr (List Char)
  | 0, _ => .error .syntaxErr
  | _ + 1, [] => .ok []
  | f + 1, '%' :: rest =>
    match rest with
    | '%' :: r => (scan sub xf own dflt f r).map ('%' :: ·)
    | '(' :: r =>
      match splitRef r with
      | none => .error .syntaxErr
      | some (name, r') =>
        match lookupOpt own dflt (xf name) with
        | none => .error .missingOption
        | some v =>
          match (if v.contains '%' then sub v else .ok v) with
          | .error e => .error e
          | .ok a => (scan sub xf own dflt f r').map (a ++ ·)
    | _ => .error .syntaxErr
  | f + 1, c :: rest => (scan sub xf own dflt f rest).map (c :: ·)

/-- `_interpolate_some` with `d` levels left (`MAX_INTERPOLATION_DEPTH` = 10 at the top) -/
def interpD (xf : List Char → List Char) (own dflt : Opts) : Nat → Raw → Except IniErr (List Char)
  | 0, _ => .error .depth
  | d + 1, s => scan (interpD xf own dflt d) xf own dflt (s.length + 1) s

def maxDepth : Nat := 10

/-- `get(section, option)` for an option of `options(section)` -/
def getOpt (xf : List Char → List Char) (own dflt : Opts) (name : List Char) : Except IniErr (List Char) :=
  match lookupOpt own dflt name with
  | none => .error .missingOption
  | some raw => interpD xf own dflt maxDepth raw

/-- `options(section)` -/
def optionNames (own dflt : Opts) : List (List Char) :=
  own.map (·.1) ++ (dflt.filter fun (n, _) => !own.any (·.1 = n)).map (·.1)

def sectionTexts (xf : List Char → List Char) (own dflt : Opts) : List (List Char) →
    Except IniErr (List (List Char × List Char))
  | [] => .ok []
  | n :: rest =>
    match getOpt xf own dflt n with
    | .error e => .error e
    | .ok t =>
      match sectionTexts xf own dflt rest with
      | .error e => .error e
      | .ok r => .ok ((n, t) :: r)

/-- the whole file is read (and checked for repeated options) before anything is looked up -/
def readSections (xf : List Char → List Char) : List (List Char × Opts) → Except IniErr (List (List Char × Opts))
  | [] => .ok []
  | (s, raw) :: rest =>
    match readOpts xf raw with
    | .error e => .error e
    | .ok own =>
      match readSections xf rest with
      | .error e => .error e
      | .ok r => .ok ((s, own) :: r)

def sectionsTexts (xf : List Char → List Char) (dflt : Opts) : List (List Char × Opts) →
    Except IniErr (List (List Char × List (List Char × List Char)))
  | [] => .ok []
  | (s, own) :: rest =>
    match sectionTexts xf own dflt (optionNames own dflt) with
    | .error e => .error e
    | .ok ts =>
      match sectionsTexts xf dflt rest with
      | .error e => .error e
      | .ok r => .ok ((s, ts) :: r)

/-- what `as_dict` hands to `unrepr`, section by section, option by option -/
def asDictTexts (xf : List Char → List Char) (doc : Doc) :
    Except IniErr (List (List Char × List (List Char × List Char))) :=
  match readOpts xf doc.defaults with
  | .error e => .error e
  | .ok dflt =>
    match readSections xf doc.sections with
    | .error e => .error e
    | .ok secs => sectionsTexts xf dflt secs

end CpModel.ConfigIni
