import CpModel.Cache
/-
  Interleaving model of `cherrypy.lib.caching` (property C15): ANY number of request threads and
  the `expire_cache` thread, at the granularity of ONE shared-state access per step.

  A *shared-state access* is one operation on an object that more than one thread can reach:

    store (dict)            get / pop / setitem / len / getitem
    AntiStampedeCache (dict) get / setitem / delitem           (only once it is in `store`)
    threading.Event          wait / read of `.result` / write of `.result` / set
                                                               (only once it is in a slot)
    expirations (dict)       setdefault / copy / delitem
    a bucket (list)          append / next of its iterator
    MemoryCache.cursize      read / write                      (`x.cursize -= n` is a read AND a write)
    the page handler         (one step: it draws the next generation number)

  Everything a thread does between two such accesses is thread-local and is folded into the step
  of the access before it (`Pc` = the access the thread is parked in front of).  The harness
  (`harness/c15_sched.py`) gates the real threads at exactly these accesses through instrumented
  proxies of the dicts / Events / lists / the `cursize` attribute -- not at source lines.

  Objects have identity: an `AntiStampedeCache` that `delete` popped from `store`, or an
  `Event` that was overwritten in its slot, or a bucket whose key the sweep deleted, stays
  reachable from the locals of the threads that hold it (`ucs`, `evs`, `buckets` are heaps,
  indices are the references).

  `AntiStampedeCache.wait`:   uGet → (value | Event → eWait → eRes → (eRes2 → value | uSetEv) | uSetEv)
  `AntiStampedeCache.__setitem__`: pUGet, pUSet, pERes, pESet
  `MemoryCache.get`:          sGet, then `wait`
  `MemoryCache.put`:          pGet, pNew, pLen, pCur, pSetdef, pApp, `__setitem__`, pCurW
  `MemoryCache.delete`:       inval (tool `get`) / tPop (tee, empty body)
  `MemoryCache.expire_cache`: one pass = idle(copy) → (iter → sGet → uDel → curR → curW)* → xDel …

  `Event.wait(timeout)`: the step is enabled when the event is set, or when the schedule says that
  the timeout elapses now (`Act.thr j true`).  `antistampede_timeout = None` is `CCfg.waits = false`.

  The thread-local decisions (`decideHit`: Cache-Control loop, age, `teeAct`: what the tee does)
  are the functions of the sequential model (`CpModel.Cache`); `Age` is
  `int(response.time - create_time)` with Python's truncation toward zero -- under interleaving
  the reader's `response.time` can be EARLIER than the producer's, so the difference is an `Int`.

  Not modelled: `tot_*` statistics (non-atomic counters nobody reads), creation of the process-wide
  `cherrypy._cache` by two first requests at once, the mutation of the *stored* header map by the
  producing request after `put` (finalize adds Content-Length to the very dict that is in the
  cache; the check compares responses modulo Content-Length).
-/
namespace CpModel.CacheConc
open CpModel.Cache

/-- one run of the page handler -/
structure Run where
  gen : Nat
  r : Req
  p : Plan
  t : Nat                         -- `response.time` of that request
  deriving Repr, DecidableEq

inductive CSlot where
  | ev (e : Nat)                  -- a `threading.Event` (reference into `St.evs`)
  | val (v : Variant)
  deriving Repr, DecidableEq

/-- an `AntiStampedeCache` object -/
structure UC where
  uri : Str                       -- ghost: the uri it was created for
  sel : List Str                  -- `selecting_headers` (set before it is published, never changed)
  slots : List (List Str × CSlot)
  deriving Repr, DecidableEq

/-- a `threading.Event` with its `.result` attribute -/
structure EvObj where
  uc : Nat                        -- ghost: the AntiStampedeCache and the key it was created for
  key : List Str
  result : Option Variant
  isSet : Bool
  deriving Repr, DecidableEq

structure CCfg where
  base : Cfg
  waits : Bool                    -- `antistampede_timeout is not None`
  deriving Repr

inductive COut where
  | hit (v : Variant) (age : Int) -- served from the cache with `Age: age`
  | miss (gen : Nat) (cacheable : Bool)
  | bad400
  deriving Repr, DecidableEq

/-- the shared access a request thread is parked in front of (with the locals it holds) -/
inductive Pc where
  | start                                   -- not started (`response.time` not yet taken)
  | inval                                   -- tool get: `cache.delete()` = store.pop
  | sGet                                    -- MemoryCache.get: store.get(uri)
  | uGet (i : Nat)                          -- wait: self.get(key)
  | uSetEv (i : Nat)                        -- wait: dict.__setitem__(self, key, Event())
  | eWait (i e : Nat)                       -- wait: value.wait(timeout)
  | eRes (i e : Nat)                        -- wait: `if value.result is not None`
  | eRes2 (e : Nat)                         -- wait: `return value.result` (a second read)
  | handler (cacheable : Bool)              -- the page handler
  | tPop (g : Nat)                          -- tee, empty body: store.pop
  | pGet (v : Variant)                      -- put: store.get(uri)
  | pNew (v : Variant)                      -- put: store[uri] = AntiStampedeCache()
  | pLen (v : Variant) (i : Nat)            -- put: len(store)
  | pCur (v : Variant) (i : Nat)            -- put: read cursize
  | pSetdef (v : Variant) (i : Nat) (total : Int)       -- put: expirations.setdefault
  | pApp (v : Variant) (i : Nat) (total : Int) (b : Nat) -- put: bucket.append
  | pUGet (v : Variant) (i : Nat) (total : Int)         -- __setitem__: self.get(key)
  | pUSet (v : Variant) (i : Nat) (total : Int) (ex : Option Nat)  -- __setitem__: dict.__setitem__
  | pERes (v : Variant) (i : Nat) (total : Int) (e : Nat)  -- __setitem__: existing.result = value
  | pESet (v : Variant) (total : Int) (e : Nat)         -- __setitem__: existing.set()
  | pCurW (v : Variant) (total : Int)                   -- put: cursize = total
  | done (o : COut)
  deriving Repr, DecidableEq

structure Thread where
  r : Req
  p : Plan
  t0 : Nat                        -- `response.time`, taken by the `start` step
  timedOut : Bool                 -- ghost: its last `Event.wait` ended by the timeout
  pc : Pc
  deriving Repr, DecidableEq

/-- loop context of one `expire_cache` pass -/
structure XCtx where
  nowX : Nat                      -- `now = time.time()` of this pass
  due : Nat                       -- current bucket's key
  b : Nat                         -- current bucket (reference)
  i : Nat                         -- iterator position in it
  rest : List (Nat × Nat)         -- remaining items of the copy
  deriving Repr, DecidableEq

inductive XPc where
  | idle                                    -- in `time.sleep`; next: `expirations.copy()`
  | iter (c : XCtx)                         -- next(iterator of the bucket)
  | sGet (c : XCtx) (e : Entry)             -- self.store[uri]
  | uDel (c : XCtx) (e : Entry) (i : Nat)   -- del uricache[key]
  | curR (c : XCtx) (e : Entry)             -- read cursize
  | curW (c : XCtx) (n : Int)               -- write cursize
  | xDel (c : XCtx)                         -- del self.expirations[due]
  deriving Repr

structure St where
  store : List (Str × Nat) := []            -- uri → AntiStampedeCache (reference)
  ucs : List UC := []
  evs : List EvObj := []
  exps : List (Nat × Nat) := []             -- due → bucket (reference), in dict order
  buckets : List (List Entry) := []
  cursize : Int := 0
  now : Nat := 0
  nextGen : Nat := 1
  log : List Run := []
  thr : List Thread := []
  xp : XPc := .idle
  deriving Repr

/-! ### thread-local decisions -/

/-- `int(response.time - create_time)` (truncation toward zero), in seconds -/
def ageOf (t0 created : Nat) : Int := Int.tdiv ((t0 : Int) - (created : Int)) (tps : Int)

inductive Dec where
  | serve (age : Int)
  | handler
  | bad
  deriving Repr, DecidableEq

/-- tool `get` after `cache.get()` returned a variant: Cache-Control loop, then the age test -/
def decideHit (cfg : Cfg) (r : Req) (t0 : Nat) (v : Variant) : Dec :=
  match scanCC (sortDesc r.cc) with
  | .bad => .bad
  | .noCache => .handler
  | .proceed m =>
    if ageOf t0 v.created > (effMaxAge cfg m : Int) then .handler else .serve (ageOf t0 v.created)

inductive TeeAct where
  | nothing
  | delete
  | put
  deriving Repr, DecidableEq

/-- what `tee_output` + the tee generator do after the handler (see `CpModel.Cache.tee`) -/
def teeAct (r : Req) (p : Plan) : TeeAct :=
  if p.completes r = false then .nothing
  else if sNoStore ∈ r.cc then .nothing
  else if p.pragmaNoCache ∨ p.noStore then .nothing
  else if p.size = 0 then .delete
  else .put

def afterValue (cfg : CCfg) (th : Thread) (v : Variant) : Pc :=
  match decideHit cfg.base th.r th.t0 v with
  | .bad => .done .bad400
  | .handler => .handler true
  | .serve a => .done (.hit v a)

/-! ### one step of a request thread -/

def setThr (s : St) (j : Nat) (th : Thread) : St := { s with thr := s.thr.set j th }

def setSlots (s : St) (i : Nat) (uc : UC) (slots : List (List Str × CSlot)) : St :=
  { s with ucs := s.ucs.set i { uc with slots := slots } }

/-- the access the thread is parked in front of, and its thread-local continuation:
    the new shared state and the thread's new local state -/
def thrCore (cfg : CCfg) (s : St) (th : Thread) : St × Thread :=
  match th.pc with
  | .start =>
    if th.r.method ∈ cfg.base.invalid then (s, { th with t0 := s.now, pc := .inval })
    else if sNoCache ∈ th.r.pragma then (s, { th with t0 := s.now, pc := .handler true })
    else (s, { th with t0 := s.now, pc := .sGet })
  | .inval => ({ s with store := adel s.store th.r.uri }, { th with pc := .handler false })
  | .sGet =>
    match aget s.store th.r.uri with
    | none => (s, { th with pc := .handler true })
    | some i => (s, { th with pc := .uGet i })
  | .uGet i =>
    match s.ucs[i]? with
    | none => (s, th)
    | some uc =>
      match aget uc.slots (uc.sel.map (hget th.r)) with
      | some (.val v) => (s, { th with pc := afterValue cfg th v })
      | some (.ev e) =>
        if cfg.waits then (s, { th with pc := .eWait i e })
        else (s, { th with pc := .handler true })
      | none => (s, { th with pc := .uSetEv i })
  | .uSetEv i =>
    match s.ucs[i]? with
    | none => (s, th)
    | some uc =>
      let k := uc.sel.map (hget th.r)
      ({ setSlots s i uc (aset uc.slots k (.ev s.evs.length)) with
         evs := s.evs ++ [⟨i, k, none, false⟩] }, { th with pc := .handler true })
  | .eWait i e =>
    match s.evs[e]? with
    | none => (s, th)
    | some eo => (s, { th with timedOut := !eo.isSet, pc := .eRes i e })
  | .eRes i e =>
    match s.evs[e]? with
    | none => (s, th)
    | some eo =>
      match eo.result with
      | some _ => (s, { th with pc := .eRes2 e })
      | none => (s, { th with pc := .uSetEv i })
  | .eRes2 e =>
    match s.evs[e]? with
    | none => (s, th)
    | some eo =>
      match eo.result with
      | some v => (s, { th with pc := afterValue cfg th v })
      | none => (s, { th with pc := .handler true })    -- `wait` would return None
  | .handler c =>
    let g := s.nextGen
    let s1 : St := { s with nextGen := g + 1, log := s.log ++ [⟨g, th.r, th.p, th.t0⟩] }
    if c then
      match teeAct th.r th.p with
      | .nothing => (s1, { th with pc := .done (.miss g true) })
      | .delete => (s1, { th with pc := .tPop g })
      | .put => (s1, { th with pc := .pGet ⟨g, th.t0⟩ })
    else (s1, { th with pc := .done (.miss g false) })
  | .tPop g => ({ s with store := adel s.store th.r.uri }, { th with pc := .done (.miss g true) })
  | .pGet v =>
    match aget s.store th.r.uri with
    | some i => (s, { th with pc := .pLen v i })
    | none => (s, { th with pc := .pNew v })
  | .pNew v =>
    ({ s with ucs := s.ucs ++ [⟨th.r.uri, sortDesc th.p.vary, []⟩],
              store := aset s.store th.r.uri s.ucs.length }, { th with pc := .pLen v s.ucs.length })
  | .pLen v i =>
    if s.store.length < cfg.base.maxobjects then (s, { th with pc := .pCur v i })
    else (s, { th with pc := .done (.miss v.gen true) })
  | .pCur v i =>
    if th.p.size < cfg.base.maxobjSize ∧ s.cursize + th.p.size < cfg.base.maxsize then
      (s, { th with pc := .pSetdef v i (s.cursize + th.p.size) })
    else (s, { th with pc := .done (.miss v.gen true) })
  | .pSetdef v i total =>
    let due := th.t0 + tps * cfg.base.delay
    match aget s.exps due with
    | some b => (s, { th with pc := .pApp v i total b })
    | none =>
      ({ s with exps := aset s.exps due s.buckets.length, buckets := s.buckets ++ [[]] },
        { th with pc := .pApp v i total s.buckets.length })
  | .pApp v i total b =>
    match s.ucs[i]? with
    | none => (s, th)
    | some uc =>
      let k := uc.sel.map (hget th.r)
      let en : Entry := ⟨th.t0 + tps * cfg.base.delay, th.p.size, th.r.uri,
                         if cfg.base.sweepByNames then uc.sel else k⟩
      ({ s with buckets := s.buckets.set b ((s.buckets.getD b []) ++ [en]) },
        { th with pc := .pUGet v i total })
  | .pUGet v i total =>
    match s.ucs[i]? with
    | none => (s, th)
    | some uc =>
      match aget uc.slots (uc.sel.map (hget th.r)) with
      | some (.ev e) => (s, { th with pc := .pUSet v i total (some e) })
      | _ => (s, { th with pc := .pUSet v i total none })
  | .pUSet v i total ex =>
    match s.ucs[i]? with
    | none => (s, th)
    | some uc =>
      let s1 := setSlots s i uc (aset uc.slots (uc.sel.map (hget th.r)) (.val v))
      match ex with
      | some e => (s1, { th with pc := .pERes v i total e })
      | none => (s1, { th with pc := .pCurW v total })
  | .pERes v _ total e =>
    match s.evs[e]? with
    | none => (s, th)
    | some eo => ({ s with evs := s.evs.set e { eo with result := some v } },
                  { th with pc := .pESet v total e })
  | .pESet v total e =>
    match s.evs[e]? with
    | none => (s, th)
    | some eo => ({ s with evs := s.evs.set e { eo with isSet := true } },
                  { th with pc := .pCurW v total })
  | .pCurW v total => ({ s with cursize := total }, { th with pc := .done (.miss v.gen true) })
  | .done _ => (s, th)

def thrStep (cfg : CCfg) (s : St) (j : Nat) (th : Thread) : St :=
  setThr (thrCore cfg s th).1 j (thrCore cfg s th).2

/-- is the pending access of the thread executable now?  (`timeout`: the schedule lets the
    antistampede timeout elapse) -/
def enabled (s : St) (th : Thread) (timeout : Bool) : Bool :=
  match th.pc with
  | .eWait _ e => timeout || ((s.evs[e]?).map (·.isSet)).getD false
  | .done _ => false
  | _ => true

/-! ### one step of the expiry thread -/

/-- skip the buckets that are not due; park in front of the first access of the next due one -/
def xAdvance (nowX : Nat) : List (Nat × Nat) → XPc
  | [] => .idle
  | (due, b) :: rest => if due ≤ nowX then .iter ⟨nowX, due, b, 0, rest⟩ else xAdvance nowX rest

def xpStep (s : St) : St :=
  match s.xp with
  | .idle => { s with xp := xAdvance s.now s.exps }
  | .iter c =>
    match (s.buckets.getD c.b [])[c.i]? with
    | some e => { s with xp := .sGet { c with i := c.i + 1 } e }
    | none => { s with xp := .xDel c }
  | .sGet c e =>
    match aget s.store e.uri with
    | none => { s with xp := .iter c }
    | some i => { s with xp := .uDel c e i }
  | .uDel c e i =>
    match s.ucs[i]? with
    | none => { s with xp := .iter c }
    | some uc =>
      match aget uc.slots e.key with
      | none => { s with xp := .iter c }
      | some _ => { setSlots s i uc (adel uc.slots e.key) with xp := .curR c e }
  | .curR c e => { s with xp := .curW c (s.cursize - e.size) }
  | .curW c n => { s with cursize := n, xp := .iter c }
  | .xDel c => { s with exps := adel s.exps c.due, xp := xAdvance c.nowX c.rest }

/-! ### schedules -/

inductive Act where
  | spawn (r : Req) (p : Plan)              -- a new request thread (not yet started)
  | thr (j : Nat) (timeout : Bool)          -- request thread j performs its pending access
  | xp                                      -- the expiry thread performs its pending access
  | tick (n : Nat)                          -- the clock advances
  deriving Repr

def step (cfg : CCfg) (s : St) : Act → St
  | .spawn r p => { s with thr := s.thr ++ [⟨r, p, 0, false, .start⟩] }
  | .thr j to =>
    match s.thr[j]? with
    | none => s
    | some th => if enabled s th to then thrStep cfg s j th else s
  | .xp => xpStep s
  | .tick n => { s with now := s.now + n }

def run (cfg : CCfg) : St → List Act → St
  | s, [] => s
  | s, a :: as => run cfg (step cfg s a) as

/-! ### sequential schedules (used to cross-check this model against `CpModel.Cache`) -/

/-- let thread j run alone until it is done (never through a timeout) -/
def runThr (cfg : CCfg) : Nat → St → Nat → St
  | 0, s, _ => s
  | fuel + 1, s, j =>
    match s.thr[j]? with
    | none => s
    | some th =>
      match th.pc with
      | .done _ => s
      | _ => if enabled s th false then runThr cfg fuel (thrStep cfg s j th) j else s

/-- one whole pass of the expiry thread -/
def runXp : Nat → St → St
  | 0, s => s
  | fuel + 1, s =>
    match (xpStep s).xp with
    | .idle => xpStep s
    | _ => runXp fuel (xpStep s)

def sweepFuel (s : St) : Nat := 5 * (s.buckets.map List.length).sum + 2 * s.exps.length + 4

def seqStep (cfg : CCfg) (s : St) : Op → St
  | .req r p => runThr cfg 64 (step cfg s (.spawn r p)) s.thr.length
  | .tick n => { s with now := s.now + n }
  | .sweep => runXp (sweepFuel s) s

def seqRun (cfg : CCfg) : St → List Op → St
  | s, [] => s
  | s, op :: ops => seqRun cfg (seqStep cfg s op) ops

/-- number of stored responses in the resources reachable from `store` -/
def countVals (s : St) : Nat :=
  (s.store.map fun p =>
    (((s.ucs[p.2]?).map (·.slots)).getD []).countP fun x => match x.2 with | .val _ => true | .ev _ => false).sum

end CpModel.CacheConc
