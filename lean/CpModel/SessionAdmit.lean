import Std.Data.HashSet
/-
  C13: trace inclusion modulo stuttering, generic over a transition system `step : σ → τ → σ`
  (one model step of actor `t`), an enabledness test and an observation function `obs : σ → ο`.
  Core Lean only.

  The real threads are driven at SHARED-STATE ACCESSES and primitive calls (proxies for the `cache` /
  `locks` dicts, lock shims, os / pickle file operations) — never at source lines.  After every turn
  of a real actor `t` (= exactly one operation on a shared object, plus the thread-local code around
  it) the harness records the observable shared state `o`.  The recorded trace
  `[(t₁,o₁), (t₂,o₂), …]` is ADMITTED by the model when some model run shows the same sequence of
  observations up to repetition (stuttering) and every change of the observation is made by the
  actor that made it in the real run.  Model steps that do not change the observation (reads of the
  shared tables, clock reads, thread-local code) are stuttering steps, and so are real turns that do
  not change it: adding, removing, fusing or splitting READS, temporaries, log lines, helper frames
  or early returns in the source changes neither side of the comparison, while every WRITE to the
  shared state (who performs it, in which order, with which effect) has to be matched exactly.

  An *epoch* is a maximal stretch of the recorded trace without a change of the observation.  All
  reads inside one epoch see the same shared state, so only the epoch in which a model actor performs
  a stuttering step matters, not the position inside it.  `follow` therefore keeps the model actors
  lazy: during an epoch it only collects the actors that had a turn (`act`); when the epoch ends
  (somebody changes the observation, or the clock ticks) every collected actor may have performed any
  number (≤ fuel) of its stuttering steps (`closure`), and the actor `t` that ends the epoch performs
  a block of its steps up to the first state that shows the new observation (`visChain`); the rest of that turn (thread-local code, clock reads) already belongs to the new
  epoch, so `t` is its first collected actor.  An actor that had no turn in an epoch performs no step
  in it.

  `prune` may drop states (duplicates); that can make admission fail, never succeed wrongly
  (`CpProofs/C13Admit.lean`).
-/
namespace CpModel.SessionAdmit

variable {σ τ ο : Type}

inductive Turn (τ ο : Type)
  | free (t : τ) (o : ο)      -- a real actor's turn
  | exact (t : τ) (o : ο)     -- an environment turn (the clock): exactly one model step of `t`

def Turn.obs : Turn τ ο → ο
  | .free _ o => o
  | .exact _ o => o

/-- `c` and the states reached from it by up to `fuel` enabled steps of `t` that keep the
    observation `p` -/
def tauChain [DecidableEq ο] (step : σ → τ → σ) (en : σ → τ → Bool) (obs : σ → ο) (t : τ) (p : ο) :
    Nat → σ → List σ
  | 0, c => [c]
  | n + 1, c =>
    if en c t && decide (obs (step c t) = p) then c :: tauChain step en obs t p n (step c t) else [c]

/-- `n` consecutive steps of actor `t` -/
def iter (step : σ → τ → σ) (t : τ) : Nat → σ → σ
  | 0, c => c
  | n + 1, c => iter step t n (step c t)

/-- the first state that shows `o` among those reached from `c` by `1 .. fuel` enabled steps of `t`.
    One turn of a real actor is atomic for everybody else, so it may stand for a BLOCK of model steps
    of that actor: what the observation is inside the block is nobody's business (e.g. a source that
    truncates and rewrites a file without any operation the harness could stop at in between). -/
def visChain [DecidableEq ο] (step : σ → τ → σ) (en : σ → τ → Bool) (obs : σ → ο) (t : τ) (o : ο) :
    Nat → σ → List σ
  | 0, _ => []
  | n + 1, c =>
    if en c t then
      if obs (step c t) = o then [step c t] else visChain step en obs t o n (step c t)
    else []

/-- every actor of `act` may have performed stuttering steps -/
def closure [DecidableEq ο] (step : σ → τ → σ) (en : σ → τ → Bool) (obs : σ → ο)
    (prune : List σ → List σ) (fuel : Nat) (p : ο) : List τ → List σ → List σ
  | [], S => S
  | t :: ts, S => closure step en obs prune fuel p ts (prune (S.flatMap (tauChain step en obs t p fuel)))

/-- The model states consistent with the recorded trace: `p` is the current observation, `act` the
    actors that had a turn in the current epoch. -/
def follow [DecidableEq τ] [DecidableEq ο] (step : σ → τ → σ) (en : σ → τ → Bool) (obs : σ → ο)
    (prune : List σ → List σ) (fuel : Nat) : List σ → ο → List τ → List (Turn τ ο) → List σ
  | S, p, act, [] => closure step en obs prune fuel p act S
  | S, p, act, .free t o :: r =>
    if o = p then follow step en obs prune fuel S p (if act.contains t then act else t :: act) r
    else
      let S1 := closure step en obs prune fuel p (act.erase t) S
      follow step en obs prune fuel (prune (S1.flatMap (visChain step en obs t o fuel))) o [t] r
  | S, p, act, .exact t o :: r =>
    let S1 := closure step en obs prune fuel p act S
    follow step en obs prune fuel (prune ((S1.map fun c => step c t).filter fun c => decide (obs c = o))) o [] r

/-- index of the first turn after which no model state is left, with the states before it
    (diagnostics only) -/
def failAt [DecidableEq τ] [DecidableEq ο] (step : σ → τ → σ) (en : σ → τ → Bool) (obs : σ → ο)
    (prune : List σ → List σ) (fuel : Nat) :
    List σ → ο → List τ → List (Turn τ ο) → Nat → Option (Nat × List σ)
  | _, _, _, [], _ => none
  | S, p, act, .free t o :: r, i =>
    if o = p then failAt step en obs prune fuel S p (if act.contains t then act else t :: act) r (i + 1)
    else
      let S1 := closure step en obs prune fuel p (act.erase t) S
      let S2 := prune (S1.flatMap (visChain step en obs t o fuel))
      if S2.isEmpty then some (i, S1) else failAt step en obs prune fuel S2 o [t] r (i + 1)
  | S, p, act, .exact t o :: r, i =>
    let S1 := closure step en obs prune fuel p act S
    let S2 := prune ((S1.map fun c => step c t).filter fun c => decide (obs c = o))
    if S2.isEmpty then some (i, S1) else failAt step en obs prune fuel S2 o [] r (i + 1)

/-- keep the first state of every key class -/
def pruneGo {κ : Type} [BEq κ] [Hashable κ] (key : σ → κ) : List σ → Std.HashSet κ → List σ
  | [], _ => []
  | x :: xs, seen =>
    let k := key x
    if seen.contains k then pruneGo key xs seen else x :: pruneGo key xs (seen.insert k)

def pruneBy {κ : Type} [BEq κ] [Hashable κ] (key : σ → κ) (l : List σ) : List σ := pruneGo key l {}

/-- The driver's test: the trace is followed from the model's initial state, whose observation has
    to be the recorded initial one; at the end some surviving state has to show the recorded FINAL
    observation `f` (who is blocked for ever) as well. -/
def admits [DecidableEq τ] [DecidableEq ο] {φ : Type} [DecidableEq φ] (step : σ → τ → σ) (en : σ → τ → Bool)
    (obs : σ → ο) (fin : σ → φ) (prune : List σ → List σ) (fuel : Nat) (c0 : σ) (o0 : ο)
    (tr : List (Turn τ ο)) (f : φ) : Bool :=
  (follow step en obs prune fuel (if obs c0 = o0 then [c0] else []) o0 [] tr).any fun c => decide (fin c = f)

/-- the recorded observations with repetitions removed: `p` is the observation before the list -/
def changes [DecidableEq ο] : ο → List (Turn τ ο) → List ο
  | _, [] => []
  | p, a :: r => if a.obs = p then changes p r else a.obs :: changes a.obs r

/-- `Run step obs c l c'`: the model can go from `c` to `c'` such that the observation changes as
    listed in `l`: every element is the observation after a block of consecutive steps of ONE actor
    that changed it (the observations strictly inside such a block are not listed); all other steps
    leave the observation unchanged. -/
inductive Run (step : σ → τ → σ) (obs : σ → ο) : σ → List ο → σ → Prop where
  | refl (c : σ) : Run step obs c [] c
  | tau {c c' : σ} {l : List ο} (t : τ) : obs (step c t) = obs c → Run step obs (step c t) l c' →
      Run step obs c l c'
  | vis {c c' : σ} {l : List ο} (t : τ) (n : Nat) : obs (iter step t n c) ≠ obs c →
      Run step obs (iter step t n c) l c' → Run step obs c (obs (iter step t n c) :: l) c'

/-! ### the fast path: a deterministic follower

    The harness labels every recorded turn with WHAT the real actor accessed (which table, which key /
    which lock object) — a property of the harness' proxies, not of the source text.  `lab c t` is the
    same label for the next model step of `t`, `isLocal c t` says that the next model step of `t`
    touches no shared object at all (thread-local code, a clock read).  The tight follower moves the
    model actor exactly when the real actor accessed what the model actor is about to access; it
    yields at most one model state.  When it fails (the source reads the tables in another pattern than
    the model), `follow` decides.  Both only ever produce states of genuine model runs. -/

/-- up to `fuel` enabled local steps of `t` that keep the observation `p` -/
def drain [DecidableEq ο] (step : σ → τ → σ) (en : σ → τ → Bool) (obs : σ → ο)
    (isLocal : σ → τ → Bool) (t : τ) (p : ο) : Nat → σ → σ
  | 0, c => c
  | n + 1, c =>
    if en c t && isLocal c t && decide (obs (step c t) = p) then
      drain step en obs isLocal t p n (step c t)
    else c

/-- one labelled stuttering step of `t`, if that is what `t` is about to do -/
def matchStep {κ : Type} [DecidableEq ο] [DecidableEq κ] (step : σ → τ → σ) (en : σ → τ → Bool)
    (obs : σ → ο) (lab : σ → τ → Option κ) (t : τ) (p : ο) (h : Option κ) (c : σ) : σ :=
  match h with
  | some l => if en c t && decide (lab c t = some l) && decide (obs (step c t) = p) then step c t else c
  | none => c

def tightTurn {κ : Type} [DecidableEq ο] [DecidableEq κ] (step : σ → τ → σ) (en : σ → τ → Bool)
    (obs : σ → ο) (lab : σ → τ → Option κ) (isLocal : σ → τ → Bool) (fuel : Nat) (c : σ) (p : ο) :
    Turn τ ο × Option κ → Option σ
  | (.free t o, h) =>
    if o = p then
      some (drain step en obs isLocal t p fuel (matchStep step en obs lab t p h c))
    else
      match visChain step en obs t o fuel c with
      | [x] => some (drain step en obs isLocal t o fuel (matchStep step en obs lab t o h x))
      | _ => none
  | (.exact t o, _) => if obs (step c t) = o then some (step c t) else none

def followT {κ : Type} [DecidableEq ο] [DecidableEq κ] (step : σ → τ → σ) (en : σ → τ → Bool)
    (obs : σ → ο) (lab : σ → τ → Option κ) (isLocal : σ → τ → Bool) (fuel : Nat) :
    σ → ο → List (Turn τ ο × Option κ) → Option σ
  | c, _, [] => some c
  | c, p, a :: r =>
    match tightTurn step en obs lab isLocal fuel c p a with
    | some c' => followT step en obs lab isLocal fuel c' a.1.obs r
    | none => none

def admitsT {κ φ : Type} [DecidableEq ο] [DecidableEq κ] [DecidableEq φ] (step : σ → τ → σ)
    (en : σ → τ → Bool) (obs : σ → ο) (fin : σ → φ) (lab : σ → τ → Option κ) (isLocal : σ → τ → Bool)
    (fuel : Nat) (c0 : σ) (o0 : ο) (tr : List (Turn τ ο × Option κ)) (f : φ) : Bool :=
  decide (obs c0 = o0) &&
  match followT step en obs lab isLocal fuel c0 o0 tr with
  | some x => decide (fin x = f)
  | none => false

end CpModel.SessionAdmit
