import CpModel.Proto
import CpModel.Dispatch
/-!
  Line-protocol (de)serialisation of object graphs / applications, shared by the C02 and C08
  drivers.  Not part of the model proper (nothing here is referred to by a theorem).

  name, text  = `Proto.text` (decimal code points joined by `.`, `-` = empty)
  attrs       = `-` | name=id,name=id,…
  conf        = `-` (attribute absent) | `E` (empty dict) | key~val,key~val,…
  val         = N | T | F | i<int> | s<text>
  disp        = `-` | R | P:<pop>:<add: - | name+name…>:<ret: F<id> | FN | S | G | K>:<self: id | N>
                | A:<names: - | name+name…>:<handler: - | H<id|N> (object) | C<id|N> (callable)>:<self: id | N>   (popargs)
  node        = flags|attrs|upper|disp|conf       flags ⊆ "tce" or `-`; upper = `-` | name,name…
  nodes       = node;node;…
  sections    = `-` | <text>|<conf>;<text>|<conf>;…
-/
namespace CpModel.DispatchIO
open CpModel CpModel.Dispatch

def parseList {α : Type} (sep : String) (f : String → Option α) (s : String) : Option (List α) :=
  if s == "-" then some [] else (s.splitOn sep).mapM f

def parseName (s : String) : Option Name := Proto.untext? s

def parseOptId (s : String) : Option (Option NodeId) :=
  if s == "N" then some none else s.toNat?.map some

def parseAttr (s : String) : Option (Name × NodeId) :=
  match s.splitOn "=" with
  | [n, i] => do pure (← parseName n, ← i.toNat?)
  | _ => none

def parseAttrs : String → Option (List (Name × NodeId)) := parseList "," parseAttr

def parseVal (s : String) : Option Val :=
  if s == "N" then some .none
  else if s == "T" then some (.bool true)
  else if s == "F" then some (.bool false)
  else if s.startsWith "i" then (s.drop 1).toString.toInt?.map .int
  else if s.startsWith "s" then (Proto.untext? (s.drop 1).toString).map .str
  else none

def parseKV (s : String) : Option (Name × Val) :=
  match s.splitOn "~" with
  | [k, v] => do pure (← parseName k, ← parseVal v)
  | _ => none

/-- `-` ↦ no `_cp_config` attribute, `E` ↦ `{}` -/
def parseConf (s : String) : Option (Option Conf) :=
  if s == "-" then some none
  else if s == "E" then some (some [])
  else ((s.splitOn ",").mapM parseKV).map some

def parseRet (s : String) : Option Ret :=
  if s == "S" then some .self
  else if s == "G" then some .popGetattrOrSelf
  else if s == "K" then some .peekGetattr
  else if s.startsWith "F" then (parseOptId (s.drop 1).toString).map .fixed
  else none

def parseDisp (s : String) : Option (Option Disp) :=
  if s == "-" then some none
  else if s == "R" then some (some { raises := true })
  else match s.splitOn ":" with
  | ["P", pop, add, ret, self] => do
    let p ← pop.toNat?
    let a ← parseList "+" parseName add
    let r ← parseRet ret
    let sf ← parseOptId self
    pure (some { self := sf, pop := p, add := a, ret := r })
  | ["A", names, handler, self] => do
    let n ← parseList "+" parseName names
    let sf ← parseOptId self
    let h : Option (Bool × Option NodeId) ←
      if handler == "-" then some none
      else if handler.startsWith "H" then (parseOptId (handler.drop 1).toString).map fun t => some (false, t)
      else if handler.startsWith "C" then (parseOptId (handler.drop 1).toString).map fun t => some (true, t)
      else none
    pure (some (popargsDisp n h sf))
  | _ => none

def parseNode (s : String) : Option Node :=
  match s.splitOn "|" with
  | [flags, attrs, upper, disp, conf] => do
    if !(flags == "-" || flags.toList.all (fun c => c == 't' || c == 'c' || c == 'e')) then none
    let a ← parseAttrs attrs
    let u ← parseList "," parseName upper
    let d ← parseDisp disp
    let c ← parseConf conf
    pure { truthy := flags.toList.contains 't', callable := flags.toList.contains 'c',
           exposed := flags.toList.contains 'e', attrs := a, upper := u, disp := d, conf := c }
  | _ => none

def parseSection (s : String) : Option (List Char × Conf) :=
  match s.splitOn "|" with
  | [n, c] => do
    let name ← Proto.untext? n
    match ← parseConf c with
    | none => none
    | some cf => pure (name, cf)
  | _ => none

def parseApp (root noneattrs nodes sections : String) : Option App := do
  let r ← root.toNat?
  let na ← parseAttrs noneattrs
  let ns ← (nodes.splitOn ";").mapM parseNode
  let secs ← parseList ";" parseSection sections
  pure { g := { nodes := ns, noneAttrs := na, root := r }, sections := secs }

def showNames (xs : List (List Char)) : String :=
  if xs.isEmpty then "_" else ",".intercalate (xs.map Proto.text)

def showParams (ps : List (Name × Name)) : String :=
  if ps.isEmpty then "_" else ",".intercalate (ps.map fun (k, v) => Proto.text k ++ "~" ++ Proto.text v)

def showErr : Err → String
  | .segmentAdded => "segmentAdded"
  | .dispatchRaised => "dispatchRaised"
  | .unknownDispatch => "unknownDispatch"
  | .outOfFuel => "outOfFuel"

def showOutcome : Outcome → String
  | .handler h args => s!"H {h} {showNames args}"
  | .notFound => "NF"
  | .notAllowed => "NA"
  | .error e => s!"E:{showErr e}"

def showVal : Val → String
  | .none => "N"
  | .bool true => "T"
  | .bool false => "F"
  | .int n => s!"i{n}"
  | .str s => "s" ++ Proto.text s

def showConf (c : Conf) : String :=
  if c.isEmpty then "E" else ",".intercalate (c.map fun (k, v) => Proto.text k ++ "~" ++ showVal v)

end CpModel.DispatchIO
