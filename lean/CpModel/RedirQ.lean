/-
  C01 — `InternalRedirector.__call__` (cherrypy/_cpwsgi.py, `recursive=False`) with query strings, and
  `InternalRedirect.__init__` (cherrypy/_cperror.py), transcribed statement by statement.  Core Lean only.

  The loop is generic in the type `υ` of URLs, the type `κ` of the strings kept in `redirections`, the key
  function (`sn + path (+ '?' + qs)`) and the *redirect function* `app`: what the next application does with
  the `n`-th request of the conversation (answer, fail, or raise `InternalRedirect` to a target).  `app` may
  depend on `n`, hence on the whole history: every deterministic application is covered.

      redirections = []
      while True:
          try: return self.nextapp(environ, start_response)
          except InternalRedirect as ir:
              old_uri = sn + path (+ '?' + qs);  redirections.append(old_uri)
              new_uri = sn + ir.path (+ '?' + ir.query_string)
              if new_uri in redirections: ir.request.close(); raise RuntimeError(...)
              environ[...] = ...            # GET, ir.path, ir.query_string, empty body

  The `while True` has no bound in the code; the model's `fuel` is shown to be irrelevant
  (`CpProofs.C01Redirect.redirector_terminates`): with all redirect targets' keys in a list `T`, at most
  `T.length + 1` requests are made.
-/
namespace CpModel.RedirQ

inductive Step (υ α : Type) where
  /-- `nextapp` returned its response -/
  | served (a : α)
  /-- some other exception left `nextapp` -/
  | failed (a : α)
  /-- `InternalRedirect` with target `t` left `nextapp` -/
  | redirect (t : υ)

inductive Res (κ α : Type) where
  | served (a : α)
  | failed (a : α)
  /-- `RuntimeError('InternalRedirector visited the same URL twice: %r' % new_uri)` -/
  | loop (newUri : κ)
  /-- model artefact (never reached with enough fuel) -/
  | outOfFuel
  deriving Repr, DecidableEq

section
variable {υ κ α : Type} [DecidableEq κ]

/-- `InternalRedirector.__call__`: result and the requests made, in order. -/
def redirector (key : υ → κ) (app : Nat → υ → Step υ α) : Nat → Nat → List κ → υ → Res κ α × List υ
  | 0, _, _, _ => (.outOfFuel, [])
  | fuel + 1, n, redirections, u =>
    match app n u with
    | .served a => (.served a, [u])
    | .failed a => (.failed a, [u])
    | .redirect t =>
      let redirections' := redirections ++ [key u]
      if key t ∈ redirections' then (.loop (key t), [u])
      else
        let r := redirector key app fuel (n + 1) redirections' t
        (r.1, u :: r.2)

end

/-! ### the concrete instance: URLs are (path, query string), keys are Python strings -/

structure Url where
  path : String
  qs : String
  deriving DecidableEq, Repr, Inhabited

/-- `sn + path`, `if qs: uri += '?' + qs` -/
def uriKey (sn : String) (u : Url) : String :=
  if u.qs.isEmpty then sn ++ u.path else sn ++ u.path ++ "?" ++ u.qs

/-- `urllib.parse.urljoin(base, rel)` for the targets the generator produces: empty, absolute path
    (one leading slash), or a relative path without dot segments. -/
def urljoinSimple (base rel : String) : String :=
  if rel.isEmpty then base
  else if rel.startsWith "/" then rel
  else
    let segs := base.splitOn "/"
    "/".intercalate (segs.dropLast ++ [rel])

/-- `InternalRedirect.__init__(path, query_string)` raised while `cur` is being served -/
def irTarget (curPath : String) (argPath argQs : String) : Url :=
  match argPath.splitOn "?" with
  | [] => { path := urljoinSimple curPath argPath, qs := argQs }
  | [_] => { path := urljoinSimple curPath argPath, qs := argQs }
  | p :: rest => { path := urljoinSimple curPath p, qs := "?".intercalate rest }

end CpModel.RedirQ
