/-
  Model of CherryPy's query-string / form-body parameter decoding (property C03).
  Core Lean only.  Transcribed statement by statement from

    cherrypy/_cpwsgi.py     AppResponse.recode_path_qs            → `recodeQS`
    urllib.parse            unquote_plus / unquote / _unquote_impl (str, errors='strict')
                                                                  → `unquotePlusText`, `unquoteText`, `unquoteImpl`
    cherrypy/lib/httputil   _parse_qs (keep_blank_values=True, strict_parsing=False)
                                                                  → `pairStrings`, `parseQsPairs`
                            image_map_pattern.fullmatch + parse_query_string
                                                                  → `imageMap?`, `parseQueryString`
    cherrypy/_cprequest     Request.process_query_string          → the 404 branch of `handle`
    cherrypy/_cpreqbody     unquote_plus (bytes)                  → `pctByte?`, `fixAtom`, `unquotePlusBytes`
                            process_urlencoded                    → `rawPairs`, `decodePairs`, `processUrlencoded`
                            Entity.__init__ (attempt_charsets)    → `attemptCharsets`
                            RequestBody.process (merge loop)      → `mergeOne`, `mergeBody`
    cherrypy/_cpdispatch    LateParamPageHandler.kwargs           → `handle` passes `request.params` on

  What is modelled, quirks included:
   * bytes `unquote_plus`: `+`→space first, `split(b'%')`, `int(item[:2], 16)` with everything CPython's
     `int()` accepts in ≤ 2 bytes (one hex digit, surrounding whitespace, a sign, `-0`), `bytes([n])`
     range error, and the fact that a `%` that does not decode is *dropped* by `b''.join(atoms)`;
   * urllib's text `unquote`: early exit when no `%` occurs, maximal ASCII runs decoded separately,
     non-ASCII characters passed through, malformed `%` kept literally;
   * scalar → list promotion keyed by name in a dict (association list, `assign` keeps the position);
   * the all-or-nothing charset loop of `process_urlencoded` (a `UnicodeDecodeError` anywhere discards
     the whole attempt), 400 when every attempt fails, 404 for the query string, query before body;
   * the image-map branch (only an exact `N,M` with 1–18 digits each, so `int()` cannot fail);
   * a charset name CPython does not know (or that is not a text encoding): `LookupError` is caught like a
     decoding failure, so such a charset is an attempt that fails on the first key it has to decode.
  Not modelled: `keep_blank_values=False` / `strict_parsing=True` (CherryPy never passes them),
  `entity.params` non-empty before `process_urlencoded` runs (it is `{}` for a RequestBody),
  `request.uri_encoding` ≠ utf-8, a non-ASCII PATH_INFO (recode_path_qs transcodes path and query in
  one `try`), an unknown `request.query_string_encoding` (configuration error), multipart bodies (C04).
  Charset codecs are the functions `decode`: UTF-8 is core Lean's verified decoder, Latin-1 / ASCII /
  UTF-16 (BOM, little-endian default as on the build host) are written here.
-/
namespace CpModel.UrlEnc

abbrev Bytes := List UInt8
abbrev Text := List Char

/-! ## Python sequence primitives -/

section Prim
variable {α : Type} [DecidableEq α]

/-- `seq.split(sep)` for a one-element separator, as (first piece, remaining pieces). -/
def splitOn' (sep : α) : List α → List α × List (List α)
  | [] => ([], [])
  | c :: cs =>
    match splitOn' sep cs with
    | (h, t) => if c = sep then ([], h :: t) else (c :: h, t)

/-- `seq.split(sep)`: never empty. -/
def splitOn (sep : α) (l : List α) : List (List α) :=
  match splitOn' sep l with
  | (h, t) => h :: t

/-- `seq.split(sep, 1)`: (before, `some` after) or (everything, `none`) when `sep` does not occur. -/
def partition1 (sep : α) : List α → List α × Option (List α)
  | [] => ([], none)
  | c :: cs =>
    if c = sep then ([], some cs)
    else match partition1 sep cs with
      | (h, r) => (c :: h, r)

end Prim

/-! ## Charset codecs (`bytes.decode(cs)`, errors='strict') -/

inductive Charset where
  | utf8 | latin1 | ascii | utf16 | utf16le | utf16be
  /-- a name `bytes.decode` answers with LookupError (CPython returns `''` for empty input before it
      even looks the codec up) -/
  | unknown
  deriving DecidableEq, Repr

def utf8Enc (s : Text) : Bytes := s.flatMap String.utf8EncodeChar

/-- Core Lean's verified UTF-8 decoder (`ByteArray.utf8Decode?`) on a byte list. -/
def utf8Dec (b : Bytes) : Option Text := b.toByteArray.utf8Decode?.map Array.toList

def latin1Dec (b : Bytes) : Text := b.map fun x => Char.ofNat x.toNat

def latin1Enc (s : Text) : Bytes := s.map fun c => UInt8.ofNat c.toNat

def asciiDec (b : Bytes) : Option Text :=
  if b.all (· < 0x80) then some (latin1Dec b) else none

/-- Bytes → 16-bit code units; `be` selects the byte order. An odd trailing byte is an error
    ("truncated data"). -/
def codeUnits (be : Bool) : Bytes → Option (List Nat)
  | [] => some []
  | [_] => none
  | a :: b :: rest =>
    (codeUnits be rest).map ((if be then a.toNat * 256 + b.toNat else b.toNat * 256 + a.toNat) :: ·)

def isHiSurr (u : Nat) : Bool := 0xD800 ≤ u ∧ u < 0xDC00

def isLoSurr (u : Nat) : Bool := 0xDC00 ≤ u ∧ u < 0xE000

/-- UTF-16 code units → text. Lone or reversed surrogates are errors. -/
def decodeUnits : List Nat → Option Text
  | [] => some []
  | [u] => if isHiSurr u ∨ isLoSurr u then none else some [Char.ofNat u]
  | u :: w :: rest =>
    if isHiSurr u then
      if isLoSurr w then
        (decodeUnits rest).map (Char.ofNat (0x10000 + (u - 0xD800) * 1024 + (w - 0xDC00)) :: ·)
      else none
    else if isLoSurr u then none
    else (decodeUnits (w :: rest)).map (Char.ofNat u :: ·)

/-- `bytes.decode('utf-16-le' / 'utf-16-be')`. -/
def utf16Units (be : Bool) (b : Bytes) : Option Text := (codeUnits be b).bind decodeUnits

/-- `bytes.decode('utf-16')`: a byte-order mark selects the order and is consumed, otherwise native
    (little-endian) order. -/
def utf16Dec : Bytes → Option Text
  | 0xFF :: 0xFE :: rest => utf16Units false rest
  | 0xFE :: 0xFF :: rest => utf16Units true rest
  | b => utf16Units false b

def decode : Charset → Bytes → Option Text
  | .utf8 => utf8Dec
  | .latin1 => fun b => some (latin1Dec b)
  | .ascii => asciiDec
  | .utf16 => utf16Dec
  | .utf16le => utf16Units false
  | .utf16be => utf16Units true
  | .unknown => fun b => if b.isEmpty then some [] else none

/-! ## Parameter dictionaries -/

/-- A single value as the handler sees it: text, (image map only) an int, or (multipart file upload
    only, see `UrlEncReq`) the `Part` object of the part with that wire index. -/
inductive Atom where
  | str (s : Text)
  | int (n : Nat)
  | part (idx : Nat)
  deriving DecidableEq, Repr

/-- A dict value: a scalar, or a Python list. -/
inductive Val where
  | one (a : Atom)
  | many (l : List Atom)
  deriving DecidableEq, Repr

/-- An insertion-ordered dict with text keys. -/
abbrev Params := List (Text × Val)

def lookup : Params → Text → Option Val
  | [], _ => none
  | (k, v) :: rest, key => if k = key then some v else lookup rest key

/-- `d[key] = v`: replaces in place, or appends a new entry. -/
def assign : Params → Text → Val → Params
  | [], key, v => [(key, v)]
  | (k, old) :: rest, key, v => if k = key then (k, v) :: rest else (k, old) :: assign rest key v

/-- The promotion step shared by `_parse_qs` and `process_urlencoded`:
    `if name in d: (promote to list); d[name].append(value)  else: d[name] = value`. -/
def addParam (d : Params) (name : Text) (value : Atom) : Params :=
  match lookup d name with
  | none => assign d name (.one value)
  | some (.one old) => assign d name (.many [old, value])
  | some (.many l) => assign d name (.many (l ++ [value]))

/-! ## urllib.parse.unquote_plus on text (query string) -/

def hexVal? (b : UInt8) : Option Nat :=
  if 0x30 ≤ b ∧ b ≤ 0x39 then some (b.toNat - 0x30)
  else if 0x41 ≤ b ∧ b ≤ 0x46 then some (b.toNat - 0x41 + 10)
  else if 0x61 ≤ b ∧ b ≤ 0x66 then some (b.toNat - 0x61 + 10)
  else none

/-- One element of `bits[1:]` in `_unquote_impl`: `_hextobyte[item[:2]] + item[2:]`, or on KeyError
    `b'%' + item`. -/
def fixItemT (item : Bytes) : Bytes :=
  match item with
  | a :: b :: rest =>
    match hexVal? a, hexVal? b with
    | some x, some y => UInt8.ofNat (x * 16 + y) :: rest
    | _, _ => 0x25 :: item
  | _ => 0x25 :: item

/-- `urllib.parse._unquote_impl` on the bytes of an ASCII run. -/
def unquoteImpl (bs : Bytes) : Bytes :=
  match splitOn' 0x25 bs with
  | (h, t) => h ++ t.flatMap fixItemT

def isAscii (c : Char) : Bool := c.toNat < 128

def charByte (c : Char) : UInt8 := UInt8.ofNat c.toNat

/-- One match of `_asciire` (`[\x00-\x7f]+`; `run` is kept reversed): unquote, then decode. -/
def flushRun (dec : Bytes → Option Text) (run : Text) : Option Text :=
  if run.isEmpty then some [] else dec (unquoteImpl (run.reverse.map charByte))

/-- `''.join(_generate_unquoted_parts(string, encoding, 'strict'))`; `none` = UnicodeDecodeError. -/
def unquoteGo (dec : Bytes → Option Text) : Text → Text → Option Text
  | run, [] => flushRun dec run
  | run, c :: cs =>
    if isAscii c then unquoteGo dec (c :: run) cs
    else
      match flushRun dec run, unquoteGo dec [] cs with
      | some a, some r => some (a ++ c :: r)
      | _, _ => none

/-- `urllib.parse.unquote(string, encoding, 'strict')`. -/
def unquoteText (dec : Bytes → Option Text) (s : Text) : Option Text :=
  if s.contains '%' then unquoteGo dec [] s else some s

/-- `urllib.parse.unquote_plus(string, encoding, 'strict')`. -/
def unquotePlusText (dec : Bytes → Option Text) (s : Text) : Option Text :=
  unquoteText dec (s.map fun c => if c = '+' then ' ' else c)

/-! ## httputil._parse_qs / parse_query_string -/

/-- `[s2 for s1 in qs.split('&') for s2 in s1.split(';')]` -/
def pairStrings (qs : Text) : List Text := (splitOn '&' qs).flatMap (splitOn ';')

/-- The loop of `_parse_qs` with `keep_blank_values=True`, `strict_parsing=False`. -/
def parseQsPairs (dec : Bytes → Option Text) : List Text → Params → Option Params
  | [], d => some d
  | nv :: rest, d =>
    if nv.isEmpty then parseQsPairs dec rest d
    else
      match partition1 '=' nv with
      | (n, v?) =>
        match unquotePlusText dec n, unquotePlusText dec (v?.getD []) with
        | some name, some value => parseQsPairs dec rest (addParam d name (.str value))
        | _, _ => none

def isDigit (c : Char) : Bool := '0' ≤ c ∧ c ≤ '9'

/-- Longest digit run `image_map_pattern` accepts (`[0-9]{1,18}`). -/
def maxCoordDigits : Nat := 18

/-- `image_map_pattern.fullmatch(qs)` for the pattern `[0-9]{1,18},[0-9]{1,18}`, returning the two
    digit runs (`qs.split(',')`). -/
def imageMap? (qs : Text) : Option (Text × Text) :=
  match partition1 ',' qs with
  | (a, some b) =>
    if !a.isEmpty ∧ a.all isDigit ∧ a.length ≤ maxCoordDigits ∧
       !b.isEmpty ∧ b.all isDigit ∧ b.length ≤ maxCoordDigits then some (a, b) else none
  | (_, none) => none

/-- `int(s)` for a string of ASCII digits. -/
def decNat (s : Text) : Nat := s.foldl (fun n c => n * 10 + (c.toNat - '0'.toNat)) 0

/-- `httputil.parse_query_string(qs, encoding=enc)`; `none` = UnicodeDecodeError (→ 404 in
    `Request.process_query_string`). -/
def parseQueryString (dec : Bytes → Option Text) (qs : Text) : Option Params :=
  match imageMap? qs with
  | some (a, b) => some [(['x'], .one (.int (decNat a))), (['y'], .one (.int (decNat b)))]
  | none => parseQsPairs dec (pairStrings qs) []

/-- `AppResponse.recode_path_qs` for the query string: the WSGI server hands over the raw bytes as
    Latin-1 text; they are re-read as UTF-8 when valid, else passed through as Latin-1 text. -/
def recodeQS (raw : Bytes) : Text :=
  match utf8Dec raw with
  | some t => t
  | none => latin1Dec raw

/-! ## _cpreqbody.unquote_plus on bytes, process_urlencoded -/

def isPySpace (b : UInt8) : Bool := b = 0x20 ∨ (0x09 ≤ b ∧ b ≤ 0x0d)

/-- `bytes([int(two, 16)])` for a byte string of length ≤ 2 (`item[:2]`); `none` = ValueError.
    CPython's `int()` strips whitespace, takes one sign and needs at least one digit; `0x` alone and
    underscores at either end are errors; a negative value fails in `bytes([n])`. -/
def pctByte? : Bytes → Option UInt8
  | [a] => (hexVal? a).map UInt8.ofNat
  | [a, b] =>
    match hexVal? a, hexVal? b with
    | some x, some y => some (UInt8.ofNat (x * 16 + y))
    | some x, none => if isPySpace b then some (UInt8.ofNat x) else none
    | none, some y =>
      if isPySpace a ∨ a = 0x2B then some (UInt8.ofNat y)
      else if a = 0x2D ∧ y = 0 then some 0
      else none
    | none, none => none
  | _ => none

/-- Loop body of the bytes `unquote_plus`: a decodable atom becomes byte + tail; otherwise the atom is
    left as it is (and the `%` in front of it is gone after `b''.join`). -/
def fixAtom (item : Bytes) : Bytes :=
  match pctByte? (item.take 2) with
  | some b => b :: item.drop 2
  | none => item

/-- `_cpreqbody.unquote_plus(bs)`. -/
def unquotePlusBytes (bs : Bytes) : Bytes :=
  match splitOn' 0x25 (bs.map fun b => if b = 0x2B then 0x20 else b) with
  | (h, t) => h ++ t.flatMap fixAtom

/-- The (key, value) byte strings `process_urlencoded` extracts: split on `&` then `;`, empty pairs
    skipped, `split(b'=', 1)` with a missing `=` giving an empty value. -/
def rawPairs (qs : Bytes) : List (Bytes × Bytes) :=
  ((splitOn 0x26 qs).flatMap (splitOn 0x3B)).filterMap fun pair =>
    if pair.isEmpty then none
    else match partition1 0x3D pair with
      | (k, v?) => some (k, v?.getD [])

/-- One charset attempt: every key and value must decode, else the whole attempt is void
    (`except (LookupError, UnicodeError): pass`). -/
def decodePairs (dec : Bytes → Option Text) : List (Bytes × Bytes) → Params → Option Params
  | [], d => some d
  | (k, v) :: rest, d =>
    match dec (unquotePlusBytes k), dec (unquotePlusBytes v) with
    | some key, some value => decodePairs dec rest (addParam d key (.str value))
    | _, _ => none

/-- `process_urlencoded`: first charset of `attempt_charsets` that decodes everything wins;
    `none` = HTTPError 400.  (`entity.params` is `{}` before, so the final copy loop is the identity.) -/
def processUrlencoded : List (Bytes → Option Text) → Bytes → Option Params
  | [], _ => none
  | dec :: more, qs =>
    match decodePairs dec (rawPairs qs) [] with
    | some p => some p
    | none => processUrlencoded more qs

/-- `Entity.__init__` + the `request.body.attempt_charsets` config entry (applied afterwards by the
    `request` namespace, so it replaces the list wholesale). Default class attribute: `['utf-8']`. -/
def attemptCharsets (declared : Option Charset) (configured : Option (List Charset)) : List Charset :=
  match configured with
  | some l => l
  | none =>
    match declared with
    | some d => d :: [Charset.utf8].filter (· ≠ d)
    | none => [Charset.utf8]

/-! ## RequestBody.process: body params merged behind the query params -/

def atoms : Val → List Atom
  | .one a => [a]
  | .many l => l

/-- One iteration of the merge loop (repaired code: a list value is `extend`ed, a scalar `append`ed). -/
def mergeOne (rp : Params) (key : Text) (value : Val) : Params :=
  match lookup rp key with
  | some old => assign rp key (.many (atoms old ++ atoms value))
  | none => assign rp key value

def mergeBody (rp body : Params) : Params :=
  body.foldl (fun acc kv => mergeOne acc kv.1 kv.2) rp

/-! ## The request as far as C03 is concerned -/

structure Req where
  /-- raw bytes of QUERY_STRING -/
  qs : Bytes
  /-- `request.query_string_encoding` -/
  qsEnc : Charset
  /-- `none`: no body is processed (method without body).  `some (attempts, bytes)`: a form body. -/
  body : Option (List Charset × Bytes)

inductive Outcome where
  /-- the page handler was called with these keyword arguments (status 200) -/
  | handler (kw : Params)
  /-- the handler was not called; the response has this status -/
  | status (code : Nat)
  deriving Repr, DecidableEq

/-- `_do_respond` from `process_query_string` to the handler call. -/
def handle (r : Req) : Outcome :=
  match parseQueryString (decode r.qsEnc) (recodeQS r.qs) with
  | none => .status 404
  | some p =>
    match r.body with
    | none => .handler p
    | some (attempts, bytes) =>
      match processUrlencoded (attempts.map decode) bytes with
      | none => .status 400
      | some bp => .handler (mergeBody p bp)

end CpModel.UrlEnc
