import CpModel.Proto
import CpModel.Wsgi
/-!
  Line protocol shared by the C09 and C01 drivers: parser for fault plans, printer for results.

  Input (one plan per line, space separated):

      METH NOHOST BADQ READS CLOSES START GLOBALTB { "|" PAGE }
      PAGE  = DISPATCH NS BODY HANDLER ERRRESP ERRPAGE SHOWTB STREAM HOOKS
      OUT   = ok | he<code> | hr<code> | ir<target> | ex
      HANDLER = OUT/SHAPE/STATUS      SHAPE = bytes|list|gen|gen<k>|file|none|str|nonit   STATUS = N | <n>
      ERRRESP = N | OUT               ERRPAGE = absent|cbOk|cbFail|tmplFail
      HOOKS = - | HOOK,HOOK,…         HOOK = <point 0..7>.<id>.<prio>.<failsafe 0|1>.<OUT>   (attachment order)
      METH  = get|head|post           READS = N | <m>

  Output: `J=<entries> B=<body kind> T=<N|0|1> X=<escaped> F=<out of fuel> Q=<last request's show_tracebacks> I=<trapped before return>`; entries (comma separated, `-` if none)
  `v<r>.<p>` visit, `h<r>.<p>.<id>` hook call, `H<r>` handler, `R<r>` custom error_response,
  `P<r>` error_page callable, `S<code>.<excinfo>` start_response, `C` close().
-/
namespace CpModel.PipelineProto
open CpModel CpModel.Hooks CpModel.Pipeline CpModel.Wsgi

def parseOut (s : String) : Option Out :=
  if s == "ok" then some .ok
  else if s == "ex" then some .exc
  else if s.startsWith "he" then (s.drop 2).toString.toNat?.map .httpError
  else if s.startsWith "hr" then (s.drop 2).toString.toNat?.map .httpRedirect
  else if s.startsWith "ir" then (s.drop 2).toString.toNat?.map .internalRedirect
  else none

def parseBool (s : String) : Option Bool :=
  if s == "0" then some false else if s == "1" then some true else none

def pointOfNat : Nat → Option Point
  | 0 => some .onStartResource | 1 => some .beforeRequestBody | 2 => some .beforeHandler
  | 3 => some .beforeFinalize | 4 => some .onEndResource | 5 => some .onEndRequest
  | 6 => some .beforeErrorResponse | 7 => some .afterErrorResponse
  | _ => none

def Point.toNat : Point → Nat
  | .onStartResource => 0 | .beforeRequestBody => 1 | .beforeHandler => 2 | .beforeFinalize => 3
  | .onEndResource => 4 | .onEndRequest => 5 | .beforeErrorResponse => 6 | .afterErrorResponse => 7

def parseShape (s : String) : Option Shape :=
  if s == "bytes" then some .bytes else if s == "list" then some .list
  else if s == "file" then some .file else if s == "none" then some .none
  else if s == "str" then some .str else if s == "nonit" then some .nonIter
  else if s == "gen" then some (.gen none)
  else if s.startsWith "gen" then (s.drop 3).toString.toNat?.map (fun k => .gen (some k))
  else none

def parseHandler (s : String) : Option Handler :=
  match s.splitOn "/" with
  | [o, sh, st] => do
    let o ← parseOut o
    let sh ← parseShape sh
    let st ← Proto.optNat? st
    pure { out := o, shape := sh, status := st }
  | _ => none

def parseHook (s : String) : Option (Point × Hook) :=
  match s.splitOn "." with
  | [p, id, prio, fs, o] => do
    let p ← pointOfNat (← p.toNat?)
    pure (p, { id := ← id.toNat?, prio := ← prio.toNat?, failsafe := ← parseBool fs, out := ← parseOut o })
  | _ => none

def parseHooks (s : String) : Option (List (Point × Hook)) :=
  if s == "-" then some [] else (s.splitOn ",").mapM parseHook

def parseErrPage (s : String) : Option ErrPage :=
  if s == "absent" then some .absent else if s == "cbOk" then some .cbOk
  else if s == "cbFail" then some .cbFail else if s == "tmplFail" then some .tmplFail else none

def parseErrResp (s : String) : Option (Option Out) :=
  if s == "N" then some none else (parseOut s).map some

def parsePage : List String → Option Page
  | [d, n, b, h, er, ep, tb, st, hk] => do
    let hooks ← parseHooks hk
    pure { hooks := fun p => (hooks.filter (fun x => x.1 = p)).map (·.2)
           dispatch := ← parseOut d, ns := ← parseOut n, body := ← parseOut b
           handler := ← parseHandler h, errorResponse := ← parseErrResp er
           errorPage := ← parseErrPage ep, showTb := ← parseBool tb, stream := ← parseBool st }
  | _ => none

def parseMethod (s : String) : Option Method :=
  if s == "get" then some .get else if s == "head" then some .head
  else if s == "post" then some .post else none

/-- split a token list at the `|` tokens -/
def splitBar : List String → List (List String)
  | [] => [[]]
  | t :: ts =>
    match splitBar ts with
    | [] => [[t]]
    | g :: gs => if t == "|" then [] :: g :: gs else (t :: g) :: gs

def parsePlan (line : String) : Option Plan :=
  match splitBar (Proto.fields line) with
  | [m, nh, bq, rd, cl, st, gtb] :: pages => do
    let pages ← pages.mapM parsePage
    pure { pages := pages, start := ← st.toNat?, meth := ← parseMethod m, noHost := ← parseBool nh,
           badQuery := ← parseBool bq, reads := ← Proto.optNat? rd, closes := ← cl.toNat?,
           globalTb := ← parseBool gtb }
  | _ => none

def b01 (b : Bool) : String := if b then "1" else "0"

def showEntry : Entry → String
  | .req r (.visit p) => s!"v{r}.{Point.toNat p}"
  | .req r (.hook p id) => s!"h{r}.{Point.toNat p}.{id}"
  | .req r .handler => s!"H{r}"
  | .req r .errorResponse => s!"R{r}"
  | .req r .errorPage => s!"P{r}"
  | .start c e => s!"S{c}.{b01 e}"
  | .closeCall => "C"

def showBody : BodyK → String
  | .empty => "empty"
  | .page _ => "page"
  | .pageFlat => "pageflat"
  | .redirect => "redirect"
  | .errorPage tb m => s!"ep{b01 tb}{b01 m}"
  | .errorCb tb => s!"cb{b01 tb}"
  | .custom => "custom"
  | .bare tb => s!"bare{b01 tb}"

def showResult (res : Result) : String :=
  let js := res.j.map showEntry
  let j := if js.isEmpty then "-" else ",".intercalate js
  let t := match res.tail with | none => "N" | some b => b01 b
  s!"J={j} B={showBody res.body} T={t} X={b01 res.escaped.isSome} F={b01 res.outOfFuel} Q={b01 res.reqShowTb} I={b01 res.trappedAtInit}"

def step (line : String) : String :=
  match parsePlan line with
  | none => "bad-op"
  | some p => showResult (call p)

end CpModel.PipelineProto
