import CpModel.Gen.C12NormTables
import CpModel.HeaderEnc
/-!
  C12 (round 2) — what happens to a text BEFORE it reaches `HeaderMap.encode_header_item`, and the
  request-side reader of what that function emits (core Lean only).

  Transcribes, with every finite table obtained by running the live function over its domain
  (`CpModel/Gen/C12NormTables.lean`, regenerated on every run):

  * `str.title()` as CPython's `do_title` does it (`title?`): walk the string, a character that
    follows a *cased* character is lower-cased (`_PyUnicode_ToLowerFull`), any other is title-cased
    (`_PyUnicode_ToTitleFull`); both mappings may yield several characters (`ß` ↦ `Ss`).  This is the
    normalisation `CaseInsensitiveDict.transform_key` / `Request.process_headers` apply to every
    header NAME.  Domain: code points below `caseBound` (0x370: ASCII, Latin-1, Latin Extended, IPA,
    spacing modifiers, combining diacriticals); a character outside is "not modelled" (`none`) —
    the final-sigma rule of `lower_ucs4` only concerns U+03A3, which is outside.
  * `str.strip()` (`strip`, whitespace = every code point with `str.isspace()`), and
    `httputil.valid_status` for a `str` status (`validStatus`): `partition(' ')`, `int(code)` for a
    code written in ASCII digits (any other spelling `int()` accepts is "not modelled"),
    range check 100..599, reason = stripped text or the default of `response_codes`.
  * `urllib.parse.quote` (`urlQuote`) and `static._make_content_disposition`
    (`contentDisposition`; the NFKC/ASCII-only rendering of the name is an input).
  * `http.cookies`: `_quote` as reached through `SimpleCookie.value_encode` (`cookieQuote`), a plain
    reader for the quoted form (`cookieUnquote`, used in the statement of the round trip), and
    `Morsel.output()` (`morselOutput`: key, coded value, then the non-empty attributes in sorted
    order under their `_reserved` names, flags bare, the comment quoted).
  * the request side of RFC 2047, `httputil.decode_TEXT_maybe`, for a value that is exactly ONE
    encoded word in the spellings CherryPy itself and common clients produce (`decodeWord`:
    `=?utf-8?b?…?=` with canonical base64; `=?utf-8?q?…?=` and `=?iso-8859-1?q?…?=` with `_`, `=XX`).

  Not modelled: NFKC normalisation, `int()` beyond ASCII digits, `email.header`'s handling of
  several words / surrounding text / tolerant base64, charsets other than the two named.
-/
namespace CpModel.HeaderNorm
open CpModel.Gen.C12N
open CpModel.HeaderEnc (Bytes Text utf8 Err b64dec statusLine ewPrefix ewSuffix)

def toText (l : List Nat) : Text := l.map Char.ofNat

/-! ### `str.title()` -/

def caseLookup (n : Nat) : Option (Bool × List Nat × List Nat) :=
  (caseTable.find? fun e => e.1 == n).map fun e => e.2

/-- `_PyUnicode_IsCased` -/
def isCased (c : Char) : Bool :=
  match caseLookup c.toNat with
  | some e => e.1
  | none => false

/-- `_PyUnicode_ToTitleFull` -/
def toTitle (c : Char) : Text :=
  match caseLookup c.toNat with
  | some e => toText e.2.1
  | none => [c]

/-- `_PyUnicode_ToLowerFull` -/
def toLower (c : Char) : Text :=
  match caseLookup c.toNat with
  | some e => toText e.2.2
  | none => [c]

/-- `do_title`; `prev` = `previous_is_cased` -/
def titleAux : Bool → Text → Option Text
  | _, [] => some []
  | prev, c :: rest =>
    if c.toNat < caseBound then
      (titleAux (isCased c) rest).map fun r => (if prev then toLower c else toTitle c) ++ r
    else none

/-- `s.title()`; `none` = a character outside the modelled range -/
def title? (s : Text) : Option Text := titleAux false s

/-! ### `str.strip()` and `httputil.valid_status` -/

def isPySpace (c : Char) : Bool := pyWhitespace.contains c.toNat

/-- `s.lstrip()` -/
def lstrip : Text → Text
  | [] => []
  | c :: rest => if isPySpace c then lstrip rest else c :: rest

/-- `s.strip()` -/
def strip (s : Text) : Text := (lstrip (lstrip s).reverse).reverse

/-- `s.partition(' ')`: (head, tail); tail empty when there is no space -/
def partitionSpace : Text → Text × Text
  | [] => ([], [])
  | c :: rest =>
    if c = ' ' then ([], rest)
    else let p := partitionSpace rest; (c :: p.1, p.2)

def digitVal? (c : Char) : Option Nat :=
  if 48 ≤ c.toNat ∧ c.toNat ≤ 57 then some (c.toNat - 48) else none

/-- `int(code)` for ASCII digits -/
def parseDigits : Nat → Text → Option Nat
  | acc, [] => some acc
  | acc, c :: rest =>
    match digitVal? c with
    | some d => parseDigits (acc * 10 + d) rest
    | none => none

def defaultReason (code : Nat) : Text :=
  match responseReasons.find? fun e => e.1 == code with
  | some e => toText e.2
  | none => []

inductive StatusResult where
  | ok (code : Nat) (reason : Text)
  /-- `ValueError` (non-numeric or out of range): `finalize` turns it into `HTTPError(500)` -/
  | bad
  /-- a spelling of the code that `int()` may accept but the model does not cover -/
  | unmodelled
  deriving DecidableEq, Repr

/-- `httputil.valid_status(status)` for a `str` status: `(code, reason)` -/
def validStatus (status : Text) : StatusResult :=
  if status = [] then .ok 200 (defaultReason 200)
  else
    let p := partitionSpace status
    if p.1 = [] then .bad                       -- `int('')`
    else
      match parseDigits 0 p.1 with
      | none =>
        -- letters/punctuation only: certainly `ValueError`; anything else might be a number to `int()`
        if p.1.all fun c => (65 ≤ c.toNat ∧ c.toNat ≤ 90) ∨ (97 ≤ c.toNat ∧ c.toNat ≤ 122) then .bad
        else .unmodelled
      | some code =>
        if code < 100 ∨ code > 599 then .bad
        else
          let r := strip p.2
          .ok code (if r = [] then defaultReason code else r)

/-- the status line `Response.finalize` emits for a `str` status the application set -/
def statusLineRaw (status : Text) : Option (Except Err Bytes) :=
  match validStatus status with
  | .ok code reason => some (statusLine code reason)
  | .bad => some (.error .badStatus)
  | .unmodelled => none

/-! ### `urllib.parse.quote`, `_make_content_disposition` -/

def hexU (n : Nat) : Char := if n < 10 then Char.ofNat (48 + n) else Char.ofNat (55 + n)

def quoteByte (b : Nat) : Text :=
  if urlSafe.contains b then [Char.ofNat b] else ['%', hexU (b / 16), hexU (b % 16)]

/-- `urllib.parse.quote(s)` -/
def urlQuote (s : Text) : Text := ((utf8 s).map UInt8.toNat).flatMap quoteByte

/-- `_make_content_disposition(disposition, file_name)`; `asciiName` is
    `unicodedata.normalize('NFKC', file_name).encode('ascii', errors='ignore').decode()` -/
def contentDisposition (disp asciiName fileName : Text) : Text :=
  disp ++ "; filename=\"".toList ++ asciiName ++ ['"'] ++
    (if asciiName = fileName then [] else "; filename*=UTF-8''".toList ++ urlQuote fileName)

/-! ### `http.cookies` -/

def isCookieLegal (c : Char) : Bool := cookieLegal.contains c.toNat

/-- `str.translate(_Translator)`, one character -/
def cookieXlateChar (c : Char) : Text :=
  match cookieXlate.find? fun e => e.1 == c.toNat with
  | some e => toText e.2
  | none => [c]

/-- `http.cookies._quote(s)` -/
def cookieQuote (s : Text) : Text :=
  if s ≠ [] ∧ s.all isCookieLegal then s else '"' :: s.flatMap cookieXlateChar ++ ['"']

def isOct (c : Char) : Bool := 48 ≤ c.toNat ∧ c.toNat ≤ 55
def octVal (c : Char) : Nat := c.toNat - 48

/-- a plain reader for the inside of a quoted cookie value: `\ooo` (three octal digits, value below
    256) is that character, `\x` is `x`, anything else stands for itself; `skip` = characters of an
    escape already consumed -/
def unqAux : Nat → Text → Text
  | _, [] => []
  | n + 1, _ :: rest => unqAux n rest
  | 0, c :: rest =>
    if c = '\\' then
      match rest with
      | a :: b :: d :: _ =>
        if isOct a && isOct b && isOct d && octVal a < 4 then
          Char.ofNat (octVal a * 64 + octVal b * 8 + octVal d) :: unqAux 3 rest
        else a :: unqAux 1 rest
      | a :: _ => a :: unqAux 1 rest
      | [] => [c]
    else c :: unqAux 0 rest

/-- reader of a cookie value as written by `cookieQuote`: strip the quotes when present -/
def cookieUnquote (s : Text) : Text :=
  match s with
  | '"' :: rest =>
    match rest.reverse with
    | '"' :: inner => unqAux 0 inner.reverse
    | _ => s
  | _ => s

def reservedName (key : Text) : Option Text :=
  (morselReserved.find? fun e => toText e.1 == key).map fun e => toText e.2

def isFlag (key : Text) : Bool := morselFlags.any fun f => toText f == key

def kComment : Text := "comment".toList

/-- one attribute of `Morsel.OutputString` (`none` = not written) -/
def morselAttr (kv : Text × Text) : Option Text :=
  if kv.2 = [] then none
  else
    match reservedName kv.1 with
    | none => none
    | some name =>
      if kv.1 = kComment then some (name ++ '=' :: cookieQuote kv.2)
      else if isFlag kv.1 then some name
      else some (name ++ '=' :: kv.2)

/-- `'; '.join(parts)` after the first part -/
def joinSemi : List Text → Text
  | [] => []
  | x :: rest => ';' :: ' ' :: x ++ joinSemi rest

/-- `Morsel.output()`: `attrs` = `sorted(morsel.items())` with every value `str()`-ed (flags: any
    true value) -/
def morselOutput (key coded : Text) (attrs : List (Text × Text)) : Text :=
  "Set-Cookie: ".toList ++ key ++ '=' :: coded ++ joinSemi (attrs.filterMap morselAttr)

/-! ### the request side of RFC 2047 (one encoded word) -/

def hexVal? (c : Char) : Option Nat :=
  let n := c.toNat
  if 48 ≤ n ∧ n ≤ 57 then some (n - 48)
  else if 65 ≤ n ∧ n ≤ 70 then some (n - 55)
  else if 97 ≤ n ∧ n ≤ 102 then some (n - 87)
  else none

/-- `email.quoprimime.header_decode`: `_` is a space, `=XX` an octet, anything else itself
    (`skip` = characters of an `=XX` already consumed) -/
def qDecodeAux : Nat → Text → List Nat
  | _, [] => []
  | n + 1, _ :: rest => qDecodeAux n rest
  | 0, c :: rest =>
    if c = '_' then 32 :: qDecodeAux 0 rest
    else if c = '=' then
      match rest with
      | a :: b :: _ =>
        match hexVal? a, hexVal? b with
        | some x, some y => (x * 16 + y) :: qDecodeAux 2 rest
        | _, _ => 61 :: qDecodeAux 0 rest
      | _ => 61 :: qDecodeAux 0 rest
    else c.toNat :: qDecodeAux 0 rest

def qDecode (s : Text) : List Nat := qDecodeAux 0 s

def stripSuffix2 (s : Text) : Option Text :=
  match s.reverse with
  | '=' :: '?' :: r => some r.reverse
  | _ => none

def utf8DecodeBytes (bs : Bytes) : Option Text := (bs.toByteArray.utf8Decode?).map Array.toList

def pfxB : Text := "=?utf-8?b?".toList
def pfxQ : Text := "=?utf-8?q?".toList
def pfxQL : Text := "=?iso-8859-1?q?".toList

def wordBody (pfx raw : Text) : Option Text :=
  if pfx.isPrefixOf raw then
    (stripSuffix2 (raw.drop pfx.length)).bind fun p => if p.contains '?' then none else some p
  else none

inductive Decoded where
  | text (t : Text)
  /-- `LookupError` / `ValueError` while decoding: `process_headers` answers 400 -/
  | undecodable
  /-- not one of the modelled spellings -/
  | unmodelled
  deriving DecidableEq, Repr

/-- `httputil.decode_TEXT_maybe(raw)` for a value that is one encoded word -/
def decodeWord (raw : Text) : Decoded :=
  match wordBody pfxB raw with
  | some p =>
    if p.all (fun c => c.toNat < 128) then
      match b64dec (p.map fun c => UInt8.ofNat c.toNat) with
      | some bs =>
        match utf8DecodeBytes bs with
        | some t => .text t
        | none => .undecodable
      | none => .unmodelled            -- email's base64 reader is tolerant; not transcribed
    else .unmodelled
  | none =>
    match wordBody pfxQ raw with
    | some p =>
      if p.all (fun c => 32 < c.toNat ∧ c.toNat < 127) then
        match utf8DecodeBytes ((qDecode p).map UInt8.ofNat) with
        | some t => .text t
        | none => .undecodable
      else .unmodelled
    | none =>
      match wordBody pfxQL raw with
      | some p =>
        if p.all (fun c => 32 < c.toNat ∧ c.toNat < 127) then .text (toText (qDecode p))
        else .unmodelled
      | none => .unmodelled

end CpModel.HeaderNorm
