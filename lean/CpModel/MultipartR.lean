import CpModel.Multipart
/-
  The multipart parser of `CpModel.Multipart`, statement for statement, but over the CONCRETE
  `SizedReader` model (`CpModel.Reader`): `fp.readline()` in `process_multipart` / `read_headers`,
  `fp.readline(1 << 16)` in `read_lines_to_boundary`, `fp.finish()`, `fp.done`.  Buffer size and the
  fragmentation plan of the connection are part of the state here; `CpProofs/C04Sim.lean` proves that
  they do not influence the result (simulation with the cursor version).  Core Lean only; this is the
  version the driver executes.
-/
namespace CpModel.MultipartR
open CpModel.Reader CpModel.Cursor CpModel.Multipart

/-- `fp.readline(size)`; reader errors (413, model fuel) become parser errors -/
def rl (cfg : Cfg) (s : St) (size : Option Nat) : Except Err (Bytes × St) :=
  match readline cfg s size with
  | (.ok line, s1) => .ok (line, s1)
  | (.err413, _) => .error .reader413
  | (.fuel, _) => .error .fuel

def SIZE16 : Option Nat := some 65536

def readLinesR (cfg : Cfg) (bnd : Bytes) (maxram : Nat) :
    Nat → St → Bytes → Bool → Bytes → Bool → Except Err (Bytes × Bool × St)
  | 0, _, _, _, _, _ => .error .fuel
  | fuel + 1, s, delim, prevLf, acc, spilled =>
    match rl cfg s SIZE16 with
    | .error e => .error e
    | .ok (line, s1) =>
      if line.isEmpty then .error .eofBody else
      match delimKind bnd line prevLf with
      | some false => .ok (acc, spilled, s1)
      | some true => .ok (acc, spilled, finish s1)
      | none =>
        let (out, delim', prevLf') := splitTerm (delim ++ line)
        let acc' := acc ++ out
        readLinesR cfg bnd maxram fuel s1 delim' prevLf' acc' (spilled || decide (acc'.length > maxram))

def readHeadersR (cfg : Cfg) : Nat → St → Option Bytes → List (Bytes × Bytes) →
    Except Err (List (Bytes × Bytes) × St)
  | 0, _, _, _ => .error .fuel
  | fuel + 1, s, lastKey, hs =>
    match rl cfg s none with
    | .error e => .error e
    | .ok (line, s1) =>
      if line.isEmpty then .error .eofHeaders else
      if line = CRLF then .ok (hs, s1) else
      if !endsWith line CRLF then .error .noCRLF else
      match hdrStep line lastKey hs with
      | .error e => .error e
      | .ok (lk, hs') => readHeadersR cfg fuel s1 lk hs'

/-- `none` = no marker found (no parts); reader errors are reported -/
def findFirstR (cfg : Cfg) (bnd : Bytes) : Nat → St → Except Err (Option St)
  | 0, _ => .ok none
  | fuel + 1, s =>
    match rl cfg s none with
    | .error e => .error e
    | .ok (line, s1) =>
      if line.isEmpty then .ok none
      else if strip line = bnd then .ok (some s1)
      else findFirstR cfg bnd fuel s1

def partsLoopR (cfg : Cfg) (bnd : Bytes) (maxram : Nat) (inner : Nat) :
    Nat → St → List RawPart → Except Err (List RawPart × St)
  | 0, _, _ => .error .fuel
  | fuel + 1, s, acc =>
    match readHeadersR cfg inner s none [] with
    | .error e => .error e
    | .ok (hs, s1) =>
      match readLinesR cfg bnd maxram inner s1 [] true [] false with
      | .error e => .error e
      | .ok (content, spilled, s2) =>
        let acc' := acc ++ [{ headers := hs, content := content, spilled := spilled }]
        if s2.done then .ok (acc', s2) else partsLoopR cfg bnd maxram inner fuel s2 acc'

/-- `process_multipart` on a fresh reader over the connection data `conn` (which may hold more than
    the declared length) with fragmentation plan `frag`. `none` state = no marker found. -/
def processMultipartR (cfg : Cfg) (boundary : Bytes) (maxram : Nat) (conn : Bytes) (frag : List Nat) :
    Except Err (List RawPart × Option St) :=
  let bnd := [DASH, DASH] ++ boundary
  let n := conn.length + 2
  match findFirstR cfg bnd n (init conn frag) with
  | .error e => .error e
  | .ok none => .ok ([], none)
  | .ok (some s) =>
    match partsLoopR cfg bnd maxram n n s [] with
    | .error e => .error e
    | .ok (ps, s') => .ok (ps, some s')

end CpModel.MultipartR
