/-
  Model of `cherrypy._cpreqbody.SizedReader` (read / readline / readlines / finish) and of the
  `Entity.__next__` wrapper, transcribed statement by statement from the code as it is NOW
  (i.e. with the two repairs `buffer = remainder + buffer` and the `sizehint is None` guard).
  Core Lean only.

  What is modelled
  * the underlying stream `fp` (socket file / wsgi.input): unread bytes `src`, a fragmentation
    plan `frag` (the i-th `fp.read(n)` returns at most `frag[i]+1` bytes, `n` bytes once the plan is
    used up, fewer only at EOF), a ghost counter `off` of the bytes handed out so far, and an
    optional event `failAt = some k`: the k-th next `fp.read` raises cheroot's `MaxSizeExceeded`
    (the server-wide `max_request_body_size`), which `SizedReader.read` maps to `HTTPError(413)`.
  * `SizedReader.read(size)`: `remaining` accounting (`inf` when no length is declared and no size
    is given; the `size and size < remaining` truthiness test, so `read(0)` with a declared length
    reads everything), `remaining == 0 → finish()`, buffer-first read, the two
    `maxbytes and bytes_read > maxbytes → 413` checks (state is left as the code leaves it when it
    raises: bytes already pulled are lost), `chunksize = min(remaining, bufsize)`, EOF → `finish()`.
    `read(size, fp_out)` runs the same statements with `fp_out.write` in place of `chunks.append`.
  * `SizedReader.readline(size)`: the `while size is None or size > 0` loop whose `size` is never
    decremented (so `readline(n)`, n>0, returns a whole line however long), chunk size
    `min(size, bufsize)`, `data.find(b'\n')`, push-back of the remainder IN FRONT of the buffer and
    `bytes_read -= len(remainder)`, and `done = False` when the remainder is not empty (proposed fix
    C04-multipart-chunked-done: `read` flags EOF as soon as the socket is drained).
  * `SizedReader.readlines(sizehint)`: the `min(sizehint, length - bytes_read)` adjustment when a
    length is declared, the `seen >= sizehint` test after each line.
  * `Entity.__next__`: `readline()`, empty → `StopIteration`.
  * `finish()`: `done = True` (and a ghost count of the calls; what a call does to the trailer of a chunked
    body is modelled in `CpModel.ReaderProcess`).
  Not modelled: trailer parsing in `finish()` (`has_trailers`), negative sizes, exceptions of the
  underlying stream other than `MaxSizeExceeded`.

  Loops are fuel-recursive so that everything reduces in the kernel; the fuel passed by the entry
  points (`|src|+1`, `|buffer|+|src|+1`) is proved sufficient in `CpProofs.C05Lemmas` (the result
  `fuel` is never produced when `bufsize ≥ 1`).
-/
namespace CpModel.Reader

abbrev Bytes := List UInt8

def LF : UInt8 := 10

structure Cfg where
  length : Option Nat      -- declared Content-Length (`none`: chunked / absent)
  maxbytes : Option Nat    -- `request.body.maxbytes` (`None` or 0: unlimited)
  bufsize : Nat
  deriving Repr, DecidableEq, Inhabited

structure St where
  src : Bytes              -- unread bytes of the underlying stream
  frag : List Nat          -- fragmentation plan of the underlying stream
  failAt : Option Nat      -- `some k`: the k-th next fp.read raises MaxSizeExceeded
  off : Nat                -- ghost: bytes handed out by the underlying stream so far
  buffer : Bytes           -- SizedReader.buffer
  bytesRead : Nat          -- SizedReader.bytes_read
  done : Bool              -- SizedReader.done
  fins : Nat               -- ghost: how many times `finish()` has been called (each call re-reads the
                           -- trailer of a chunked body unless the code guards against that, see ReaderProcess)
  deriving Repr, DecidableEq, Inhabited

def init (src : Bytes) (frag : List Nat) (failAt : Option Nat := none) : St :=
  { src := src, frag := frag, failAt := failAt, off := 0, buffer := [], bytesRead := 0, done := false, fins := 0 }

inductive Res (α : Type) where
  | ok (a : α)
  | err413
  | fuel                    -- model artefact (never produced, see C05Lemmas)
  deriving Repr, DecidableEq, Inhabited

/-- How many bytes the next `fp.read(n)` hands out. -/
def fpCount (s : St) (n : Nat) : Nat :=
  min (match s.frag with | [] => n | f :: _ => min n (f + 1)) s.src.length

/-- `fp.read(n)`; `none` = the stream raised `MaxSizeExceeded`. -/
def fpRead (s : St) (n : Nat) : Option Bytes × St :=
  match s.failAt with
  | some 0 => (none, s)
  | fa =>
    let k := fpCount s n
    (some (s.src.take k),
     { s with src := s.src.drop k, frag := s.frag.tail, off := s.off + k,
              failAt := fa.map (· - 1) })

/-- `self.maxbytes and self.bytes_read > self.maxbytes` -/
def over (cfg : Cfg) (br : Nat) : Bool :=
  match cfg.maxbytes with
  | some m => m != 0 && decide (br > m)
  | none => false

def finish (s : St) : St := { s with done := true, fins := s.fins + 1 }

/-- the `remaining` computed at the top of `read` (`none` = `inf`) -/
def remainingOf (cfg : Cfg) (s : St) (size : Option Nat) : Option Nat :=
  match cfg.length with
  | none => size
  | some L =>
    let r := L - s.bytesRead
    match size with
    | some n => if n ≠ 0 ∧ n < r then some n else some r
    | none => some r

/-- `chunksize = min(remaining, self.bufsize)` -/
def chunkOf (cfg : Cfg) (rem : Option Nat) : Nat :=
  match rem with
  | none => cfg.bufsize
  | some r => min r cfg.bufsize

/-- `while remaining > 0:` … of `read`. -/
def readLoop (cfg : Cfg) : Nat → St → Option Nat → Bytes → Res Bytes × St
  | 0, s, _, _ => (.fuel, s)
  | fuel + 1, s, rem, acc =>
    if rem = some 0 then (.ok acc, s) else
    match fpRead s (chunkOf cfg rem) with
    | (none, s1) => (.err413, s1)
    | (some data, s1) =>
      if data.isEmpty then (.ok acc, finish s1) else
      let s2 := { s1 with bytesRead := s1.bytesRead + data.length }
      if over cfg s2.bytesRead then (.err413, s2)
      else readLoop cfg fuel s2 (rem.map (· - data.length)) (acc ++ data)

/-- `data = self.buffer` (remaining is inf) or `self.buffer[:remaining]` -/
def bufTake (rem : Option Nat) (buf : Bytes) : Bytes :=
  match rem with
  | none => buf
  | some r => buf.take r

/-- `self.buffer = b''` or `self.buffer[remaining:]` -/
def bufDrop (rem : Option Nat) (buf : Bytes) : Bytes :=
  match rem with
  | none => []
  | some r => buf.drop r

def read (cfg : Cfg) (s : St) (size : Option Nat) : Res Bytes × St :=
  let rem := remainingOf cfg s size
  if rem = some 0 then (.ok [], finish s) else
  if s.buffer.isEmpty then
    readLoop cfg (s.src.length + 1) s rem []
  else
    let data := bufTake rem s.buffer
    let s1 := { s with buffer := bufDrop rem s.buffer, bytesRead := s.bytesRead + data.length }
    if over cfg s1.bytesRead then (.err413, s1)
    else readLoop cfg (s.src.length + 1) s1 (rem.map (· - data.length)) data

/-- `pos = data.find(b'\n') + 1; if pos: (data[:pos], data[pos:])` -/
def splitNl : Bytes → Option (Bytes × Bytes)
  | [] => none
  | b :: bs =>
    if b = LF then some ([b], bs) else
    match splitNl bs with
    | none => none
    | some (l, r) => some (b :: l, r)

def readlineLoop (cfg : Cfg) : Nat → St → Nat → Bytes → Res Bytes × St
  | 0, s, _, _ => (.fuel, s)
  | fuel + 1, s, chunk, acc =>
    match read cfg s (some chunk) with
    | (.ok data, s1) =>
      if data.isEmpty then (.ok acc, s1) else
      match splitNl data with
      | some (l, r) =>
        (.ok (acc ++ l), { s1 with buffer := r ++ s1.buffer, bytesRead := s1.bytesRead - r.length,
                                   done := if r.isEmpty then s1.done else false })
      | none => readlineLoop cfg fuel s1 chunk (acc ++ data)
    | (.err413, s1) => (.err413, s1)
    | (.fuel, s1) => (.fuel, s1)

def readline (cfg : Cfg) (s : St) (size : Option Nat) : Res Bytes × St :=
  if size = some 0 then (.ok [], s) else
  let chunk := match size with
    | some n => if n < cfg.bufsize then n else cfg.bufsize
    | none => cfg.bufsize
  readlineLoop cfg (s.buffer.length + s.src.length + 1) s chunk []

def hintReached (hint : Option Nat) (seen : Nat) : Bool :=
  match hint with
  | some h => decide (seen ≥ h)
  | none => false

def readlinesLoop (cfg : Cfg) : Nat → St → Option Nat → Nat → List Bytes → Res (List Bytes) × St
  | 0, s, _, _, _ => (.fuel, s)
  | fuel + 1, s, hint, seen, acc =>
    match readline cfg s none with
    | (.ok line, s1) =>
      if line.isEmpty then (.ok acc, s1) else
      if hintReached hint (seen + line.length) then (.ok (acc ++ [line]), s1)
      else readlinesLoop cfg fuel s1 hint (seen + line.length) (acc ++ [line])
    | (.err413, s1) => (.err413, s1)
    | (.fuel, s1) => (.fuel, s1)

def readlines (cfg : Cfg) (s : St) (hint : Option Nat) : Res (List Bytes) × St :=
  let hint' := match cfg.length with
    | some L => some (match hint with
        | none => L - s.bytesRead
        | some h => min h (L - s.bytesRead))
    | none => hint
  readlinesLoop cfg (s.buffer.length + s.src.length + 1) s hint' 0 []

/-! ### operation histories -/

inductive Op where
  | read (n : Option Nat)
  | readline (n : Option Nat)
  | readlines (h : Option Nat)
  | next
  deriving Repr, DecidableEq, Inhabited

inductive Out where
  | bytes (b : Bytes)
  | lines (ls : List Bytes)
  | stop                     -- StopIteration
  | err413
  | fuel
  deriving Repr, DecidableEq, Inhabited

def step (cfg : Cfg) (s : St) : Op → Out × St
  | .read n =>
    match read cfg s n with
    | (.ok b, s1) => (.bytes b, s1)
    | (.err413, s1) => (.err413, s1)
    | (.fuel, s1) => (.fuel, s1)
  | .readline n =>
    match readline cfg s n with
    | (.ok b, s1) => (.bytes b, s1)
    | (.err413, s1) => (.err413, s1)
    | (.fuel, s1) => (.fuel, s1)
  | .readlines h =>
    match readlines cfg s h with
    | (.ok ls, s1) => (.lines ls, s1)
    | (.err413, s1) => (.err413, s1)
    | (.fuel, s1) => (.fuel, s1)
  | .next =>
    match readline cfg s none with
    | (.ok b, s1) => if b.isEmpty then (.stop, s1) else (.bytes b, s1)
    | (.err413, s1) => (.err413, s1)
    | (.fuel, s1) => (.fuel, s1)

def run (cfg : Cfg) (s : St) : List Op → List Out × St
  | [] => ([], s)
  | op :: ops =>
    let (o, s1) := step cfg s op
    let (os, s2) := run cfg s1 ops
    (o :: os, s2)

end CpModel.Reader
