import CpModel.Gen.C02Tables
/-!
  Model of `cherrypy._cpdispatch.Dispatcher.find_handler` / `Dispatcher.__call__` /
  `MethodDispatcher.__call__` and of `cherrypy._helper.popargs`, transcribed statement by
  statement.  Core Lean only.

  What is modelled
  * an *object graph*: every Python object the dispatcher can touch is a node with the facts the
    code asks about it: truthiness (`if func:`), `hasattr(o, '__call__')`, truthiness of
    `getattr(o, 'exposed', False)`, the finite attribute map `getattr(o, name, None)` (absent or
    `None` ⇒ `none`), the upper-case names of `dir(o)`, `_cp_config` (if the attribute exists) and —
    for objects used as `_cp_dispatch` — what the call `dispatch(vpath=…)` does to the list and what
    it returns (`Disp`).  The attributes of Python's `None` object itself (`None.__class__` …) are the
    map `noneAttrs`, because the code keeps calling `getattr(None, name, None)` after a miss.
  * `find_handler`: `fullpath = segments ++ ["index"]`, name translation through the generated table
    `Gen.C02.translateTable`, the `_cp_dispatch` branch (hidden `index` token popped and restored),
    the "segment added ⇒ CherryPyException / none removed ⇒ pop one" bookkeeping, `nodeconf`
    (`_cp_config` of the node, then the application section of every path prefix consumed at that
    step, section names compared as *strings*), the object trail with `segleft`, the reverse scan
    with the separate `default` test and the inserted `default` trail entry, `is_index`.
  * `Dispatcher.__call__`: `if func:` and the `%2F` restoration.
  * `MethodDispatcher.__call__`: `Allow`, verb lookup, HEAD→GET, 405, 404, `_cp_config` of the verb
    method.
  * `popargs(*names, handler=…)` as the `Disp` it denotes (`popargsDisp`), including what it puts into
    `request.params` (`paramsOf`; these reach the handler as keyword arguments).
  Not modelled: Python's attribute protocol (the graph is its serialised result),
  `test_callable_spec` (the probes accept any arguments),
  `RoutesDispatcher`, `VirtualHost`, `XMLRPCDispatcher`.
-/
namespace CpModel.Dispatch

abbrev Name := List Char
abbrev NodeId := Nat

/-- Config values as far as the dispatcher / config merge / toolbox look at them. -/
inductive Val where
  | none
  | bool (b : Bool)
  | int (n : Int)
  | str (s : List Char)
  deriving DecidableEq, Repr, Inhabited

/-- A config dict as the ordered list of its `update`s (a later entry for a key wins). -/
abbrev Conf := List (Name × Val)

/-- What a `_cp_dispatch` call returns. -/
inductive Ret where
  /-- a fixed object (`none` = Python `None`) -/
  | fixed (t : Option NodeId)
  /-- the bound `self` -/
  | self
  /-- `popargs` without handler: `getattr(self, vpath.pop(0), None) if vpath else self` -/
  | popGetattrOrSelf
  /-- `getattr(self, vpath[0], None) if vpath else None`, nothing popped (the documented idiom) -/
  | peekGetattr
  deriving DecidableEq, Repr, Inhabited

/-- Behaviour of a `_cp_dispatch` callable: `pop` segments are popped from the front (as many as
    there are), then `add` is inserted in front, then `ret` is returned. -/
structure Disp where
  /-- the call itself raises (e.g. an unbound function called without `self`) -/
  raises : Bool := false
  self : Option NodeId := none
  pop : Nat := 0
  add : List Name := []
  ret : Ret := .fixed none
  /-- `popargs` argument names: the popped segments are bound to them, in order … -/
  names : List Name := []
  /-- … and put into `request.params` (not when a callable handler receives them instead) -/
  toParams : Bool := false
  deriving DecidableEq, Repr, Inhabited

structure Node where
  truthy : Bool := true
  callable : Bool := false
  exposed : Bool := false
  attrs : List (Name × NodeId) := []
  /-- `[m for m in dir(o) if m.isupper()]` -/
  upper : List Name := []
  disp : Option Disp := none
  /-- `o._cp_config` when `hasattr(o, '_cp_config')` -/
  conf : Option Conf := none
  deriving DecidableEq, Repr, Inhabited

structure Graph where
  nodes : List Node
  noneAttrs : List (Name × NodeId) := []
  root : NodeId := 0
  deriving Repr, Inhabited

/-- The mounted application: object graph + `app.config` (section name ↦ dict). -/
structure App where
  g : Graph
  sections : List (List Char × Conf) := []
  deriving Repr, Inhabited

def lookup {α : Type} (l : List (List Char × α)) (n : List Char) : Option α :=
  match l with
  | [] => none
  | (k, v) :: rest => if k = n then some v else lookup rest n

/-- An id outside the serialised graph is an object about which nothing is known: no attributes. -/
def Graph.nodeD (g : Graph) (i : NodeId) : Node := g.nodes.getD i {}

/-- `getattr(o, name, None)`; `o = none` is Python's `None` object. -/
def Graph.getattr (g : Graph) (o : Option NodeId) (n : Name) : Option NodeId :=
  match o with
  | none => lookup g.noneAttrs n
  | some i => lookup (g.nodeD i).attrs n

def Graph.exposed (g : Graph) (i : NodeId) : Bool := (g.nodeD i).exposed

/-! ### string primitives -/

/-- `s.split('/')` followed by the `if x` filter (which also makes `strip('/')` redundant). -/
def splitSegs : List Char → List Name → Name → List Name
  | [], acc, cur => if cur.isEmpty then acc.reverse else (cur.reverse :: acc).reverse
  | c :: rest, acc, cur =>
    if c = '/' then splitSegs rest (if cur.isEmpty then acc else cur.reverse :: acc) []
    else splitSegs rest acc (c :: cur)

/-- `[x for x in path.strip('/').split('/') if x]` -/
def segments (path : List Char) : List Name := splitSegs path [] []

/-- `name.translate(table)` for a `str.maketrans`-style table. -/
def translateWith (tbl : List (Nat × List Nat)) (n : Name) : Name :=
  n.flatMap fun c =>
    match tbl.find? (·.1 = c.toNat) with
    | some (_, r) => r.map Char.ofNat
    | none => [c]

def translate : Name → Name := translateWith Gen.C02.translateTable

def dispatchName : Name := Gen.C02.dispatchMethodName.map Char.ofNat

def indexName : Name := "index".toList
def defaultName : Name := "default".toList
def rootName : Name := "root".toList

/-- `x.replace('%2F', '/')` -/
def restore2F : List Char → List Char
  | '%' :: '2' :: 'F' :: r => '/' :: restore2F r
  | c :: r => c :: restore2F r
  | [] => []

/-- `'/'.join(xs)` -/
def joinSlash : List Name → List Char
  | [] => []
  | [x] => x
  | x :: y :: r => x ++ '/' :: joinSlash (y :: r)

/-! ### the walk -/

/-- One entry of `object_trail`: `[name, node, nodeconf, segleft]`. -/
structure Entry where
  name : Name
  node : Option NodeId
  conf : Conf
  segleft : Nat
  deriving DecidableEq, Repr, Inhabited

inductive Err where
  /-- `CherryPyException('A vpath segment was added …')` -/
  | segmentAdded
  /-- the `_cp_dispatch` call raised -/
  | dispatchRaised
  /-- model artefact: a callable `_cp_dispatch` whose behaviour was not serialised -/
  | unknownDispatch
  /-- model artefact; proved unreachable (`CpProofs.C02.walk_no_outOfFuel`) -/
  | outOfFuel
  deriving DecidableEq, Repr, Inhabited

/-- `dispatch(vpath=iternames)`: returns the object, the mutated list and what went into
    `request.params` (`parms[arg] = vpath.pop(0)` for each name while segments last). -/
def runDisp (g : Graph) (d : Disp) (vp : List Name) :
    Option (Option NodeId × List Name × List (Name × Name)) :=
  if d.raises then none else
  let ps := if d.toParams then d.names.zip vp else []
  let vp := d.add ++ vp.drop d.pop
  match d.ret with
  | .fixed t => some (t, vp, ps)
  | .self => some (d.self, vp, ps)
  | .popGetattrOrSelf =>
    match vp with
    | [] => some (d.self, [], ps)
    | x :: r => some (g.getattr d.self x, r, ps)
  | .peekGetattr =>
    match vp with
    | [] => some (none, [], ps)
    | x :: _ => some (g.getattr d.self x, vp, ps)

/-- `cherrypy.popargs(*names, handler=h)` bound to `self`: pops `len(names)` segments, then
    * `handler is None`: `request.params.update(parms)`, resolves one more segment on `self` by a plain
      `getattr` (or returns `self`);
    * a handler that is not callable: `request.params.update(parms)`, returns it;
    * a callable handler: returns `handler(**parms)` (here: `target`), `request.params` untouched. -/
def popargsDisp (names : List Name) (handler : Option (Bool × Option NodeId)) (self : Option NodeId) : Disp :=
  match handler with
  | none => { self := self, pop := names.length, ret := .popGetattrOrSelf, names := names, toParams := true }
  | some (isCallable, target) =>
    { self := self, pop := names.length, ret := .fixed target, names := names, toParams := !isCallable }

/-- The application sections mixed in for `new_segs`: `curpath += '/' + seg; if curpath in app.config`. -/
def sectionsFor (secs : List (List Char × Conf)) : List Char → List Name → Conf
  | _, [] => []
  | cur, seg :: rest =>
    let cur' := cur ++ '/' :: seg
    ((lookup secs cur').getD []) ++ sectionsFor secs cur' rest

structure WalkSt where
  node : Option NodeId
  iter : List Name
  trail : List Entry
  /-- what `_cp_dispatch` calls have put into `request.params` so far (update order) -/
  params : List (Name × Name) := []
  deriving Repr, Inhabited

/-- Resolution of the first name of `iternames`: the sub-node and the list after the pops of the
    `if subnode is None: … else: …` statement. -/
def resolve (tr : Name → Name) (g : Graph) (node : Option NodeId) (name : Name) (rest : List Name) :
    Except Err (Option NodeId × List Name × List (Name × Name)) :=
  match g.getattr node (tr name) with
  | some s => .ok (some s, rest, [])
  | none =>
    match g.getattr node dispatchName with
    | none => .ok (none, rest, [])
    | some d =>
      let dn := g.nodeD d
      -- `dispatch and hasattr(dispatch, '__call__') and not getattr(dispatch, 'exposed', False) and pre_len > 1`
      if dn.truthy && dn.callable && !dn.exposed && decide (rest.length + 1 > 1) then
        match dn.disp with
        | none => .error .unknownDispatch
        | some dd =>
          -- `index_name = iternames.pop()`; `subnode = dispatch(vpath=iternames)`; `iternames.append(index_name)`
          let all := name :: rest
          match runDisp g dd all.dropLast with
          | none => .error .dispatchRaised
          | some (t, vp, ps) => .ok (t, vp ++ (all.getLast?.toList), ps)
      else .ok (none, rest, [])

/-- One iteration of `while iternames:`.  `fp` is `fullpath`. -/
def walkStep (tr : Name → Name) (app : App) (fp : List Name) (st : WalkSt) (name : Name)
    (rest : List Name) : Except Err WalkSt :=
  let preLen := rest.length + 1
  match resolve tr app.g st.node name rest with
  | .error e => .error e
  | .ok (sub, iter1, ps) =>
    if iter1.length > preLen then .error .segmentAdded
    else
      -- `elif segleft == pre_len: iternames.pop(0); segleft -= 1`
      let iter2 := if iter1.length = preLen then iter1.drop 1 else iter1
      let segleft := iter2.length
      -- `_cp_config` attached to this node
      let cp : Conf := match sub with
        | none => []
        | some i => ((app.g.nodeD i).conf).getD []
      -- values from app.config for this path
      let L := fp.length
      let existing := L - preLen
      let curpath : List Char := if existing ≠ 0 then '/' :: joinSlash (fp.take existing) else []
      let newSegs := (fp.drop (L - preLen)).take ((L - segleft) - (L - preLen))
      let nodeconf := cp ++ sectionsFor app.sections curpath newSegs
      .ok { node := sub, iter := iter2, trail := st.trail ++ [⟨name, sub, nodeconf, segleft⟩],
            params := st.params ++ ps }

/-- `while iternames:` — every iteration shortens the list, so `fuel = len(fullpath)` suffices. -/
def walk (tr : Name → Name) (app : App) (fp : List Name) : Nat → WalkSt → Except Err WalkSt
  | 0, st => if st.iter.isEmpty then .ok st else .error .outOfFuel
  | fuel + 1, st =>
    match st.iter with
    | [] => .ok st
    | name :: rest =>
      match walkStep tr app fp st name rest with
      | .error e => .error e
      | .ok st' => walk tr app fp fuel st'

/-- The trail entry of the root object. -/
def rootEntry (app : App) (L : Nat) : Entry :=
  let cp := ((app.g.nodeD app.g.root).conf).getD []
  let sec := (lookup app.sections ['/']).getD []
  ⟨rootName, some app.g.root, cp ++ sec, L⟩

def fullpathOf (segs : List Name) : List Name := segs ++ [indexName]

/-- The object trail after the `while` loop. -/
def trailOf (tr : Name → Name) (app : App) (segs : List Name) : Except Err (List Entry) :=
  let fp := fullpathOf segs
  match walk tr app fp fp.length
      { node := some app.g.root, iter := fp, trail := [rootEntry app fp.length] } with
  | .error e => .error e
  | .ok st => .ok st.trail

/-- `request.params` as left by the `_cp_dispatch` calls of the walk (update order; they reach the
    handler as keyword arguments through `LateParamPageHandler.kwargs`). -/
def paramsOf (tr : Name → Name) (app : App) (segs : List Name) : List (Name × Name) :=
  let fp := fullpathOf segs
  match walk tr app fp fp.length
      { node := some app.g.root, iter := fp, trail := [rootEntry app fp.length] } with
  | .error _ => []
  | .ok st => st.params

/-! ### the reverse scan -/

structure Found where
  handler : NodeId
  viaDefault : Bool
  /-- index `i` into the object trail -/
  idx : Nat
  segleft : Nat
  deriving DecidableEq, Repr, Inhabited

/-- `for i in range(num_candidates, -1, -1)`: the argument is the trail reversed, so the head is
    `object_trail[i]` with `i = tail.length`. -/
def scan (g : Graph) : List Entry → Option Found
  | [] => none
  | e :: before =>
    match e.node with
    | none => scan g before
    | some c =>
      let viaDef : Option NodeId :=
        match g.getattr (some c) defaultName with
        | some d => if g.exposed d then some d else none
        | none => none
      match viaDef with
      | some d => some ⟨d, true, before.length, e.segleft⟩
      | none =>
        if g.exposed c then some ⟨c, false, before.length, e.segleft⟩
        else scan g before

/-- `fullpath[fullpath_len - segleft:-1]` -/
def vpathOf (fp : List Name) (segleft : Nat) : List Name :=
  (fp.drop (fp.length - segleft)).dropLast

/-- `object_trail.insert(i + 1, ['default', defhandler, conf, segleft])` -/
def insertDefault (g : Graph) (trail : List Entry) (f : Found) : List Entry :=
  if f.viaDefault then
    trail.take (f.idx + 1) ++
      [⟨defaultName, some f.handler, ((g.nodeD f.handler).conf).getD [], f.segleft⟩] ++
      trail.drop (f.idx + 1)
  else trail

/-- Result of `find_handler`: `(handler or None, vpath)`, the final object trail (what `set_conf`
    folds over) and `request.is_index`. -/
structure FindResult where
  found : Option Found
  vpath : List Name
  trail : List Entry
  isIndex : Option Bool
  deriving Repr, Inhabited

def findHandlerWith (tr : Name → Name) (app : App) (path : List Char) : Except Err FindResult :=
  let segs := segments path
  let fp := fullpathOf segs
  match trailOf tr app segs with
  | .error e => .error e
  | .ok trail =>
    match scan app.g trail.reverse with
    | none => .ok ⟨none, [], trail, none⟩
    | some f =>
      let isIndex :=
        if f.viaDefault then path.getLast? = some '/'
        else decide (f.idx = trail.length - 1)
      .ok ⟨some f, vpathOf fp f.segleft, insertDefault app.g trail f, some isIndex⟩

def findHandler : App → List Char → Except Err FindResult := findHandlerWith translate

/-! ### `Dispatcher.__call__` -/

inductive Outcome where
  /-- `request.handler = LateParamPageHandler(func, *vpath)` -/
  | handler (h : NodeId) (args : List (List Char))
  /-- `request.handler = cherrypy.NotFound()` -/
  | notFound
  /-- `request.handler = cherrypy.HTTPError(405)` (method dispatcher only) -/
  | notAllowed
  /-- an exception left `find_handler` (→ 500) -/
  | error (e : Err)
  deriving DecidableEq, Repr, Inhabited

def dispatchWith (tr : Name → Name) (app : App) (path : List Char) : Outcome :=
  match findHandlerWith tr app path with
  | .error e => .error e
  | .ok r =>
    match r.found with
    | none => .notFound
    | some f =>
      -- `if func:`
      if (app.g.nodeD f.handler).truthy then .handler f.handler (r.vpath.map restore2F)
      else .notFound

def dispatch : App → List Char → Outcome := dispatchWith translate

/-! ### `MethodDispatcher.__call__` -/

/-- code-point lexicographic `≤` on `str` -/
def nameLe : List Char → List Char → Bool
  | [], _ => true
  | _ :: _, [] => false
  | a :: as, b :: bs => if a.toNat < b.toNat then true else if b.toNat < a.toNat then false else nameLe as bs

def insertName (x : Name) : List Name → List Name
  | [] => [x]
  | y :: ys => if nameLe x y then x :: y :: ys else y :: insertName x ys

/-- `avail.sort()` (structural insertion sort) -/
def sortNames : List Name → List Name
  | [] => []
  | x :: xs => insertName x (sortNames xs)

def getName : Name := "GET".toList
def headName : Name := "HEAD".toList

/-- The `Allow` header value as the list that gets `', '.join`ed. -/
def allowOf (g : Graph) (resource : NodeId) : List Name :=
  let avail := (g.nodeD resource).upper
  let avail := if avail.contains getName && !avail.contains headName then avail ++ [headName] else avail
  sortNames avail

structure MethodResult where
  outcome : Outcome
  /-- `response.headers['Allow']`, set iff a truthy resource was found -/
  allow : Option (List Name)
  /-- `_cp_config` of the verb method merged on top of `request.config` -/
  verbConf : Conf := []
  deriving Repr, Inhabited

/-- `meth` is `request.method.upper()`. -/
def methodDispatchWith (tr : Name → Name) (app : App) (path : List Char) (meth : Name) : MethodResult :=
  match findHandlerWith tr app path with
  | .error e => ⟨.error e, none, []⟩
  | .ok r =>
    match r.found with
    | none => ⟨.notFound, none, []⟩
    | some f =>
      let g := app.g
      if !(g.nodeD f.handler).truthy then ⟨.notFound, none, []⟩ else
      let allow := allowOf g f.handler
      let func := g.getattr (some f.handler) meth
      let func := match func with
        | none => if meth = headName then g.getattr (some f.handler) getName else none
        | some x => some x
      match func with
      | none => ⟨.notAllowed, some allow, []⟩
      | some fn =>
        if (g.nodeD fn).truthy then
          ⟨.handler fn (r.vpath.map restore2F), some allow, ((g.nodeD fn).conf).getD []⟩
        else ⟨.notAllowed, some allow, []⟩

def methodDispatch : App → List Char → Name → MethodResult := methodDispatchWith translate

end CpModel.Dispatch
