import CpModel.ParseTypes
/-!
  C07 — parse sites: which exception class each malformed input raises, and what the surrounding
  `try/except` / `HTTPError.handle` structure makes of it, up to `Request.respond`.

  Modelled (transcribed from the code as it is now, i.e. with the `fix:` commits):
  * the exception hierarchy (`parent`) and the handler clauses around every parse site (`handlers`),
    `Request.respond`'s rule "HTTPError → its status, any other Exception → 500", and the pipeline quirk
    that an HTTPError raised from a `before_finalize` hook is raised a second time while the first one is
    being rendered and therefore ends as 500 (`httpStatus`);
  * CherryPy's own parsers as total functions to `Except Raised α`: `httputil._get_ranges`,
    `parse_query_string` / `_parse_qs` (+ `urllib.parse.unquote_plus` strict UTF-8), `process_urlencoded`,
    multipart framing (`process_multipart`, `Part.read_headers`, `Part.read_lines_to_boundary`,
    `_old_process_multipart`'s decoding of every part), `filename*` in `Entity.__init__`,
    `AcceptElement.qvalue` (`float()` grammar), the `max-age` check in `caching.get`, the 411 rule.
  Not modelled: header tokenising (`header_elements`, `parse_header`), the stdlib parsers themselves
  (they enter through `contract`), SizedReader chunking (lines < 64 KiB assumed), nested multipart,
  parts with a Content-Type or filename.  Domain: code points ≤ U+00FF in header / query text.
-/
namespace CpModel.Parse

/-! ### exception hierarchy and catch map -/

/-- direct base class inside the universe (`HeaderParseError → MessageParseError → MessageError`) -/
def parent : Exc → Option Exc
  | .UnicodeDecodeError => some .UnicodeError
  | .UnicodeEncodeError => some .UnicodeError
  | .UnicodeError => some .ValueError
  | .BinasciiError => some .ValueError
  | .JSONDecodeError => some .ValueError
  | .KeyError => some .LookupError
  | .IndexError => some .LookupError
  | .UnboundLocalError => some .NameError
  | .RecursionError => some .RuntimeError
  | .HeaderParseError => some .MessageError
  | _ => none

def ancestorsFuel : Nat → Exc → List Exc
  | 0, _ => []
  | n + 1, e => match parent e with
    | none => []
    | some p => p :: ancestorsFuel n p

def ancestors (e : Exc) : List Exc := ancestorsFuel 4 e

/-- `isinstance(e(), base)` -/
def isSub (e base : Exc) : Bool := e == base || (ancestors e).contains base

/-- what an `except` clause does -/
inductive Action
  /-- `raise cherrypy.HTTPError(n)` (also `HTTPError.handle(.., n)`) -/
  | httpErr (n : Nat)
  /-- swallow and continue (`pass`, `return None`, try the next charset) -/
  | tolerate
  deriving DecidableEq, Repr

/-- the `except` clauses between the parse site and `Request.respond`, innermost first -/
def handlers : Site → List (Exc × Action)
  | .decodeHeader => [(.LookupError, .httpErr 400), (.ValueError, .httpErr 400), (.MessageError, .httpErr 400)]
  | .decodeTextCharset => [(.LookupError, .httpErr 400), (.ValueError, .httpErr 400), (.MessageError, .httpErr 400)]
  | .cookieLoad => [(.CookieError, .httpErr 400)]
  | .qsUnquote => [(.UnicodeDecodeError, .httpErr 404)]
  | .imageMapInt => [(.UnicodeDecodeError, .httpErr 404)]
  | .getRanges => [(.ValueError, .tolerate)]
  | .qvalueAccept => [(.ValueError, .httpErr 400)]
  | .qvalueGzip => [(.ValueError, .httpErr 400)]
  | .contentLengthInt => [(.ValueError, .tolerate)]
  | .urlencDecode => [(.LookupError, .tolerate), (.ValueError, .tolerate)]
  | .partDecode => [(.LookupError, .tolerate), (.ValueError, .tolerate)]
  | .partHeaders => [(.ValueError, .httpErr 400), (.EOFError, .httpErr 400)]
  | .partBody => [(.ValueError, .httpErr 400), (.EOFError, .httpErr 400)]
  | .filenameStar => [(.ValueError, .httpErr 400), (.LookupError, .httpErr 400)]
  | .jsonDecode => [(.ValueError, .httpErr 400), (.RecursionError, .httpErr 400)]
  | .basicB64 => [(.ValueError, .httpErr 400), (.BinasciiError, .httpErr 400)]
  | .digestKeqv => [(.ValueError, .httpErr 400), (.IndexError, .httpErr 400)]
  | .encodeCharset => [(.LookupError, .tolerate), (.ValueError, .tolerate)]
  | .proxyNetloc => []
  | .redirectNetloc => []
  | .rfileRead => [(.MaxSizeExceeded, .httpErr 413)]

/-- the hook point the site runs under -/
inductive Stage | early | beforeFinalize
  deriving DecidableEq, Repr

def stage : Site → Stage
  | .qvalueGzip => .beforeFinalize
  | _ => .early

/-- Status of an `HTTPError(c)` raised at the site.  `Request.respond` renders it (`set_response`) and then
    re-runs the `before_finalize` hooks; a hook that raised it raises it again, out of the `except` block,
    and `handle_error` answers 500. -/
def httpStatus (s : Site) (c : Nat) : Nat :=
  match stage s with
  | .early => c
  | .beforeFinalize => 500

def firstHandler (e : Exc) : List (Exc × Action) → Option Action
  | [] => none
  | (b, a) :: rest => if isSub e b then some a else firstHandler e rest

/-- Status of the response when class `e` is raised at site `s` (200 = request carries on normally). -/
def catchHand (s : Site) (e : Exc) : Nat :=
  if e = .HTTP400 then httpStatus s 400 else
  match firstHandler e (handlers s) with
  | none => 500
  | some (.httpErr n) => httpStatus s n
  | some .tolerate => 200

/-- Classes the callee at a site can raise on client data.  For CherryPy's own parsers this is proved
    from the parser model; for stdlib callees it is a CONTRACT, re-measured by fuzzing on every run. -/
def contract : Site → List Exc
  | .decodeHeader => [.HeaderParseError]
  | .decodeTextCharset => [.LookupError, .UnicodeDecodeError, .UnicodeError, .ValueError]
  | .cookieLoad => [.CookieError]
  | .qsUnquote => [.UnicodeDecodeError]
  | .imageMapInt => []
  | .getRanges => [.ValueError]
  | .qvalueAccept => [.ValueError]
  | .qvalueGzip => [.ValueError]
  | .contentLengthInt => [.ValueError]
  | .urlencDecode => [.LookupError, .UnicodeDecodeError, .UnicodeError, .ValueError]
  | .partDecode => [.LookupError, .UnicodeDecodeError, .UnicodeError, .ValueError]
  | .partHeaders => [.ValueError, .EOFError]
  | .partBody => [.EOFError]
  | .filenameStar => [.LookupError, .UnicodeDecodeError, .UnicodeError, .ValueError]
  | .jsonDecode => [.JSONDecodeError, .UnicodeDecodeError, .ValueError, .RecursionError]
  | .basicB64 => [.BinasciiError, .UnicodeEncodeError, .ValueError]
  | .digestKeqv => [.IndexError, .ValueError]
  | .encodeCharset => [.LookupError, .UnicodeEncodeError, .UnicodeError, .ValueError]
  | .proxyNetloc => [.ValueError]
  | .redirectNetloc => [.ValueError]
  | .rfileRead => [.ValueError, .OSError, .OverflowError, .MaxSizeExceeded]

/-- (site, class) pairs of the contracts that the unchanged tree answers with 5xx (findings). -/
def knownUncaught : List (Site × Exc) :=
  [(.qvalueGzip, .ValueError), (.proxyNetloc, .ValueError),
   (.redirectNetloc, .ValueError), (.rfileRead, .ValueError), (.rfileRead, .OSError), (.rfileRead, .OverflowError)]

/-- what a parser model raises: a Python exception, or `cherrypy.HTTPError(code)` directly -/
inductive Raised
  | py (e : Exc)
  | http (code : Nat)
  deriving DecidableEq, Repr

def statusOf {α : Type} (s : Site) : Except Raised α → Nat
  | .ok _ => 200
  | .error (.py e) => catchHand s e
  | .error (.http c) => httpStatus s c

/-! ### Python text primitives (code points ≤ U+00FF) -/

def isAsciiDigit (c : Char) : Bool := '0' ≤ c && c ≤ '9'

/-- `str.strip()` whitespace among code points ≤ U+00FF -/
def isStrSpace (c : Char) : Bool :=
  let n := c.toNat
  (9 ≤ n && n ≤ 13) || (28 ≤ n && n ≤ 32) || n == 0x85 || n == 0xA0

def stripStr (s : List Char) : List Char :=
  ((s.dropWhile isStrSpace).reverse.dropWhile isStrSpace).reverse

/-- `s.split(sep)` -/
def splitAll (sep : Char) : List Char → List (List Char)
  | [] => [[]]
  | c :: rest =>
    match splitAll sep rest with
    | [] => [[]]
    | cur :: more => if c = sep then [] :: cur :: more else (c :: cur) :: more

/-- `s.split(sep, 1)`: `none` when `sep` does not occur -/
def split1 (sep : Char) : List Char → Option (List Char × List Char)
  | [] => none
  | c :: rest =>
    if c = sep then some ([], rest) else
    match split1 sep rest with
    | none => none
    | some (a, b) => some (c :: a, b)

def digitsVal (s : List Char) : Nat := s.foldl (fun acc c => acc * 10 + (c.toNat - 48)) 0

def asciiLower (c : Char) : Char := if 'A' ≤ c ∧ c ≤ 'Z' then Char.ofNat (c.toNat + 32) else c

/-! ### `httputil._get_ranges` -/

/-- `_range_pos`: `isdigit()` then `int()`; `int()` also rejects the non-ASCII digits `isdigit` lets
    through and more than 4300 digits -/
def rangePos (v : List Char) : Except Raised Nat :=
  if v ≠ [] ∧ v.all isAsciiDigit ∧ v.length ≤ 4300 then .ok (digitsVal v) else .error (.py .ValueError)

/-- one byte-range-spec: `none` = "return None" (ignore the header), `some none` = skip this spec -/
def rangeSpec (spec : List Char) (len : Nat) : Except Raised (Option (Option (Nat × Nat))) :=
  match split1 '-' spec with
  | none => .error (.py .ValueError)              -- unpacking `start, stop = [..]`
  | some (a, b) =>
    let start := stripStr a
    let stop := stripStr b
    if start ≠ [] then
      match rangePos start with
      | .error r => .error r
      | .ok st =>
        if stop ≠ [] then
          match rangePos stop with
          | .error r => .error r
          | .ok sp =>
            if sp < st then .ok none                       -- invalid wherever the entity ends
            else if st ≥ len then .ok (some none)
            else .ok (some (some (st, min sp (len - 1) + 1)))
        else if st ≥ len then .ok (some none)
        else .ok (some (some (st, len)))
    else if stop = [] then .ok none
    else
      match rangePos stop with
      | .error r => .error r
      | .ok suffix =>
        if suffix = 0 ∨ len = 0 then .ok (some none)
        else if suffix > len then .ok (some (some (0, len)))
        else .ok (some (some (len - suffix, len)))

def rangeLoop (len : Nat) : List (List Char) → List (Nat × Nat) → Except Raised (Option (List (Nat × Nat)))
  | [], acc => .ok (some acc.reverse)
  | spec :: rest, acc =>
    match rangeSpec spec len with
    | .error r => .error r
    | .ok none => .ok none
    | .ok (some none) => rangeLoop len rest acc
    | .ok (some (some r)) => rangeLoop len rest (r :: acc)

/-- `_get_ranges(headervalue, content_length)` -/
def getRangesRaw (hv : List Char) (len : Nat) : Except Raised (Option (List (Nat × Nat))) :=
  match split1 '=' hv with
  | none => .error (.py .ValueError)              -- unpacking `bytesunit, byteranges = ..`
  | some (unit, ranges) =>
    if (stripStr unit).map asciiLower ≠ "bytes".toList then .ok none
    else rangeLoop len (splitAll ',' ranges) []

/-! ### UTF-8 validity (what `bytes.decode('utf-8', 'strict')` accepts) -/

def isCont (b : UInt8) : Bool := 0x80 ≤ b && b ≤ 0xBF

def validUtf8 : List UInt8 → Bool
  | [] => true
  | b0 :: rest =>
    if b0 < 0x80 then validUtf8 rest
    else if 0xC2 ≤ b0 && b0 ≤ 0xDF then
      match rest with
      | b1 :: r => isCont b1 && validUtf8 r
      | _ => false
    else if 0xE0 ≤ b0 && b0 ≤ 0xEF then
      match rest with
      | b1 :: b2 :: r =>
        isCont b1 && isCont b2
          && (b0 != 0xE0 || 0xA0 ≤ b1) && (b0 != 0xED || b1 ≤ 0x9F) && validUtf8 r
      | _ => false
    else if 0xF0 ≤ b0 && b0 ≤ 0xF4 then
      match rest with
      | b1 :: b2 :: b3 :: r =>
        isCont b1 && isCont b2 && isCont b3
          && (b0 != 0xF0 || 0x90 ≤ b1) && (b0 != 0xF4 || b1 ≤ 0x8F) && validUtf8 r
      | _ => false
    else false

/-! ### query string: `parse_query_string`, `_parse_qs`, `urllib.parse.unquote_plus(.., 'utf-8', 'strict')` -/

def hexVal? (n : Nat) : Option Nat :=
  if 48 ≤ n ∧ n ≤ 57 then some (n - 48)
  else if 65 ≤ n ∧ n ≤ 70 then some (n - 55)
  else if 97 ≤ n ∧ n ≤ 102 then some (n - 87)
  else none

/-- `unquote_to_bytes` on byte values: `%XX` with two hex digits becomes one byte, anything else stays -/
def pctDecode : List Nat → List UInt8
  | [] => []
  | [c] => [UInt8.ofNat c]
  | [c, a] => [UInt8.ofNat c, UInt8.ofNat a]
  | c :: a :: b :: r =>
    if c = 37 then
      match hexVal? a, hexVal? b with
      | some x, some y => UInt8.ofNat (x * 16 + y) :: pctDecode r
      | _, _ => 37 :: pctDecode (a :: b :: r)
    else UInt8.ofNat c :: pctDecode (a :: b :: r)

/-- maximal runs of ASCII characters (`_asciire`); the non-ASCII characters between them pass through -/
def asciiRuns : List Char → List (List Nat)
  | [] => [[]]
  | c :: rest =>
    match asciiRuns rest with
    | [] => [[]]
    | cur :: more => if c.toNat < 128 then (c.toNat :: cur) :: more else [] :: cur :: more

/-- does `unquote_plus(s, 'utf-8', errors='strict')` succeed? -/
def unquoteOk (s : List Char) : Bool :=
  !(s.contains '%') || (asciiRuns s).all fun run => validUtf8 (pctDecode run)

def isImageMap (qs : List Char) : Bool :=
  match split1 ',' qs with
  | none => false
  | some (a, b) =>
    a ≠ [] && a.length ≤ 18 && a.all isAsciiDigit && b ≠ [] && b.length ≤ 18 && b.all isAsciiDigit

def pairOk (nv : List Char) : Bool :=
  nv = [] ||
  match split1 '=' nv with
  | none => unquoteOk nv
  | some (k, v) => unquoteOk k && unquoteOk v

/-- `parse_query_string(qs)` as far as raising goes -/
def parseQuery (qs : List Char) : Except Raised Unit :=
  if isImageMap qs then .ok ()
  else if ((splitAll '&' qs).flatMap (splitAll ';')).all pairOk then .ok ()
  else .error (.py .UnicodeDecodeError)

/-! ### url-encoded body: `process_urlencoded` -/

inductive Codec | utf8 | latin1 | ascii | unknown | undefined
  deriving DecidableEq, Repr

/-- does `bytes.decode(codec)` succeed (`unknown` → LookupError, `undefined` → UnicodeError always) -/
def decodes (c : Codec) (b : List UInt8) : Bool :=
  match c with
  | .utf8 => validUtf8 b
  | .latin1 => true
  | .ascii => b.all (· < 0x80)
  | .unknown => false
  | .undefined => false

def splitBytes (sep : UInt8) : List UInt8 → List (List UInt8)
  | [] => [[]]
  | c :: rest =>
    match splitBytes sep rest with
    | [] => [[]]
    | cur :: more => if c = sep then [] :: cur :: more else (c :: cur) :: more

def split1Bytes (sep : UInt8) : List UInt8 → Option (List UInt8 × List UInt8)
  | [] => none
  | c :: rest =>
    if c = sep then some ([], rest) else
    match split1Bytes sep rest with
    | none => none
    | some (a, b) => some (c :: a, b)

/-- white space `int(bytes, 16)` strips -/
def isIntSpace (b : Nat) : Bool := (9 ≤ b && b ≤ 13) || b == 32

/-- `bytes([int(item[:2], 16)])` for the (at most two) bytes after a `%`: the byte value, or `none` when `int()` or
    `bytes()` raises `ValueError`.  `int(.., 16)` also takes one hex digit alone, next to one white-space byte, or
    after a sign (a negative value is then refused by `bytes()`). -/
def hexPair? : List Nat → Option Nat
  | [a, b] =>
    match hexVal? a, hexVal? b with
    | some x, some y => some (x * 16 + y)
    | some x, none => if isIntSpace b then some x else none
    | none, some y =>
      if isIntSpace a || a == 43 then some y
      else if a == 45 then (if y == 0 then some 0 else none)
      else none
    | none, none => none
  | [a] => hexVal? a
  | _ => none

/-- one atom after a `%`: the decoded byte and the rest, or - when the two characters are not a number - the atom
    as it is (the `%` itself is dropped by the `b''.join`) -/
def unquoteAtom (item : List Nat) : List Nat :=
  match hexPair? (item.take 2) with
  | some v => v :: item.drop 2
  | none => item

def splitNat (sep : Nat) : List Nat → List (List Nat)
  | [] => [[]]
  | c :: rest =>
    match splitNat sep rest with
    | [] => [[]]
    | cur :: more => if c = sep then [] :: cur :: more else (c :: cur) :: more

/-- `_cpreqbody.unquote_plus` (bytes): `+` → space, split at `%`, every atom but the first through `unquoteAtom` -/
def unquotePlusBytes (b : List UInt8) : List UInt8 :=
  match splitNat 37 ((b.map fun x => if x = 43 then 32 else x).map UInt8.toNat) with
  | [] => []
  | first :: rest => ((first :: rest.map unquoteAtom).flatten).map UInt8.ofNat

def atomsOf (body : List UInt8) : List (List UInt8) :=
  ((splitBytes 38 body).flatMap (splitBytes 59)).filter (· ≠ []) |>.flatMap fun pair =>
    match split1Bytes 61 pair with
    | none => [unquotePlusBytes pair, []]
    | some (k, v) => [unquotePlusBytes k, unquotePlusBytes v]

/-- `attempt_charsets` of the request entity: declared charset first, then the class default `utf-8` -/
def attemptCharsets : Option Codec → List Codec
  | none => [.utf8]
  | some .utf8 => [.utf8]
  | some d => [d, .utf8]

def tryCharsets (atoms : List (List UInt8)) : List Codec → Except Raised Unit
  | [] => .error (.http 400)
  | c :: rest => if atoms.all (decodes c) then .ok () else tryCharsets atoms rest

def processUrlencoded (body : List UInt8) (declared : Option Codec) : Except Raised Unit :=
  tryCharsets (atomsOf body) (attemptCharsets declared)

/-! ### multipart framing: `process_multipart`, `Part.read_headers`, `Part.read_lines_to_boundary` -/

def isBytesSpace (b : UInt8) : Bool := (9 ≤ b && b ≤ 13) || b == 32

def stripBytes (s : List UInt8) : List UInt8 :=
  ((s.dropWhile isBytesSpace).reverse.dropWhile isBytesSpace).reverse

/-- split into lines, each keeping its `\n` (what successive `readline()` calls return) -/
def splitLines : List UInt8 → List (List UInt8)
  | [] => []
  | c :: rest =>
    if c = 10 then [c] :: splitLines rest
    else match splitLines rest with
      | [] => [[c]]
      | cur :: more => (c :: cur) :: more

/-- `re.match('^[ -~]{0,200}[!-~]$', ib)` -/
def boundaryOk (ib : List Char) : Bool :=
  ib ≠ [] && ib.length ≤ 201 && ib.all (fun c => 32 ≤ c.toNat && c.toNat ≤ 126)
    && (match ib.getLast? with | some c => 33 ≤ c.toNat | none => false)

def endsCRLF (l : List UInt8) : Bool :=
  match l.reverse with
  | 10 :: 13 :: _ => true
  | _ => false

def endsLF (l : List UInt8) : Bool :=
  match l.reverse with
  | 10 :: _ => true
  | _ => false

/-- `Part.read_headers`: returns the remaining lines and whether the reader hit the end -/
def readHeaders : List (List UInt8) → Bool → Except Raised (List (List UInt8))
  | [], _ => .error (.py .EOFError)
  | line :: rest, haveKey =>
    if line = [13, 10] then .ok rest
    else if !endsCRLF line then .error (.py .ValueError)
    else match line with
      | [] => .error (.py .EOFError)
      | b0 :: _ =>
        if b0 = 32 ∨ b0 = 9 then
          (if haveKey then readHeaders rest true else .error (.py .ValueError))
        else if line.contains 58 then readHeaders rest true
        else .error (.py .ValueError)

/-- outcome of reading one part body -/
structure BodyRes where
  rest : List (List UInt8)
  content : List UInt8
  final : Bool        -- end marker seen (`fp.finish()`)
  sawUnterminated : Bool   -- the reader returned a last line without `\n` (it then knows it is at the end)

/-- `Part.read_lines_to_boundary` -/
def readBody (bnd : List UInt8) : List (List UInt8) → List UInt8 → Bool → Except Raised BodyRes
  | [], _, _ => .error (.py .EOFError)
  | line :: rest, acc, prevLf =>
    let unterminated := !endsLF line
    if prevLf && line.take 2 = [45, 45] && stripBytes line = bnd then
      .ok ⟨rest, acc, false, unterminated⟩
    else if prevLf && line.take 2 = [45, 45] && stripBytes line = bnd ++ [45, 45] then
      .ok ⟨rest, acc, true, unterminated⟩
    else readBody bnd rest (acc ++ line) (endsLF line)

/-- the part loop of `process_multipart`.  `part.fp.done` after a part is true when the end marker was seen
    (`finish()`), when the boundary line just read had no `\n` (the reader ran into the end looking for it), or
    when the client sent fewer bytes than declared (`short`) and that boundary line was the last thing that
    arrived: `read()` flags the end as soon as the socket is drained, and since 6b8bd05 `readline` clears the
    flag again whenever it pushes unread bytes back. -/
def partsLoop (bnd : List UInt8) : Nat → List (List UInt8) → Bool → List (List UInt8) →
    Except Raised (List (List UInt8))
  | 0, _, _, acc => .ok acc
  | fuel + 1, lines, short, acc =>
    match readHeaders lines false with
    | .error r => .error r
    | .ok afterH =>
      match readBody bnd afterH [] true with
      | .error r => .error r
      | .ok res =>
        if res.final || res.sawUnterminated || (short && res.rest.isEmpty) then .ok (res.content :: acc)
        else partsLoop bnd fuel res.rest short (res.content :: acc)

def findFirstMarker (bnd : List UInt8) : List (List UInt8) → Option (List (List UInt8))
  | [] => none
  | line :: rest => if stripBytes line = bnd then some rest else findFirstMarker bnd rest

/-- `process_multipart` + `_old_process_multipart` (every part is decoded with us-ascii, then utf-8) on a
    `multipart/mixed` request entity; `ib` = boundary parameter after `strip('"')`; `short` = the
    client sent fewer bytes than it declared (declared Content-Length larger than the body). -/
def processMultipart (ib : List Char) (body : List UInt8) (short : Bool) : Except Raised Unit :=
  if !boundaryOk ib then .error (.http 400) else
  let bnd : List UInt8 := [45, 45] ++ ib.map (fun c => UInt8.ofNat c.toNat)
  let lines := splitLines body
  match findFirstMarker bnd lines with
  | none => .ok ()
  | some rest =>
    -- `HTTPError.handle((ValueError, EOFError), 400)` around the part loop
    match partsLoop bnd (lines.length + 1) rest short [] with
    | .error (.py .ValueError) => .error (.http 400)
    | .error (.py .EOFError) => .error (.http 400)
    | .error r => .error r
    | .ok contents =>
      if contents.all validUtf8 then .ok () else .error (.http 400)

/-! ### `filename*` in `Entity.__init__` -/

/-- `charset'lang'value`; `known` = Python has a text codec of that name -/
def filenameStar (v : List Char) (known : Bool) : Except Raised Unit :=
  match splitAll '\'' v with
  | [_, _, fname] =>
    if !(fname.contains '%') then .ok ()          -- `unquote` returns early, the codec is never looked up
    else if known then .ok ()                      -- errors='replace'
    else .error (.http 400)                        -- LookupError → 400
  | _ => .error (.http 400)                        -- ValueError (unpacking) → 400

/-! ### `AcceptElement.qvalue`: Python's `float(str)` grammar -/

def isFloatSpace (c : Char) : Bool :=
  let n := c.toNat
  (9 ≤ n && n ≤ 13) || n == 32 || n == 0x85 || n == 0xA0

/-- `digit (["_"] digit)*` consumed from the front; `none` when it does not start with a digit -/
def digitPart : List Char → Option (List Char)
  | [] => none
  | c :: rest =>
    if isAsciiDigit c then
      some (go rest)
    else none
where
  go : List Char → List Char
    | [] => []
    | c :: rest =>
      if isAsciiDigit c then go rest
      else if c = '_' then
        match rest with
        | d :: rest' => if isAsciiDigit d then go rest' else c :: rest
        | [] => c :: rest
      else c :: rest

def exponentOk (s : List Char) : Bool :=
  match s with
  | [] => true
  | e :: rest =>
    if e = 'e' ∨ e = 'E' then
      let rest := match rest with
        | sgn :: r => if sgn = '+' ∨ sgn = '-' then r else rest
        | [] => rest
      match digitPart rest with
      | some [] => true
      | _ => false
    else false

def floatBodyOk (s : List Char) : Bool :=
  let low := s.map asciiLower
  if low = "inf".toList ∨ low = "infinity".toList ∨ low = "nan".toList then true else
  match digitPart s with
  | some rest =>
    (match rest with
     | '.' :: r =>
       (match digitPart r with
        | some r' => exponentOk r'
        | none => exponentOk r)
     | _ => exponentOk rest)
  | none =>
    match s with
    | '.' :: r =>
      (match digitPart r with
       | some r' => exponentOk r'
       | none => false)
    | _ => false

def stripFloat (s : List Char) : List Char :=
  ((s.dropWhile isFloatSpace).reverse.dropWhile isFloatSpace).reverse

def pyFloatOk (s : List Char) : Bool :=
  -- a non-ASCII string is first mapped to ASCII ('?' for anything that is neither space nor decimal)
  let t := stripFloat s
  let t := match t with
    | c :: r => if c = '+' ∨ c = '-' then r else t
    | [] => t
  floatBodyOk t

/-- `AcceptElement.qvalue` for the raw `q` parameter text -/
def qvalue (v : List Char) : Except Raised Unit :=
  if pyFloatOk v then .ok () else .error (.http 400)

/-! ### `Cache-Control: max-age` check in `caching.get` (one header element value) -/

def maxAge (v : List Char) : Except Raised Unit :=
  match split1 '=' v with
  | none => if v = "max-age".toList then .error (.http 400) else .ok ()
  | some (d, a) =>
    if d = "max-age".toList then
      (if a ≠ [] ∧ a.length ≤ 18 ∧ a.all isAsciiDigit then .ok () else .error (.http 400))
    else .ok ()

/-! ### `RequestBody.process`: 411 -/

def bodyFraming (processBody hasContentLength hasTransferEncoding : Bool) : Except Raised Unit :=
  if processBody && !hasContentLength && !hasTransferEncoding then .error (.http 411) else .ok ()

end CpModel.Parse
