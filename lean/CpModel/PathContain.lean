import CpModel.Gen.C11Tables
/-
  C11 — model of the path handling in `cherrypy/lib/static.py` (`staticdir`, `_attempt`,
  `serve_file`) and `cherrypy/lib/sessions.py` (`FileSession._get_file_path` and its callers).

  Part 1: POSIX *lexical* path algebra on `List Char`, transcribed from CPython 3.12
  `posixpath.py`: `isabs`, `join` (two operands), `splitroot`, `normpath` (the pure-Python
  algorithm; the C accelerator `_path_normpath` computes the same function, which the
  correspondence run checks on random strings), `abspath` relative to an explicit cwd,
  `str.split('/')`, `lstrip`/`rstrip`, `startswith`.
  Part 2: `urllib.parse.unquote` (percent-decoding of the ASCII runs + UTF-8 decoding with
  errors='replace').  The theorems treat it as an arbitrary function; this executable version
  is only used by the driver and is validated against the library on every run.
  Part 3: `staticdir` decision + access list against an abstract `stat` result (the code as
  repaired for F32: the normalised, tested name goes to the OS; `staticdirPreF32` /
  `getFilePathPreF32` keep the earlier behaviour for the refutations).
  Part 4: `FileSession` path derivation, the five methods using it, `clean_up`, and the
  per-request flow of the session tool (`init` → lock → handler action → `save`).
  Part 5: physical resolution of a path in a symlink-free tree (what the OS does with the
  un-normalised string the code hands to `stat`/`open`).

  NOT modelled: `os.path.expanduser` (dirs starting with `~`), the Windows branches,
  symlinks, `validate_since` (conditional requests can stop `serve_file` between `stat` and
  `open`), content-type guessing, ranges, errors of `open` itself, the regular expression
  engine behind `match` (its verdict is an input), the cookie parser (the cookie *value* is
  the input), pickling, lock time-outs.
-/
namespace CpModel.PathContain

abbrev Str := List Char

/-! ### Part 1: strings and posixpath -/

def dot : Str := ['.']
def dotdot : Str := ['.', '.']

/-- `s.startswith('/')` = `posixpath.isabs`. -/
def isAbs : Str → Bool
  | c :: _ => c == '/'
  | [] => false

/-- `s.startswith(pre)` -/
def startsWith (s pre : Str) : Bool := pre.isPrefixOf s

/-- `s.endswith('/')` -/
def endsSlash (s : Str) : Bool := s.getLast? == some '/'

/-- `posixpath.join(a, b)`. -/
def join (a b : Str) : Str :=
  if isAbs b then b
  else if a = [] ∨ endsSlash a = true then a ++ b
  else a ++ '/' :: b

/-- `s.split('/')` (never empty). -/
def splitSlash : Str → List Str
  | [] => [[]]
  | c :: cs =>
    if c = '/' then [] :: splitSlash cs
    else match splitSlash cs with
      | [] => [[c]]
      | x :: xs => (c :: x) :: xs

/-- `'/'.join(comps)` -/
def joinSlash : List Str → Str
  | [] => []
  | [c] => c
  | c :: d :: cs => c ++ '/' :: joinSlash (d :: cs)

/-- The non-empty components of a path string: `[c for c in p.split('/') if c]`. -/
def components (p : Str) : List Str := (splitSlash p).filter (fun c => c ≠ [])

/-- `s.rstrip('/')` -/
def rstripSlash (s : Str) : Str := (s.reverse.dropWhile (· == '/')).reverse

def isSlashish (c : Char) : Bool := c == '/' || c == '\\'

/-- `s.rstrip(r'\/')` -/
def rstripSlashish (s : Str) : Str := (s.reverse.dropWhile isSlashish).reverse

/-- `s.lstrip(r'\/')` -/
def lstripSlashish (s : Str) : Str := s.dropWhile isSlashish

/-- `posixpath.splitroot` without the (always empty) drive: (root, tail). -/
def splitroot : Str → Str × Str
  | [] => ([], [])
  | c1 :: r1 =>
    if c1 = '/' then
      match r1 with
      | [] => (['/'], [])
      | c2 :: r2 =>
        if c2 = '/' then
          match r2 with
          | [] => (['/', '/'], [])
          | c3 :: _ => if c3 = '/' then (['/'], r1) else (['/', '/'], r2)
        else (['/'], r1)
    else ([], c1 :: r1)

/-- One iteration of the `for comp in comps` loop of `normpath`.  `st` is `new_comps`
    REVERSED (head = last element); `abs` is `bool(initial_slashes)`. -/
def normStep (abs : Bool) (st : List Str) (comp : Str) : List Str :=
  if comp = [] ∨ comp = dot then st
  else if comp ≠ dotdot then comp :: st
  else match st with
    | [] => if abs then [] else [dotdot]
    | t :: rest => if t = dotdot then dotdot :: t :: rest else rest

/-- `new_comps` (reversed) after the loop. -/
def normStack (abs : Bool) (comps : List Str) : List Str := comps.foldl (normStep abs) []

/-- `posixpath.normpath`. -/
def normpath (p : Str) : Str :=
  if p = [] then dot
  else
    let rt := splitroot p
    let comps := (normStack (rt.1 ≠ []) (splitSlash rt.2)).reverse
    let s := rt.1 ++ joinSlash comps
    if s = [] then dot else s

/-- `posixpath.abspath` with `os.getcwd()` made explicit. -/
def abspath (cwd p : Str) : Str :=
  normpath (if isAbs p then p else join cwd p)

/-! ### Part 2: urllib.parse.unquote -/

def hexVal? (c : Char) : Option Nat :=
  if '0' ≤ c ∧ c ≤ '9' then some (c.toNat - '0'.toNat)
  else if 'a' ≤ c ∧ c ≤ 'f' then some (c.toNat - 'a'.toNat + 10)
  else if 'A' ≤ c ∧ c ≤ 'F' then some (c.toNat - 'A'.toNat + 10)
  else none

/-- A byte of an ASCII run (after percent-decoding) or a non-ASCII character kept as is. -/
inductive Item where
  | byte (b : Nat)
  | raw (c : Char)
  deriving Repr, DecidableEq

/-- `unquote_to_bytes` over the ASCII runs: `%XX` → byte, a `%` not followed by two hex digits
    stays, non-ASCII characters are left alone (they separate the runs). -/
def pctAux : Nat → Str → List Item
  | _, [] => []
  | skip + 1, _ :: rest => pctAux skip rest
  | 0, c :: rest =>
    if c = '%' then
      match rest with
      | h1 :: h2 :: _ =>
        match hexVal? h1, hexVal? h2 with
        | some a, some b => .byte (a * 16 + b) :: pctAux 2 rest
        | _, _ => .byte 37 :: pctAux 0 rest
      | _ => .byte 37 :: pctAux 0 rest
    else if c.toNat < 128 then .byte c.toNat :: pctAux 0 rest
    else .raw c :: pctAux 0 rest

def pctItems (s : Str) : List Item := pctAux 0 s

/-- Decoder state: idle, or inside a multi-byte sequence (`need` continuation bytes to go,
    accumulated value, allowed range of the next byte). -/
structure Pending where
  need : Nat
  acc : Nat
  lo : Nat
  hi : Nat

def replacement : Char := Char.ofNat 0xFFFD

/-- Start of a sequence: returns emitted chars and the new state. -/
def utf8Start (b : Nat) : Str × Option Pending :=
  if b < 0x80 then ([Char.ofNat b], none)
  else if 0xC2 ≤ b ∧ b ≤ 0xDF then ([], some ⟨1, b % 32, 0x80, 0xBF⟩)
  else if b = 0xE0 then ([], some ⟨2, b % 16, 0xA0, 0xBF⟩)
  else if b = 0xED then ([], some ⟨2, b % 16, 0x80, 0x9F⟩)
  else if 0xE1 ≤ b ∧ b ≤ 0xEF then ([], some ⟨2, b % 16, 0x80, 0xBF⟩)
  else if b = 0xF0 then ([], some ⟨3, b % 8, 0x90, 0xBF⟩)
  else if b = 0xF4 then ([], some ⟨3, b % 8, 0x80, 0x8F⟩)
  else if 0xF1 ≤ b ∧ b ≤ 0xF3 then ([], some ⟨3, b % 8, 0x80, 0xBF⟩)
  else ([replacement], none)

/-- `bytes.decode('utf-8', 'replace')` per ASCII run (maximal-subpart replacement). -/
def decodeItems : Option Pending → List Item → Str
  | none, [] => []
  | some _, [] => [replacement]
  | none, .raw c :: rest => c :: decodeItems none rest
  | some _, .raw c :: rest => replacement :: c :: decodeItems none rest
  | none, .byte b :: rest =>
    let r := utf8Start b
    r.1 ++ decodeItems r.2 rest
  | some p, .byte b :: rest =>
    if p.lo ≤ b ∧ b ≤ p.hi then
      let acc := p.acc * 64 + b % 64
      if p.need ≤ 1 then Char.ofNat acc :: decodeItems none rest
      else decodeItems (some ⟨p.need - 1, acc, 0x80, 0xBF⟩) rest
    else
      let r := utf8Start b
      replacement :: (r.1 ++ decodeItems r.2 rest)

/-- `urllib.parse.unquote(s)` (encoding utf-8, errors replace). -/
def unquote (s : Str) : Str := decodeItems none (pctItems s)

/-! ### Part 3: static.staticdir / _attempt / serve_file -/

/-- What `os.stat(path)` tells `serve_file`: failure (OSError/ValueError), a directory, or
    something it will open. -/
inductive Kind where
  | missing | dir | file
  deriving Repr, DecidableEq

inductive Op where
  | stat | openR | openW | unlink | lock | listdir
  deriving Repr, DecidableEq

structure Access where
  op : Op
  path : Str
  deriving Repr, DecidableEq

inductive Attempt where
  | valueError                      -- serve_file: path not absolute
  | notFound (acc : List Access)    -- cherrypy.NotFound caught by _attempt → False
  | served (acc : List Access)      -- True

/-- `_attempt(filename, content_types)` → `serve_file(filename)`. -/
def attempt (fs : Str → Kind) (filename : Str) : Attempt :=
  if isAbs filename = false then .valueError
  else match fs filename with
    | .missing => .notFound [⟨.stat, filename⟩]
    | .dir => .notFound [⟨.stat, filename⟩]
    | .file => .served [⟨.stat, filename⟩, ⟨.openR, filename⟩]

inductive Outcome where
  | passThrough                 -- returned False before looking at the path (method, match)
  | valueError                  -- ValueError (relative dir without root / relative filename)
  | forbidden                   -- HTTPError(403)
  | served (p : Str)            -- returned True, body is the open file `p`
  | notHandled                  -- returned False after the attempt(s)
  deriving Repr, DecidableEq

structure Result where
  outcome : Outcome
  accesses : List Access
  deriving Repr, DecidableEq

structure StaticIn where
  method : Str
  matchOk : Bool      -- `not match or re.search(match, request.path_info)`
  sect : Str          -- the `section` argument
  dir : Str
  root : Str
  index : Str
  pathInfo : Str

def strGET : Str := ['G', 'E', 'T']
def strHEAD : Str := ['H', 'E', 'A', 'D']
def strGlobal : Str := ['g', 'l', 'o', 'b', 'a', 'l']

/-- `dir` made absolute with `root` (none = the ValueError branch). -/
def staticDir (i : StaticIn) : Option Str :=
  if isAbs i.dir then some i.dir
  else if i.root = [] then none
  else some (join i.root i.dir)

/-- `branch` as joined onto dir. -/
def staticBranch (unq : Str → Str) (i : StaticIn) : Str :=
  let s := if i.sect = strGlobal then ['/'] else i.sect
  let s := rstripSlashish s
  let branch := i.pathInfo.drop (s.length + 1)
  unq (lstripSlashish branch)

/-- The repaired containment test of `staticdir` (True = allowed). -/
def containedCheck (normdir normfile : Str) : Bool :=
  normfile == normdir || startsWith normfile (rstripSlash normdir ++ ['/'])

/-- The part of `staticdir` after the containment test: `_attempt(filename)`, then the index
    fallback `_attempt(join(filename, index))`. -/
def serveChecked (fs : Str → Kind) (filename index : Str) : Result :=
  match attempt fs filename with
  | .valueError => ⟨.valueError, []⟩
  | .served acc => ⟨.served filename, acc⟩
  | .notFound acc =>
    if index = [] then ⟨.notHandled, acc⟩
    else match attempt fs (join filename index) with
      | .valueError => ⟨.valueError, acc⟩
      | .served acc2 => ⟨.served (join filename index), acc ++ acc2⟩
      | .notFound acc2 => ⟨.notHandled, acc ++ acc2⟩

/-- What `staticdir` hands to `_attempt` since the F32 repair: the NORMALISED name it has just
    tested (`target = normfile`), with the trailing separator of the raw name kept
    (`if filename.endswith(os.sep) and not target.endswith(os.sep): target += os.sep`). -/
def staticTarget (filename : Str) : Str :=
  if endsSlash filename = true ∧ endsSlash (normpath filename) = false then normpath filename ++ ['/']
  else normpath filename

/-- `staticdir(section, dir, root, match, content_types, index)`. -/
def staticdir (unq : Str → Str) (fs : Str → Kind) (i : StaticIn) : Result :=
  if i.method ≠ strGET ∧ i.method ≠ strHEAD then ⟨.passThrough, []⟩
  else if i.matchOk = false then ⟨.passThrough, []⟩
  else match staticDir i with
    | none => ⟨.valueError, []⟩
    | some dir =>
      let filename := join dir (staticBranch unq i)
      if containedCheck (normpath dir) (normpath filename) = false then ⟨.forbidden, []⟩
      else serveChecked fs (staticTarget filename) i.index

/-- `staticdir` before the F32 repair (the un-normalised `filename` went to `_attempt`), kept to
    show what a regression to it would break. -/
def staticdirPreF32 (unq : Str → Str) (fs : Str → Kind) (i : StaticIn) : Result :=
  if i.method ≠ strGET ∧ i.method ≠ strHEAD then ⟨.passThrough, []⟩
  else if i.matchOk = false then ⟨.passThrough, []⟩
  else match staticDir i with
    | none => ⟨.valueError, []⟩
    | some dir =>
      let filename := join dir (staticBranch unq i)
      if containedCheck (normpath dir) (normpath filename) = false then ⟨.forbidden, []⟩
      else serveChecked fs filename i.index

/-- The pre-repair test (`normfile.startswith(normdir)`), kept to show what a regression to
    it would break. -/
def containedCheckStrPrefix (normdir normfile : Str) : Bool := startsWith normfile normdir

/-! ### Part 4: sessions.FileSession -/

-- `sessionPrefix` (SESSION_PREFIX) and `lockSuffix` (LOCK_SUFFIX) come from CpModel/Gen/C11Tables.lean,
-- regenerated from the live `FileSession` class on every run.

/-- `FileSession.__init__` / `setup`: `storage_path = os.path.abspath(storage_path)`. -/
def sessionRoot (cwd storage : Str) : Str := abspath cwd storage

/-- `os.path.join(self.storage_path, self.SESSION_PREFIX + self.id)` -/
def sessionFileRaw (sp id : Str) : Str := join sp (sessionPrefix ++ id)

/-- `f = os.path.abspath(os.path.join(self.storage_path, self.SESSION_PREFIX + self.id))`: since the
    F32b repair the normalised name is the one that is tested AND returned. -/
def sessionFile (cwd sp id : Str) : Str := abspath cwd (sessionFileRaw sp id)

/-- The repaired test of `_get_file_path` (True = allowed). -/
def sessionCheck (cwd sp id : Str) : Bool :=
  startsWith (sessionFile cwd sp id) (join sp [])

/-- The pre-F11 test (`abspath(f).startswith(storage_path)`). -/
def sessionCheckStrPrefix (cwd sp id : Str) : Bool :=
  startsWith (abspath cwd (sessionFileRaw sp id)) sp

/-- `_get_file_path`: `none` = `HTTPError(400, 'Invalid session id in cookie.')`. -/
def getFilePath (cwd sp id : Str) : Option Str :=
  if sessionCheck cwd sp id then some (sessionFile cwd sp id) else none

/-- `_exists`: `canonical = os.path.join(os.path.abspath(self.storage_path), SESSION_PREFIX + id)` -
    the spelling of the file name an id issued by this server has.  Another spelling that merely
    normalises to the file of a live session (`<id>/`, `x/../session-<id>`) is an alias made up by the
    client (a78b01e). -/
def sessionCanonical (cwd sp id : Str) : Str := sessionFileRaw (abspath cwd sp) id

/-- `_get_file_path` before the F32b repair: same test, but the UN-normalised name was returned. -/
def getFilePathPreF32 (cwd sp id : Str) : Option Str :=
  if sessionCheck cwd sp id then some (sessionFileRaw sp id) else none

/-- `s.endswith(suf)` -/
def endsWith (s suf : Str) : Bool := suf.reverse.isPrefixOf s.reverse

inductive SessOp where
  | exists_ | load | save | delete | acquireLock
  deriving Repr, DecidableEq

/-- What one of the five methods does with the path (`none` = HTTPError 400, nothing touched:
    `_get_file_path` comes first in every method).  `_exists` answers False WITHOUT looking
    (`path == canonical and not path.endswith(LOCK_SUFFIX) and os.path.exists(path)`) for a
    non-canonical spelling and for names ending in LOCK_SUFFIX (never session data). -/
def sessOp (op : SessOp) (cwd sp id : Str) : Option (List Access) :=
  match getFilePath cwd sp id with
  | none => none
  | some f =>
    some (match op with
      | .exists_ =>
        if (f != sessionCanonical cwd sp id || endsWith f lockSuffix) = true then [] else [⟨.stat, f⟩]
      | .load => [⟨.openR, f⟩]
      | .save => [⟨.openW, f⟩]
      | .delete => [⟨.unlink, f⟩]
      | .acquireLock => [⟨.lock, f ++ lockSuffix⟩])

/-- `sessOp` before the F32b repair. -/
def sessOpPreF32 (op : SessOp) (cwd sp id : Str) : Option (List Access) :=
  match getFilePathPreF32 cwd sp id with
  | none => none
  | some f =>
    some (match op with
      | .exists_ => if endsWith f lockSuffix then [] else [⟨.stat, f⟩]
      | .load => [⟨.openR, f⟩]
      | .save => [⟨.openW, f⟩]
      | .delete => [⟨.unlink, f⟩]
      | .acquireLock => [⟨.lock, f ++ lockSuffix⟩])

/-- State of a session file as `clean_up` sees it. -/
inductive Stored where
  | unreadable | fresh | expired
  deriving Repr, DecidableEq

/-- `clean_up`: `listdir(storage_path)`, and per session file lock / load / maybe unlink. -/
def cleanUp (sp : Str) (listing : List (Str × Stored)) : List Access :=
  ⟨.listdir, sp⟩ :: listing.flatMap fun (fname, stt) =>
    if startsWith fname sessionPrefix ∧ endsWith fname lockSuffix = false then
      let path := join sp fname
      [⟨.lock, path ++ lockSuffix⟩, ⟨.openR, path⟩] ++
        (if stt = .expired then [⟨.unlink, path⟩] else [])
    else []

/-- What the page handler does with `cherrypy.session`. -/
inductive Action where
  | none | read | write | delete | regenerate
  deriving Repr, DecidableEq

/-- Accesses of one request once the session has a definite id: implicit lock before the
    handler, the handler's action, `save` (writes iff the data were loaded).  `gen2` is the
    id produced by `generate_id` if the handler regenerates. -/
def afterInit (cwd sp id gen2 : Str) (a : Action) : Option (List Access) := do
  let lock ← sessOp .acquireLock cwd sp id
  match a with
  | .none => pure lock
  | .read | .write =>
    let l ← sessOp .load cwd sp id
    let s ← sessOp .save cwd sp id
    pure (lock ++ l ++ s)
  | .delete =>
    let d ← sessOp .delete cwd sp id
    pure (lock ++ d)
  | .regenerate =>
    let d ← sessOp .delete cwd sp id
    let e ← sessOp .exists_ cwd sp gen2
    let k ← sessOp .acquireLock cwd sp gen2
    pure (lock ++ d ++ e ++ k)

/-- One request through `sessions.init` + the session tool.  `cookie` = the value of the
    session cookie (if any), `present` = what `os.path.exists` answers for its file,
    `gen1`/`gen2` = the ids `generate_id` returns (assumed unused).  `none` = the request
    ends with HTTPError 400 raised by `_get_file_path`. -/
def sessionRequest (cwd storage : Str) (cookie : Option Str) (present : Bool)
    (gen1 gen2 : Str) (a : Action) : Option (List Access) :=
  let sp := sessionRoot cwd storage
  match cookie with
  | none => do
    let e ← sessOp .exists_ cwd sp gen1
    let r ← afterInit cwd sp gen1 gen2 a
    pure (e ++ r)
  | some id => do
    let e ← sessOp .exists_ cwd sp id
    -- `_exists` answers False for a non-canonical spelling and for a name ending in LOCK_SUFFIX
    -- without looking: such a cookie value is never adopted as the session's id
    if present && (sessionFile cwd sp id == sessionCanonical cwd sp id) &&
        !endsWith (sessionFile cwd sp id) lockSuffix then
      let r ← afterInit cwd sp id gen2 a
      pure (e ++ r)
    else
      let e1 ← sessOp .exists_ cwd sp gen1
      let r ← afterInit cwd sp gen1 gen2 a
      pure (e ++ e1 ++ r)

/-! ### Part 5: what the OS does with an un-normalised path in a symlink-free tree -/

/-- A tree: the directories and the regular files, each as its list of components from `/`
    (the root directory `[]` always exists). -/
structure Tree where
  dirs : List (List Str)
  files : List (List Str)

inductive Resolved where
  | enoent (at_ : List Str)     -- lookup failed; `at_` = the deepest path the kernel looked up
  | dir (p : List Str)
  | file (p : List Str)
  deriving Repr, DecidableEq

/-- Walk the components (`cur` = current directory, components from `/`, REVERSED). -/
def resolveFrom (t : Tree) : List Str → List Str → Resolved
  | cur, [] => .dir cur.reverse
  | cur, c :: rest =>
    if c = [] ∨ c = dot then resolveFrom t cur rest
    else if c = dotdot then resolveFrom t cur.tail rest
    else
      let nxt := c :: cur
      if t.dirs.contains nxt.reverse then resolveFrom t nxt rest
      else if t.files.contains nxt.reverse ∧ rest = [] then .file nxt.reverse
      else .enoent nxt.reverse

/-- `stat(p)` for an absolute `p`. -/
def resolve (t : Tree) (p : Str) : Resolved := resolveFrom t [] (splitSlash p)

end CpModel.PathContain
