import CpModel.Cache
/-
  Header layer of the caching tool (property C15): how the strings on the wire become the element
  lists `CpModel.Cache.Req.cc / pragma`, `Plan.vary`, … that the cache model works with.

  Transcribed from `cherrypy.lib.httputil` / `cherrypy._private_api.compat.headers`:

    header_elements(name, value)   value falsy ⇒ []; split at RE_HEADER_SPLIT
                                   `,(?=(?:[^"]*"[^"]*")*[^"]*$)` = every comma followed by an EVEN
                                   number of `"` up to the end of the string; each piece through
                                   HeaderElement.from_str = parse_header(piece)[0]; sorted by value,
                                   reversed (the cache model sorts: `sortDesc`).
    parse_header(line)[0]          first item of `_parse_param(';' + line)`: the text up to the first
                                   `;` that is at position 0 or has an even (`"` minus `\"`) count
                                   before it, `.strip()`ped.
    str.strip()                    Python's whitespace set (the latin-1 part is a generated table).
    HeaderMap key folding          `str.title()` (ASCII letters modelled; other cased letters are a
                                   parameter: header names are ASCII tokens).
    cptools.validate_since         on a cache hit, with `response.status` still unset (= 200).
    caching.expires                which of Pragma / Cache-Control / Expires it sets.

  `parseReq` / `parsePlan` turn raw header strings into the `Req` / `Plan` of the cache model; every
  theorem of `CpProofs.C15` holds for all `Req` / `Plan`, hence for all raw histories.
-/
namespace CpModel.CacheHdr
open CpModel.Cache

/-! ### Python string primitives -/

/-- `str.isspace()` for one latin-1 character (table generated from the live interpreter) -/
def isSpace (c : Char) : Bool := Gen.C15.pyWhitespace.contains c.toNat

def lstrip : Str → Str
  | [] => []
  | c :: cs => if isSpace c then lstrip cs else c :: cs

def rstrip (s : Str) : Str := (lstrip s.reverse).reverse

/-- `s.strip()` -/
def strip (s : Str) : Str := rstrip (lstrip s)

/-! ### RE_HEADER_SPLIT and parse_header -/

def countQ (s : Str) : Nat := s.countP (· = '"')

def splitHdrAux : Str → Str → List Str
  | [], cur => [cur.reverse]
  | c :: cs, cur =>
    if c = ',' ∧ countQ cs % 2 = 0 then cur.reverse :: splitHdrAux cs [] else splitHdrAux cs (c :: cur)

/-- `RE_HEADER_SPLIT.split(s)` -/
def splitHdr (s : Str) : List Str := splitHdrAux s []

/-- the text before the first `;` that `_parse_param` accepts as the end of the first item:
    `pos` = index in the line, `q` / `esc` = number of `"` / of `\"` so far, `pb` = previous char is `\` -/
def firstPartAux : Str → Nat → Nat → Nat → Bool → Str → Str
  | [], _, _, _, _, acc => acc.reverse
  | c :: cs, pos, q, esc, pb, acc =>
    if c = ';' ∧ (pos = 0 ∨ (q - esc) % 2 = 0) then acc.reverse
    else firstPartAux cs (pos + 1) (if c = '"' then q + 1 else q) (if c = '"' ∧ pb then esc + 1 else esc)
      (c = '\\') (c :: acc)

/-- `parse_header(line)[0]` = `HeaderElement.from_str(line).value` -/
def elemValue (line : Str) : Str := strip (firstPartAux line 0 0 0 false [])

/-- `[e.value for e in header_elements(name, value)]` up to the order (the cache model sorts) -/
def values (v : Str) : List Str := if v = [] then [] else (splitHdr v).map elemValue

/-! ### from the wire to the cache model -/

def sPragma : Str := "Pragma".toList
def sCacheControl : Str := "Cache-Control".toList
def sIMS : Str := "If-Modified-Since".toList
def sIUS : Str := "If-Unmodified-Since".toList

/-- a request as the HeaderMap holds it: header names already folded (`title`) by `process_headers` -/
structure RawReq where
  method : Str
  uri : Str
  hdrs : List (Str × Str)
  deriving Repr, DecidableEq

/-- what the page handler answers if it is reached: raw response header values ([] = header absent) -/
structure RawPlan where
  vary : Str
  cacheControl : Str
  pragma : Str
  lastMod : Str
  size : Nat
  stream : Bool := false
  bodyOk : Bool := true
  drained : Bool := true
  etag : Bool := false            -- the handler sets an ETag header
  expiresHdr : Bool := false      -- the handler sets an Expires header
  deriving Repr, DecidableEq

/-- `Request.process_headers`: the name is folded (`title`), the value `.strip()`ped (values with an RFC 2047
    encoded word, `=?`, are decoded there too: not modelled, the generator sends none) -/
def intake (wire : List (Str × Str)) : List (Str × Str) := wire.map fun p => (title p.1, strip p.2)

def hdr (rr : RawReq) (name : Str) : Str := (aget rr.hdrs name).getD []

def parseReq (rr : RawReq) : Req :=
  { method := rr.method, uri := rr.uri, hdrs := rr.hdrs,
    pragma := values (hdr rr sPragma), cc := values (hdr rr sCacheControl),
    ims := hdr rr sIMS, ius := hdr rr sIUS }

def parsePlan (rp : RawPlan) : Plan :=
  { vary := values rp.vary, size := rp.size,
    noStore := decide (sNoStore ∈ values rp.cacheControl),
    pragmaNoCache := decide (sNoCache ∈ values rp.pragma),
    stream := rp.stream, bodyOk := rp.bodyOk, drained := rp.drained, lastMod := rp.lastMod }

/-! ### caching.expires -/

/-- which of the indicator / prevention headers the response already carries -/
structure HdrPresence where
  etag : Bool
  lastModified : Bool
  age : Bool
  expires : Bool
  pragma : Bool
  cacheControl : Bool
  deriving Repr, DecidableEq

inductive ExpiryDate where
  | past                          -- `HTTPDate(1169942400.0)`
  | at (secs : Int)               -- `HTTPDate(response.time + secs)`
  deriving Repr, DecidableEq

/-- what `expires(secs, force)` writes: Pragma: no-cache?, Cache-Control: no-cache, must-revalidate?,
    Expires? -/
structure ExpiresEffect where
  setPragma : Bool
  setCacheControl : Bool
  setExpires : Option ExpiryDate
  deriving Repr, DecidableEq

def expiresTool (secs : Int) (force : Bool) (http11 : Bool) (h : HdrPresence) : ExpiresEffect :=
  let cacheable := !force && (h.etag || h.lastModified || h.age || h.expires)
  if !cacheable && !force then ⟨false, false, none⟩
  else
    let zero := secs == 0
    { setPragma := zero && (force || !h.pragma)
      setCacheControl := zero && http11 && (force || !h.cacheControl)
      setExpires := if force || !h.expires then some (if zero then .past else .at secs) else none }

/-- which headers the handler's response carries when the before_finalize hooks run -/
def presenceOf (rp : RawPlan) : HdrPresence :=
  ⟨rp.etag, decide (rp.lastMod ≠ []), false, rp.expiresHdr, decide (rp.pragma ≠ []), decide (rp.cacheControl ≠ [])⟩

/-- the tool's effect on the response headers the cache looks at -/
def applyExpires (e : ExpiresEffect) (rp : RawPlan) : RawPlan :=
  { rp with pragma := if e.setPragma then "no-cache".toList else rp.pragma
            cacheControl := if e.setCacheControl then "no-cache, must-revalidate".toList else rp.cacheControl }

/-- `tools.expires` configuration of an application: off, or (secs, force); the request's protocol -/
structure ExpCfg where
  secs : Int
  force : Bool
  http11 : Bool
  deriving Repr

/-- the response the tee sees: the handler's headers after the expires tool (if it is on) -/
def afterTools (x : Option ExpCfg) (rp : RawPlan) : RawPlan :=
  match x with
  | none => rp
  | some c => applyExpires (expiresTool c.secs c.force c.http11 (presenceOf rp)) rp

end CpModel.CacheHdr
