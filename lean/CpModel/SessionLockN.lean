/-
  C13 (a') — interleaving model of the lock-table backends of `cherrypy.lib.sessions`
  (`RamSession`, and `MemcachedSession` as far as its lock protocol goes) for SEVERAL session ids,
  ANY number of request threads, ANY number of concurrent `clean_up` sweepers, handler scripts
  (`regenerate()`, `delete()`, `clear()` inside the locked region) and a logical clock.

  One model step = one operation on a shared object (the class-level dicts `cache` / `locks`, a lock
  object, the clock) plus the thread-local code up to the next one.  Every single dict / RLock
  operation is atomic (GIL).  Ids, data-dict objects and lock objects are natural numbers; `ckeys` /
  `lkeys` keep the INSERTION ORDER of the two dicts (a language guarantee of `dict`), which is the
  order in which `clean_up` walks its snapshots.

    request thread i  (what the session tool's hooks make a request do)
      init     Session.__init__   `self.id in self.cache`     absent -> `self.id = generate_id()`
      gex      _regenerate        `self.id in self.cache` (a fresh id never is) -> the request goes on
                                  with a private id and leaves the race: `gone`
      setdef   acquire_lock       `self.locks.setdefault(self.id, threading.RLock())`
      acq      acquire_lock       `lock.acquire()`   (blocking = disabled step; re-entrant)
      chk      acquire_lock       `self.locks.get(self.id) is lock`        (`ReqV.recheck` only)
      rel0     acquire_lock       `lock.release()`, retry from setdef      (`ReqV.recheck` only)
      -- the page handler: a script of `Op`s, then Session.save
      load     Session.load       `self.cache.get(self.id)`
      loadNow  Session.load       `data[1] < self.now()` : expired / absent -> a fresh `{}`; otherwise
                                  RamSession ALIASES the stored dict (`alias`), memcached gets a copy
      write    handler            `session['n'] = n + 1`      (the read of `n` is thread-local: it is
                                  part of the step that precedes `write`)
      clr      Session.clear      `self._data.clear()`
      del      Session.delete     `self.cache.pop(self.id, None)`; `_data = {}`; `loaded = False`
      rdel     _regenerate        `self.cache.pop(self.id, None)`
      rlookup  _regenerate        release_lock: `self.locks[self.id]`      (KeyError -> `crashed`)
      rrel     _regenerate        `.release()`; then `self.id = generate_id()`
      rex      _regenerate        `self.id in self.cache` (a fresh id never is)  -> setdef … chk
      saveNow  Session.save       `self.now() + timeout`      (only when `loaded`)
      save     Session.save       `self.cache[self.id] = (self._data, exp)`
      lookup   release_lock       `self.locks[self.id]`       (KeyError -> `crashed`)
      rel      release_lock       `.release()`                (not the owner: RuntimeError -> `crashed`)

    sweeper k  (`RamSession.clean_up`, started again and again)
      now      `now = self.now()`
      copy     `self.cache.copy()`  -> loop 1 over the entries with `exp <= now`
      del      `del self.cache[_id]`            (KeyError ignored)
      get      `SwV.orig`: `self.locks[_id]`    (loop 1: KeyError ignored; loop 2: propagates)
               `SwV.recheck`: `self.locks.get(_id)`   (absent: nothing to do)
      try_     `.acquire(blocking=False)`
      vfy      `SwV.recheck` only: `self.locks.get(_id) is lock`  (else release and go on)
      pop      `SwV.orig`: `lock = self.locks.pop(_id)` — WHATEVER object the table holds now; a KeyError
               is swallowed in loop 1 (the acquired object stays owned) and propagates in loop 2
               `SwV.recheck`: `del self.locks[_id]`
      rel      `lock.release()`                 (not the owner: RuntimeError -> `crashed`)
      list     `list(self.locks)`  -> loop 2
      chk      `_id not in self.cache`

    tick d     the clock advances by d units (session timeout = `timeout` units)

  `ReqV.orig` = `setdefault(...).acquire()` without re-check (RamSession before 8584df8, and
  `MemcachedSession.acquire_lock` to this day — which has no sweeper); `SwV.orig` = `clean_up` that
  pops whatever the table holds after a successful non-blocking acquire (safe with ONE sweeper only:
  finding F21); `SwV.recheck` = `clean_up` that verifies, while holding the lock object, that the
  table still maps the id to that very object.

  Ghost state: `version x` counts the writes to the data of id `x`, `seen` the version a thread's
  read was based on, `lost` that a write was based on an overtaken read; `sweeps` counts the
  `clean_up` invocations of a sweeper.
-/
namespace CpModel.SessionLockN

inductive ReqV | orig | recheck
  deriving DecidableEq, Repr

inductive SwV | orig | recheck
  deriving DecidableEq, Repr

structure Cfg where
  rv : ReqV := .recheck
  sv : SwV := .recheck
  alias : Bool := true
  deriving DecidableEq, Repr

inductive Actor
  | req (i : Nat)
  | sweep (k : Nat)
  | tick (d : Nat)
  deriving DecidableEq, Repr

structure LockObj where
  owner : Option Actor := none
  count : Nat := 0
  deriving DecidableEq, Repr

/-- what the page handler does inside the locked region -/
inductive Op | rmw | delete | clear | regen
  deriving DecidableEq, Repr

inductive Pc
  | init | gex | setdef | acq | chk | rel0
  | load | loadNow | write | clr | del
  | rdel | rlookup | rrel | rex
  | saveNow | save | lookup | rel
  | done | gone | crashed
  deriving DecidableEq, Repr

structure Thr where
  pc     : Pc := .init
  prog   : List Op := []
  sid    : Nat := 0          -- `self.id`
  my     : Nat := 0          -- lock object returned by setdefault
  r      : Nat := 0          -- lock object looked up by release_lock
  d      : Nat := 0          -- `self._data`
  tmp    : Nat := 0          -- counter value read by the handler
  texp   : Nat := 0
  seen   : Nat := 0          -- ghost
  raw    : Option (Nat × Nat) := none    -- what `cache.get` returned
  loaded : Bool := false
  deriving DecidableEq, Repr

inductive SPc | now | copy | del | get | try_ | vfy | pop | rel | list | chk | crashed
  deriving DecidableEq, Repr

structure Sweeper where
  pc     : SPc := .now
  second : Bool := false
  cur    : Nat := 0
  todo1  : List (Nat × Nat) := []     -- rest of the cache snapshot: (id, expiration time)
  todo2  : List Nat := []             -- rest of `list(self.locks)`
  lk     : Nat := 0
  snow   : Nat := 0
  sweeps : Nat := 0                   -- ghost
  deriving DecidableEq, Repr

def timeout : Nat := 2

structure St where
  cache   : Nat → Option (Nat × Nat)     -- `cache[id]` = (data dict object, expiration time)
  ckeys   : List Nat                     -- keys of `cache` in insertion order
  dicts   : Nat → Nat                    -- counter stored in each data dict object
  nextD   : Nat
  table   : Nat → Option Nat             -- `locks[id]`
  lkeys   : List Nat                     -- keys of `locks` in insertion order
  heap    : Nat → LockObj
  next    : Nat                          -- next fresh lock object
  nextId  : Nat                          -- next fresh session id (`generate_id`)
  appear  : List Nat                     -- ghost: ids in the order in which they first showed up in a table
  thr     : Nat → Thr
  sw      : Nat → Sweeper
  now     : Nat
  version : Nat → Nat
  lost    : Bool

/-- Initial state: ids `0 .. ids.length-1`, each with an optional cache entry `(counter, exp)` and
    optionally a (free) lock object in the table; request thread `i` presents id `(thrs[i]).1` and
    its handler runs the script `(thrs[i]).2`. -/
def lockIndex : List (Option (Nat × Nat) × Bool) → Nat → Nat
  | [], _ => 0
  | _, 0 => 0
  | (_, b) :: rest, x + 1 => (if b then 1 else 0) + lockIndex rest x

def init (ids : List (Option (Nat × Nat) × Bool)) (thrs : List (Nat × List Op)) (now : Nat := 0) : St where
  cache := fun x => match ids[x]? with | some (some (_, e), _) => some (x, e) | _ => none
  ckeys := (List.range ids.length).filter fun x => match ids[x]? with | some (some _, _) => true | _ => false
  dicts := fun x => match ids[x]? with | some (some (v, _), _) => v | _ => 0
  nextD := ids.length
  table := fun x => match ids[x]? with | some (_, true) => some (lockIndex ids x) | _ => none
  lkeys := (List.range ids.length).filter fun x => match ids[x]? with | some (_, true) => true | _ => false
  heap := fun _ => {}
  next := lockIndex ids ids.length
  nextId := ids.length
  appear := List.range ids.length
  thr := fun i => match thrs[i]? with | some (x, p) => { sid := x, prog := p } | none => {}
  sw := fun _ => {}
  now := now
  version := fun _ => 0
  lost := false

def setThr (s : St) (i : Nat) (t : Thr) : St :=
  { s with thr := fun j => if j = i then t else s.thr j }

def setLock (s : St) (l : Nat) (o : LockObj) : St :=
  { s with heap := fun k => if k = l then o else s.heap k }

def setSw (s : St) (k : Nat) (w : Sweeper) : St :=
  { s with sw := fun j => if j = k then w else s.sw j }

def noteId (l : List Nat) (x : Nat) : List Nat := if l.contains x then l else l ++ [x]

def setCache (s : St) (x : Nat) (v : Option (Nat × Nat)) : St :=
  { s with cache := fun y => if y = x then v else s.cache y,
           appear := match v with | none => s.appear | some _ => noteId s.appear x,
           ckeys := match v with
             | none => s.ckeys.erase x
             | some _ => if (s.cache x).isSome then s.ckeys else s.ckeys ++ [x] }

def setTable (s : St) (x : Nat) (v : Option Nat) : St :=
  { s with table := fun y => if y = x then v else s.table y,
           appear := match v with | none => s.appear | some _ => noteId s.appear x,
           lkeys := match v with
             | none => s.lkeys.erase x
             | some _ => if (s.table x).isSome then s.lkeys else s.lkeys ++ [x] }

/-- a new data dict object holding counter `v` -/
def allocDict (s : St) (v : Nat) : St :=
  { s with nextD := s.nextD + 1, dicts := fun k => if k = s.nextD then v else s.dicts k }

def setDict (s : St) (d v : Nat) : St :=
  { s with dicts := fun k => if k = d then v else s.dicts k }

/-- `generate_id()` -/
def allocId (s : St) : St := { s with nextId := s.nextId + 1 }

def setLost (s : St) (b : Bool) : St := { s with lost := b }

def bump (s : St) (x : Nat) : St :=
  { s with version := fun y => if y = x then s.version x + 1 else s.version y }

/-- `RLock.acquire` by actor `a`: `none` when it cannot be taken now. -/
def tryAcquire (s : St) (l : Nat) (a : Actor) : Option St :=
  let o := s.heap l
  if o.owner = none then some (setLock s l ⟨some a, 1⟩)
  else if o.owner = some a then some (setLock s l ⟨some a, o.count + 1⟩)
  else none

/-- `RLock.release` by actor `a`: `none` = RuntimeError (not the owner). -/
def release (s : St) (l : Nat) (a : Actor) : Option St :=
  let o := s.heap l
  if o.owner = some a then
    some (setLock s l (if o.count ≤ 1 then ⟨none, 0⟩ else ⟨some a, o.count - 1⟩))
  else none

/-- program points at which a request thread owns the lock object `my` -/
def holds (p : Pc) : Bool :=
  match p with
  | .chk | .rel0 | .load | .loadNow | .write | .clr | .del | .rdel | .rlookup | .rrel
  | .saveNow | .save | .lookup | .rel => true
  | _ => false

/-- program points between lock acquisition (re-check passed) and release: the critical section -/
def inCS (p : Pc) : Bool :=
  match p with
  | .load | .loadNow | .write | .clr | .del | .rdel | .rlookup | .rrel
  | .saveNow | .save | .lookup | .rel => true
  | _ => false

/-- Thread-local continuation once the lock is held / a handler operation is finished: dispatch on
    the rest of the handler script; at its end `Session.save`.  The handler's read of the counter
    (`session.get('n')` on loaded data) is thread-local and happens here. -/
def next (s : St) (t : Thr) : Thr :=
  match t.prog with
  | [] => if t.loaded then { t with pc := .saveNow } else { t with pc := .lookup }
  | .rmw :: rest =>
    if t.loaded then { t with prog := rest, pc := .write, tmp := s.dicts t.d, seen := s.version t.sid }
    else { t with pc := .load }
  | .clear :: rest => if t.loaded then { t with prog := rest, pc := .clr } else { t with pc := .load }
  | .delete :: rest => { t with prog := rest, pc := .del }
  | .regen :: rest => { t with prog := rest, pc := .rdel }

def stepReq (c : Cfg) (s : St) (i : Nat) : St :=
  let t := s.thr i
  match t.pc with
  | .init =>
    if (s.cache t.sid).isSome then setThr s i { t with pc := .setdef }
    else setThr (allocId s) i { t with pc := .gex, sid := s.nextId }
  | .gex =>
    if (s.cache t.sid).isSome then setThr (allocId s) i { t with sid := s.nextId }
    else setThr s i { t with pc := .gone }
  | .setdef =>
    match s.table t.sid with
    | some l => setThr s i { t with pc := .acq, my := l }
    | none => setThr { setTable s t.sid (some s.next) with next := s.next + 1 } i
                { t with pc := .acq, my := s.next }
  | .acq =>
    match tryAcquire s t.my (.req i) with
    | some s' => setThr s' i (match c.rv with | .orig => next s' t | .recheck => { t with pc := .chk })
    | none => s            -- blocked: the step is not enabled
  | .chk => setThr s i (if s.table t.sid = some t.my then next s t else { t with pc := .rel0 })
  | .rel0 =>
    match release s t.my (.req i) with
    | some s' => setThr s' i { t with pc := .setdef }
    | none => setThr s i { t with pc := .crashed }
  | .load => setThr s i { t with pc := .loadNow, raw := s.cache t.sid }
  | .loadNow =>
    match t.raw with
    | some (d, exp) =>
      if exp < s.now then
        setThr (allocDict s 0) i (next (allocDict s 0) { t with d := s.nextD, loaded := true })
      else if c.alias then setThr s i (next s { t with d := d, loaded := true })
      else
        setThr (allocDict s (s.dicts d)) i (next (allocDict s (s.dicts d)) { t with d := s.nextD, loaded := true })
    | none => setThr (allocDict s 0) i (next (allocDict s 0) { t with d := s.nextD, loaded := true })
  | .write =>
    let s1 := setLost (setDict (bump s t.sid) t.d (t.tmp + 1)) (s.lost || (t.seen != s.version t.sid))
    setThr s1 i (next s1 t)
  | .clr =>
    let s1 := setDict (bump s t.sid) t.d 0
    setThr s1 i (next s1 t)
  | .del =>
    let s1 := allocDict (setCache s t.sid none) 0
    setThr s1 i (next s1 { t with d := s.nextD, loaded := false })
  | .rdel => setThr (setCache s t.sid none) i { t with pc := .rlookup }
  | .rlookup =>
    match s.table t.sid with
    | some l => setThr s i { t with pc := .rrel, r := l }
    | none => setThr s i { t with pc := .crashed }
  | .rrel =>
    match release s t.r (.req i) with
    | some s' => setThr (allocId s') i { t with pc := .rex, sid := s.nextId }
    | none => setThr s i { t with pc := .crashed }
  | .rex =>
    if (s.cache t.sid).isSome then setThr (allocId s) i { t with sid := s.nextId }
    else setThr s i { t with pc := .setdef }
  | .saveNow => setThr s i { t with pc := .save, texp := s.now + timeout }
  | .save => setThr (setCache s t.sid (some (t.d, t.texp))) i { t with pc := .lookup }
  | .lookup =>
    match s.table t.sid with
    | some l => setThr s i { t with pc := .rel, r := l }
    | none => setThr s i { t with pc := .crashed }
  | .rel =>
    match release s t.r (.req i) with
    | some s' => setThr s' i { t with pc := .done }
    | none => setThr s i { t with pc := .crashed }
  | .done | .gone | .crashed => s

/-- loop 1: the next snapshot entry that is expired (`expiration_time <= now`), else loop 2 -/
def adv1 (w : Sweeper) : List (Nat × Nat) → Sweeper
  | [] => { w with pc := .list, todo1 := [] }
  | (x, e) :: rest => if e ≤ w.snow then { w with pc := .del, cur := x, todo1 := rest } else adv1 w rest

/-- loop 2: the next id of `list(self.locks)`, else the sweep is over -/
def adv2 (w : Sweeper) : Sweeper :=
  match w.todo2 with
  | [] => { w with pc := .now, second := false, cur := 0, lk := 0, todo1 := [], todo2 := [] }
  | x :: rest => { w with pc := .chk, cur := x, todo2 := rest }

/-- go on with the next id of the current loop -/
def adv (w : Sweeper) : Sweeper := if w.second then adv2 w else adv1 w w.todo1

def stepSweep (c : Cfg) (s : St) (k : Nat) : St :=
  let w := s.sw k
  match w.pc with
  | .now => setSw s k { w with pc := .copy, second := false, snow := s.now, sweeps := w.sweeps + 1 }
  | .copy =>
    setSw s k (adv1 w (s.ckeys.filterMap fun x => (s.cache x).map fun (_, e) => (x, e)))
  | .del => setSw (setCache s w.cur none) k { w with pc := .get }
  | .get =>
    match s.table w.cur with
    | some l => setSw s k { w with pc := .try_, lk := l }
    | none =>
      match c.sv with
      | .orig => setSw s k (if w.second then { w with pc := .crashed } else adv w)
      | .recheck => setSw s k (adv w)
  | .try_ =>
    match tryAcquire s w.lk (.sweep k) with
    | some s' => setSw s' k { w with pc := match c.sv with | .orig => .pop | .recheck => .vfy }
    | none => setSw s k (adv w)
  | .vfy => setSw s k { w with pc := if s.table w.cur = some w.lk then .pop else .rel }
  | .pop =>
    match s.table w.cur with
    | some l =>
      setSw (setTable s w.cur none) k
        { w with pc := .rel, lk := match c.sv with | .orig => l | .recheck => w.lk }
    | none =>
      match c.sv with
      | .orig => setSw s k (if w.second then { w with pc := .crashed } else adv w)
      | .recheck => setSw s k { w with pc := .crashed }
  | .rel =>
    match release s w.lk (.sweep k) with
    | some s' => setSw s' k (adv w)
    | none => setSw s k { w with pc := .crashed }
  | .list => setSw s k (adv2 { w with second := true, todo2 := s.lkeys })
  | .chk => setSw s k (if (s.cache w.cur).isSome then adv w else { w with pc := .get })
  | .crashed => s

def step (c : Cfg) (s : St) (a : Actor) : St :=
  match a with
  | .req i => stepReq c s i
  | .sweep k => stepSweep c s k
  | .tick d => { s with now := s.now + d }

def run (c : Cfg) (s : St) : List Actor → St
  | [] => s
  | a :: rest => run c (step c s a) rest

/-- Is the step of actor `a` enabled (not a stutter)? -/
def enabled (s : St) (a : Actor) : Bool :=
  match a with
  | .req i =>
    let t := s.thr i
    match t.pc with
    | .acq => (tryAcquire s t.my (.req i)).isSome
    | .done | .gone | .crashed => false
    | _ => true
  | .sweep k => (s.sw k).pc != .crashed
  | .tick _ => true

/-- the id the next step of actor `a` operates on (`none`: the clock, or whole-table snapshots) -/
def target (s : St) (a : Actor) : Option Nat :=
  match a with
  | .req i => some (s.thr i).sid
  | .sweep k =>
    match (s.sw k).pc with
    | .now | .copy | .list | .crashed => none
    | _ => some (s.sw k).cur
  | .tick _ => none

/-! ### observation (what the property talks about), final observation, duplicate key

    All three are flat lists of naturals so that the driver compares them without building strings. -/

def actorCode : Option Actor → Nat
  | none => 0
  | some (.req i) => 1 + i
  | some (.sweep k) => 1001 + k
  | some (.tick _) => 999

def pcCode : Pc → Nat
  | .init => 0 | .gex => 21 | .setdef => 1 | .acq => 2 | .chk => 3 | .rel0 => 4 | .load => 5 | .loadNow => 6
  | .write => 7 | .clr => 8 | .del => 9 | .rdel => 10 | .rlookup => 11 | .rrel => 12 | .rex => 13
  | .saveNow => 14 | .save => 15 | .lookup => 16 | .rel => 17 | .done => 18 | .gone => 19 | .crashed => 20

def spcCode : SPc → Nat
  | .now => 0 | .copy => 1 | .del => 2 | .get => 3 | .try_ => 4 | .vfy => 5 | .pop => 6 | .rel => 7
  | .list => 8 | .chk => 9 | .crashed => 10

def opCode : Op → Nat
  | .rmw => 0 | .delete => 1 | .clear => 2 | .regen => 3

/-- status of a request thread as the harness can see it without looking into the code:
    0 running / blocked, 1 done, 2 gone (left with a private id), 3 crashed -/
def statusCode : Pc → Nat
  | .done => 1 | .gone => 2 | .crashed => 3 | _ => 0

/-- The observable shared state after a turn:
    number of rows; one row per id that has a cache entry or a lock-table entry: its name (`obsRows`), the cache entry
    (0 | 1, counter, expiry), the lock-table entry (0 | lock object + 1); number of lock objects; per
    lock object owner and count; lost flag; per request thread its status; per sweeper crashed flag
    and number of sweeps started.  (An id that `generate_id` has produced but that is in neither table
    yet is not observable.) -/
def obsRowsFrom (s : St) : Nat → List Nat → List (List Nat)
  | _, [] => []
  | idx, x :: rest =>
    (if (s.cache x).isSome || (s.table x).isSome then
      [[idx] ++ (match s.cache x with | some (d, e) => [1, s.dicts d, e] | none => [0]) ++
            [match s.table x with | some l => l + 1 | none => 0]]
     else []) ++ obsRowsFrom s (idx + 1) rest

/-- one row per id that currently has a cache entry or a lock-table entry; an id is named by the
    position at which it first showed up in a table (not by what `generate_id` returned, nor by when) -/
def obsRows (s : St) : List (List Nat) := obsRowsFrom s 0 s.appear

def obs (n nsw : Nat) (s : St) : List Nat :=
  let rows := obsRows s
  [rows.length] ++ rows.flatten ++
  [s.next] ++
  (List.range s.next).flatMap (fun l => [actorCode (s.heap l).owner, (s.heap l).count]) ++
  [if s.lost then 1 else 0] ++
  (List.range n).map (fun i => statusCode (s.thr i).pc) ++
  (List.range nsw).flatMap (fun k => [if (s.sw k).pc = .crashed then 1 else 0, (s.sw k).sweeps])

/-- final observation: which request threads are blocked for ever (unfinished and not enabled) -/
def fin (n : Nat) (s : St) : List Nat :=
  (List.range n).map fun i => if statusCode (s.thr i).pc = 0 && !enabled s (.req i) then 1 else 0

/-- everything the future behaviour depends on (for the removal of duplicates only) -/
def key (n nsw : Nat) (s : St) : List Nat :=
  obs n nsw s ++ [s.nextId, s.nextD, s.now, s.appear.length] ++ s.appear ++ [s.ckeys.length] ++ s.ckeys ++ [s.lkeys.length] ++ s.lkeys ++
  (List.range s.nextD).map s.dicts ++ (List.range s.nextId).map s.version ++
  (List.range s.nextId).flatMap (fun x => match s.cache x with | some (d, _) => [d] | none => [0]) ++
  (List.range n).flatMap (fun i =>
    let t := s.thr i
    if statusCode t.pc != 0 then [pcCode t.pc] else
    [pcCode t.pc, t.prog.length] ++ t.prog.map opCode ++
    [t.sid, t.my, t.r, t.d, t.tmp, t.texp, t.seen, if t.loaded then 1 else 0] ++
    (match t.raw with | some (d, e) => [1, d, e] | none => [0])) ++
  (List.range nsw).flatMap (fun k =>
    let w := s.sw k
    if w.pc = .now || w.pc = .crashed then [spcCode w.pc] else
    [spcCode w.pc, if w.second then 1 else 0, w.cur, w.lk, w.snow, w.todo1.length] ++
    w.todo1.flatMap (fun (x, e) => [x, e]) ++ [w.todo2.length] ++ w.todo2)

/-! ### labels for the fast path of the admission test

    `(0, 0)` the whole cache, `(0, n)` the cache entry of the id named `n - 1` (`idName`; 9999: an id that
    is in no table yet), `(1, 0)` the whole lock table, `(1, n)` the lock-table entry of that id, `(2, l+1)` lock object `l`, `(3, 0)` the handler's data. -/
def idName (s : St) (x : Nat) : Nat :=
  let i := s.appear.findIdx (· == x)
  if i < s.appear.length then i + 1 else 9999

def lab (s : St) (a : Actor) : Option (Nat × Nat) :=
  match a with
  | .req i =>
    let t := s.thr i
    match t.pc with
    | .init | .gex | .load | .del | .rdel | .rex | .save => some (0, idName s t.sid)
    | .setdef | .chk | .rlookup | .lookup => some (1, idName s t.sid)
    | .acq | .rel0 => some (2, t.my + 1)
    | .rrel | .rel => some (2, t.r + 1)
    | .write | .clr => some (3, 0)
    | _ => none
  | .sweep k =>
    let w := s.sw k
    match w.pc with
    | .copy => some (0, 0)
    | .del | .chk => some (0, idName s w.cur)
    | .list => some (1, 0)
    | .get | .vfy | .pop => some (1, idName s w.cur)
    | .try_ | .rel => some (2, w.lk + 1)
    | _ => none
  | .tick _ => none

/-- the next step of `a` touches no shared object (a clock read) -/
def isLocal (s : St) (a : Actor) : Bool :=
  match a with
  | .req i => (s.thr i).pc = .loadNow || (s.thr i).pc = .saveNow
  | _ => false

end CpModel.SessionLockN
