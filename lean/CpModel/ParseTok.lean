import CpModel.ParseSites
import CpModel.HeaderEnc
/-!
  C07 (round 2) — header-value tokenising, the Digest Authorization outcome classes, the response
  header encoding outcome.  Core Lean only.

  Transcribed statement by statement from the code as it is:

  * `cherrypy/_private_api/compat/headers.py`  `_parse_param`, `parse_header`;
  * `cherrypy/lib/httputil.py`  `RE_HEADER_SPLIT`, `q_separator`, `HeaderElement.parse/from_str`,
    `AcceptElement.from_str`, `AcceptElement.qvalue`, `header_elements` (what `sorted()` makes of elements
    whose `__lt__` evaluates `qvalue`: with two or more elements every q-value is evaluated, with one none is);
  * `cherrypy/lib/auth_digest.py`  `HttpDigestAuthorization.__init__` after the stdlib tokenizer
    (`parse_keqv_list(parse_http_list(..))` enters as its outcome: a dictionary or an exception class) and
    the decision sequence of `digest_auth` (scheme, parse, nonce, user, digest, staleness), including the
    `qop=auth-int` defect F21 (`H(entity_body)` of a `RequestBody` object: `TypeError`, not handled);
  * `HeaderMap.encode_header_items` on a response whose `headers.protocol` was set by `Request.run`:
    `encode` is a classmethod and reads the class attribute, so the request's protocol has no influence
    (the C12 model `CpModel.HeaderEnc.encodeHeaderItem` is the function; here: it never raises).

  Domain of the text functions: code points ≤ U+00FF (`str.strip`, `str.lower`, `float()` are modelled
  for those; the harness compares on that domain and drives everything else through the oracle).
-/
namespace CpModel.Parse

abbrev Text := List Char

/-! ### `_parse_param` / `parse_header` -/

/-- One round of `_parse_param` on the text after the leading `;`: index of the first `;` that is at
    index 0 or has an even number of `"` minus `\"` before it; `len s` when there is none.
    (`i` index, `q` count of `"`, `e` count of `\"`, `pb` previous character was a backslash.) -/
def scanEnd : Text → Nat → Nat → Nat → Bool → Nat
  | [], i, _, _, _ => i
  | c :: rest, i, q, e, pb =>
    if c = ';' ∧ (i = 0 ∨ (q - e) % 2 = 0) then i
    else if c = '"' then scanEnd rest (i + 1) (q + 1) (if pb then e + 1 else e) false
    else scanEnd rest (i + 1) q e (c = '\\')

def parseParamFuel : Nat → Text → List Text
  | 0, _ => []
  | fuel + 1, s =>
    match s with
    | ';' :: t =>
      let e := scanEnd t 0 0 0 false
      stripStr (t.take e) :: parseParamFuel fuel (t.drop e)
    | _ => []

/-- `list(_parse_param(s))` -/
def parseParam (s : Text) : List Text := parseParamFuel (s.length + 1) s

/-- `str.lower()` on code points ≤ U+00FF -/
def pyLower (c : Char) : Char :=
  let n := c.toNat
  if (65 ≤ n ∧ n ≤ 90) ∨ (192 ≤ n ∧ n ≤ 222 ∧ n ≠ 215) then Char.ofNat (n + 32) else c

/-- `s.replace(a ++ b, r)` for a two-character pattern -/
def replace2 (a b r : Char) : Text → Text
  | [] => []
  | [x] => [x]
  | x :: y :: rest => if x = a ∧ y = b then r :: replace2 a b r rest else x :: replace2 a b r (y :: rest)

/-- the quoted-string handling of `parse_header` -/
def unquoteValue (v : Text) : Text :=
  if v.length ≥ 2 ∧ v.head? = some '"' ∧ v.getLast? = some '"' then
    replace2 '\\' '"' '"' (replace2 '\\' '\\' '\\' ((v.drop 1).dropLast))
  else v

abbrev Params := List (Text × Text)

/-- `pdict[name] = value` (insertion order kept, a repeated key overwrites in place) -/
def dictSet {α : Type} (d : List (Text × α)) (k : Text) (v : α) : List (Text × α) :=
  if d.any (fun p => p.1 = k) then d.map (fun p => if p.1 = k then (k, v) else p) else d ++ [(k, v)]

def dictGet {α : Type} (d : List (Text × α)) (k : Text) : Option α :=
  (d.find? (fun p => p.1 = k)).map (·.2)

/-- `parse_header(line)` -/
def parseHeader (line : Text) : Text × Params :=
  match parseParam (';' :: line) with
  | [] => ([], [])
  | key :: ps =>
    (key, ps.foldl (fun d p =>
      match split1 '=' p with
      | none => d
      | some (n, v) => dictSet d ((stripStr n).map pyLower) (unquoteValue (stripStr v))) [])

/-! ### `RE_HEADER_SPLIT`, `q_separator`, elements -/

def consHead (c : Char) : List Text → List Text
  | [] => [[c]]
  | h :: t => (c :: h) :: t

/-- `RE_HEADER_SPLIT.split(s)`: split at every comma that has an even number of `"` after it -/
def headerSplit (s : Text) : List Text :=
  (s.foldr (fun c (acc : List Text × Bool) =>
    if c = ',' ∧ acc.2 then ([] :: acc.1, acc.2)
    else if c = '"' then (consHead c acc.1, !acc.2)
    else (consHead c acc.1, acc.2)) ([[]], true)).1

/-- `; *q *=` matched at the head of the text: what follows the `=` -/
def matchQSep : Text → Option Text
  | ';' :: t =>
    match t.dropWhile (· = ' ') with
    | 'q' :: t2 =>
      match t2.dropWhile (· = ' ') with
      | '=' :: t3 => some t3
      | _ => none
    | _ => none
  | _ => none

/-- `q_separator.split(s, 1)`: text before the leftmost match, and - when there is a match - after it -/
def splitQ : Text → Text × Option Text
  | [] => ([], none)
  | c :: rest =>
    match matchQSep (c :: rest) with
    | some after => ([], some after)
    | none => let r := splitQ rest; (c :: r.1, r.2)

/-- a parameter value of an element: a string, or (the `q` of an `AcceptElement`) an element itself -/
inductive PVal
  | str (s : Text)
  | elem (v : Text) (ps : Params)
  deriving DecidableEq, Repr

structure HElem where
  value : Text
  params : List (Text × PVal)
  deriving DecidableEq, Repr

/-- `HeaderElement.from_str` -/
def headerElementFromStr (s : Text) : HElem :=
  let r := parseHeader s
  ⟨r.1, r.2.map fun p => (p.1, .str p.2)⟩

/-- `AcceptElement.from_str` -/
def acceptElementFromStr (s : Text) : HElem :=
  let sp := splitQ s
  let r := parseHeader (stripStr sp.1)
  let ps : List (Text × PVal) := r.2.map fun p => (p.1, .str p.2)
  match sp.2 with
  | none => ⟨r.1, ps⟩
  | some after =>
    let q := parseHeader (stripStr after)
    ⟨r.1, dictSet ps ['q'] (.elem q.1 q.2)⟩

/-- the text `AcceptElement.qvalue` hands to `float()` -/
def HElem.qText (e : HElem) : Text :=
  match dictGet e.params ['q'] with
  | none => ['1']
  | some (.str s) => s
  | some (.elem v _) => v

/-- `AcceptElement.qvalue` does not raise -/
def HElem.qOk (e : HElem) : Bool := pyFloatOk e.qText

/-- `fieldname.startswith('Accept') or fieldname == 'TE'` -/
def isAcceptName (name : Text) : Bool := name.take 6 = "Accept".toList || name = "TE".toList

/-- the elements of `header_elements(fieldname, fieldvalue)` before sorting -/
def rawElements (name value : Text) : List HElem :=
  if value = [] then []
  else (headerSplit value).map fun el => if isAcceptName name then acceptElementFromStr el else headerElementFromStr el

/-- `header_elements(fieldname, fieldvalue)` as far as raising goes (the order of the result is not modelled):
    `sorted()` compares - and thereby evaluates `qvalue` of - every element iff there are at least two. -/
def headerElements (name value : Text) : Except Raised (List HElem) :=
  let els := rawElements name value
  if isAcceptName name && decide (els.length ≥ 2) && els.any (fun e => !e.qOk) then .error (.http 400)
  else .ok els

/-! ### Digest Authorization -/

/-- `paramsd.get(..)` of the fields `HttpDigestAuthorization.__init__` looks at (`none` = absent) -/
structure DigestParams where
  realm : Option Text
  username : Option Text
  nonce : Option Text
  uri : Option Text
  response : Option Text
  algorithm : Option Text
  cnonce : Option Text
  qop : Option Text
  nc : Option Text
  deriving DecidableEq, Repr

/-- truthiness of `paramsd.get(k)` -/
def truthy : Option Text → Bool
  | some (_ :: _) => true
  | _ => false

/-- `str.upper()` on ASCII letters (the values compared against are ASCII; the harness keeps the comparison
    to algorithm values of code points < 128) -/
def asciiUpper (c : Char) : Char := if 'a' ≤ c ∧ c ≤ 'z' then Char.ofNat (c.toNat - 32) else c

/-- the correctness checks of `HttpDigestAuthorization.__init__`;
    `algs` = `[alg.upper() for alg in valid_algorithms]`, `qops` = `valid_qops` (generated tables) -/
def digestInit (algs qops : List Text) (p : DigestParams) : Except Raised Unit :=
  let alg := ((p.algorithm.getD "MD5".toList).map asciiUpper)
  if !(algs.contains alg) then .error (.py .ValueError)
  else if !(truthy p.username && truthy p.realm && truthy p.nonce && truthy p.uri && truthy p.response) then
    .error (.py .ValueError)
  else
    match p.qop with
    | some q =>
      if !(qops.contains q) then .error (.py .ValueError)
      else if !(truthy p.cnonce && truthy p.nc) then .error (.py .ValueError)
      else .ok ()
    | none =>
      if truthy p.cnonce || truthy p.nc then .error (.py .ValueError) else .ok ()

/-- `'auth-int'` -/
def authIntText : Text := ['a', 'u', 't', 'h', '-', 'i', 'n', 't']

/-- what the server finds out about the credentials after the header parsed -/
structure DigestEnv where
  nonceValid : Bool
  userKnown : Bool
  digestMatches : Bool
  stale : Bool
  deriving DecidableEq, Repr

/-- Status of a request to a `tools.auth_digest` resource.
    `scheme` = `HttpDigestAuthorization.matches(header or '')`; `decodeOk` = `_try_decode_header` succeeds
    (always for header text a server hands over, never for RFC 2047-decoded text beyond U+00FF);
    `hasParams` = the header has a space after the scheme; `tok` = outcome of the stdlib tokenizer. -/
def digestAuth (algs qops : List Text) (scheme decodeOk hasParams : Bool) (tok : Except Exc DigestParams)
    (env : DigestEnv) : Nat :=
  if !scheme then 401 else
  let init : Except Raised DigestParams :=
    if !decodeOk then .error (.py .UnicodeEncodeError)
    else if !hasParams then .error (.py .ValueError)
    else match tok with
      | .error e => .error (.py e)
      | .ok p => match digestInit algs qops p with
        | .ok () => .ok p
        | .error r => .error r
  match init with
  | .error (.py e) => catchHand .digestKeqv e
  | .error (.http c) => httpStatus .digestKeqv c
  | .ok p =>
    if !env.nonceValid then 401
    else if !env.userKnown then 401
    else if p.qop = some authIntText then 500     -- F21: TypeError from H(entity_body), no handler
    else if !env.digestMatches then 401
    else if env.stale then 401
    else 200

/-! ### response header values -/

/-- `HeaderMap.encode_header_item(value)` for a `str` value of a response to a request of protocol
    HTTP/1.1 (`p11`) or HTTP/1.0: the classmethod does not see the request's protocol. -/
def respEncode (_p11 : Bool) (s : Text) : Except Raised (List UInt8) :=
  match CpModel.HeaderEnc.encodeHeaderItem s with
  | .ok b => .ok b
  | .error _ => .error (.py .ValueError)

/-- the class of a value (for the measured table) -/
def respClsOf (s : Text) : RespCls :=
  if s = [] then .empty
  else if s.any (fun c => c.toNat < 32 ∨ c.toNat = 127) then .control
  else if s.all (fun c => c.toNat < 128) then .ascii
  else if s.all (fun c => c.toNat < 256) then .latin1
  else if s.any (fun c => c.toNat ≥ 65536) then .astral
  else if s.all (fun c => c.toNat ≥ 256) then .wide
  else .mixed

end CpModel.Parse

namespace CpModel.Parse

/-! ### page handler call: Python's argument binding and `_cpdispatch.test_callable_spec` -/

/-- `inspect.getfullargspec(handler)[:4]` of a bound page handler without keyword-only parameters -/
structure Sig where
  /-- name of the bound first parameter (`self`) -/
  bound : Text
  /-- the positional-or-keyword parameters after it -/
  args : List Text
  /-- how many of the last ones have defaults -/
  ndefaults : Nat
  varargs : Bool
  varkw : Bool
  deriving DecidableEq, Repr

/-- `handler(*path_atoms, **request.params)`; a keyword is flagged when it is a key of `request.body.params` -/
structure Call where
  npos : Nat
  kwargs : List (Text × Bool)
  deriving DecidableEq, Repr

def Call.keys (c : Call) : List Text := c.kwargs.map (·.1)

/-- some parameter gets neither a positional, nor a keyword argument, nor a default -/
def missingArg (s : Sig) (c : Call) : Bool :=
  s.args.zipIdx.any fun p => !(decide (p.2 < c.npos)) && !(c.keys.contains p.1) && decide (p.2 < s.args.length - s.ndefaults)

/-- some parameter gets a positional and a keyword argument -/
def multipleArg (s : Sig) (c : Call) : Bool :=
  s.args.zipIdx.any fun p => decide (p.2 < c.npos) && c.keys.contains p.1

/-- the doubly supplied parameters one of which came with the query string -/
def multipleFromQs (s : Sig) (c : Call) : Bool :=
  s.args.zipIdx.any fun p => decide (p.2 < c.npos) && c.kwargs.any (fun k => k.1 = p.1 && !k.2)

/-- a keyword that names no parameter (as `test_callable_spec` sees it: the bound parameter is stripped) -/
def isExtra (s : Sig) (k : Text) : Bool := !(s.args.contains k)

/-- Does Python refuse the call (`TypeError` before the handler body runs)? -/
def bindFails (s : Sig) (c : Call) : Bool :=
  (decide (c.npos > s.args.length) && !s.varargs)        -- too many positional arguments
  || c.keys.contains s.bound                              -- multiple values for the bound parameter
  || multipleArg s c                                      -- multiple values for a parameter
  || (!s.varkw && c.keys.any (isExtra s))                 -- unexpected keyword argument
  || missingArg s c                                       -- missing required argument

/-- what `test_callable_spec` does: `HTTPError(code)`, or nothing (the caller re-raises the `TypeError`) -/
inductive SpecOutcome
  | http (code : Nat)
  | reraise
  deriving DecidableEq, Repr

/-- `test_callable_spec`.  `fx` = the code classifies a request parameter named like the bound first parameter
    (proposed fix C07-self-kwarg; measured from the live code into `Gen.C07.boundArgClassified`): 404 when it came
    with the query string, 400 when it came with the body. -/
def testCallableSpec (fx : Bool) (s : Sig) (c : Call) : SpecOutcome :=
  if missingArg s c then .http 404
  else if !s.varargs && decide (c.npos > s.args.length) then .http 404
  else if fx && c.keys.contains s.bound then
    (if c.kwargs.any (fun k => k.1 = s.bound && !k.2) then .http 404 else .http 400)
  else if multipleArg s c then (if multipleFromQs s c then .http 404 else .http 400)
  else if !s.varkw && c.keys.any (isExtra s) then
    (if c.kwargs.any (fun k => !k.2 && isExtra s k.1) then .http 404
     else if c.kwargs.any (fun k => k.2 && isExtra s k.1) then .http 400
     else .reraise)
  else .reraise

/-- status of the request when the handler body itself is total -/
def dispatchStatus (fx : Bool) (s : Sig) (c : Call) : Nat :=
  if bindFails s c then
    match testCallableSpec fx s c with
    | .http code => code
    | .reraise => 500
  else 200

/-! ### `SizedReader.finish`: the trailer of a chunked request body -/

/-- The loop of `finish` over the lines `fp.read_trailer_lines()` yields (cheroot: each ends with CRLF, none is
    empty).  `fx` = the code answers 400 to a malformed line (proposed fix C07-trailer-400, measured into
    `Gen.C07.trailerErrorsAre400`); without it a line without a colon is a bare `ValueError` and a continuation
    line before any header line an `UnboundLocalError` (`k` was never assigned). -/
def trailerLoop (fx : Bool) : List (List UInt8) → Bool → Except Raised Unit
  | [], _ => .ok ()
  | line :: rest, haveKey =>
    match line with
    | [] => .error (.py .IndexError)
    | b0 :: _ =>
      if b0 = 32 ∨ b0 = 9 then
        (if haveKey then trailerLoop fx rest true
         else if fx then .error (.http 400) else .error (.py .UnboundLocalError))
      else if line.contains 58 then trailerLoop fx rest true
      else if fx then .error (.http 400) else .error (.py .ValueError)

def trailerFinish (fx : Bool) (lines : List (List UInt8)) : Except Raised Unit := trailerLoop fx lines false

/-! ### Basic Authorization: the decision sequence of `auth_basic.basic_auth` -/

/-- what an independent reading of the `Authorization` header finds -/
structure BasicView where
  /-- the header is present -/
  present : Bool
  /-- it contains a space (`auth_header.split(' ', 1)` unpacks) -/
  hasSpace : Bool
  /-- `scheme.lower() == 'basic'` -/
  schemeBasic : Bool
  /-- `params.encode('ascii')` succeeds -/
  ascii : Bool
  /-- outcome of `base64.b64decode` (stdlib, a contract): `none` = decoded, `some e` = raised `e` -/
  b64 : Option Exc
  /-- the decoded text contains a colon (`decoded_params.split(':', 1)` unpacks) -/
  hasColon : Bool
  /-- `checkpassword(realm, username, password)` -/
  passwordOk : Bool
  deriving DecidableEq, Repr

/-- status of a request to a `tools.auth_basic` resource -/
def basicAuth (v : BasicView) : Nat :=
  if !v.present then 401
  else if !v.hasSpace then catchHand .basicB64 .ValueError
  else if !v.schemeBasic then 401
  else if !v.ascii then catchHand .basicB64 .UnicodeEncodeError
  else match v.b64 with
    | some e => catchHand .basicB64 e
    | none =>
      if !v.hasColon then catchHand .basicB64 .ValueError
      else if v.passwordOk then 200 else 401

/-! ### `SizedReader`: the size limit; `Request.process_headers`: the Host rule -/

/-- A consumer reads the whole entity through `SizedReader` (`maxbytes` = `request.body.maxbytes`, 0 = no limit;
    `declared` = Content-Length, `none` for a chunked body; `arrived` = bytes the client really sent): the number of
    bytes read, or `HTTPError(413)` as soon as more than `maxbytes` were read. -/
def sizedRead (maxbytes : Nat) (declared : Option Nat) (arrived : Nat) : Except Raised Nat :=
  let n := match declared with
    | some l => min l arrived
    | none => arrived
  if maxbytes ≠ 0 ∧ n > maxbytes then .error (.http 413) else .ok n

/-- `Request.process_headers`: an HTTP/1.1 request without a Host header is a 400 -/
def hostRule (p11 hasHost : Bool) : Except Raised Unit :=
  if p11 && !hasHost then .error (.http 400) else .ok ()

end CpModel.Parse
