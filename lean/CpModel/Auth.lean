import CpModel.Gen.C19Tables
/-!
  Model for C19 — `cherrypy/lib/auth_basic.py` (`basic_auth`, `_try_decode`, `checkpassword_dict`) and
  `cherrypy/lib/auth_digest.py` (`get_ha1_dict_plain`, `get_ha1_dict`, `synthesize_nonce`,
  `_try_decode_header`, `HttpDigestAuthorization.{matches, __init__, validate_nonce, is_nonce_stale, HA2,
  request_digest}`, `www_authenticate`, `digest_auth`, `_respond_401`), transcribed statement by statement.

  Text is `List Char` (code points), bytes are `List UInt8`.

  Parameters (`Prims`; the theorems hold for *every* instance, the driver plugs in concrete ones from
  `CpModel.AuthPrims`):
    * `H`          `md5_hex(s)` = `md5(s.encode('utf-8')).hexdigest()` — an arbitrary function here;
    * `b64decode`  `base64.b64decode(params.encode('ascii'))`; `none` = `UnicodeEncodeError` or `binascii.Error`
                   (both are `ValueError`s, both end in 400);
    * `decode`     `bytes.decode(accept_charset)`; `none` = `UnicodeDecodeError` (a `ValueError`);
    * `nfc`        `unicodedata.normalize('NFC', ·)`.
  Transcribed (not parameters): `str.split(sep, 1)`, `str.partition(' ')[0]`, `str.strip()` (white-space table
  generated from the running CPython), `str.lower()/upper()` as far as the result can be pure ASCII (tables
  generated from the running CPython), `int(str)`, ISO-8859-1 both ways, `dict` last-wins / `.get`,
  `urllib.request.parse_http_list` and `parse_keqv_list` (source hash pinned by the harness).

  Both challenges write the realm and the charset name as quoted-strings (`escQ`: `\` and `"` as quoted-pairs; fix
  for finding F26), while the nonce and H(A1) are computed from the realm itself.

  The model mirrors the code as repaired in /repo (fix commits 3d94f29, 23fae8d, a02f901): `IndexError` of
  `parse_keqv_list` is answered with 400, an empty `qop=""` is an unsupported qop (400), and `algorithm=MD5-sess`
  is recognised (the original code upper-cased the value and then compared it with the mixed-case spelling, so
  every MD5-sess header was rejected with 400).  It mirrors the *unrepaired* behaviour for
  `qop=auth-int`, where `H(entity_body)` is applied to the `RequestBody` object: `TypeError`, i.e. 500 (finding F21).

  `Request.process_headers` for one header value (`strip()`, then RFC 2047 decoding iff `=?` occurs) is modelled at
  the end of this file (`processHeader`, `digestRequest`, `basicRequest`) with the decoder itself
  (`email.header.decode_header` + charset decoding) as a parameter.

  Not modelled: HTTPError → page rendering, `debug` logging (the harness runs every configuration with and without
  `debug` against the same model), `get_ha1_file_htdigest` on files with malformed lines.
-/
namespace CpModel.Auth
open CpModel.Gen.C19

open Lean in
/-- `cs! "abc"` is the list literal of its characters (expanded at elaboration time; no `String` at run or
    proof time). -/
macro:max "cs!" s:str : term => do
  let elems ← s.getString.toList.toArray.mapM fun c => `($(Syntax.mkCharLit c))
  `([$elems,*])

abbrev Str := List Char
abbrev Bytes := List UInt8

/-- exception classes that can leave the tools (everything not turned into an `HTTPError`) -/
inductive Exc
  | valueError | indexError | typeError
  deriving DecidableEq, Repr

inductive Outcome
  /-- tool returned; `request.login = login`; the page handler runs -/
  | grant (login : Str)
  /-- `HTTPError(401)` with `WWW-Authenticate: challenge` -/
  | unauthorized (challenge : Str)
  /-- `HTTPError(400)` -/
  | badRequest
  /-- an exception that is not an `HTTPError` left the tool: the request ends in a 500 page -/
  | error (e : Exc)
  deriving DecidableEq, Repr

structure Prims where
  H : Str → Str
  b64decode : Str → Option Bytes
  decode : Bytes → Option Str
  nfc : Str → Str

/-! ### Python string primitives -/

/-- `s.split(sep, 1)` when it yields two parts; `none` when `sep` does not occur (the 2-tuple unpacking then
    raises `ValueError`). -/
def split1 (sep : Char) : Str → Option (Str × Str)
  | [] => none
  | c :: cs =>
    if c = sep then some ([], cs)
    else match split1 sep cs with
      | some (a, b) => some (c :: a, b)
      | none => none

/-- `s.partition(' ')[0]` -/
def beforeSpace (s : Str) : Str := s.takeWhile (· ≠ ' ')

def tableGet (t : List (Nat × Str)) (n : Nat) : Option Str :=
  match t with
  | [] => none
  | (k, v) :: rest => if k = n then some v else tableGet rest n

/-- `c.upper()`, exact whenever the true result is pure ASCII; any other non-ASCII character is kept as it is
    (its true upper-case form contains a non-ASCII character too, so comparisons with ASCII words agree). -/
def upperChar (c : Char) : Str :=
  if 'a' ≤ c ∧ c ≤ 'z' then [Char.ofNat (c.toNat - 32)]
  else if c.toNat < 128 then [c]
  else match tableGet upperToAscii c.toNat with
    | some s => s
    | none => [c]

def lowerChar (c : Char) : Str :=
  if 'A' ≤ c ∧ c ≤ 'Z' then [Char.ofNat (c.toNat + 32)]
  else if c.toNat < 128 then [c]
  else match tableGet lowerToAscii c.toNat with
    | some s => s
    | none => [c]

def pyUpper (s : Str) : Str := s.flatMap upperChar
def pyLower (s : Str) : Str := s.flatMap lowerChar

def isSpace (c : Char) : Bool := pySpace.contains c.toNat

/-- `s.strip()` -/
def pyStrip (s : Str) : Str := ((s.dropWhile isSpace).reverse.dropWhile isSpace).reverse

/-! ### `int(str)` -/

def digitVal? (c : Char) : Option Nat :=
  if '0' ≤ c ∧ c ≤ '9' then some (c.toNat - 48)
  else decimalZeros.findSome? fun z => if z ≤ c.toNat ∧ c.toNat < z + 10 then some (c.toNat - z) else none

/-- digits with single underscores strictly between digits; returns (value, number of digits) -/
def parseDigits : Str → Nat → Nat → Bool → Option (Nat × Nat)
  | [], acc, n, prevDigit => if prevDigit then some (acc, n) else none
  | c :: cs, acc, n, prevDigit =>
    if c = '_' then (if prevDigit then parseDigits cs acc n false else none)
    else match digitVal? c with
      | some d => parseDigits cs (acc * 10 + d) (n + 1) true
      | none => none

/-- the optional sign in front of the digits -/
def splitSign : Str → Bool × Str
  | '-' :: r => (true, r)
  | '+' :: r => (false, r)
  | r => (false, r)

/-- `int(s)` for a `str`; `none` = `ValueError` (also for more than `sys.get_int_max_str_digits()` digits). -/
def pyInt (s : Str) : Option Int :=
  let sb := splitSign (pyStrip s)
  match parseDigits sb.2 0 0 false with
  | some (v, n) => if n > maxStrDigits then none else some (if sb.1 then - (v : Int) else (v : Int))
  | none => none

/-- `'%s' % n` for an `int` -/
def showInt (n : Int) : Str := (toString n).toList

/-! ### ISO-8859-1 -/

def latin1Decode (b : Bytes) : Str := b.map fun x => Char.ofNat x.toNat

/-- `s.encode('latin1')`; `none` = `UnicodeEncodeError` -/
def latin1Encode : Str → Option Bytes
  | [] => some []
  | c :: cs =>
    if c.toNat < 256 then (latin1Encode cs).map (UInt8.ofNat c.toNat :: ·) else none

/-! ### dictionaries -/

/-- first match (credential stores: the harness never repeats a key) -/
def dictGet (k : Str) : List (Str × Str) → Option Str
  | [] => none
  | (k', v) :: rest => if k' = k then some v else dictGet k rest

/-- `.get(k)` on a dict built by successive `d[k] = v` (the last assignment wins) -/
def dictGetLast (k : Str) (l : List (Str × Str)) : Option Str := dictGet k l.reverse

/-- Python truthiness of `None | str` -/
def truthy : Option Str → Bool
  | some (_ :: _) => true
  | _ => false

/-! ### challenges -/

/-- `_quoted_string_content(value)`: what stands between the quotes of a quoted-string — `\` and `"` written as
    quoted-pairs (`value.replace('\\', '\\\\').replace('"', '\\"')`, one pass over the characters) -/
def escQ : Str → Str
  | [] => []
  | c :: cs => if c = '"' ∨ c = '\\' then '\\' :: c :: escQ cs else c :: escQ cs

def charsetDecl (acceptCharset : Str) : Str :=
  let cs := pyUpper acceptCharset
  if cs ≠ fallbackCharset then cs! ", charset=\"" ++ escQ cs ++ ['"'] else []

/-! ## Basic -/

structure BasicCfg where
  realm : Str
  store : List (Str × Str)       -- checkpassword_dict(user_password_dict)
  acceptCharset : Str

/-- `checkpassword_dict(d)(realm, user, password)`: `p and p == password or False` -/
def checkpasswordDict (store : List (Str × Str)) (user password : Str) : Bool :=
  match dictGet user store with
  | some p => p ≠ [] && p == password
  | none => false

/-- `_try_decode(subject, (accept_charset, 'ISO-8859-1'))` -/
def tryDecode (P : Prims) (b : Bytes) : Str :=
  match P.decode b with
  | some s => s
  | none => latin1Decode b

def basicChallenge (cfg : BasicCfg) : Str :=
  cs! "Basic realm=\"" ++ escQ cfg.realm ++ ['"'] ++ charsetDecl cfg.acceptCharset

/-- `basic_auth(realm, checkpassword_dict(store), accept_charset=…)` on `request.headers.get('authorization')` -/
def basicAuth (P : Prims) (cfg : BasicCfg) (hdr : Option Str) : Outcome :=
  if cfg.realm.contains '"' then .error .valueError        -- configuration error, before the header is read
  else
  match hdr with
  | none => .unauthorized (basicChallenge cfg)
  | some h =>
    match split1 ' ' h with
    | none => .badRequest                                   -- ValueError in the tuple unpacking
    | some (scheme, params) =>
      if pyLower scheme = cs! "basic" then
        match P.b64decode params with
        | none => .badRequest                               -- UnicodeEncodeError / binascii.Error
        | some bytes =>
          let decoded := P.nfc (tryDecode P bytes)
          match split1 ':' decoded with
          | none => .badRequest                             -- ValueError in the tuple unpacking
          | some (username, password) =>
            if checkpasswordDict cfg.store username password then .grant username
            else .unauthorized (basicChallenge cfg)
      else .unauthorized (basicChallenge cfg)

/-! ## Digest -/

/-- `urllib.request.parse_http_list` loop state; `res` and `part` are kept reversed -/
structure HLState where
  res : List Str
  part : Str
  escape : Bool
  quote : Bool
  deriving DecidableEq, Repr

def hlStep (st : HLState) (cur : Char) : HLState :=
  if st.escape then { st with part := cur :: st.part, escape := false }
  else if st.quote then
    if cur = '\\' then { st with escape := true }
    else if cur = '"' then { st with quote := false, part := cur :: st.part }
    else { st with part := cur :: st.part }
  else if cur = ',' then { st with res := st.part.reverse :: st.res, part := [] }
  else if cur = '"' then { st with quote := true, part := cur :: st.part }
  else { st with part := cur :: st.part }

def parseHttpList (s : Str) : List Str :=
  let st := s.foldl hlStep ⟨[], [], false, false⟩
  let res := if st.part.isEmpty then st.res else st.part.reverse :: st.res
  res.reverse.map pyStrip

/-- one iteration of `parse_keqv_list`: `k, v = elt.split('=', 1)` (ValueError), `v[0]` (IndexError) -/
def parseKeqv1 (elt : Str) : Except Exc (Str × Str) :=
  match split1 '=' elt with
  | none => .error .valueError
  | some (k, v) =>
    match v with
    | [] => .error .indexError
    | c :: _ =>
      if c = '"' ∧ v.getLast? = some '"' then .ok (k, (v.drop 1).dropLast) else .ok (k, v)

def parseKeqvList : List Str → Except Exc (List (Str × Str))
  | [] => .ok []
  | e :: es =>
    match parseKeqv1 e with
    | .error x => .error x
    | .ok kv =>
      match parseKeqvList es with
      | .error x => .error x
      | .ok rest => .ok (kv :: rest)

/-- the attributes of `HttpDigestAuthorization` the decision depends on (`algorithm` already upper-cased) -/
structure Auth where
  realm : Option Str
  username : Option Str
  nonce : Option Str
  uri : Option Str
  response : Option Str
  algorithm : Str
  cnonce : Option Str
  qop : Option Str
  nc : Option Str
  deriving DecidableEq, Repr

/-- `HttpDigestAuthorization.matches(header)` -/
def digestMatches (h : Str) : Bool := pyLower (beforeSpace h) = cs! "digest"

/-- `_try_decode_header(header, accept_charset)`; `none` = `ValueError` (a character above U+00FF) -/
def tryDecodeHeader (P : Prims) (h : Str) : Option Str :=
  match latin1Encode h with
  | none => none
  | some b => some (tryDecode P b)

def fieldsOf (d : List (Str × Str)) : Auth :=
  { realm := dictGetLast cs! "realm" d
    username := dictGetLast cs! "username" d
    nonce := dictGetLast cs! "nonce" d
    uri := dictGetLast cs! "uri" d
    response := dictGetLast cs! "response" d
    algorithm := pyUpper ((dictGetLast cs! "algorithm" d).getD cs! "MD5")
    cnonce := dictGetLast cs! "cnonce" d
    qop := dictGetLast cs! "qop" d
    nc := dictGetLast cs! "nc" d }

/-- the "correctness checks" at the end of `__init__` (repaired: algorithm compared case-insensitively, qop
    checked whenever it is present) -/
def validateFields (a : Auth) : Except Exc Auth :=
  if ¬ (validAlgorithms.map pyUpper).contains a.algorithm then .error .valueError
  else if ¬ (truthy a.username && truthy a.realm && truthy a.nonce && truthy a.uri && truthy a.response) then
    .error .valueError
  else match a.qop with
    | some q =>
      if ¬ validQops.contains q then .error .valueError
      else if ¬ (truthy a.cnonce && truthy a.nc) then .error .valueError
      else .ok a
    | none =>
      if truthy a.cnonce || truthy a.nc then .error .valueError else .ok a

/-- `HttpDigestAuthorization(auth_header, method, accept_charset=…)` -/
def parseAuth (P : Prims) (h : Str) : Except Exc Auth :=
  if ¬ digestMatches h then .error .valueError
  else match tryDecodeHeader P h with
    | none => .error .valueError
    | some dh =>
      match split1 ' ' dh with
      | none => .error .valueError
      | some (_, params) =>
        match parseKeqvList (parseHttpList params) with
        | .error x => .error x
        | .ok d => validateFields (fieldsOf d)

def colon (a b : Str) : Str := a ++ ':' :: b

/-- `synthesize_nonce(s, key, timestamp)` with the timestamp already rendered -/
def synthesizeNonce (P : Prims) (s key ts : Str) : Str :=
  colon ts (P.H (colon ts (colon s key)))

/-- `auth.validate_nonce(s, key)` -/
def validateNonce (P : Prims) (nonce s key : Str) : Bool :=
  match split1 ':' nonce with
  | none => false
  | some (ts, hashpart) =>
    match split1 ':' (synthesizeNonce P s key ts) with
    | none => false
    | some (_, sHashpart) => sHashpart = hashpart

/-- `auth.is_nonce_stale(max_age_seconds)` with `now = int(time.time())` -/
def isNonceStale (nonce : Str) (maxAge : Nat) (now : Int) : Bool :=
  match split1 ':' nonce with
  | none => true
  | some (ts, _) =>
    match pyInt ts with
    | some t => ¬ (t + maxAge > now)
    | none => true

/-- `'%s' % x` for `x : None | str` -/
def fmtOpt : Option Str → Str
  | some s => s
  | none => cs! "None"

/-- `auth.HA2(entity_body=request.body)` -/
def ha2 (P : Prims) (a : Auth) (method : Str) : Except Exc Str :=
  if a.qop = none ∨ a.qop = some cs! "auth" then
    .ok (P.H (colon method (fmtOpt a.uri)))
  else if a.qop = some cs! "auth-int" then
    .error .typeError          -- H(entity_body): ntob(RequestBody) → assert_native → TypeError  (F21)
  else .error .valueError      -- 'Unrecognized value for qop!'

/-- `auth.request_digest(ha1, entity_body=request.body)` -/
def requestDigest (P : Prims) (a : Auth) (method ha1 : Str) : Except Exc Str :=
  match ha2 P a method with
  | .error x => .error x
  | .ok h2 =>
    let req :=
      if truthy a.qop then
        colon (fmtOpt a.nonce) (colon (fmtOpt a.nc) (colon (fmtOpt a.cnonce) (colon (fmtOpt a.qop) h2)))
      else colon (fmtOpt a.nonce) h2
    let ha1' :=
      if a.algorithm = cs! "MD5-SESS" then
        P.H (colon ha1 (colon (fmtOpt a.nonce) (fmtOpt a.cnonce)))
      else ha1
    .ok (P.H (colon ha1' req))

inductive Store
  /-- `get_ha1_dict_plain({user: password})` -/
  | plain (d : List (Str × Str))
  /-- `get_ha1_dict({user: HA1})` -/
  | ha1 (d : List (Str × Str))
  /-- `get_ha1_file_htdigest(file)` for a file of well-formed `user:realm:HA1` lines -/
  | htdigest (lines : List (Str × Str × Str))

/-- the loop of `get_ha1_file_htdigest`: the first line whose user *and* realm match -/
def htLookup (username realm : Str) : List (Str × Str × Str) → Option Str
  | [] => none
  | (u, r, h) :: rest => if u = username ∧ r = realm then some h else htLookup username realm rest

structure DigestCfg where
  realm : Str
  key : Str
  store : Store
  acceptCharset : Str

def getHa1 (P : Prims) (cfg : DigestCfg) (username : Str) : Option Str :=
  match cfg.store with
  | .plain d =>
    match dictGet username d with
    | some (c :: cs) => some (P.H (colon username (colon cfg.realm (c :: cs))))
    | _ => none
  | .ha1 d => dictGet username d
  | .htdigest lines => htLookup username cfg.realm lines

/-- `www_authenticate(realm, key, stale=…, accept_charset=…)` at `int(time.time()) = now` -/
def digestChallenge (P : Prims) (cfg : DigestCfg) (now : Int) (stale : Bool) : Str :=
  cs! "Digest realm=\"" ++ escQ cfg.realm ++ cs! "\", nonce=\"" ++ synthesizeNonce P cfg.realm cfg.key (showInt now)
    ++ cs! "\", algorithm=\"" ++ challengeAlgorithm ++ cs! "\", qop=\"" ++ challengeQop ++ ['"']
    ++ (if stale then cs! ", stale=\"true\"" else []) ++ charsetDecl cfg.acceptCharset

/-- `www_authenticate(realm, key, algorithm=…, qop=…, stale=…, accept_charset=…)` with explicit algorithm and qop
    (the public helper; `_respond_401` always calls it with the defaults) -/
def wwwAuthenticate (P : Prims) (cfg : DigestCfg) (algorithm qop : Str) (now : Int) (stale : Bool) : Except Exc Str :=
  if ¬ validQops.contains qop then .error .valueError
  else if ¬ validAlgorithms.contains algorithm then .error .valueError
  else .ok (cs! "Digest realm=\"" ++ escQ cfg.realm ++ cs! "\", nonce=\"" ++ synthesizeNonce P cfg.realm cfg.key (showInt now)
    ++ cs! "\", algorithm=\"" ++ algorithm ++ cs! "\", qop=\"" ++ qop ++ ['"']
    ++ (if stale then cs! ", stale=\"true\"" else []) ++ charsetDecl cfg.acceptCharset)

def respond401 (P : Prims) (cfg : DigestCfg) (now : Int) (stale : Bool) : Outcome :=
  .unauthorized (digestChallenge P cfg now stale)

/-- which exceptions `HTTPError.handle(…, 400, msg)` around the constructor turns into 400 (repaired:
    `IndexError` included) -/
def handled400 : Exc → Bool
  | .valueError => true
  | .indexError => true
  | .typeError => false

/-- `digest_auth(realm, get_ha1, key, accept_charset=…)` for a request with `request.method = method`,
    at `int(time.time()) = now` -/
def digestAuth (P : Prims) (cfg : DigestCfg) (method : Str) (now : Int) (hdr : Option Str) : Outcome :=
  let h := hdr.getD []
  if ¬ digestMatches h then respond401 P cfg now false
  else
  match parseAuth P h with
  | .error x => if handled400 x then .badRequest else .error x
  | .ok a =>
    if ¬ validateNonce P (fmtOpt a.nonce) cfg.realm cfg.key then respond401 P cfg now false
    else match getHa1 P cfg (fmtOpt a.username) with
    | none => respond401 P cfg now false
    | some ha1 =>
      match requestDigest P a method ha1 with
      | .error x => .error x
      | .ok digest =>
        if digest ≠ fmtOpt a.response then respond401 P cfg now false
        else if isNonceStale (fmtOpt a.nonce) 600 now then respond401 P cfg now true
        else .grant (fmtOpt a.username)

/-! ## From the wire to `request.headers` (`Request.process_headers`, one header value)

  `value = value.strip()`, then `httputil.decode_TEXT_maybe(value)`: the RFC 2047 decoder runs **iff** `'=?'` occurs
  in the stripped value; `LookupError` / `ValueError` / `MessageError` of the decoder are answered with 400 before any
  tool runs.  The decoder itself (`email.header.decode_header` + charset decoding) is a parameter `decodeText`
  (`none` = one of those exceptions). -/

/-- `'=?' in value` -/
def hasEncMarker : Str → Bool
  | [] => false
  | c :: cs =>
    match cs with
    | [] => false
    | d :: _ => (c = '=' && d = '?') || hasEncMarker cs

/-- what `request.headers.get('authorization')` holds for the raw header value `raw` (the WSGI server's Latin-1
    view of the bytes); `none` = HTTPError 400 raised by `process_headers` -/
def processHeader (decodeText : Str → Option Str) (raw : Str) : Option Str :=
  let v := pyStrip raw
  if hasEncMarker v then decodeText v else some v

/-- the whole request as far as authentication goes: header processing, then the tool -/
def digestRequest (P : Prims) (decodeText : Str → Option Str) (cfg : DigestCfg) (method : Str) (now : Int)
    (raw : Option Str) : Outcome :=
  match raw with
  | none => digestAuth P cfg method now none
  | some r =>
    match processHeader decodeText r with
    | none => .badRequest
    | some h => digestAuth P cfg method now (some h)

def basicRequest (P : Prims) (decodeText : Str → Option Str) (cfg : BasicCfg) (raw : Option Str) : Outcome :=
  match raw with
  | none => basicAuth P cfg none
  | some r =>
    match processHeader decodeText r with
    | none => .badRequest
    | some h => basicAuth P cfg (some h)

end CpModel.Auth

