/-!
  C07 — types shared by the hand model (`CpModel.ParseSites`) and the table regenerated from the live
  code on every run (`CpModel.Gen.C07Tables`).  Core Lean only.

  `Exc`  : the universe of Python exception classes the catch map is measured over (`MaxSizeExceeded` is
           cheroot's, recognised by CherryPy by its class name), plus the pseudo
           class `HTTP400` ("the callee raises `cherrypy.HTTPError(400)` itself").
  `Site` : the places where one parser (stdlib or CherryPy's own) is applied to client bytes.
  `RespCls` : classes of response header values for the header-encoding table.
-/
namespace CpModel.Parse

inductive Exc
  | ValueError | UnicodeError | UnicodeDecodeError | UnicodeEncodeError | LookupError | KeyError
  | IndexError | EOFError | TypeError | AttributeError | NameError | UnboundLocalError | RuntimeError
  | RecursionError | BinasciiError | MessageError | HeaderParseError | CookieError | OverflowError
  | JSONDecodeError | OSError | AssertionError | MaxSizeExceeded | HTTP400
  deriving DecidableEq, Repr, Inhabited

inductive Site
  /-- `email.header.decode_header` inside `httputil.decode_TEXT` (`Request.process_headers`) -/
  | decodeHeader
  /-- `atom.decode(charset)` inside `httputil.decode_TEXT` -/
  | decodeTextCharset
  /-- `SimpleCookie.load` in `Request.process_headers` -/
  | cookieLoad
  /-- `unquote_plus(.., errors='strict')` in `httputil._parse_qs` (`Request.process_query_string`) -/
  | qsUnquote
  /-- `int()` of the image-map coordinates in `httputil.parse_query_string` -/
  | imageMapInt
  /-- body of `httputil._get_ranges`, called from `get_ranges` (static files) -/
  | getRanges
  /-- `float()` in `AcceptElement.qvalue`, reached from `tools.accept` (before_handler) -/
  | qvalueAccept
  /-- the same conversion reached from `tools.gzip` (before_finalize) -/
  | qvalueGzip
  /-- `int(Content-Length)` in `Entity.__init__` -/
  | contentLengthInt
  /-- `bytes.decode(charset)` in `process_urlencoded` -/
  | urlencDecode
  /-- `bytes.decode(charset)` in `Entity.decode_entity` (multipart form fields) -/
  | partDecode
  /-- `Part.read_headers`, called from `process_multipart` -/
  | partHeaders
  /-- `Part.read_lines_to_boundary`, called from `process_multipart` -/
  | partBody
  /-- `unquote(filename, encoding)` of `filename*` in `Entity.__init__` -/
  | filenameStar
  /-- `json.decode(body.decode('utf-8'))` in `jsontools.json_processor` -/
  | jsonDecode
  /-- `base64.b64decode` (and the conversions next to it) in `auth_basic.basic_auth` -/
  | basicB64
  /-- `parse_keqv_list(parse_http_list(..))` in `HttpDigestAuthorization.__init__` -/
  | digestKeqv
  /-- `chunk.encode(charset)` with the client's `Accept-Charset` name in `ResponseEncoder.encode_string` -/
  | encodeCharset
  /-- `urllib.parse.urlparse(request.base)` (the Host-derived base URL) in `cptools.proxy` -/
  | proxyNetloc
  /-- `urllib.parse.urljoin(cherrypy.url(), url)` (Host-derived base URL) in `HTTPRedirect.__init__` -/
  | redirectNetloc
  /-- `self.fp.read / readline / read_trailer_lines` of the server's reader object (`wsgi.input`) in `SizedReader` -/
  | rfileRead
  deriving DecidableEq, Repr, Inhabited

/-- classes of `str` values a response header can carry (what `HeaderMap.encode` distinguishes, and more) -/
inductive RespCls
  | empty | ascii | latin1 | wide | astral | control | mixed
  deriving DecidableEq, Repr, Inhabited

def allRespCls : List RespCls := [.empty, .ascii, .latin1, .wide, .astral, .control, .mixed]

def allExcs : List Exc :=
  [.ValueError, .UnicodeError, .UnicodeDecodeError, .UnicodeEncodeError, .LookupError, .KeyError,
   .IndexError, .EOFError, .TypeError, .AttributeError, .NameError, .UnboundLocalError, .RuntimeError,
   .RecursionError, .BinasciiError, .MessageError, .HeaderParseError, .CookieError, .OverflowError,
   .JSONDecodeError, .OSError, .AssertionError, .MaxSizeExceeded, .HTTP400]

def allSites : List Site :=
  [.decodeHeader, .decodeTextCharset, .cookieLoad, .qsUnquote, .imageMapInt, .getRanges, .qvalueAccept,
   .qvalueGzip, .contentLengthInt, .urlencDecode, .partDecode, .partHeaders, .partBody, .filenameStar,
   .jsonDecode, .basicB64, .digestKeqv, .encodeCharset, .proxyNetloc, .redirectNetloc, .rfileRead]

end CpModel.Parse
