import CpModel.Reader
/-
  C05, second layer of the `SizedReader` model: the operations that deliver bytes somewhere else
  than into the return value, transcribed from `cherrypy/_cpreqbody.py`:

  * `SizedReader.read(size, fp_out)` (`readW`): the statements of `read` with `fp_out.write(data)`
    in place of `chunks.append(data)`.  What `fp_out` has received is part of the result ALSO when
    the call raises 413: a sink keeps what was written to it, a `chunks` list is discarded.  The
    order of the statements is the code's: count (`bytes_read += datalen`), check
    (`maxbytes and bytes_read > maxbytes` → 413), only then store.
  * `Entity.read_into_file(fp_out=None)` (`readIntoFile`): `fp_out = make_file()` when none is
    given, `self.read(fp_out=fp_out)`, the sink is returned.  `make_file` is a fresh empty sink
    (the harness observes the default `tempfile.TemporaryFile()` through a recording wrapper).
  * `Entity.__iter__` / `__next__` driven to exhaustion (`iterAll`): `for line in body:` —
    `readline()` until it returns `b''`; the lines yielded before a 413 have been handed to the
    application.
  Extended operation histories `OpX` / `runX` put these beside the operations of `CpModel.Reader`.
  Core Lean only.
-/
namespace CpModel.Reader

/-- `while remaining > 0:` of `read(size, fp_out)`; third component = what `fp_out` received. -/
def readLoopW (cfg : Cfg) : Nat → St → Option Nat → Bytes → Res Unit × St × Bytes
  | 0, s, _, w => (.fuel, s, w)
  | fuel + 1, s, rem, w =>
    if rem = some 0 then (.ok (), s, w) else
    match fpRead s (chunkOf cfg rem) with
    | (none, s1) => (.err413, s1, w)
    | (some data, s1) =>
      if data.isEmpty then (.ok (), finish s1, w) else
      let s2 := { s1 with bytesRead := s1.bytesRead + data.length }
      if over cfg s2.bytesRead then (.err413, s2, w)
      else readLoopW cfg fuel s2 (rem.map (· - data.length)) (w ++ data)

/-- `read(size, fp_out)` -/
def readW (cfg : Cfg) (s : St) (size : Option Nat) : Res Unit × St × Bytes :=
  let rem := remainingOf cfg s size
  if rem = some 0 then (.ok (), finish s, []) else
  if s.buffer.isEmpty then
    readLoopW cfg (s.src.length + 1) s rem []
  else
    let data := bufTake rem s.buffer
    let s1 := { s with buffer := bufDrop rem s.buffer, bytesRead := s.bytesRead + data.length }
    if over cfg s1.bytesRead then (.err413, s1, [])
    else readLoopW cfg (s.src.length + 1) s1 (rem.map (· - data.length)) data

/-- `Entity.read_into_file(fp_out)` / `read_into_file()` (fresh sink from `make_file()`) -/
def readIntoFile (cfg : Cfg) (s : St) : Res Unit × St × Bytes := readW cfg s none

/-- `for line in entity:` — `__next__` until `StopIteration`; lines yielded so far are kept on 413 -/
def iterLoop (cfg : Cfg) : Nat → St → List Bytes → Res Unit × St × List Bytes
  | 0, s, acc => (.fuel, s, acc)
  | fuel + 1, s, acc =>
    match readline cfg s none with
    | (.ok b, s1) => if b.isEmpty then (.ok (), s1, acc) else iterLoop cfg fuel s1 (acc ++ [b])
    | (.err413, s1) => (.err413, s1, acc)
    | (.fuel, s1) => (.fuel, s1, acc)

def iterAll (cfg : Cfg) (s : St) : Res Unit × St × List Bytes :=
  iterLoop cfg (s.buffer.length + s.src.length + 2) s []

/-! ### extended histories -/

inductive OpX where
  | base (op : Op)
  | readInto (n : Option Nat)     -- `read(n, fp_out)`
  | intoFile                      -- `read_into_file(...)`
  | iter                          -- `for line in body`
  deriving Repr, DecidableEq, Inhabited

inductive OutX where
  | base (o : Out)
  | wrote (r : Res Unit) (w : Bytes)          -- result of the call, what the sink holds
  | yielded (r : Res Unit) (ls : List Bytes)  -- how the loop ended, the lines it yielded
  deriving Repr, DecidableEq, Inhabited

def stepX (cfg : Cfg) (s : St) : OpX → OutX × St
  | .base op => let (o, s1) := step cfg s op; (.base o, s1)
  | .readInto n => let (r, s1, w) := readW cfg s n; (.wrote r w, s1)
  | .intoFile => let (r, s1, w) := readIntoFile cfg s; (.wrote r w, s1)
  | .iter => let (r, s1, ls) := iterAll cfg s; (.yielded r ls, s1)

def runX (cfg : Cfg) (s : St) : List OpX → List OutX × St
  | [] => ([], s)
  | op :: ops =>
    let (o, s1) := stepX cfg s op
    let (os, s2) := runX cfg s1 ops
    (o :: os, s2)

/-- every byte an operation handed to the application: return values, sinks, yielded lines -/
def deliveredX : OutX → Bytes
  | .base (.bytes b) => b
  | .base (.lines ls) => ls.flatten
  | .base _ => []
  | .wrote _ w => w
  | .yielded _ ls => ls.flatten

/-! ### transient faults of the underlying stream

  `fp.read()` may raise something that is not the size limit (socket.timeout, ConnectionError, …) in the
  middle of an operation; `SizedReader.read` lets it propagate (`else: raise`), the chunks collected by that
  call are lost, `bytes_read` has counted every chunk that arrived (it is updated per chunk, not at the end
  of the loop).  The application may catch the exception and go on reading.  In the state machine this is the
  event `failAt` (same statements, same state when the exception leaves `read`); what differs is that the
  fault is transient: after the operation that it aborted, the next fault of the plan is armed (or none).
  `plan` = countdowns: the stream raises at the k-th next `fp.read` call, then at the k'-th after that, ….
  (An operation that fails for the `maxbytes` limit at the very moment a countdown has reached 0 without
  having fired also consumes that fault; the harness compares only histories in which the limit does not
  bite.) -/

def isErrX : OutX → Bool
  | .base .err413 => true
  | .wrote .err413 _ => true
  | .yielded .err413 _ => true
  | _ => false

def armNext (s : St) (plan : List Nat) : St × List Nat :=
  match plan with
  | [] => ({ s with failAt := none }, [])
  | k :: rest => ({ s with failAt := some k }, rest)

/-- history over a stream with transient faults; a result for which `isErrX` holds while the fault is due
    is the propagated stream exception -/
def runF (cfg : Cfg) : St → List Nat → List OpX → List OutX × St
  | s, _, [] => ([], s)
  | s, plan, op :: ops =>
    let (o, s1) := stepX cfg s op
    let (s2, plan') := if isErrX o && s1.failAt == some 0 then armNext s1 plan else (s1, plan)
    let (os, s3) := runF cfg s2 plan' ops
    (o :: os, s3)

/-- fresh reader over a stream with the fault plan armed -/
def initF (src : Bytes) (frag : List Nat) (plan : List Nat) : St × List Nat :=
  armNext (init src frag none) plan

end CpModel.Reader
