import CpModel.Config
import CpModel.Gen.C08Tables
/-!
  Config namespaces (C08): `reprconf.NamespaceSet.__call__` and the namespace handlers CherryPy registers.
  Core Lean only.

  * `NamespaceSet.__call__(config)`: the keys holding a dot are split at the FIRST dot into namespace and
    name and collected per namespace (`Config.bucket`: dict order, final values); then, in the
    registration order of the set, each handler gets the entries of its own namespace only:
    a plain callable is called `handler(k, v)` per entry; a handler with `__exit__` is a context manager:
    `callable = handler.__enter__()`, the entries go to `callable`, and `__exit__` is called exactly once —
    with the exception if one was raised (the exception propagates unless `__exit__` answers true, and the
    remaining entries of that namespace are skipped either way), with `(None, None, None)` otherwise.
    A propagating exception ends the whole call (later namespaces are not served).
  * the handlers: `request.` / `response.` / `hooks.` / `error_page.` (per request, `_cprequest`),
    `server.` / `engine.` / `log.` / `checker.` (global config, `_cpconfig`, `cherrypy/__init__`), as the
    effect one entry has (`Effect`); the `tools.` handler is the toolbox (`Config.toolmap/toolsSetup`).
  * which set holds which namespaces in which order is regenerated from the live classes
    (`Gen.C08.requestNamespaces`, `configNamespaces`, `appNamespaces`).
-/
namespace CpModel.ConfigNs
open CpModel.Dispatch CpModel.Config

inductive HKind where
  | plain
  /-- has `__exit__`; `swallow` = what `__exit__` answers when handed an exception -/
  | ctx (swallow : Bool)
  deriving DecidableEq, Repr, Inhabited

structure Handler where
  name : Name
  kind : HKind := .plain
  /-- entry names (namespace removed) on which the callable raises -/
  raisesOn : List Name := []
  deriving Repr, Inhabited

inductive Ev where
  | enter (ns : Name)
  | call (ns k : Name) (v : Val)
  /-- `__exit__(*exc_info)` (`exc = true`) or `__exit__(None, None, None)` -/
  | exit (ns : Name) (exc : Bool)
  deriving DecidableEq, Repr, Inhabited

/-- `for k, v in bucket.items(): callable(k, v)` up to and including the call that raises -/
def callLoop (h : Handler) : Conf → List Ev × Bool
  | [] => ([], false)
  | (k, v) :: rest =>
    if h.raisesOn.contains k then ([.call h.name k v], true)
    else
      let (ev, r) := callLoop h rest
      (.call h.name k v :: ev, r)

/-- one round of `for ns, handler in self.items():`; the flag says whether an exception propagates -/
def runHandler (h : Handler) (b : Conf) : List Ev × Bool :=
  let (ev, raised) := callLoop h b
  match h.kind with
  | .plain => (ev, raised)
  | .ctx swallow => (.enter h.name :: ev ++ [.exit h.name raised], raised && !swallow)

/-- `NamespaceSet.__call__(config)`: the trace of handler calls and whether an exception leaves the call -/
def nsCall (c : Conf) : List Handler → List Ev × Bool
  | [] => ([], false)
  | h :: rest =>
    let (ev, p) := runHandler h (bucket c h.name)
    if p then (ev, true)
    else
      let (ev2, p2) := nsCall c rest
      (ev ++ ev2, p2)

/-! ### the registered handlers -/

/-- what one `handler(k, v)` call does -/
inductive Effect where
  /-- `setattr(<target>, attr, v)`; targets: request, request.body, response, log, checker, engine,
      engine.<plugin>, server, servers[<name>] -/
  | setattr (target attr : Name) (v : Val)
  /-- `response.headers[key] = v` -/
  | setitem (target key : Name) (v : Val)
  /-- `request.error_page[code] = v` (`none` = the `'default'` entry) -/
  | errorPage (code : Option Nat) (v : Val)
  /-- `request.hooks[point].append(Hook(v))` -/
  | hook (point : Name)
  /-- `<target>.subscribe()` / `.unsubscribe()`; `engine.subscribe(channel, v)` is `subscribe` on `engine:<channel>` -/
  | subscribe (target : Name) (on : Bool)
  /-- the handler raises (`int('x')` for an error page, an unknown hook point, an unknown plugin) -/
  | raises
  deriving DecidableEq, Repr, Inhabited

def startsWith : List Char → List Char → Bool
  | [], _ => true
  | _ :: _, [] => false
  | a :: as, b :: bs => a == b && startsWith as bs

/-- `request_namespace`: `body.<attr>` goes to `request.body`, everything else is a request attribute -/
def requestNs (k : Name) (v : Val) : Effect :=
  if startsWith "body.".toList k then .setattr "request.body".toList (k.drop 5) v
  else .setattr "request".toList k v

/-- `response_namespace`: `headers.<name>` sets a response header (name = everything after the first dot) -/
def responseNs (k : Name) (v : Val) : Effect :=
  if startsWith "headers.".toList k then
    match splitDot k with
    | some (_, rest) => .setitem "response.headers".toList rest v
    | none => .raises
  else .setattr "response".toList k v

/-- `k.split('.', 1)[0]` -/
def firstAtom (k : Name) : Name :=
  match splitDot k with
  | some (a, _) => a
  | none => k

/-- `hooks_namespace`: the hook point is the name up to the first dot (`hooks.before_handler.1`);
    `points` = the hook points of the request's HookMap -/
def hooksNs (points : List Name) (k : Name) : Effect :=
  if points.contains (firstAtom k) then .hook (firstAtom k) else .raises

def isDigits (s : List Char) : Bool := !s.isEmpty && s.all Char.isDigit

/-- decimal value of a digit string -/
def digitsVal (s : List Char) : Nat := s.foldl (fun acc c => acc * 10 + (c.toNat - '0'.toNat)) 0

/-- `error_page_namespace`: `default` stays, anything else goes through `int()`
    (plain ASCII decimal digits and plainly non-numeric names here; what else `int()` accepts — signs,
    blanks, underscores, other digits — is not modelled: `none`) -/
def errorPageNs (k : Name) (v : Val) : Option Effect :=
  if k = "default".toList then some (.errorPage none v)
  else if isDigits k then some (.errorPage (some (digitsVal k)) v)
  else if k.all (fun c => c.isAlpha || c == '.') && !k.isEmpty then some .raises
  else none

/-- `_server_namespace_handler`: `server.<attr>` on `cherrypy.server`; `server.<name>.<attr>` on the extra
    server `<name>` (`on` subscribes / unsubscribes it) -/
def serverNs (k : Name) (v : Val) : Effect :=
  match splitDot k with
  | some (name, attr) =>
    if attr = onName then .subscribe ("servers:".toList ++ name) (truthy v)
    else .setattr ("servers:".toList ++ name) attr v
  | none => .setattr "server".toList k v

/-- `_engine_namespace_handler`; `plugins` = (plugin attribute of the engine, has callable
    subscribe/unsubscribe) -/
def engineNs (plugins : List (Name × Bool)) (k : Name) (v : Val) : Effect :=
  if k = "SIGHUP".toList ∨ k = "SIGTERM".toList then .subscribe ("engine:".toList ++ k) true
  else match splitDot k with
    | some (plugin, attr) =>
      match lookup plugins plugin with
      | none => .raises
      | some canSub =>
        if attr = onName ∧ canSub = true then .subscribe ("engine.".toList ++ plugin) (truthy v)
        else .setattr ("engine.".toList ++ plugin) attr v
    | none => .setattr "engine".toList k v

/-- `lambda k, v: setattr(log, k, v)` / `setattr(checker, k, v)` -/
def attrNs (target : Name) (k : Name) (v : Val) : Effect := .setattr target k v

/-! ### which set serves which namespaces (regenerated from the live classes) -/

def requestNamespaces : List Name := Gen.C08.requestNamespaces.map String.toList
def configNamespaces : List Name := Gen.C08.configNamespaces.map String.toList
def appNamespaces : List Name := Gen.C08.appNamespaces.map String.toList

def plainHandlers (names : List Name) : List Handler := names.map fun n => { name := n }

end CpModel.ConfigNs
