import CpModel.Proto
import CpModel.WsgiBoundary
import CpModel.RedirQ
/-!
  Line protocol of the two C01 boundary models (driver `drv_c01`, lines starting with `B` / `R`; every
  other line is a fault plan of `CpModel/PipelineProto.lean`).

      B METH TB STREAM CL STATUS SHAPE ITEMS END CLOSE TAMPER_S TAMPER_H READS CLOSES
        ITEMS = - | word over b e s i x      CLOSE = absent|ok|raise|arg
      R METH TB SN PATH QS READS CLOSES { | PAGEPATH { COND TPATH TQS } }      SN = SCRIPT_NAME
        COND = always|q|noq|v<k>             `-` = the empty string

  Output `S=<start_response calls code.excinfo,…> X=<escaped> R=<on_end_request runs>` plus, for B,
  `K=<iterator close() calls> D=p<page chunks>.s<str chunks>.i<other chunks>.<other bytes 0|1> N=<__next__/read calls>
  F=<file close() calls> L=<logged close failures>`; for R, `U=<path?qs,…> D=p<n>.<other bytes 0|1>`.
-/
namespace CpModel.WsgiBoundaryProto
open CpModel CpModel.WsgiBoundary CpModel.RedirQ

def parseBool (s : String) : Option Bool :=
  if s == "0" then some false else if s == "1" then some true else none

def untok (s : String) : String := if s == "-" then "" else s

def parseItem : Char → Option Item
  | 'b' => some .bytes | 'e' => some .empty | 's' => some .str | 'i' => some .int | 'x' => some .raise
  | _ => none

def parseItems (s : String) : Option (List Item) := (untok s).toList.mapM parseItem

def parseShape (s : String) : Option Shape :=
  if s == "bytes" then some .bytes else if s == "bytes0" then some .bytes0
  else if s == "str" then some .str else if s == "str0" then some .str0
  else if s == "none" then some .none else if s == "nonit" then some .nonIter
  else if s == "list" then some .list else if s == "tuple" then some .tuple
  else if s == "gen" then some .gen else if s == "iter" then some .iter
  else if s == "iterable" then some .iter      -- one iteration only: the same as its iterator
  else if s == "file" then some .file else none

def parseClose (s : String) : Option CloseK :=
  if s == "absent" then some .absent else if s == "ok" then some .ok
  else if s == "raise" then some .raises else if s == "arg" then some .needsArg else none

def parseStatusT (s : String) : Option StatusT :=
  if s == "keep" then some .keep else if s == "str" then some .str
  else if s == "none" then some .none else if s == "int" then some .int else none

def parseHdrT (s : String) : Option HdrT :=
  if s == "none" then some .none else if s == "bytes" then some .bytesPair
  else if s == "strkey" then some .strKey else if s == "strval" then some .strVal
  else if s == "unival" then some .uniVal else if s == "strpair" then some .strPair
  else if s == "triple" then some .triple else if s == "nonpair" then some .nonPair
  else if s == "intval" then some .intVal else if s == "nolist" then some .noList else none

def parseB : List String → Option Plan
  | [m, _tb, st, cl, status, sh, items, e, c, ts, th, rd, cls] => do
    let head ← if m == "head" then some true else if m == "get" then some false else none
    pure { head := head, stream := ← parseBool st, cl := ← parseBool cl, status := ← Proto.optNat? status
           body := { shape := ← parseShape sh, items := ← parseItems items, endRaises := ← parseBool e
                     close := ← parseClose c }
           tamperS := ← parseStatusT ts, tamperH := ← parseHdrT th, reads := ← Proto.optNat? rd
           closes := ← cls.toNat? }
  | _ => none

def b01 (b : Bool) : String := if b then "1" else "0"

def showStarts (l : List (Nat × Bool)) : String :=
  if l.isEmpty then "-" else ",".intercalate (l.map fun s => s!"{s.1}.{b01 s.2}")

/-- did the server receive bytes that are not page chunks (an error page, the trapper's bare body)? -/
def showOther (out : List Chunk) : String :=
  if out.contains .bare || out.contains .errorPage then "1" else "0"

def showB (s : Srv) : String :=
  let c := s.counters
  let np := (s.out.filter (· == .item .bytes)).length
  let ns := (s.out.filter (· == .item .str)).length
  let ni := (s.out.filter (· == .item .int)).length
  s!"S={showStarts s.starts} X={b01 s.escaped} R={s.released} K={c.close} D=p{np}.s{ns}.i{ni}.{showOther s.out} N={c.next} F={c.fclose} L={s.closeLogged}"

/-! ### R-plans -/

inductive Cond where
  | always | q | noq | v (k : Nat)
  deriving DecidableEq, Repr, Inhabited

structure Rule where
  cond : Cond
  tpath : String
  tqs : String
  deriving Repr, Inhabited

structure RPlan where
  head : Bool
  /-- SCRIPT_NAME: the mount point of the application -/
  sn : String
  start : Url
  reads : Option Nat
  closes : Nat
  pages : List (String × List Rule)
  deriving Repr, Inhabited

/-- `n`: zero-based index of the request; the handler has seen `n + 1` requests including this one -/
def Cond.holds (c : Cond) (n : Nat) (qs : String) : Bool :=
  match c with
  | .always => true
  | .q => !qs.isEmpty
  | .noq => qs.isEmpty
  | .v k => n + 1 < k

def subst (s q : String) (n : Nat) : String := (s.replace "{q}" q).replace "{n}" (toString n)

inductive Page where
  | page | notFound
  deriving DecidableEq, Repr, Inhabited

/-- the redirect function of an R-plan -/
def rApp (pages : List (String × List Rule)) (n : Nat) (u : Url) : Step Url Page :=
  match pages.lookup u.path with
  | none => .served .notFound
  | some rules =>
    match rules.find? (fun r => r.cond.holds n u.qs) with
    | some r => .redirect (irTarget u.path (subst r.tpath u.qs (n + 1)) (subst r.tqs u.qs (n + 1)))
    | none => .served .page

/-- every redirect target an R-plan can ever name has a template; the fuel only has to exceed the number
    of requests the generator's guards allow (`v<k>` conditions with k ≤ 9, finitely many fixed targets) -/
def rFuel : Nat := 64

def parseCond (s : String) : Option Cond :=
  if s == "always" then some .always else if s == "q" then some .q else if s == "noq" then some .noq
  else if s.startsWith "v" then (s.drop 1).toString.toNat?.map .v else none

def parseRules : List String → Option (List Rule)
  | [] => some []
  | c :: tp :: tq :: rest => do
    let rs ← parseRules rest
    pure ({ cond := ← parseCond c, tpath := untok tp, tqs := untok tq } :: rs)
  | _ => none

def parsePage : List String → Option (String × List Rule)
  | path :: rules => do pure (path, ← parseRules rules)
  | [] => none

/-- split a token list at the `|` tokens -/
def splitBar : List String → List (List String)
  | [] => [[]]
  | t :: ts =>
    match splitBar ts with
    | [] => [[t]]
    | g :: gs => if t == "|" then [] :: g :: gs else (t :: g) :: gs

def parseR (toks : List String) : Option RPlan :=
  match splitBar toks with
  | [m, _tb, sn, path, qs, rd, cls] :: pages => do
    let head ← if m == "head" then some true else if m == "get" || m == "post" then some false else none
    pure { head := head, sn := untok sn, start := { path := path, qs := untok qs }, reads := ← Proto.optNat? rd
           closes := ← cls.toNat?, pages := ← pages.mapM parsePage }
  | _ => none

def showUrls (l : List Url) : String :=
  if l.isEmpty then "-" else ",".intercalate (l.map fun u => s!"{u.path}?{u.qs}")

def showR (pl : RPlan) : String :=
  let (res, reqs) := redirector (uriKey pl.sn) (rApp pl.pages) rFuel 0 [] pl.start
  let n := reqs.length
  let closed := if pl.closes > 0 then 1 else 0
  -- HEAD concerns the first request only: a redirected request is a GET
  let headOnly := pl.head && n == 1
  match res with
  | .served .page =>
    s!"S=200.0 X=0 R={n - 1 + closed} U={showUrls reqs} D=p{if headOnly then 0 else 1}.0"
  | .served .notFound =>
    s!"S=404.0 X=0 R={n - 1 + closed} U={showUrls reqs} D=p0.{if headOnly then "0" else "1"}"
  | .failed _ => "bad-op"
  | .loop _ => s!"S=500.1 X=0 R={n} U={showUrls reqs} D=p0.1"
  | .outOfFuel => s!"S=- X=0 R={n} U={showUrls reqs} D=fuel"

def step (line : String) : String :=
  match Proto.fields line with
  | "B" :: rest =>
    -- `xk=<class>` / `relx=<class>`: the class of the exception the failing sites raise (InternalRedirect,
    -- HTTPRedirect, HTTPError, NotFound instead of an ordinary Exception).  Once the request layer is done with
    -- the body (streamed / explicit Content-Length) the model has one answer for every `Exception` subclass
    match parseB (rest.filter fun t => !(t.startsWith "xk=" || t.startsWith "relx=")) with
    | some p => showB (conv p)
    | none => "bad-op"
  | "R" :: rest =>
    match parseR rest with
    | some p => showR p
    | none => "bad-op"
  | _ => "bad-op"

end CpModel.WsgiBoundaryProto
