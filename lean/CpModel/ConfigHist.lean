import CpModel.Config
import CpModel.Gen.C08Tables
/-!
  Histories of requests against long-lived applications (C08).  Core Lean only.

  What lives longer than one request: `cherrypy.config` (`glob`), per application the section dicts
  (`app.config`), the object graph with its `_cp_config` attributes, and the kwargs dicts closed over by
  `tools.<t>.handler(**kwargs)` page handlers (`thkw`: handler node ↦ tool name, kwargs).

  What a request does with them (transcribed):
  * `set_conf()`: `base = cherrypy.config.copy()` — the copy site `setConfBase`; without the copy
    `request.config` *is* `cherrypy.config` and every `base.update(conf)` lands in the global dict;
  * `HandlerTool.handler`'s `handle_func`: `self.callable(*args, **self._merged_args(kwargs))` with
    `_merged_args(d)`: `conf = d.copy()` (the copy site `mergedArgs`), `conf.update(toolmaps[ns][name])`,
    `del conf['on']`; without the copy the long-lived kwargs dict itself is updated;
  * everything else a request writes (`request.config`, `request.toolmaps`, `nodeconf = {}` per trail
    entry, the hook map copy) is a fresh per-request object.
  `CopySites` says which of the two copies are made; `liveSites` is measured on the live code by
  `harness/c08.py tables()` (`Gen.C08.mergedArgsCopies`, `Gen.C08.setConfCopies`).

  Config steps: `app.merge(other)` (`_cpconfig.merge`: `base.setdefault(section, {}).update(value_map)`),
  `cherrypy.config.update(conf)` (`dict.update`).
-/
namespace CpModel.ConfigHist
open CpModel.Dispatch CpModel.Config

/-- `base.setdefault(section, {}).update(value_map)` for one section -/
def mergeSection : List (List Char × Conf) → List Char → Conf → List (List Char × Conf)
  | [], name, c => [(name, c)]
  | (n, c0) :: rest, name, c => if n = name then (n, c0 ++ c) :: rest else (n, c0) :: mergeSection rest name c

/-- `_cpconfig.merge(base, other)` -/
def mergeSections (base other : List (List Char × Conf)) : List (List Char × Conf) :=
  other.foldl (fun b (n, c) => mergeSection b n c) base

structure ToolHandler where
  node : NodeId
  tool : Name
  kwargs : Conf
  deriving Repr, Inhabited

structure World where
  glob : Conf
  g : Graph
  /-- `app.config` of each mounted application (they share the object graph) -/
  apps : List (List (List Char × Conf))
  thkw : List ToolHandler
  deriving Repr, Inhabited

structure CopySites where
  mergedArgs : Bool
  setConfBase : Bool
  deriving DecidableEq, Repr, Inhabited

def liveSites : CopySites := ⟨Gen.C08.mergedArgsCopies, Gen.C08.setConfCopies⟩

inductive Step where
  | req (a : Nat) (kind : Bool) (meth : Name) (path : List Char)
  | merge (a : Nat) (secs : List (List Char × Conf))
  | gupdate (c : Conf)
  deriving Repr, Inhabited

def World.app (w : World) (a : Nat) : App := { g := w.g, sections := w.apps.getD a [] }

/-- `Tool._merged_args(d)` (a dict: the final value of every key, `on` deleted) -/
def mergedArgs (d : Conf) (tm : List (Name × Conf)) (t : Name) : Conf :=
  (toDict (d ++ (lookup tm t).getD [])).filter fun (k, _) => k ≠ onName

def thLookup : List ToolHandler → NodeId → Option ToolHandler
  | [], _ => none
  | h :: rest, i => if h.node = i then some h else thLookup rest i

/-- the handler the default dispatcher leaves in `request.handler`, when it is a page handler made by
    `tools.<t>.handler(**kw)` -/
def pageHandlerOf (w : World) (a : Nat) (path : List Char) : Option ToolHandler :=
  match dispatch (w.app a) path with
  | .handler h _ => thLookup w.thkw h
  | _ => none

structure Obs where
  /-- `request.config` as a dict -/
  config : Conf
  toolmap : List (Name × Conf)
  /-- tools wired in by `Toolbox.__exit__`, with the kwargs of their callables -/
  setup : List (Name × Conf)
  /-- the call `handle_func` makes: tool, kwargs -/
  page : Option (Name × Conf)
  deriving Repr, Inhabited

def effective (w : World) (a : Nat) (kind : Bool) (meth : Name) (path : List Char) : Except Err Conf :=
  if kind then requestConfigMethod w.glob (w.app a) path meth else requestConfig w.glob (w.app a) path

/-- What one request observes, as a function of the world at that moment and the request alone. -/
def observe (w : World) (a : Nat) (kind : Bool) (meth : Name) (path : List Char) : Except Err Obs :=
  match effective w a kind meth path with
  | .error e => .error e
  | .ok c =>
    let page := if kind then none else
      (pageHandlerOf w a path).map fun h => (h.tool, mergedArgs h.kwargs (toolmap c) h.tool)
    .ok ⟨toDict c, toolmap c, toolsSetup c, page⟩

def setKw : List ToolHandler → NodeId → Conf → List ToolHandler
  | [], _, _ => []
  | h :: rest, i, kw => if h.node = i then { h with kwargs := kw } :: rest else h :: setKw rest i kw

/-- The long-lived state after a request, depending on which copies the code makes. -/
def reqWorld (s : CopySites) (w : World) (a : Nat) (kind : Bool) (meth : Name) (path : List Char) : World :=
  match effective w a kind meth path with
  | .error _ => w
  | .ok c =>
    let w1 := if s.setConfBase then w else { w with glob := c }
    if s.mergedArgs || kind then w1 else
      match pageHandlerOf w a path with
      | some h => { w1 with thkw := setKw w1.thkw h.node (mergedArgs h.kwargs (toolmap c) h.tool) }
      | none => w1

def setApp : List (List (List Char × Conf)) → Nat → List (List Char × Conf) → List (List (List Char × Conf))
  | [], _, _ => []
  | _ :: rest, 0, x => x :: rest
  | y :: rest, n + 1, x => y :: setApp rest n x

def stepWorld (s : CopySites) (w : World) : Step → World
  | .req a kind meth path => reqWorld s w a kind meth path
  | .merge a secs => { w with apps := setApp w.apps a (mergeSections (w.apps.getD a []) secs) }
  | .gupdate c => { w with glob := w.glob ++ c }

/-- the observations of the requests of a history, in order -/
def runHist (s : CopySites) : World → List Step → List (Except Err Obs)
  | _, [] => []
  | w, st :: rest =>
    match st with
    | .req a kind meth path => observe w a kind meth path :: runHist s (stepWorld s w st) rest
    | _ => runHist s (stepWorld s w st) rest

def Step.isReq : Step → Bool
  | .req .. => true
  | _ => false

/-- the world the configuration steps alone produce (requests left out) -/
def configFold (w : World) (steps : List Step) : World :=
  (steps.filter (!·.isReq)).foldl (stepWorld ⟨true, true⟩) w

end CpModel.ConfigHist
