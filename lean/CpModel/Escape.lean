import CpModel.Gen.C12Tables
import CpModel.Gen.C12NormTables
import CpModel.HeaderEnc
/-!
  C12 — escaping model (core Lean only).

  Transcribes

  * `html.escape(s, quote=False)` as used by `_cperror.get_error_page` and
    `HTTPRedirect.set_response` (`htmlEscape`; the three sequential `str.replace` calls, `&`
    first, equal this per-character substitution);
  * `xml.sax.saxutils.quoteattr` as used for the `href` of the redirect page (`quoteattr`);
  * `_cperror.get_error_page` with the default template: every keyword value is escaped, then
    `template % kwargs` (`errorPage`; template pieces from the generated table); the renderer
    exists in a *marked* form that records for every output character whether it comes from a
    template literal or from a field value;
  * the body of `HTTPRedirect.set_response` for the statuses that have a page (`redirectBody`);
  * the atom escaping of `_cplogging.LogManager.access` (`logEscape`): `"` → `\"`, UTF-8,
    `repr(bytes)[2:-1]` (CPython's quote-style choice included), then `'\\\\'` → `'\\'`; and the
    log line assembled with `access_log_format` (`accessLine`; pieces from the generated table).

  * the message `get_error_page` builds when a custom `error_page` callable/template FAILED
    (`failedMessage`, repaired form: the exception text is escaped — F2).

  Round 2 (end of file): custom `error_page` TEMPLATE files (`errorPageWith`), custom
  `access_log_format` (`accessLineWithMarked`), the access-log escaping with the proposed backslash
  guard (`logEscapeGuarded`) and the one the live code uses (`logEscapeLive`, probed flag).  The
  sentences the code writes itself (failed custom page, redirect pages) come from the generated
  table, so rewording them does not touch the model.

  Not modelled: what a working custom `error_page` CALLABLE returns (it replaces the built-in
  page; the escaped values it is handed are compared), tracebacks (the traceback text is an
  input), `logging` record formatting.
-/
namespace CpModel.Escape
open CpModel.Gen.C12
open CpModel.HeaderEnc (Bytes Text utf8)

/-! ### html.escape / quoteattr -/

def htmlEscapeChar (c : Char) : Text :=
  if c = '&' then ['&', 'a', 'm', 'p', ';']
  else if c = '<' then ['&', 'l', 't', ';']
  else if c = '>' then ['&', 'g', 't', ';']
  else [c]

/-- `html.escape(s, quote=False)` -/
def htmlEscape (s : Text) : Text := s.flatMap htmlEscapeChar

/-- inverse used in the statement of the round-trip theorem: the three entities back to
    characters, anything else unchanged (`skip` = characters of a recognised entity still to drop) -/
def htmlUnescapeAux : Nat → Text → Text
  | _, [] => []
  | n + 1, _ :: rest => htmlUnescapeAux n rest
  | 0, c :: rest =>
    if c = '&' then
      if ['a', 'm', 'p', ';'].isPrefixOf rest then '&' :: htmlUnescapeAux 4 rest
      else if ['l', 't', ';'].isPrefixOf rest then '<' :: htmlUnescapeAux 3 rest
      else if ['g', 't', ';'].isPrefixOf rest then '>' :: htmlUnescapeAux 3 rest
      else c :: htmlUnescapeAux 0 rest
    else c :: htmlUnescapeAux 0 rest

def htmlUnescape (s : Text) : Text := htmlUnescapeAux 0 s

/-- `saxutils.escape(data, {'\n': '&#10;', '\r': '&#13;', '\t': '&#9;'})`, per character -/
def xmlAttrEscapeChar (c : Char) : Text :=
  if c = '&' then ['&', 'a', 'm', 'p', ';']
  else if c = '>' then ['&', 'g', 't', ';']
  else if c = '<' then ['&', 'l', 't', ';']
  else if c = '\n' then ['&', '#', '1', '0', ';']
  else if c = '\r' then ['&', '#', '1', '3', ';']
  else if c = '\t' then ['&', '#', '9', ';']
  else [c]

def quotEntity : Text := ['&', 'q', 'u', 'o', 't', ';']

/-- `xml.sax.saxutils.quoteattr(data)` -/
def quoteattr (s : Text) : Text :=
  let d := s.flatMap xmlAttrEscapeChar
  if d.contains '"' then
    if d.contains '\'' then
      '"' :: (d.flatMap fun c => if c = '"' then quotEntity else [c]) ++ ['"']
    else '\'' :: d ++ ['\'']
  else '"' :: d ++ ['"']

/-! ### `%`-template rendering -/

inductive Piece where
  | lit (s : Text)
  | field (name : Text)
  deriving Repr

def toText (l : List Nat) : Text := l.map Char.ofNat

def toPieces (ps : List (Bool × List Nat)) : List Piece :=
  ps.map fun p => if p.1 then .field (toText p.2) else .lit (toText p.2)

def lookup (kw : List (Text × Text)) (name : Text) : Option Text :=
  match kw with
  | [] => none
  | (k, v) :: rest => if k = name then some v else lookup rest name

/-- `template % kwargs` where every value has been passed through `esc` before; each output
    character is paired with `true` iff it comes from a template literal.
    `none` = `KeyError` (a field the keyword dict lacks). -/
def renderMarked (esc : Text → Text) (kw : List (Text × Text)) :
    List Piece → Option (List (Char × Bool))
  | [] => some []
  | .lit s :: rest => (renderMarked esc kw rest).map fun r => s.map (·, true) ++ r
  | .field n :: rest =>
    match lookup kw n, renderMarked esc kw rest with
    | some v, some r => some ((esc v).map (·, false) ++ r)
    | _, _ => none

def render (esc : Text → Text) (kw : List (Text × Text)) (tpl : List Piece) : Option Text :=
  (renderMarked esc kw tpl).map fun l => l.map Prod.fst

def kStatus : Text := ['s', 't', 'a', 't', 'u', 's']
def kMessage : Text := ['m', 'e', 's', 's', 'a', 'g', 'e']
def kTraceback : Text := ['t', 'r', 'a', 'c', 'e', 'b', 'a', 'c', 'k']
def kVersion : Text := ['v', 'e', 'r', 's', 'i', 'o', 'n']

/-- `get_error_page(status, message=…, traceback=…, version=…)` with the default template,
    as text (the page is this text UTF-8 encoded) -/
def errorPage (status message traceback version : Text) : Option Text :=
  render htmlEscape
    [(kStatus, status), (kMessage, message), (kTraceback, traceback), (kVersion, version)]
    (toPieces errorTemplate)

def errorPageBytes (status message traceback version : Text) : Option Bytes :=
  (errorPage status message traceback version).map utf8

/-! ### the page when the custom error page failed (REPAIRED, fix C12-error-page-failure-escape) -/

def brTag : Text := ['<', 'b', 'r', ' ', '/', '>']

/-- `'In addition, the custom error page failed:\n'` (wording from the generated table) -/
def failedSentence : Text := toText CpModel.Gen.C12.failedSentence

/-- the message field after the `except Exception:` branch of `get_error_page`: the already
    escaped message, `<br />` if it is non-empty, the fixed sentence, `<br />`, and the last line
    of the formatted exception — escaped (before the fix it was inserted as it is).
    Marked: `true` = literal markup/text of the code, `false` = from `message` / the exception. -/
def failedMessageMarked (message e : Text) : List (Char × Bool) :=
  let m := htmlEscape message
  (if m = [] then [] else m.map (·, false) ++ brTag.map (·, true))
    ++ failedSentence.map (·, true) ++ brTag.map (·, true) ++ (htmlEscape e).map (·, false)

def failedMessage (message e : Text) : Text := (failedMessageMarked message e).map Prod.fst

/-- the page bytes `get_error_page` returns when the custom error page raised an exception whose
    last formatted line is `e` (the other three fields are escaped as usual) -/
def errorPageFailed (status message traceback version e : Text) : Option Text :=
  render id
    [(kStatus, htmlEscape status), (kMessage, failedMessage message e),
     (kTraceback, htmlEscape traceback), (kVersion, htmlEscape version)]
    (toPieces errorTemplate)

/-! ### redirect page -/

/-- the sentence before the anchor, per status that has a page (wording from the generated table) -/
def redirectMsg (status : Nat) : Option Text :=
  (CpModel.Gen.C12.redirectMsgs.find? fun e => e.1 == status).map fun e => toText e.2

/-- `msg % (saxutils.quoteattr(u), html.escape(u, quote=False))` -/
def redirectAnchor (msg u : Text) : Text :=
  msg ++ ['<', 'a', ' ', 'h', 'r', 'e', 'f', '='] ++ quoteattr u ++ ['>'] ++ htmlEscape u
    ++ ['<', '/', 'a', '>', '.']

def joinBr : List Text → Text
  | [] => []
  | [x] => x
  | x :: rest => x ++ ['<', 'b', 'r', ' ', '/', '>', '\n'] ++ joinBr rest

/-- body of `HTTPRedirect.set_response` for 300/301/302/303/307/308 (text; emitted as UTF-8) -/
def redirectBody (status : Nat) (urls : List Text) : Option Text :=
  (redirectMsg status).map fun msg => joinBr (urls.map (redirectAnchor msg))

/-! ### access log -/

/-- `v.replace('"', '\\"')` -/
def escQuote (s : Text) : Text := s.flatMap fun c => if c = '"' then ['\\', '"'] else [c]

def hexDigit (n : Nat) : Char :=
  if n < 10 then Char.ofNat (48 + n) else Char.ofNat (87 + n)

/-- one byte of CPython's `bytes.__repr__` with quote character `q` -/
def reprByte (q : Nat) (b : Nat) : Text :=
  if b = q ∨ b = 92 then ['\\', Char.ofNat b]
  else if b = 9 then ['\\', 't']
  else if b = 10 then ['\\', 'n']
  else if b = 13 then ['\\', 'r']
  else if b < 32 ∨ 127 ≤ b then ['\\', 'x', hexDigit (b / 16), hexDigit (b % 16)]
  else [Char.ofNat b]

/-- CPython's quote choice: `"` iff the bytes contain `'` and no `"` -/
def reprQuote (bs : List Nat) : Nat := if bs.contains 39 && !bs.contains 34 then 34 else 39

/-- `repr(v)[2:-1]` for `v : bytes` -/
def bytesReprBody (bs : List Nat) : Text := bs.flatMap (reprByte (reprQuote bs))

/-- `v.replace('\\\\', '\\')`: left-to-right, non-overlapping -/
def undouble : Text → Text
  | [] => []
  | [c] => [c]
  | a :: b :: rest =>
    if a = '\\' ∧ b = '\\' then '\\' :: undouble rest else a :: undouble (b :: rest)

/-- the per-atom escaping of `LogManager.access` -/
def logEscape (s : Text) : Text :=
  undouble (bytesReprBody ((utf8 (escQuote s)).map UInt8.toNat))

/-- `access_log_format.format(**atoms)` after every atom went through `logEscape`.
    Each output character carries `true` iff it comes from the format literal.
    `none` = `KeyError` (caught by `access`, nothing is logged). -/
def accessLineMarked (atoms : List (Text × Text)) : Option (List (Char × Bool)) :=
  renderMarked logEscape atoms (toPieces accessLogFormat)

def accessLine (atoms : List (Text × Text)) : Option Text :=
  (accessLineMarked atoms).map fun l => l.map Prod.fst

/-! ### round 2: custom templates / formats, and the access log with guarded backslashes -/

/-- `get_error_page` with a custom `error_page.<code>` / `error_page.default` TEMPLATE (a file the
    configuration names): the same escaped values, `template % kwargs` over the file's pieces -/
def errorPageWith (tpl : List Piece) (status message traceback version : Text) : Option Text :=
  render htmlEscape
    [(kStatus, status), (kMessage, message), (kTraceback, traceback), (kVersion, version)] tpl

/-- the entry for a custom `access_log_format` (pieces of the configured format) -/
def accessLineWithMarked (esc : Text → Text) (fmt : List Piece) (atoms : List (Text × Text)) :
    Option (List (Char × Bool)) :=
  renderMarked esc atoms fmt

/-- does the text start with a (possibly empty) run of backslashes that a `"` or the end follows? -/
def runEndsAtQuote : Text → Bool
  | [] => true
  | c :: rest => if c = '\\' then runEndsAtQuote rest else c = '"'

/-- proposed fix C12-access-log-backslash-guard:
    `re.sub(r'\\+(?="|\Z)', r'\g<0>\g<0>', v)` — every backslash of a run that a double quote or
    the end of the value follows is written twice -/
def guardBackslashes : Text → Text
  | [] => []
  | c :: rest =>
    if c = '\\' ∧ runEndsAtQuote rest = true then '\\' :: '\\' :: guardBackslashes rest
    else c :: guardBackslashes rest

/-- the per-atom escaping of `LogManager.access` WITH the proposed fix -/
def logEscapeGuarded (s : Text) : Text := logEscape (guardBackslashes s)

/-- the per-atom escaping of the LIVE `LogManager.access` (probed flag in the generated table) -/
def logEscapeLive (s : Text) : Text :=
  if CpModel.Gen.C12N.logBackslashGuard then logEscapeGuarded s else logEscape s

def accessLineLive (fmt : List Piece) (atoms : List (Text × Text)) : Option Text :=
  (accessLineWithMarked logEscapeLive fmt atoms).map fun l => l.map Prod.fst

end CpModel.Escape
