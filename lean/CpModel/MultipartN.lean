import CpModel.MultipartR
import CpModel.MultipartHdr
/-
  `process_multipart`'s part loop with what `Part.from_fp` / `Part.process` do BEFORE a part's content is
  read: `Part.__init__` may answer 400 (`filename*`), and `Part.process` looks the part's own Content-Type up
  in `Part.processors` — only `default_proc` reads the part up to the boundary.  A part that selects one of the
  inherited processors (form / multipart: finding F28) ends this model's run: what those processors do with
  the rest of the body is not modelled, the run reports the part's header block and stops.
  `CpProofs.C04Hdr.partsLoopN_plain` : as long as no part stops the loop it IS `partsLoopR`.
  Core Lean only; this is the loop the driver executes.
-/
namespace CpModel.MultipartR
open CpModel.Reader CpModel.Cursor CpModel.Multipart

inductive Stop where
  | none_
  | badInit (hs : List (Bytes × Bytes))      -- `Part.__init__` raised HTTPError(400)
  | inherited (hs : List (Bytes × Bytes))    -- `Part.process` chose a processor other than `default_proc`
  deriving Repr, DecidableEq, Inhabited

/-- does the part with this header block get past `__init__` and to `default_proc`? -/
def stopOf (hs : List (Bytes × Bytes)) : Stop :=
  match partInfoX hs with
  | .error _ => .badInit hs
  | .ok i => if partProc i.ctype = DEFAULT_PROC_B then .none_ else .inherited hs

def partsLoopN (cfg : Cfg) (bnd : Bytes) (maxram : Nat) (inner : Nat) :
    Nat → St → List RawPart → Except Err (List RawPart × Stop × St)
  | 0, _, _ => .error .fuel
  | fuel + 1, s, acc =>
    match readHeadersR cfg inner s none [] with
    | .error e => .error e
    | .ok (hs, s1) =>
      match stopOf hs with
      | .badInit h => .ok (acc, .badInit h, s1)
      | .inherited h => .ok (acc, .inherited h, s1)
      | .none_ =>
        match readLinesR cfg bnd maxram inner s1 [] true [] false with
        | .error e => .error e
        | .ok (content, spilled, s2) =>
          let acc' := acc ++ [{ headers := hs, content := content, spilled := spilled }]
          if s2.done then .ok (acc', .none_, s2) else partsLoopN cfg bnd maxram inner fuel s2 acc'

def processMultipartN (cfg : Cfg) (boundary : Bytes) (maxram : Nat) (conn : Bytes) (frag : List Nat) :
    Except Err (List RawPart × Stop × Option St) :=
  let bnd := [DASH, DASH] ++ boundary
  let n := conn.length + 2
  match findFirstR cfg bnd n (init conn frag) with
  | .error e => .error e
  | .ok none => .ok ([], .none_, none)
  | .ok (some s) =>
    match partsLoopN cfg bnd maxram n n s [] with
    | .error e => .error e
    | .ok (ps, st, s') => .ok (ps, st, some s')

end CpModel.MultipartR
