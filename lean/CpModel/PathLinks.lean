import CpModel.PathContain
/-
  C11 — second model file (imports `CpModel.PathContain`).

  Part 6: file trees WITH symbolic links.  A tree is a finite map location ↦ node (directory,
  regular file, symbolic link with its target string); the kernel's path walk is `walkSeg`
  (structural recursion over the component list, stops at the first link it has to follow) wrapped
  in `walk` (structural recursion over a fuel counter = the kernel's limit on link expansions,
  ELOOP when it runs out).  `follow = false` is the `lstat`/`unlink` flavour: a link in the LAST
  position is the object itself.
  Part 7: `static.staticfile` (no URL-derived path at all) and `FileSession.__len__`.

  The walk is compared with `os.stat` / `os.lstat` / `os.path.realpath` on a sandbox tree with links
  on every run (driver op `lresolve`).
-/
namespace CpModel.PathContain

/-! ### Part 6: trees with symbolic links -/

inductive Node where
  | dir | file | link (target : Str)
  deriving Repr, DecidableEq

/-- Finite map: location (components from `/`) ↦ node, first entry wins.  The root directory `[]`
    always exists. -/
structure LTree where
  nodes : List (List Str × Node)

def LTree.lookup (t : LTree) (loc : List Str) : Option Node :=
  if loc = [] then some .dir else (t.nodes.find? (fun e => e.1 == loc)).map (·.2)

inductive LRes where
  | enoent (at_ : List Str)     -- ENOENT / ENOTDIR; `at_` = the deepest name looked up
  | eloop                       -- too many levels of symbolic links
  | dir (p : List Str)
  | file (p : List Str)
  | lnk (p : List Str)          -- `follow = false` only: the link itself
  deriving Repr, DecidableEq

/-- One link-free stretch of the walk: either it ends (`done`), or it arrives at a link that has to
    be followed: location of the link, directory that holds it (reversed), target, what is left. -/
inductive Seg where
  | done (r : LRes)
  | link (at_ : List Str) (cur : List Str) (tgt : Str) (rest : List Str)
  deriving Repr, DecidableEq

/-- Walk the components (`cur` = current directory, components from `/`, REVERSED) up to the first
    symbolic link that must be followed. -/
def walkSeg (t : LTree) (follow : Bool) : List Str → List Str → Seg
  | cur, [] => .done (.dir cur.reverse)
  | cur, c :: rest =>
    if c = [] ∨ c = dot then walkSeg t follow cur rest
    else if c = dotdot then walkSeg t follow cur.tail rest
    else
      match t.lookup (c :: cur).reverse with
      | none => .done (.enoent (c :: cur).reverse)
      | some .dir => walkSeg t follow (c :: cur) rest
      | some .file =>
        if rest = [] then .done (.file (c :: cur).reverse) else .done (.enoent (c :: cur).reverse)
      | some (.link tgt) =>
        if rest = [] ∧ follow = false then .done (.lnk (c :: cur).reverse)
        else .link (c :: cur).reverse cur tgt rest

/-- The whole walk: a followed link is replaced by its target (absolute target: restart at `/`,
    relative target: continue in the directory holding the link); `fuel` link expansions. -/
def walk (t : LTree) (follow : Bool) : Nat → List Str → List Str → LRes
  | 0, cur, comps =>
    match walkSeg t follow cur comps with
    | .done r => r
    | .link _ _ _ _ => .eloop
  | fuel + 1, cur, comps =>
    match walkSeg t follow cur comps with
    | .done r => r
    | .link _ cur' tgt rest =>
      walk t follow fuel (if isAbs tgt then [] else cur') (splitSlash tgt ++ rest)

/-- Linux: at most 40 link expansions per lookup. -/
def maxLinks : Nat := 40

/-- `stat(p)` (`follow = true`) / `lstat(p)` (`follow = false`) for an absolute `p`. -/
def lresolve (t : LTree) (follow : Bool) (p : Str) : LRes := walk t follow maxLinks [] (splitSlash p)

/-- What `os.stat` answers `serve_file` in the tree `t`. -/
def fsOf (t : LTree) (p : Str) : Kind :=
  match lresolve t true p with
  | .file _ => .file
  | .dir _ => .dir
  | _ => .missing

/-- The tree has no symbolic link at all. -/
def LTree.linkFree (t : LTree) : Prop := ∀ e ∈ t.nodes, ∀ tgt, e.2 ≠ .link tgt

/-! ### Part 7: static.staticfile, FileSession.__len__ -/

structure FileIn where
  method : Str
  matchOk : Bool
  filename : Str
  root : Str

/-- `filename` made absolute with `root` (none = ValueError). -/
def staticFileName (i : FileIn) : Option Str :=
  if isAbs i.filename then some i.filename
  else if i.root = [] then none
  else some (join i.root i.filename)

/-- `staticfile(filename, root, match, content_types)`: the request path takes no part in the file
    name. -/
def staticfile (fs : Str → Kind) (i : FileIn) : Result :=
  if i.method ≠ strGET ∧ i.method ≠ strHEAD then ⟨.passThrough, []⟩
  else if i.matchOk = false then ⟨.passThrough, []⟩
  else match staticFileName i with
    | none => ⟨.valueError, []⟩
    | some f =>
      match attempt fs f with
      | .valueError => ⟨.valueError, []⟩
      | .served acc => ⟨.served f, acc⟩
      | .notFound acc => ⟨.notHandled, acc⟩

/-- `FileSession.__len__`: one `listdir` of the storage directory. -/
def sessLen (sp : Str) : List Access := [⟨.listdir, sp⟩]

end CpModel.PathContain
