/-
  Model of `cherrypy.lib.sessions` as seen through the sessions tool (C14).  Core Lean only.

  What is modelled (statement by statement, /repo HEAD with the `fix:` commits 5ad5690, 8042c0e,
  cb095fc, a78b01e, 5296cd5):
  * the durable store `RamSession.cache` / the `session-<id>` files / the memcached entries as an
    association list `id ↦ Rec`; a record is `good data expiry` or (file backend only) `bad e`: a file on
    which `pickle.load` raises an exception of class `e` (`eof` = EOFError, `unpickling` =
    pickle.UnpicklingError, `other` = any other class).  `pickle` itself is a parameter
    (`Pickle`, with its measured contract `Pickle.Contract`), see the end of the file.
  * a logical clock `now`; `Session.now()` and `timedelta(seconds=timeout*60)` are `now` and
    `+ timeout` (one tick = one minute in the harness).
  * the id source `generate_id` = `cfg.gen ctr` (a function of how many ids were drawn so far).
  * which cookie of the Cookie header is presented (`presentedOf`: `request.cookie[name]`, last pair of
    that name wins), `Session.__init__` (adopt iff `_exists()`, else `missing` → `_regenerate()`; an id
    spelled otherwise than the server issued it is an id the store does not hold: a78b01e, cb095fc),
    `_regenerate` (delete the old stored copy, draw ids until one is unused), `load` (`None` or
    `expiry < now` ⇒ `{}`; `_load` maps IOError/EOFError/UnpicklingError to `None`, any other class
    propagates → 500), the whole dict interface (`items`/`keys`/`values`, `__setitem__`, `pop(k, d)`,
    `clear` as `HOp`s of their own, `get`/`__getitem__`/`__contains__`/`setdefault`/`update`/`pop(k)`/
    `__delitem__` as `Acc`; each loads on first access), `__len__` (number of stored sessions, does not
    load), `delete` (repaired: also forgets the request's copy; `cfg.deleteForgets = false` is the code
    before 8042c0e, kept for the negation theorem), `sessions.expire` (cookie only),
    `SessionTool.regenerate` (regenerate + cookie attributes), a handler that raises (`raise`: 500, the
    `save` hook does not run), the `save` hook (`_save(now + timeout)` iff `loaded`),
    `RamSession.clean_up` (`expiry ≤ now`), `FileSession.clean_up` (`expiry < now`; `_load → None`
    skipped; another exception class leaves the loop), `FileSession._get_file_path` answering 400 to an
    id that leaves the storage directory, the response cookie (`set_response_cookie` from `init` and
    from `SessionTool.regenerate`, `expire`), the start-once logic of the cleanup Monitor in `load`,
    two overlapping requests (`overlap`), and `MemcachedSession` as a store that expires entries by
    itself (`memStep`: the RAM transitions on the store swept with `expiry ≤ now`).
  Not modelled: locks (C13), the Monitor thread itself (the harness calls the callback the code
    registered), aliasing of `RamSession`'s cached dict with the request's `_data` (observable only when
    a handler raises after writing: the generator does not do that on the RAM backend), the text of ids
    (an id is a `Nat`; the harness numbers real ids), `Session.regenerate()` called directly instead of
    through the tool (same store transition; its cookie is not compared).
  The real `_regenerate` loop does not terminate when the id source never yields an unused id;
  the model gives up after `|store| + 1` draws (status `diverged`), which cannot happen for an
  injective source (`CpProofs.C14.regen_total`).
-/
namespace CpModel.SessionStore

abbrev Id := Nat
abbrev Key := Nat
abbrev Val := Nat
/-- session contents: association list (a Python dict; observations are compared sorted). -/
abbrev Data := List (Key × Val)

/-- exception class raised by `pickle.load` on a damaged file. -/
inductive PExc where
  | eof | unpickling | other
  deriving DecidableEq, Repr, Inhabited

inductive Rec where
  | good (d : Data) (exp : Nat)
  | bad (e : PExc)
  deriving DecidableEq, Repr, Inhabited

abbrev Store := List (Id × Rec)

/-- The cookie-related arguments of `sessions.init` (tool configuration).  Names, paths and domains
    are indices into tables of the harness; path `0` is the default `'/'`. -/
structure CookieCfg where
  name : Nat := 0
  /-- `path` (a non-empty string) -/
  path : Option Nat := none
  /-- `request.headers.get(path_header)` when `path_header` is configured and the request carries a
      non-empty header of that name -/
  pathHeader : Option Nat := none
  domain : Option Nat := none
  secure : Bool := false
  httponly : Bool := false
  persistent : Bool := true
  deriving DecidableEq, Repr, Inhabited

structure Cfg where
  file : Bool
  timeout : Nat
  gen : Nat → Id
  /-- `true` = `Session.delete` as repaired in 8042c0e (forgets the request's copy). -/
  deleteForgets : Bool := true
  cookie : CookieCfg := {}

structure St where
  store : Store := []
  now : Nat := 0
  ctr : Nat := 0
  deriving Repr, Inhabited

/-! ### the store -/

def lookup : Store → Id → Option Rec
  | [], _ => none
  | (j, r) :: rest, i => if j = i then some r else lookup rest i

def erase : Store → Id → Store
  | [], _ => []
  | (j, r) :: rest, i => if j = i then erase rest i else (j, r) :: erase rest i

def upsert (s : Store) (i : Id) (r : Rec) : Store := (i, r) :: erase s i

def has (s : Store) (i : Id) : Bool := (lookup s i).isSome

/-! ### session contents -/

def dset (d : Data) (k : Key) (v : Val) : Data := (k, v) :: d.filter fun p => decide (p.1 ≠ k)
def ddel (d : Data) (k : Key) : Data := d.filter fun p => decide (p.1 ≠ k)

/-! ### one request -/

/-- The per-request `Session` object plus what the probe handler saw. -/
structure Sess where
  id : Id
  data : Data := []
  loaded : Bool := false
  cookieExpired : Bool := false
  reads : List Data := []
  /-- `Session.regenerated`: the application called `regenerate()` (the response cookie was then rebuilt
      by `SessionTool.regenerate`, see the cookie layer below) -/
  regenerated : Bool := false
  /-- what `len(cherrypy.session)` returned, call by call (not session data: kept apart from `reads`) -/
  lens : List Nat := []
  deriving Repr, Inhabited

inductive Status where
  | ok | err400 | err500 | diverged
  deriving DecidableEq, Repr, Inhabited

/-- The request cookie: absent, an id, or an id whose file path leaves the storage directory
    (`FileSession._get_file_path` → 400; for `RamSession` just an unknown id). -/
inductive Cookie where
  | none
  | id (c : Id)
  | escaping (c : Id)
  deriving DecidableEq, Repr, Inhabited

structure Resp where
  status : Status
  cookie : Option Id
  expired : Bool
  reads : List Data
  deriving DecidableEq, Repr, Inhabited

/-- `while self.id is None: self.id = self.generate_id(); if self._exists(): self.id = None`. -/
def regenLoop (gen : Nat → Id) (s : Store) : Nat → Nat → Option (Id × Nat)
  | 0, _ => none
  | f + 1, c => if has s (gen c) then regenLoop gen s f (c + 1) else some (gen c, c + 1)

def newId (cfg : Cfg) (st : St) : Option (Id × St) :=
  match regenLoop cfg.gen st.store (st.store.length + 1) st.ctr with
  | none => none
  | some (i, c) => some (i, { st with ctr := c })

/-- `Session.__init__` as called by `sessions.init` with the cookie value. -/
def initSess (cfg : Cfg) (st : St) : Cookie → Except Status (Sess × St)
  | .none =>
    match newId cfg st with
    | none => .error .diverged
    | some (i, st') => .ok ({ id := i }, st')
  | .id c =>
    if has st.store c then .ok ({ id := c }, st)
    else match newId cfg st with
      | none => .error .diverged
      | some (i, st') => .ok ({ id := i }, st')
  | .escaping c =>
    if cfg.file then .error .err400
    else if has st.store c then .ok ({ id := c }, st)
    else match newId cfg st with
      | none => .error .diverged
      | some (i, st') => .ok ({ id := i }, st')

/-- `Session.load`.  Since the F14d repair `_load` maps every exception of `pickle.load` (and a pickle
    of another shape) to "no session", so the result is never `none` any more. -/
def loadData (st : St) (i : Id) : Option Data :=
  match lookup st.store i with
  | none => some []
  | some (.good d e) => if e < st.now then some [] else some d
  | some (.bad _) => some []

def ensureLoaded (st : St) (s : Sess) : Option Sess :=
  if s.loaded then some s
  else match loadData st s.id with
    | none => none
    | some d => some { s with data := d, loaded := true }

/-- entries stored under key `k` (at most one) -/
def dget (d : Data) (k : Key) : Data := d.filter fun p => decide (p.1 = k)

/-- The rest of the dict interface (every method loads lazily, then works on `_data`).  The second
    component of `Acc.apply` is what the call lets the handler observe, as a `Data`:
    `get`/`__getitem__`: the entry (nothing = `None` / KeyError); `__contains__`, `__delitem__`:
    `(k, 1)` for True / deleted, nothing for False / KeyError; `pop(k)` without default: the entry
    (nothing = KeyError); `setdefault`: the entry now stored; `update`: nothing. -/
inductive Acc where
  | get (k : Key)
  | contains (k : Key)
  | setdefault (k : Key) (v : Val)
  | update (kvs : List (Key × Val))
  | popStrict (k : Key)
  | delitem (k : Key)
  deriving DecidableEq, Repr, Inhabited

def Acc.apply : Acc → Data → Data × Data
  | .get k, d => (d, dget d k)
  | .contains k, d => (d, (dget d k).map fun p => (p.1, 1))
  | .setdefault k v, d => if (dget d k).isEmpty then (dset d k v, [(k, v)]) else (d, dget d k)
  | .update kvs, d => (kvs.foldl (fun d p => dset d p.1 p.2) d, [])
  | .popStrict k, d => (ddel d k, dget d k)
  | .delitem k, d => (ddel d k, (dget d k).map fun p => (p.1, 1))

/-- can the call put data into the session? -/
def Acc.writes : Acc → Bool
  | .setdefault _ _ => true
  | .update _ => true
  | _ => false

inductive HOp where
  | read
  | write (k : Key) (v : Val)
  | delKey (k : Key)
  | clear
  | regenerate
  | delete
  | expire
  /-- another method of the dict interface -/
  | acc (a : Acc)
  /-- `len(cherrypy.session)`: the number of stored sessions (`len(cache)` / session files); does
      not load the session -/
  | len
  /-- the handler raises an unexpected exception here: 500, the `save` hook does not run -/
  | raise
  deriving DecidableEq, Repr, Inhabited

/-- can the statement put data into the session? -/
def HOp.writes : HOp → Bool
  | .write _ _ => true
  | .acc a => a.writes
  | _ => false

/-- result of one handler statement -/
inductive HRes where
  | ok (st : St) (s : Sess)
  | fail (status : Status) (st : St) (s : Sess)

def HRes.st : HRes → St
  | .ok st _ => st
  | .fail _ st _ => st

def HRes.sess : HRes → Sess
  | .ok _ s => s
  | .fail _ _ s => s

/-- the id a cookie names, if any -/
def Cookie.presented : Cookie → Option Id
  | .none => Option.none
  | .id c => some c
  | .escaping c => some c

def hop (cfg : Cfg) (st : St) (s : Sess) : HOp → HRes
  | .read =>
    match ensureLoaded st s with
    | none => .fail .err500 st s
    | some s' => .ok st { s' with reads := s'.reads ++ [s'.data] }
  | .write k v =>
    match ensureLoaded st s with
    | none => .fail .err500 st s
    | some s' => .ok st { s' with data := dset s'.data k v }
  | .delKey k =>
    match ensureLoaded st s with
    | none => .fail .err500 st s
    | some s' => .ok st { s' with data := ddel s'.data k }
  | .clear =>
    match ensureLoaded st s with
    | none => .fail .err500 st s
    | some s' => .ok st { s' with data := [] }
  | .regenerate =>
    let st1 := { st with store := erase st.store s.id }
    match newId cfg st1 with
    | none => .fail .diverged st1 s
    | some (i, st2) =>
      -- `set_response_cookie` rewrites `expires` only "if timeout:"
      .ok st2 { s with id := i, cookieExpired := s.cookieExpired && cfg.timeout == 0, regenerated := true }
  | .delete =>
    let st1 := { st with store := erase st.store s.id }
    if cfg.deleteForgets then .ok st1 { s with data := [], loaded := false } else .ok st1 s
  | .expire => .ok st { s with cookieExpired := true }
  | .acc a =>
    match ensureLoaded st s with
    | none => .fail .err500 st s
    | some s' => .ok st { s' with data := (a.apply s'.data).1, reads := s'.reads ++ [(a.apply s'.data).2] }
  | .len => .ok st { s with lens := s.lens ++ [st.store.length] }
  | .raise => .fail .err500 st s

def runHops (cfg : Cfg) : St → Sess → List HOp → HRes
  | st, s, [] => .ok st s
  | st, s, h :: hs =>
    match hop cfg st s h with
    | .ok st' s' => runHops cfg st' s' hs
    | .fail e st' s' => .fail e st' s'

/-- the `save` hook: `_save(now + timeout)` iff the session was loaded. -/
def saveSess (cfg : Cfg) (st : St) (s : Sess) : St :=
  if s.loaded then { st with store := upsert st.store s.id (.good s.data (st.now + cfg.timeout)) }
  else st

def request (cfg : Cfg) (st : St) (c : Cookie) (hops : List HOp) : St × Resp :=
  match initSess cfg st c with
  | .error e => (st, ⟨e, none, false, []⟩)
  | .ok (s0, st0) =>
    match runHops cfg st0 s0 hops with
    | .ok st1 s1 => (saveSess cfg st1 s1, ⟨.ok, some s1.id, s1.cookieExpired, s1.reads⟩)
    | .fail e st1 s1 => (st1, ⟨e, some s1.id, s1.cookieExpired, s1.reads⟩)

/-- `request`, also handing out the final `Session` object (for the cookie layer and `lens`). -/
def requestS (cfg : Cfg) (st : St) (c : Cookie) (hops : List HOp) : St × Resp × Option Sess :=
  match initSess cfg st c with
  | .error e => (st, ⟨e, none, false, []⟩, none)
  | .ok (s0, st0) =>
    match runHops cfg st0 s0 hops with
    | .ok st1 s1 => (saveSess cfg st1 s1, ⟨.ok, some s1.id, s1.cookieExpired, s1.reads⟩, some s1)
    | .fail e st1 s1 => (st1, ⟨e, some s1.id, s1.cookieExpired, s1.reads⟩, some s1)

/-! ### which cookie is presented

  `sessions.init`: `if name in request.cookie: id = request.cookie[name].value`.  `request.cookie` is
  an `http.cookies.SimpleCookie` loaded from the Cookie header: of several pairs with the same name
  the LAST one is kept; names are compared exactly.  A pair is `(name index, what its value names)`;
  the value is what `http.cookies` makes of the text (unquoting included) - that part is the
  library's and is taken from it by the harness. -/

def presentedOf (name : Nat) : List (Nat × Cookie) → Cookie
  | [] => .none
  | (n, c) :: rest =>
    match presentedOf name rest with
    | .none => if n = name then c else .none
    | later => later

/-! ### the response cookie

  `set_response_cookie` as called by `init` (all arguments; `timeout` only when `persistent`) and by
  `SessionTool.regenerate` (only `path, path_header, name, timeout, domain, secure`: `persistent` is NOT
  passed on - transcribed as it is).  The id observer's `cookie[name] = id` keeps the existing morsel
  (`SimpleCookie.__setitem__` re-uses it), so what `init` had set stays unless `regenerate` sets it
  again: `httponly` survives although it is not passed on, `max-age`/`expires` are set from the
  timeout even for `persistent = False`; `expire()` puts `expires` one year into the past and drops
  `max-age`.
  Times are in seconds since tick 0 (one tick = one minute). -/

structure CookieOut where
  name : Nat
  path : Nat
  maxAge : Option Nat
  expires : Option Int
  domain : Option Nat
  secure : Bool
  httponly : Bool
  deriving DecidableEq, Repr, Inhabited

def oneYear : Nat := 60 * 60 * 24 * 365

/-- `path or request.headers.get(path_header) or '/'` -/
def cookiePath (c : CookieCfg) : Nat :=
  match c.path with
  | some p => p
  | none => match c.pathHeader with
    | some p => p
    | none => 0

/-- `set_response_cookie(path, path_header, name, timeout, domain, secure, httponly)`; `timeout`
    `none` or `0` ("if timeout:") gives a cookie without `max-age` / `expires`. -/
def setResponseCookie (c : CookieCfg) (timeout : Option Nat) (httponly : Bool) (now : Nat) : CookieOut :=
  let t := timeout.getD 0
  { name := c.name, path := cookiePath c,
    maxAge := if t = 0 then none else some (t * 60),
    expires := if t = 0 then none else some ((now * 60 + t * 60 : Nat) : Int),
    domain := c.domain, secure := c.secure, httponly := httponly }

/-- the cookie `init` sets -/
def initCookie (cfg : Cfg) (now : Nat) : CookieOut :=
  setResponseCookie cfg.cookie (if cfg.cookie.persistent then some cfg.timeout else none)
    cfg.cookie.httponly now

/-- the cookie after `SessionTool.regenerate()` -/
def regenCookie (cfg : Cfg) (now : Nat) : CookieOut :=
  setResponseCookie cfg.cookie (some cfg.timeout) cfg.cookie.httponly now

/-- `expire()` -/
def expireCookie (c : CookieOut) (now : Nat) : CookieOut :=
  { c with expires := some ((now * 60 : Nat) - (oneYear : Nat) : Int), maxAge := none }

/-- attributes of the session cookie in the response, given the final `Session` object -/
def finalCookie (cfg : Cfg) (now : Nat) (s : Sess) : CookieOut :=
  let base := if s.regenerated then regenCookie cfg now else initCookie cfg now
  if s.cookieExpired then expireCookie base now else base

/-! ### the cleanup Monitor: started once per session class

  tail of `Session.load`: `if self.clean_freq and not cls.clean_thread:` start a
  `Monitor(engine, self.clean_up, self.clean_freq * 60)` and store it in the CLASS.  State: which
  classes have a Monitor, and with which period (seconds). -/

abbrev Monitors := List (Nat × Nat)

def monLookup : Monitors → Nat → Option Nat
  | [], _ => none
  | (c, f) :: rest, k => if c = k then some f else monLookup rest k

/-- one `load()` of an instance of class `cls` configured with `clean_freq`; the flag says a Monitor
    was started by this call -/
def loadMonitor (m : Monitors) (cls cleanFreq : Nat) : Monitors × Bool :=
  if cleanFreq ≠ 0 ∧ (monLookup m cls).isNone then ((cls, cleanFreq * 60) :: m, true) else (m, false)

def loadsMonitor : Monitors → List (Nat × Nat) → Monitors × Nat
  | m, [] => (m, 0)
  | m, (cls, f) :: rest =>
    let r := loadMonitor m cls f
    let rr := loadsMonitor r.1 rest
    (rr.1, (if r.2 then 1 else 0) + rr.2)

/-! ### two overlapping requests

  Request A is inside its handler (after `preA`) while request B runs from start to end; then A goes
  on with `postA` and is saved.  Feasible in the real code whenever B's session differs from A's
  (otherwise B waits for A's lock: C13).  `none` for A's final session = A ended before B started. -/
def overlap (cfg : Cfg) (st : St) (cA : Cookie) (preA postA : List HOp) (cB : Cookie) (hopsB : List HOp) :
    St × Resp × Resp :=
  match initSess cfg st cA with
  | .error e =>
    let rb := request cfg st cB hopsB
    (rb.1, ⟨e, none, false, []⟩, rb.2)
  | .ok (s0, st0) =>
    match runHops cfg st0 s0 preA with
    | .fail e st1 s1 =>
      let rb := request cfg st1 cB hopsB
      (rb.1, ⟨e, some s1.id, s1.cookieExpired, s1.reads⟩, rb.2)
    | .ok st1 s1 =>
      let rb := request cfg st1 cB hopsB
      match runHops cfg rb.1 s1 postA with
      | .ok st2 s2 => (saveSess cfg st2 s2, ⟨.ok, some s2.id, s2.cookieExpired, s2.reads⟩, rb.2)
      | .fail e st2 s2 => (st2, ⟨e, some s2.id, s2.cookieExpired, s2.reads⟩, rb.2)

/-! ### sweeps -/

/-- `RamSession.clean_up`: `if expiration_time <= now: del cache[id]`. -/
def sweepRam (now : Nat) : Store → Store
  | [] => []
  | (i, .good d e) :: rest => if e ≤ now then sweepRam now rest else (i, .good d e) :: sweepRam now rest
  | (i, .bad x) :: rest => (i, .bad x) :: sweepRam now rest

/-- `FileSession.clean_up` over the files in listing order; the flag says the loop was left by an
    exception (`_load` raised something it does not catch: impossible since the F14d repair). -/
def sweepFile (now : Nat) : Store → Store × Bool
  | [] => ([], false)
  | (i, .good d e) :: rest =>
    let r := sweepFile now rest
    (if e < now then r.1 else (i, .good d e) :: r.1, r.2)
  | (i, .bad e) :: rest =>
    let r := sweepFile now rest
    ((i, .bad e) :: r.1, r.2)

/-! ### histories -/

inductive Op where
  | req (c : Cookie) (hops : List HOp)
  | advance (d : Nat)
  | sweep
  /-- environment: the file of session `i` is left damaged (crash during save / corruption). -/
  | tear (i : Id) (e : PExc)
  deriving Repr, Inhabited

inductive Out where
  | resp (r : Resp)
  | done
  | sweepAborted
  deriving DecidableEq, Repr, Inhabited

def step (cfg : Cfg) (st : St) : Op → St × Out
  | .req c hops => let r := request cfg st c hops; (r.1, .resp r.2)
  | .advance d => ({ st with now := st.now + d }, .done)
  | .sweep =>
    if cfg.file then
      let r := sweepFile st.now st.store
      ({ st with store := r.1 }, if r.2 then .sweepAborted else .done)
    else ({ st with store := sweepRam st.now st.store }, .done)
  | .tear i e =>
    if cfg.file && has st.store i then ({ st with store := upsert st.store i (.bad e) }, .done)
    else (st, .done)

def run (cfg : Cfg) : St → List Op → St × List Out
  | st, [] => (st, [])
  | st, o :: os =>
    let r := step cfg st o
    let rr := run cfg r.1 os
    (rr.1, r.2 :: rr.2)

/-- final state of a history -/
def runSt (cfg : Cfg) (st : St) (ops : List Op) : St := (run cfg st ops).1

/-! ### a sweep while a request is inside its handler

  The request has run `pre` and holds its session's lock; the sweep runs; the request goes on with
  `post` and is saved.  `RamSession.clean_up` takes no session lock: it drops the expired entries right
  away (the request re-creates its own on save).  `FileSession.clean_up` waits at the file of the locked
  session and handles it after the request; as its test (`expiry < now`) is the one `load` uses and the
  clock stands still, that gives what a sweep of all files in the middle gives (`C14_boundary_file`). -/
def sweepDuring (cfg : Cfg) (st : St) (c : Cookie) (pre post : List HOp) : St × Resp × Option Sess :=
  match initSess cfg st c with
  | .error e => ((step cfg st .sweep).1, ⟨e, none, false, []⟩, none)
  | .ok (s0, st0) =>
    match runHops cfg st0 s0 pre with
    | .fail e st1 s1 => ((step cfg st1 .sweep).1, ⟨e, some s1.id, s1.cookieExpired, s1.reads⟩, some s1)
    | .ok st1 s1 =>
      match runHops cfg (step cfg st1 .sweep).1 s1 post with
      | .ok st2 s2 => (saveSess cfg st2 s2, ⟨.ok, some s2.id, s2.cookieExpired, s2.reads⟩, some s2)
      | .fail e st2 s2 => (st2, ⟨e, some s2.id, s2.cookieExpired, s2.reads⟩, some s2)

/-! ### a self-expiring store (MemcachedSession)

  `MemcachedSession` keeps `(data, expiration_time)` under the id with the expiration time also
  handed to memcached (`cache.set(id, value, unix time)`): the server stops returning the entry once
  `expiration_time ≤ now`.  There is no sweep (`clean_up` is the inherited no-op) and `_exists`,
  `_load`, `_save`, `_delete` are `get` / `get` / `set` / `delete`, exactly the RAM backend's dict
  operations.  So a memcached history is a RAM history in which the store is swept
  (`sweepRam`: `expiry ≤ now`) before every operation: `memStep`, `memRun_eq_run` in the proofs. -/

def memView (st : St) : St := { st with store := sweepRam st.now st.store }

def memStep (cfg : Cfg) (st : St) (op : Op) : St × Out := step cfg (memView st) op

def memRun (cfg : Cfg) : St → List Op → St × List Out
  | st, [] => (st, [])
  | st, o :: os =>
    let r := memStep cfg st o
    let rr := memRun cfg r.1 os
    (rr.1, r.2 :: rr.2)

def memRunSt (cfg : Cfg) (st : St) (ops : List Op) : St := (memRun cfg st ops).1

/-- the same history with the implicit expiry made explicit -/
def withSweeps : List Op → List Op
  | [] => []
  | o :: os => .sweep :: o :: withSweeps os

/-! ### pickle as a parameter -/

abbrev Bytes := List UInt8

inductive PRes (α : Type) where
  | ok (x : α)
  | exc (e : PExc)

/-- `pickle.dumps` / `pickle.load` for payloads of type `α`. -/
structure Pickle (α : Type) where
  dumps : α → Bytes
  loads : Bytes → PRes α

/-- The contract the harness measures on every run over every truncation offset of real saved
    files, for the set `S` of values that get saved: a complete pickle loads back; a proper prefix
    raises only EOFError or UnpicklingError. -/
structure Pickle.Contract {α : Type} (P : Pickle α) (S : α → Prop) : Prop where
  roundtrip : ∀ x, S x → P.loads (P.dumps x) = .ok x
  truncated : ∀ x, S x → ∀ n, n < (P.dumps x).length →
    P.loads ((P.dumps x).take n) = .exc .eof ∨ P.loads ((P.dumps x).take n) = .exc .unpickling

/-- what `FileSession._load` + the unpacking in `load`/`clean_up` make of the file content. -/
def fileRec (P : Pickle (Data × Nat)) (b : Bytes) : Rec :=
  match P.loads b with
  | .ok (d, e) => .good d e
  | .exc e => .bad e

end CpModel.SessionStore
