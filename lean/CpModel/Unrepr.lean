import CpModel.Gen.C08Tables
/-!
  Model of `cherrypy.lib.reprconf.unrepr` / `_Builder` (C08, INI values).  Core Lean only.

  * `PyAst`: the AST node classes CPython's parser produces for literal-like expressions;
  * `build tbl env`: `_Builder.build` — a node is evaluated only if `build_<Class>` exists, i.e. its class
    name is in `tbl` (the table regenerated from the live class, `Gen.C08.builderNodes`); operators are
    nodes too (`build_USub`, `build_Add`, …); anything else → `TypeError('unrepr does not recognize …')`;
  * `PyVal`: the literal values; numbers are exact: `int i`, `float m` and `complex re im` with `m`, `re`,
    `im` in thousandths (the harness generates decimals with ≤ 3 places; signed zeros are excluded);
    `obj path` is the module / builtin / attribute a dotted name denotes, `env` lists the dotted paths
    that resolve (what `__import__`, `getattr(builtins, …)`, `getattr(parent, …)` answer);
  * `toAst v`: the AST of `repr(v)` (validated against `ast.parse(repr(v))` on every run).
  Not modelled: `Call`, `Subscript` evaluation (recognised by the builder, reported `notModelled`),
  `Mult` and `Add` on non-numbers, unhashable dict keys, the CPython parser itself.
-/
namespace CpModel.Unrepr

/-- `ast.Constant` payloads (numbers are non-negative in an AST; a sign is a `UnaryOp`). -/
inductive Lit where
  | none
  | bool (b : Bool)
  | int (n : Nat)
  /-- thousandths -/
  | float (m : Nat)
  /-- `<m/1000>j` -/
  | imag (m : Nat)
  | str (s : List Char)
  | bytes (s : List Char)
  deriving DecidableEq, Repr, Inhabited

inductive UOp where
  | usub | uadd | not | invert
  deriving DecidableEq, Repr, Inhabited

inductive BOp where
  | add | sub | mult | div
  deriving DecidableEq, Repr, Inhabited

inductive PyAst where
  | const (l : Lit)
  | list (xs : List PyAst)
  | tuple (xs : List PyAst)
  | set (xs : List PyAst)
  /-- keys and values alternating: k₁, v₁, k₂, v₂, … (the evaluation order of `build_Dict`) -/
  | dict (kvs : List PyAst)
  | unary (op : UOp) (e : PyAst)
  | bin (l : PyAst) (op : BOp) (r : PyAst)
  | name (id : List Char)
  | attr (e : PyAst) (a : List Char)
  /-- `Call` / `Subscript`: recognised by the builder, evaluation not modelled -/
  | call (f : PyAst) (args : List PyAst)
  /-- any other node class, by its class name -/
  | other (cls : String)
  deriving Repr, Inhabited

inductive PyVal where
  | none
  | bool (b : Bool)
  | int (i : Int)
  | float (m : Int)
  | complex (re im : Int)
  | str (s : List Char)
  | bytes (s : List Char)
  | list (xs : List PyVal)
  | tuple (xs : List PyVal)
  /-- keys and values alternating -/
  | dict (kvs : List PyVal)
  | obj (path : List (List Char))
  deriving Repr, Inhabited

inductive Err where
  /-- `TypeError('unrepr does not recognize <Class>')` -/
  | unrecognised (cls : String)
  /-- `TypeError('unrepr could not resolve the name …')` -/
  | unresolvedName
  | attributeError
  /-- the operator raised `TypeError` -/
  | typeError
  /-- outside the model (Call, Subscript, Mult, Add on sequences, attribute of a non-module) -/
  | notModelled
  deriving DecidableEq, Repr, Inhabited

def liveTable : List String := Gen.C08.builderNodes

def uopName : UOp → String
  | .usub => "USub" | .uadd => "UAdd" | .not => "Not" | .invert => "Invert"

def bopName : BOp → String
  | .add => "Add" | .sub => "Sub" | .mult => "Mult" | .div => "Div"

/-- number kinds, ordered by Python's coercion -/
inductive NK where
  | int | float | complex
  deriving DecidableEq, Repr, Inhabited

def NK.max : NK → NK → NK
  | .complex, _ => .complex
  | _, .complex => .complex
  | .float, _ => .float
  | _, .float => .float
  | .int, .int => .int

/-- kind, real part and imaginary part in thousandths -/
def num? : PyVal → Option (NK × Int × Int)
  | .int i => some (.int, i * 1000, 0)
  | .bool b => some (.int, if b then 1000 else 0, 0)
  | .float m => some (.float, m, 0)
  | .complex re im => some (.complex, re, im)
  | _ => none

def mkNum : NK → Int → Int → PyVal
  | .int, re, _ => .int (re / 1000)
  | .float, re, _ => .float re
  | .complex, re, im => .complex re im

/-- `operator.neg` -/
def negV (v : PyVal) : Except Err PyVal :=
  match num? v with
  | some (k, re, im) => .ok (mkNum k (-re) (-im))
  | none => .error .typeError

/-- `operator.add` / `operator.sub` on numbers -/
def arith (sub : Bool) (a b : PyVal) : Except Err PyVal :=
  match num? a, num? b with
  | some (k1, r1, i1), some (k2, r2, i2) =>
    .ok (if sub then mkNum (k1.max k2) (r1 - r2) (i1 - i2) else mkNum (k1.max k2) (r1 + r2) (i1 + i2))
  | _, _ => .error .notModelled

def litVal : Lit → PyVal
  | .none => .none
  | .bool b => .bool b
  | .int n => .int n
  | .float m => .float m
  | .imag m => .complex 0 m
  | .str s => .str s
  | .bytes s => .bytes s

def recog (tbl : List String) (cls : String) : Except Err Unit :=
  if tbl.contains cls then .ok () else .error (.unrecognised cls)

mutual
/-- `_Builder.build` -/
def build (tbl : List String) (env : List (List (List Char))) : PyAst → Except Err PyVal
  | .const l => do recog tbl "Constant"; pure (litVal l)
  | .list xs => do recog tbl "List"; pure (.list (← buildList tbl env xs))
  | .tuple xs => do recog tbl "Tuple"; pure (.tuple (← buildList tbl env xs))
  | .set _ => do recog tbl "Set"; .error .notModelled
  | .dict kvs => do recog tbl "Dict"; pure (.dict (← buildList tbl env kvs))
  | .unary op e => do
    recog tbl "UnaryOp"
    -- `op, operand = map(self.build, [o.op, o.operand])`
    recog tbl (uopName op)
    let v ← build tbl env e
    match op with
    | .usub => negV v
    | _ => .error .notModelled
  | .bin l op r => do
    recog tbl "BinOp"
    -- `left, op, right = map(self.build, [o.left, o.op, o.right])`
    let a ← build tbl env l
    recog tbl (bopName op)
    let b ← build tbl env r
    match op with
    | .add => arith false a b
    | .sub => arith true a b
    | _ => .error .notModelled
  | .name id => do
    recog tbl "Name"
    if id = "None".toList then pure .none
    else if id = "True".toList then pure (.bool true)
    else if id = "False".toList then pure (.bool false)
    else if env.contains [id] then pure (.obj [id])
    else .error .unresolvedName
  | .attr e a => do
    recog tbl "Attribute"
    match ← build tbl env e with
    | .obj p => if env.contains (p ++ [a]) then pure (.obj (p ++ [a])) else .error .attributeError
    | _ => .error .notModelled
  | .call _ _ => do recog tbl "Call"; .error .notModelled
  | .other cls => do recog tbl cls; .error .notModelled

def buildList (tbl : List String) (env : List (List (List Char))) : List PyAst → Except Err (List PyVal)
  | [] => pure []
  | x :: r => do
    let v ← build tbl env x
    let vs ← buildList tbl env r
    pure (v :: vs)
end

/-! ### the AST of `repr(v)` -/

def signed (neg : Bool) (a : PyAst) : PyAst := if neg then .unary .usub a else a

/-- a real number given in thousandths, as `repr` prints it inside a complex: `1` for 1.0, `1.5` else -/
def realAst (re : Int) : PyAst :=
  signed (re < 0)
    (if re % 1000 = 0 then .const (.int (re.natAbs / 1000)) else .const (.float re.natAbs))

def nameChain : List (List Char) → Option PyAst
  | [] => none
  | p :: rest => some (rest.foldl (fun acc a => .attr acc a) (.name p))

mutual
def toAst : PyVal → PyAst
  | .none => .const .none
  | .bool b => .const (.bool b)
  | .int i => signed (i < 0) (.const (.int i.natAbs))
  | .float m => signed (m < 0) (.const (.float m.natAbs))
  | .complex re im =>
    if re = 0 then signed (im < 0) (.const (.imag im.natAbs))
    else .bin (realAst re) (if im < 0 then .sub else .add) (.const (.imag im.natAbs))
  | .str s => .const (.str s)
  | .bytes s => .const (.bytes s)
  | .list xs => .list (toAstList xs)
  | .tuple xs => .tuple (toAstList xs)
  | .dict kvs => .dict (toAstList kvs)
  | .obj p => (nameChain p).getD (.other "Invalid")

def toAstList : List PyVal → List PyAst
  | [] => []
  | x :: r => toAst x :: toAstList r
end

end CpModel.Unrepr
