import CpModel.Gen.C08Tables
/-!
  Model of `cherrypy.lib.reprconf.unrepr` / `_Builder` (C08, INI values).  Core Lean only.

  * `PyAst`: the AST node classes CPython's parser produces for literal-like expressions;
  * `build tbl env`: `_Builder.build` — a node is evaluated only if `build_<Class>` exists, i.e. its class
    name is in `tbl` (the table regenerated from the live class, `Gen.C08.builderNodes`); operators are
    nodes too (`build_USub`, `build_Add`, …); anything else → `TypeError('unrepr does not recognize …')`;
  * `PyVal`: the literal values; numbers are exact: `int i`, `float m` and `complex re im` with `m`, `re`,
    `im` in thousandths (the harness generates decimals with ≤ 3 places; signed zeros are excluded);
    `obj path` is the module / builtin / attribute a dotted name denotes, `env` lists the dotted paths
    that resolve (what `__import__`, `getattr(builtins, …)`, `getattr(parent, …)` answer);
  * `toAst v`: the AST of `repr(v)` (validated against `ast.parse(repr(v))` on every run).
  * `Call`: `_build_call35` — positional arguments in order (a `*x` argument: see `starredSpreads`), keyword
    arguments in order: `name=value` sets (overwrites) the entry, `**mapping` adds only the keys not yet
    there and raises `TypeError` for a non-dict; the callee is whatever `build(o.func)` gives; calling a
    module / builtin / attribute is *symbolic* (`applied path args kwargs`: which function gets which
    arguments — the function's own behaviour is outside the model) except `dict`, `list`, `tuple`;
  * `Subscript` on lists / tuples / strings / bytes (int index, negative from the end) and dicts (str / int
    keys); slices are `ast.Slice` nodes the builder has no method for;
  * `BinOp`: `Add` / `Sub` on numbers, `Add` on two str / bytes / list / tuple, `Mult` on numbers and
    sequence × int; `UnaryOp`: `USub` on numbers; anything else raises `TypeError` as Python does.
  Not modelled (`notModelled`): operations on symbolic values, float products that are not decimals with 3
  places, complex products, mixed-kind dict keys, duplicate keys in a dict display, the CPython parser.
-/
namespace CpModel.Unrepr

/-- `ast.Constant` payloads (numbers are non-negative in an AST; a sign is a `UnaryOp`). -/
inductive Lit where
  | none
  | bool (b : Bool)
  | int (n : Nat)
  /-- thousandths -/
  | float (m : Nat)
  /-- `<m/1000>j` -/
  | imag (m : Nat)
  | str (s : List Char)
  | bytes (s : List Char)
  deriving DecidableEq, Repr, Inhabited

inductive UOp where
  | usub | uadd | not | invert
  deriving DecidableEq, Repr, Inhabited

inductive BOp where
  | add | sub | mult | div
  deriving DecidableEq, Repr, Inhabited

inductive PyAst where
  | const (l : Lit)
  | list (xs : List PyAst)
  | tuple (xs : List PyAst)
  | set (xs : List PyAst)
  /-- keys and values alternating: k₁, v₁, k₂, v₂, … (the evaluation order of `build_Dict`) -/
  | dict (kvs : List PyAst)
  | unary (op : UOp) (e : PyAst)
  | bin (l : PyAst) (op : BOp) (r : PyAst)
  | name (id : List Char)
  | attr (e : PyAst) (a : List Char)
  /-- `Call`: positional arguments (possibly `starred`), then `keyword` / `kwsplat` nodes -/
  | call (f : PyAst) (args : List PyAst)
  /-- `*e` among the positional arguments -/
  | starred (e : PyAst)
  /-- `name=e` -/
  | keyword (name : List Char) (e : PyAst)
  /-- `**e` -/
  | kwsplat (e : PyAst)
  /-- `v[i]` (`o.slice` is the index expression itself since Python 3.9) -/
  | subscript (v : PyAst) (i : PyAst)
  /-- any other node class, by its class name -/
  | other (cls : String)
  deriving Repr, Inhabited

inductive PyVal where
  | none
  | bool (b : Bool)
  | int (i : Int)
  | float (m : Int)
  | complex (re im : Int)
  | str (s : List Char)
  | bytes (s : List Char)
  | list (xs : List PyVal)
  | tuple (xs : List PyVal)
  /-- keys and values alternating -/
  | dict (kvs : List PyVal)
  | obj (path : List (List Char))
  /-- the result of calling the module attribute / builtin `path` with these arguments (kwargs: names as
      `str` and values alternating) -/
  | applied (path : List (List Char)) (args : List PyVal) (kwargs : List PyVal)
  deriving Repr, Inhabited

inductive Err where
  /-- `TypeError('unrepr does not recognize <Class>')` -/
  | unrecognised (cls : String)
  /-- `TypeError('unrepr could not resolve the name …')` -/
  | unresolvedName
  | attributeError
  /-- the operator raised `TypeError` -/
  | typeError
  | indexError
  | keyError
  /-- outside the model -/
  | notModelled
  deriving DecidableEq, Repr, Inhabited

def liveTable : List String := Gen.C08.builderNodes

/-- does a `*x` argument contribute its items (Python's meaning) or `x` itself as ONE argument?
    Measured on the live builder by `harness/c08.py tables()`. -/
def starredSpreads : Bool := Gen.C08.starredSpreads

def uopName : UOp → String
  | .usub => "USub" | .uadd => "UAdd" | .not => "Not" | .invert => "Invert"

def bopName : BOp → String
  | .add => "Add" | .sub => "Sub" | .mult => "Mult" | .div => "Div"

/-- number kinds, ordered by Python's coercion -/
inductive NK where
  | int | float | complex
  deriving DecidableEq, Repr, Inhabited

def NK.max : NK → NK → NK
  | .complex, _ => .complex
  | _, .complex => .complex
  | .float, _ => .float
  | _, .float => .float
  | .int, .int => .int

/-- kind, real part and imaginary part in thousandths -/
def num? : PyVal → Option (NK × Int × Int)
  | .int i => some (.int, i * 1000, 0)
  | .bool b => some (.int, if b then 1000 else 0, 0)
  | .float m => some (.float, m, 0)
  | .complex re im => some (.complex, re, im)
  | _ => none

def mkNum : NK → Int → Int → PyVal
  | .int, re, _ => .int (re / 1000)
  | .float, re, _ => .float re
  | .complex, re, im => .complex re im

/-- `operator.neg` -/
def symbolic : PyVal → Bool
  | .obj _ => true
  | .applied .. => true
  | _ => false

def negV (v : PyVal) : Except Err PyVal :=
  match num? v with
  | some (k, re, im) => .ok (mkNum k (-re) (-im))
  | none => if symbolic v then .error .notModelled else .error .typeError

/-- `operator.add` / `operator.sub` when not both operands are numbers -/
def nonNum (sub : Bool) (a b : PyVal) : Except Err PyVal :=
  if symbolic a || symbolic b then .error .notModelled
  else if sub then .error .typeError
  else match a, b with
    | .str x, .str y => .ok (.str (x ++ y))
    | .bytes x, .bytes y => .ok (.bytes (x ++ y))
    | .list x, .list y => .ok (.list (x ++ y))
    | .tuple x, .tuple y => .ok (.tuple (x ++ y))
    | _, _ => .error .typeError

/-- `operator.add` / `operator.sub` -/
def arith (sub : Bool) (a b : PyVal) : Except Err PyVal :=
  match num? a, num? b with
  | some (k1, r1, i1), some (k2, r2, i2) =>
    .ok (if sub then mkNum (k1.max k2) (r1 - r2) (i1 - i2) else mkNum (k1.max k2) (r1 + r2) (i1 + i2))
  | _, _ => nonNum sub a b

def repeatList {α : Type} (xs : List α) : Nat → List α
  | 0 => []
  | n + 1 => xs ++ repeatList xs n

/-- `seq * n` -/
def seqTimes (v : PyVal) (n : Int) : Option PyVal :=
  let k := n.toNat
  match v with
  | .str x => some (.str (repeatList x k))
  | .bytes x => some (.bytes (repeatList x k))
  | .list x => some (.list (repeatList x k))
  | .tuple x => some (.tuple (repeatList x k))
  | _ => none

/-- an operand usable as a repeat count (`int`, `bool`) -/
def asIndex : PyVal → Option Int
  | .int i => some i
  | .bool b => some (if b then 1 else 0)
  | _ => none

/-- `operator.mul` -/
def multV (a b : PyVal) : Except Err PyVal :=
  if symbolic a || symbolic b then .error .notModelled else
  match num? a, num? b with
  | some (k1, r1, i1), some (k2, r2, i2) =>
    if k1 = .complex ∨ k2 = .complex then
      (if i1 = 0 ∧ i2 = 0 then .error .notModelled else .error .notModelled)
    else if k1 = .int ∧ k2 = .int then .ok (.int ((r1 / 1000) * (r2 / 1000)))
    else if (r1 * r2) % 1000 = 0 then .ok (.float (r1 * r2 / 1000)) else .error .notModelled
  | _, _ =>
    match asIndex b, asIndex a with
    | some n, _ => match seqTimes a n with
      | some r => .ok r
      | none => .error .typeError
    | none, some n => match seqTimes b n with
      | some r => .ok r
      | none => .error .typeError
    | none, none => .error .typeError

/-! ### subscripts, dict construction, calls -/

/-- `seq[i]` position: negative from the end -/
def normIndex (len : Nat) (i : Int) : Option Nat :=
  if 0 ≤ i then (if i.toNat < len then some i.toNat else none)
  else if (-i).toNat ≤ len then some (len - (-i).toNat) else none

/-- keys the model compares: `str`, `bytes`, `int` (no `bool` / `float` mixing) -/
def keyEq : PyVal → PyVal → Option Bool
  | .str a, .str b => some (a == b)
  | .bytes a, .bytes b => some (a == b)
  | .int a, .int b => some (a == b)
  | .str _, .int _ => some false
  | .int _, .str _ => some false
  | .str _, .bytes _ => some false
  | .bytes _, .str _ => some false
  | .int _, .bytes _ => some false
  | .bytes _, .int _ => some false
  | _, _ => none

def unhashable : PyVal → Bool
  | .list _ => true
  | .dict _ => true
  | _ => false

/-- lookup in an alternating key/value list -/
def dictGet : List PyVal → PyVal → Except Err PyVal
  | k :: v :: rest, key =>
    match keyEq k key with
    | some true => .ok v
    | some false => dictGet rest key
    | none => .error .notModelled
  | _, _ => .error .keyError

/-- `d[k] = v` on an alternating key/value list (an existing key keeps its place) -/
def dictSet : List PyVal → PyVal → PyVal → Except Err (List PyVal)
  | k :: v :: rest, key, val =>
    match keyEq k key with
    | some true => .ok (k :: val :: rest)
    | some false => do let r ← dictSet rest key val; pure (k :: v :: r)
    | none => .error .notModelled
  | _, key, val => .ok [key, val]

def dictHas (d : List PyVal) (key : PyVal) : Except Err Bool :=
  match dictGet d key with
  | .ok _ => .ok true
  | .error .keyError => .ok false
  | .error e => .error e

/-- `v[i]` -/
def subscriptV (v i : PyVal) : Except Err PyVal :=
  if symbolic v || symbolic i then .error .notModelled else
  match v with
  | .dict kvs => if unhashable i then .error .typeError else dictGet kvs i
  | .list xs | .tuple xs =>
    match asIndex i with
    | some n => match normIndex xs.length n with
      | some k => match xs[k]? with
        | some x => .ok x
        | none => .error .indexError
      | none => .error .indexError
    | none => .error .typeError
  | .str s =>
    match asIndex i with
    | some n => match normIndex s.length n with
      | some k => match s[k]? with
        | some c => .ok (.str [c])
        | none => .error .indexError
      | none => .error .indexError
    | none => .error .typeError
  | .bytes s =>
    match asIndex i with
    | some n => match normIndex s.length n with
      | some k => match s[k]? with
        | some c => .ok (.int c.toNat)
        | none => .error .indexError
      | none => .error .indexError
    | none => .error .typeError
  | _ => .error .typeError

/-- keyword arguments while they are collected: name ↦ value, in first-insertion order -/
abbrev Kwargs := List (List Char × PyVal)

def kwHas (kw : Kwargs) (n : List Char) : Bool := kw.any (·.1 == n)

/-- `kwargs[name] = v` -/
def kwSet : Kwargs → List Char → PyVal → Kwargs
  | [], n, v => [(n, v)]
  | (k, x) :: rest, n, v => if k = n then (k, v) :: rest else (k, x) :: kwSet rest n v

/-- `for k, v in rst.items(): if k not in kwargs: kwargs[k] = v` (`rst` alternating; a key that is not a
    `str` makes the call itself raise TypeError: keywords must be strings) -/
def kwMerge : Kwargs → List PyVal → Kwargs × Bool
  | kw, .str n :: v :: rest => kwMerge (if kwHas kw n then kw else kw ++ [(n, v)]) rest
  | kw, _ :: _ :: rest => ((kwMerge kw rest).1, true)
  | kw, _ => (kw, false)

def kwFlat : Kwargs → List PyVal
  | [] => []
  | (n, v) :: rest => .str n :: v :: kwFlat rest

def itemsOf : PyVal → Option (List PyVal)
  | .list xs => some xs
  | .tuple xs => some xs
  | _ => none

def evens : List PyVal → List PyVal
  | k :: _ :: rest => k :: evens rest
  | _ => []

/-- what iterating over a value yields (`*x`, `list(x)`, `tuple(x)`) -/
def iterOf : PyVal → Option (List PyVal)
  | .list xs => some xs
  | .tuple xs => some xs
  | .str s => some (s.map fun c => .str [c])
  | .bytes s => some (s.map fun c => .int c.toNat)
  | .dict kvs => some (evens kvs)
  | _ => none

def pairsInto : List PyVal → List PyVal → Except Err (List PyVal)
  | d, [] => .ok d
  | d, p :: rest =>
    match itemsOf p with
    | some [k, v] => if unhashable k then .error .typeError else do
        let d' ← dictSet d k v
        pairsInto d' rest
    | _ => .error .notModelled

def kwInto : List PyVal → Kwargs → Except Err (List PyVal)
  | d, [] => .ok d
  | d, (n, v) :: rest => do
    let d' ← dictSet d (.str n) v
    kwInto d' rest

/-- `dict(*args, **kw)` -/
def applyDict (args : List PyVal) (kw : Kwargs) : Except Err PyVal :=
  match args with
  | [] => (kwInto [] kw).map .dict
  | [.dict kvs] => (kwInto kvs kw).map .dict
  | [a] =>
    match itemsOf a with
    | some ps =>
      match pairsInto [] ps with
      | .ok d => (kwInto d kw).map .dict
      | .error e => .error e
    | none => if symbolic a then .error .notModelled else .error .notModelled
  | _ => .error .typeError

/-- `list(*args, **kw)` / `tuple(*args, **kw)` -/
def applySeq (mk : List PyVal → PyVal) (args : List PyVal) (kw : Kwargs) : Except Err PyVal :=
  if !kw.isEmpty then .error .typeError else
  match args with
  | [] => .ok (mk [])
  | [a] =>
    match iterOf a with
    | some xs => .ok (mk xs)
    | none => if symbolic a then .error .notModelled else .error .typeError
  | _ => .error .typeError

/-- `callee(*args, **kwargs)` -/
def applyV (callee : PyVal) (args : List PyVal) (kw : Kwargs) : Except Err PyVal :=
  match callee with
  | .obj p =>
    if p = ["dict".toList] then applyDict args kw
    else if p = ["list".toList] then applySeq .list args kw
    else if p = ["tuple".toList] then applySeq .tuple args kw
    else .ok (.applied p args (kwFlat kw))
  | .applied .. => .error .notModelled
  | _ => .error .typeError

def litVal : Lit → PyVal
  | .none => .none
  | .bool b => .bool b
  | .int n => .int n
  | .float m => .float m
  | .imag m => .complex 0 m
  | .str s => .str s
  | .bytes s => .bytes s

/-- where `build_Name` finds a name -/
inductive Origin where
  /-- `None` / `True` / `False` -/
  | keyword
  /-- `modules(name)`: the import succeeded -/
  | module
  /-- `getattr(builtins, name)` -/
  | builtin
  deriving DecidableEq, Repr, Inhabited

/-- `build_Name`'s lookup order: the three keywords, then an importable module or package of that name,
    then a builtin, else `TypeError('unrepr could not resolve the name …')` -/
def nameOrigin (importable builtin : List Char → Bool) (id : List Char) : Option Origin :=
  if id = "None".toList ∨ id = "True".toList ∨ id = "False".toList then some .keyword
  else if importable id then some .module
  else if builtin id then some .builtin
  else none

def recog (tbl : List String) (cls : String) : Except Err Unit :=
  if tbl.contains cls then .ok () else .error (.unrecognised cls)

mutual
/-- `_Builder.build` -/
def build (tbl : List String) (env : List (List (List Char))) : PyAst → Except Err PyVal
  | .const l => do recog tbl "Constant"; pure (litVal l)
  | .list xs => do recog tbl "List"; pure (.list (← buildList tbl env xs))
  | .tuple xs => do recog tbl "Tuple"; pure (.tuple (← buildList tbl env xs))
  | .set _ => do recog tbl "Set"; .error .notModelled
  | .dict kvs => do recog tbl "Dict"; pure (.dict (← buildList tbl env kvs))
  | .unary op e => do
    recog tbl "UnaryOp"
    -- `op, operand = map(self.build, [o.op, o.operand])`
    recog tbl (uopName op)
    let v ← build tbl env e
    match op with
    | .usub => negV v
    | _ => .error .notModelled
  | .bin l op r => do
    recog tbl "BinOp"
    -- `left, op, right = map(self.build, [o.left, o.op, o.right])`
    let a ← build tbl env l
    recog tbl (bopName op)
    let b ← build tbl env r
    match op with
    | .add => arith false a b
    | .sub => arith true a b
    | _ => .error .notModelled
  | .name id => do
    recog tbl "Name"
    if id = "None".toList then pure .none
    else if id = "True".toList then pure (.bool true)
    else if id = "False".toList then pure (.bool false)
    else if env.contains [id] then pure (.obj [id])
    else .error .unresolvedName
  | .attr e a => do
    recog tbl "Attribute"
    match ← build tbl env e with
    | .obj p => if env.contains (p ++ [a]) then pure (.obj (p ++ [a])) else .error .attributeError
    | _ => .error .notModelled
  | .call f args => do
    recog tbl "Call"
    let callee ← build tbl env f
    let (pos, kw, bad) ← buildArgs tbl env args [] [] false
    if bad then .error .typeError else applyV callee pos kw
  | .subscript v i => do
    recog tbl "Subscript"
    let a ← build tbl env v
    let b ← build tbl env i
    subscriptV a b
  | .starred _ => do recog tbl "Starred"; .error .notModelled
  | .keyword _ _ => .error .notModelled
  | .kwsplat _ => .error .notModelled
  | .other cls => do recog tbl cls; .error .notModelled

/-- the two loops of `_build_call35`, left to right: positional arguments (`o.args`), then `o.keywords`;
    `bad`: a `**mapping` had a key that is not a `str` (the call itself raises TypeError then) -/
def buildArgs (tbl : List String) (env : List (List (List Char))) :
    List PyAst → List PyVal → Kwargs → Bool → Except Err (List PyVal × Kwargs × Bool)
  | [], pos, kw, bad => pure (pos, kw, bad)
  | .starred e :: r, pos, kw, bad => do
    let v ← build tbl env e
    if starredSpreads then
      match iterOf v with
      | some xs => buildArgs tbl env r (pos ++ xs) kw bad
      | none => if symbolic v then .error .notModelled else .error .typeError
    else buildArgs tbl env r (pos ++ [v]) kw bad
  | .keyword n e :: r, pos, kw, bad => do
    let v ← build tbl env e
    buildArgs tbl env r pos (kwSet kw n v) bad
  | .kwsplat e :: r, pos, kw, bad => do
    let v ← build tbl env e
    match v with
    | .dict kvs =>
      let (kw', bad') := kwMerge kw kvs
      buildArgs tbl env r pos kw' (bad || bad')
    | _ => if symbolic v then .error .notModelled else .error .typeError
  | x :: r, pos, kw, bad => do
    let v ← build tbl env x
    buildArgs tbl env r (pos ++ [v]) kw bad

def buildList (tbl : List String) (env : List (List (List Char))) : List PyAst → Except Err (List PyVal)
  | [] => pure []
  | x :: r => do
    let v ← build tbl env x
    let vs ← buildList tbl env r
    pure (v :: vs)
end

/-! ### the AST of `repr(v)` -/

def signed (neg : Bool) (a : PyAst) : PyAst := if neg then .unary .usub a else a

/-- a real number given in thousandths, as `repr` prints it inside a complex: `1` for 1.0, `1.5` else -/
def realAst (re : Int) : PyAst :=
  signed (re < 0)
    (if re % 1000 = 0 then .const (.int (re.natAbs / 1000)) else .const (.float re.natAbs))

def nameChain : List (List Char) → Option PyAst
  | [] => none
  | p :: rest => some (rest.foldl (fun acc a => .attr acc a) (.name p))

mutual
def toAst : PyVal → PyAst
  | .none => .const .none
  | .bool b => .const (.bool b)
  | .int i => signed (i < 0) (.const (.int i.natAbs))
  | .float m => signed (m < 0) (.const (.float m.natAbs))
  | .complex re im =>
    if re = 0 then signed (im < 0) (.const (.imag im.natAbs))
    else .bin (realAst re) (if im < 0 then .sub else .add) (.const (.imag im.natAbs))
  | .str s => .const (.str s)
  | .bytes s => .const (.bytes s)
  | .list xs => .list (toAstList xs)
  | .tuple xs => .tuple (toAstList xs)
  | .dict kvs => .dict (toAstList kvs)
  | .obj p => (nameChain p).getD (.other "Invalid")
  | .applied .. => .other "Applied"

def toAstList : List PyVal → List PyAst
  | [] => []
  | x :: r => toAst x :: toAstList r
end

end CpModel.Unrepr
