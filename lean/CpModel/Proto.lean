/-
  Line-protocol helpers shared by the drivers (core Lean only).
  A driver reads one case per line on stdin and prints exactly one canonical line per case.
  Input the driver cannot parse yields the literal line `bad-op` (the harness treats that as
  a harness error, never as agreement).
-/
namespace CpModel.Proto

def hexVal? (c : Char) : Option Nat :=
  if '0' ≤ c ∧ c ≤ '9' then some (c.toNat - '0'.toNat)
  else if 'a' ≤ c ∧ c ≤ 'f' then some (c.toNat - 'a'.toNat + 10)
  else if 'A' ≤ c ∧ c ≤ 'F' then some (c.toNat - 'A'.toNat + 10)
  else none

/-- Decode a hex string (`"-"` stands for the empty byte string) into bytes. -/
def unhex? (s : String) : Option (List UInt8) :=
  if s == "-" then some [] else
  let rec go : List Char → List UInt8 → Option (List UInt8)
    | [], acc => some acc.reverse
    | [_], _ => none
    | a :: b :: rest, acc =>
      match hexVal? a, hexVal? b with
      | some x, some y => go rest (UInt8.ofNat (x * 16 + y) :: acc)
      | _, _ => none
  go s.toList []

def hexDigit (n : Nat) : Char :=
  if n < 10 then Char.ofNat ('0'.toNat + n) else Char.ofNat ('a'.toNat + (n - 10))

/-- Encode bytes as lower-case hex (`"-"` for empty). -/
def hex (b : List UInt8) : String :=
  if b.isEmpty then "-" else
  String.ofList (b.flatMap fun x => [hexDigit (x.toNat / 16), hexDigit (x.toNat % 16)])

/-- Text travels as hex of its UTF-32 code points?  No: as `U+`-free decimal code points joined by `.`;
    `"-"` is the empty text. -/
def untext? (s : String) : Option (List Char) :=
  if s == "-" then some [] else
  (s.splitOn ".").mapM fun t => t.toNat?.map Char.ofNat

def text (cs : List Char) : String :=
  if cs.isEmpty then "-" else ".".intercalate (cs.map fun c => toString c.toNat)

def optNat? (s : String) : Option (Option Nat) :=
  if s == "N" then some none else s.toNat?.map some

def showOptNat : Option Nat → String
  | none => "N"
  | some n => toString n

def fields (line : String) : List String :=
  (line.trimAscii.toString.splitOn " ").filter (· ≠ "")

/-- Standard driver loop: `step` maps one input line to one output line. -/
partial def loop (h : IO.FS.Stream) (out : IO.FS.Stream) (step : String → String) : IO Unit := do
  let line ← h.getLine
  if line.isEmpty then
    out.flush
    return ()
  out.putStrLn (step line)
  loop h out step

def runDriver (step : String → String) : IO Unit := do
  loop (← IO.getStdin) (← IO.getStdout) step

end CpModel.Proto
