/-
  C10, config part: the effective configuration of a request and the long-lived config dicts it is merged from.
  Core Lean only.

  What is modelled (cherrypy/_cpdispatch.py `Dispatcher.find_handler` + its inner `set_conf`, without custom
  `_cp_dispatch` methods and without the `tools.staticdir.section` bookkeeping):

  * Long-lived dicts are CELLS WITH IDENTITY (`Cell`): the global `cherrypy.config`, every `_cp_config` dict
    hanging on the mounted tree (`cp i`: one cell per dict OBJECT - a class-level `_cp_config` shared by several
    instances, a function-level one shared by every path that reaches the function, the same root mounted in two
    applications are ONE cell each) and every section of an application's config (`sect i`).  The heap carries one
    level of contents: `Cell → (key → value?)`.
  * Dicts a request creates for itself (`nodeconf = {}`, `base = cherrypy.config.copy()`) are held BY VALUE
    (`Ref.own d`): nothing else can reach them.  Where the code binds a name to a long-lived dict instead of
    copying it, the model holds the cell BY IDENTITY (`Ref.shared c`) and every later `.update` writes into the
    heap.  Which of the two happens at the three merge sites (root `_cp_config`, node `_cp_config`, global config)
    is a TABLE (`Table`), regenerated on every run by an aliasing probe on the live code (write-journalling dicts
    as `_cp_config` / sections: is the dict merged into identical to any long-lived dict?).
  * `walk` transcribes the descent over the path (`getattr` chain, `None` once a name is missing, the section of
    `curpath` mixed in at every step even for missing nodes), `searchRev` the candidate search from the leaf upwards
    (an exposed `default` of a candidate wins and its `_cp_config` is inserted right after the candidate - by
    identity, read-only), `collapse` is `set_conf` (later entries override earlier ones).
  * A request may write into its `request.config` afterwards (`cfgWrite`).
-/
namespace CpModel.IsolationCfg

abbrev Dict := Nat → Option Nat

def Dict.empty : Dict := fun _ => none

/-- `d.update(e)` -/
def Dict.update (d e : Dict) : Dict := fun k =>
  match e k with
  | some v => some v
  | none => d k

def Dict.single (k v : Nat) : Dict := fun x => if x = k then some v else none

def Dict.ofList : List (Nat × Nat) → Dict
  | [] => Dict.empty
  | (k, v) :: r => (Dict.ofList r).update (Dict.single k v)

/-- Long-lived config dicts. -/
inductive Cell where
  | glob                -- cherrypy.config
  | cp (i : Nat)        -- a `_cp_config` dict object on the tree (class-, instance- or function-level)
  | sect (i : Nat)      -- one section of an application's config
  deriving DecidableEq, Repr, Inhabited

abbrev Heap := Cell → Dict

def hset (h : Heap) (c : Cell) (d : Dict) : Heap := fun x => if x = c then d else h x

/-- A dict as the running request holds it: its own fresh dict (by value), or a long-lived one (by identity). -/
inductive Ref where
  | own (d : Dict)
  | shared (c : Cell)

def Ref.get (h : Heap) : Ref → Dict
  | .own d => d
  | .shared c => h c

/-- `r.update(e)`: writes into whatever dict `r` denotes. -/
def Ref.upd (h : Heap) (r : Ref) (e : Dict) : Heap × Ref :=
  match r with
  | .own d => (h, .own (d.update e))
  | .shared c => (hset h c ((h c).update e), .shared c)

def Ref.isOwn : Ref → Bool
  | .own _ => true
  | .shared _ => false

inductive Mode where
  | copy | alias
  deriving DecidableEq, Repr, Inhabited

/-- How the three kinds of long-lived dicts enter the merge (measured on the live code). -/
structure Table where
  rootMode : Mode       -- root._cp_config
  nodeMode : Mode       -- node._cp_config on the way down
  globMode : Mode       -- cherrypy.config as the base of set_conf
  deriving DecidableEq, Repr, Inhabited

def Table.allCopy : Table := { rootMode := .copy, nodeMode := .copy, globMode := .copy }

def Table.good (t : Table) : Bool := t.rootMode = .copy && t.nodeMode = .copy && t.globMode = .copy

structure NodeInfo where
  cfg : Option Nat      -- its `_cp_config` cell, if it has one (`hasattr(node, '_cp_config')`)
  exposed : Bool
  dflt : Option Nat     -- the node its `default` attribute denotes
  deriving Repr, Inhabited

/-- What find_handler consults of one application. -/
structure Site where
  root : Nat
  info : Nat → NodeInfo
  child : Nat → Nat → Option Nat        -- getattr(node, name, None)
  sect : List Nat → Option Nat          -- section cell of `'/' + '/'.join(names)` (`[]` is `'/'`)
  index : Nat                           -- the name `index`

/-- `nodeconf = {}; if hasattr(node, '_cp_config'): nodeconf.update(node._cp_config)` - or, under `alias`,
    `nodeconf = node._cp_config`. -/
def startConf (m : Mode) (h : Heap) (cfg : Option Nat) : Ref :=
  match cfg, m with
  | none, _ => .own Dict.empty
  | some i, .copy => .own (Dict.empty.update (h (.cp i)))
  | some i, .alias => .shared (.cp i)

/-- `if curpath in app.config: nodeconf.update(app.config[curpath])` -/
def mixSection (site : Site) (h : Heap) (r : Ref) (path : List Nat) : Heap × Ref :=
  match site.sect path with
  | some s => r.upd h (h (.sect s))
  | none => (h, r)

structure Entry where
  node : Option Nat
  conf : Ref

/-- The descent: one trail entry per remaining name. -/
def walk (tbl : Table) (site : Site) : Heap → Option Nat → List Nat → List Nat → Heap × List Entry
  | h, _, _, [] => (h, [])
  | h, node, pre, name :: rest =>
    let sub := node.bind fun n => site.child n name
    let path := pre ++ [name]
    let r0 := startConf tbl.nodeMode h (sub.bind fun n => (site.info n).cfg)
    let hr := mixSection site h r0 path
    let he := walk tbl site hr.1 sub path rest
    (he.1, ⟨sub, hr.2⟩ :: he.2)

def dispatchTrail (tbl : Table) (site : Site) (h : Heap) (names : List Nat) : Heap × List Entry :=
  let r0 := startConf tbl.rootMode h (site.info site.root).cfg
  let hr := mixSection site h r0 []
  let he := walk tbl site hr.1 (some site.root) [] (names ++ [site.index])
  (he.1, ⟨some site.root, hr.2⟩ :: he.2)

/-- The candidate search over the REVERSED trail; `k` = number of entries after the candidate.  Result: where
    an exposed `default` handler's conf goes (after `k` entries from the end) and which node it is. -/
def searchRev (site : Site) : List Entry → Nat → Option (Nat × Nat)
  | [], _ => none
  | e :: es, k =>
    match e.node with
    | none => searchRev site es (k + 1)
    | some n =>
      match (site.info n).dflt with
      | some d =>
        if (site.info d).exposed then some (k, d)
        else if (site.info n).exposed then none else searchRev site es (k + 1)
      | none => if (site.info n).exposed then none else searchRev site es (k + 1)

/-- `conf = getattr(defhandler, '_cp_config', {})`: by identity. -/
def defaultConf (site : Site) (d : Nat) : Ref :=
  match (site.info d).cfg with
  | some i => .shared (.cp i)
  | none => .own Dict.empty

def withDefault (site : Site) (trail : List Entry) : List Entry :=
  match searchRev site trail.reverse 0 with
  | some (k, d) =>
    trail.take (trail.length - k) ++ [⟨some d, defaultConf site d⟩] ++ trail.drop (trail.length - k)
  | none => trail

/-- `base = cherrypy.config.copy()` - or `base = cherrypy.config` under `alias`. -/
def baseRef (m : Mode) (h : Heap) : Ref :=
  match m with
  | .copy => .own (h .glob)
  | .alias => .shared .glob

/-- `for name, obj, conf, segleft in object_trail: base.update(conf)` -/
def collapse : Heap → Ref → List Entry → Heap × Ref
  | h, base, [] => (h, base)
  | h, base, e :: es =>
    let hb := base.upd h (e.conf.get h)
    collapse hb.1 hb.2 es

/-- Serving the dispatch of one request: new heap and what `request.config` denotes. -/
def serve (tbl : Table) (site : Site) (h : Heap) (names : List Nat) : Heap × Ref :=
  let ht := dispatchTrail tbl site h names
  collapse ht.1 (baseRef tbl.globMode ht.1) (withDefault site ht.2)

/-- The effective configuration the request observes. -/
def effective (tbl : Table) (site : Site) (h : Heap) (names : List Nat) : Dict :=
  let s := serve tbl site h names
  s.2.get s.1

/-- `cherrypy.request.config[k] = v` for every pair, by the request itself. -/
def cfgWrites : Heap → Ref → List (Nat × Nat) → Heap × Ref
  | h, r, [] => (h, r)
  | h, r, (k, v) :: ws =>
    let hr := r.upd h (Dict.single k v)
    cfgWrites hr.1 hr.2 ws

/-- One request of a history: which application, which path, what it writes into its own config. -/
structure Req where
  site : Site
  names : List Nat
  writes : List (Nat × Nat)

/-- Serve a sequence of requests; the heap afterwards and what each observed at dispatch time. -/
def runReqs (tbl : Table) : Heap → List Req → Heap × List Dict
  | h, [] => (h, [])
  | h, r :: rs =>
    let s := serve tbl r.site h r.names
    let w := cfgWrites s.1 s.2 r.writes
    let rest := runReqs tbl w.1 rs
    (rest.1, s.2.get s.1 :: rest.2)

end CpModel.IsolationCfg
