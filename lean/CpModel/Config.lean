import CpModel.Dispatch
/-!
  Model of how the configuration in effect for a request comes about (C08).  Core Lean only.

  * a config dict is the ordered list of its `update`s (`Dispatch.Conf`); `cget` reads the last entry of a
    key, so `base.update(conf)` is list append (`get_append`);
  * `set_conf()` inside `Dispatcher.find_handler`: `base = cherrypy.config.copy()`, then for every entry
    of the (final) object trail `base.update(nodeconf)` and the `tools.staticdir.section` injection;
    the per-entry `nodeconf` (node `_cp_config`, then the application section of each path prefix consumed
    at that step; the `default` handler's `_cp_config` inserted after its owner) is built by
    `Dispatch.walkStep` / `Dispatch.insertDefault`;
  * `MethodDispatcher.__call__`: `request.config.update(func._cp_config)`;
  * `Application.find_config`: the upward walk over `path`, `rfind('/')` included;
  * `NamespaceSet.__call__` + `Toolbox.__enter__/__exit__` + `Tool._merged_args/_setup`: the `tools`
    bucket (split at the first dot), `request.toolmaps['tools']` (split at the next dot), a tool is set up
    iff `settings.get('on', False)` is truthy, with the settings minus `on` (and minus `priority`, which
    becomes the hook priority) as keyword arguments.
  Not modelled: the other namespaces (`hooks`, `request`, `response`, `error_page`), hook priorities,
  a `tools.<name>` key without argument part (`populate` raises ValueError; flagged by `toolmapError`),
  `Config._apply` environments, live objects as values.
-/
namespace CpModel.Config
open CpModel.Dispatch

/-- `d[k]` of the dict denoted by an update list: the last entry wins. -/
def cget : Conf → Name → Option Val
  | [], _ => none
  | (k', v) :: rest, k =>
    match cget rest k with
    | some x => some x
    | none => if k' = k then some v else none

def hasKey (c : Conf) (k : Name) : Bool := c.any (·.1 = k)

def staticdirDirKey : Name := "tools.staticdir.dir".toList
def staticdirSectionKey : Name := "tools.staticdir.section".toList

/-- One round of the `for name, obj, conf, segleft in object_trail:` loop of `set_conf`. -/
def setConfStep (fp : List Name) (base : Conf) (e : Entry) : Conf :=
  let base := base ++ e.conf
  if hasKey e.conf staticdirDirKey then
    base ++ [(staticdirSectionKey, .str ('/' :: joinSlash (fp.take (fp.length - e.segleft))))]
  else base

/-- `set_conf()`: `glob` is `cherrypy.config`. -/
def setConf (glob : Conf) (fp : List Name) (trail : List Entry) : Conf :=
  trail.foldl (setConfStep fp) glob

/-- `request.config` after the default dispatcher ran (an exception in `find_handler` leaves none). -/
def requestConfigWith (tr : Name → Name) (glob : Conf) (app : App) (path : List Char) : Except Err Conf :=
  match findHandlerWith tr app path with
  | .error e => .error e
  | .ok r => .ok (setConf glob (fullpathOf (segments path)) r.trail)

def requestConfig : Conf → App → List Char → Except Err Conf := requestConfigWith translate

/-- … and after the method dispatcher ran: the verb method's `_cp_config` on top. -/
def requestConfigMethod (glob : Conf) (app : App) (path : List Char) (meth : Name) : Except Err Conf :=
  match requestConfig glob app path with
  | .error e => .error e
  | .ok c => .ok (c ++ (methodDispatch app path meth).verbConf)

/-! ### `Application.find_config` -/

/-- `s.rfind('/')` -/
def rfindSlash (s : List Char) : Option Nat :=
  let rec go : List Char → Nat → Option Nat → Option Nat
    | [], _, acc => acc
    | c :: r, i, acc => go r (i + 1) (if c = '/' then some i else acc)
  go s 0 none

/-- The `while trail:` loop; every round shortens `trail`, so `fuel = len(trail) + 1` suffices. -/
def findConfigLoop (secs : List (List Char × Conf)) (key : Name) (dflt : Option Val) :
    Nat → List Char → Option Val
  | 0, _ => dflt
  | fuel + 1, trail =>
    if trail.isEmpty then dflt else
    match cget ((lookup secs trail).getD []) key with
    | some v => some v
    | none =>
      match rfindSlash trail with
      | none => dflt
      | some ls =>
        if ls = 0 ∧ trail ≠ ['/'] then findConfigLoop secs key dflt fuel ['/']
        else findConfigLoop secs key dflt fuel (trail.take ls)

/-- `app.find_config(path, key, default)` -/
def findConfig (secs : List (List Char × Conf)) (path : List Char) (key : Name) (dflt : Option Val) :
    Option Val :=
  let trail := if path.isEmpty then ['/'] else path
  findConfigLoop secs key dflt (trail.length + 1) trail

/-! ### namespaces and the toolbox -/

/-- `k.split('.', 1)` when `'.' in k` -/
def splitDot : Name → Option (Name × Name)
  | [] => none
  | c :: r =>
    if c = '.' then some ([], r)
    else match splitDot r with
      | some (a, b) => some (c :: a, b)
      | none => none

/-- first occurrences only (structural, so the kernel can evaluate it) -/
def dedup : List Name → List Name
  | [] => []
  | x :: r => x :: (dedup r).filter (· ≠ x)

/-- The dict itself: keys in first-insertion order, each with its final value. -/
def toDict (c : Conf) : Conf :=
  (dedup (c.map (·.1))).filterMap fun k => (cget c k).map fun v => (k, v)

/-- `ns_confs[ns]`: the entries of namespace `ns`, namespace removed. -/
def bucket (c : Conf) (ns : Name) : Conf :=
  (toDict c).filterMap fun (k, v) =>
    match splitDot k with
    | some (n, rest) => if n = ns then some (rest, v) else none
    | none => none

def toolsNs : Name := "tools".toList
def onName : Name := "on".toList
def priorityName : Name := "priority".toList

/-- Python truthiness of a config value. -/
def truthy : Val → Bool
  | .none => false
  | .bool b => b
  | .int n => n != 0
  | .str s => !s.isEmpty

/-- The settings of tool `t` inside a `tools` bucket. -/
def settingsOf (b : Conf) (t : Name) : Conf :=
  b.filterMap fun (k, v) =>
    match splitDot k with
    | some (t', a) => if t' = t then some (a, v) else none
    | none => none

/-- `request.toolmaps['tools']` as built by `Toolbox.__enter__`'s `populate`. -/
def toolmap (c : Conf) : List (Name × Conf) :=
  let b := bucket c toolsNs
  let names := dedup (b.filterMap fun (k, _) => (splitDot k).map (·.1))
  names.map fun t => (t, settingsOf b t)

/-- `populate` raises `ValueError` on a `tools.<name>` key without an argument part. -/
def toolmapError (c : Conf) : Bool :=
  (bucket c toolsNs).any fun (k, _) => (splitDot k).isNone

/-- `Toolbox.__exit__` + `Tool._setup` + `Tool._merged_args`: the tools that get wired in, each with
    the keyword arguments its callable will receive. -/
def toolsSetup (c : Conf) : List (Name × Conf) :=
  (toolmap c).filterMap fun (t, settings) =>
    if ((cget settings onName).map truthy).getD false then
      some (t, settings.filter fun (a, _) => a ≠ onName ∧ a ≠ priorityName)
    else none

/-! ### custom toolboxes (`Toolbox('myns')` registered in `app.toolboxes`) -/

/-- `request.toolmaps[ns]` as built by that toolbox's `populate` -/
def toolmapOf (ns : Name) (c : Conf) : List (Name × Conf) :=
  let b := bucket c ns
  let names := dedup (b.filterMap fun (k, _) => (splitDot k).map (·.1))
  names.map fun t => (t, settingsOf b t)

/-- A tool object reachable as attribute `name` of the toolbox `ns`; `home` is the namespace the tool itself
    carries (`Tool.namespace`: the toolbox it was attached to last — `Toolbox.__setattr__`). -/
structure BoxTool where
  ns : Name
  name : Name
  home : Name
  deriving Repr, Inhabited

/-- `Toolbox.__exit__` of toolbox `ns` for one of its tools: `settings.get('on', False)` of
    `toolmaps[ns][name]` decides; `Tool._setup` → `_merged_args` reads `toolmaps[tool.namespace][tool._name]`. -/
def boxToolSetup (c : Conf) (t : BoxTool) : Option Conf :=
  if ((cget (settingsOf (bucket c t.ns) t.name) onName).map truthy).getD false then
    some ((settingsOf (bucket c t.home) t.name).filter fun (a, _) => a ≠ onName ∧ a ≠ priorityName)
  else none

def boxToolsSetup (c : Conf) (ts : List BoxTool) : List (BoxTool × Conf) :=
  ts.filterMap fun t => (boxToolSetup c t).map fun kw => (t, kw)

/-- Is tool `t` set up for a request whose effective config is `c`? -/
def toolOn (c : Conf) (t : Name) : Bool :=
  (toolsSetup c).any (·.1 = t)

end CpModel.Config
