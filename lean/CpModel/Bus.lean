/-
  Model of `cherrypy.process.wspbus.Bus` (publish / start / stop / exit / restart / graceful /
  subscribe / unsubscribe), transcribed statement by statement.  Core Lean only.

  What is modelled
  * `listeners : channel → set(callback)` + `_priorities` as an association list
    `channel → List Listener` in subscription order.  Python iterates a `set`, so the order
    inside a priority tie is arbitrary in the code; the model uses subscription order and the
    harness compares journals modulo order inside a tie group.
  * a listener = identity + priority + a finite script: re-entrant actions (subscribe,
    unsubscribe, publish) followed by an outcome (return / raise Exception / SystemExit code /
    KeyboardInterrupt).
  * `Bus.log` = `publish('log', …)`; a failing log listener therefore makes *every* `self.log`
    call raise `ChannelFailures`, exactly as in the code.
  * `os._exit(70)` is the terminal result `procExit 70`.
  Not modelled: `atexit`, `block`/`wait` (C20), `execv`, the log message text.
-/
namespace CpModel.Bus

/-- Channels: the six built-in ones plus any number of custom ones. -/
inductive Chan where
  | start | stop | exit | graceful | log | main
  | custom (n : Nat)
  deriving DecidableEq, Repr, Inhabited

inductive St where
  | stopped | starting | started | stopping | exiting
  deriving DecidableEq, Repr, Inhabited

/-- How a listener call ends. -/
inductive Out where
  | ok | raise | sysExit (code : Nat) | kbdInt
  deriving DecidableEq, Repr, Inhabited

/-- The lifecycle methods of the bus. -/
inductive Meth where
  | start | stop | exit | restart | graceful
  deriving DecidableEq, Repr, Inhabited

/-- Re-entrant actions a listener performs on the bus before it ends.  `call m` (a listener
    calling `bus.start()/stop()/exit()/restart()/graceful()`) is interpreted by the second
    generation model (`publishX` …, below) only; the first generation (`publish`) is the
    call-free fragment and answers `outOfFuel` ("outside the fragment") for it. -/
inductive Act where
  | sub (ch : Chan) (id prio : Nat) (out : Out)
  | unsub (ch : Chan) (id : Nat)
  | pub (ch : Chan)
  | call (m : Meth)
  deriving DecidableEq, Repr, Inhabited

structure Listener where
  id : Nat
  prio : Nat
  acts : List Act
  out : Out
  deriving DecidableEq, Repr, Inhabited

/-- Python exceptions that can leave a bus method. `chanFail ids` = `ChannelFailures` carrying
    the failures of the listeners `ids` (in invocation order). -/
inductive Exc where
  | chanFail (ids : List Nat)
  | sysExit (code : Nat)
  | kbdInt
  | outOfFuel            -- model artefact: re-entrancy deeper than the fuel; never compared
  deriving DecidableEq, Repr, Inhabited

/-- Result of a bus method call. -/
inductive Res where
  | ret
  | exc (e : Exc)
  | procExit (code : Nat)
  deriving DecidableEq, Repr, Inhabited

structure Entry where
  ch : Chan
  id : Nat
  st : St
  prio : Nat
  deriving DecidableEq, Repr, Inhabited

structure Bus where
  state : St := .stopped
  execv : Bool := false
  chans : List (Chan × List Listener) := []
  deriving Repr, Inhabited

/-- World = bus + journal of listener invocations (most recent last). -/
structure W where
  bus : Bus
  j : List Entry := []
  deriving Repr, Inhabited

def builtinChannels : List Chan := [.start, .stop, .exit, .graceful, .log, .main]

def Bus.init : Bus := { chans := builtinChannels.map fun c => (c, []) }

def lookup (chans : List (Chan × List Listener)) (ch : Chan) : Option (List Listener) :=
  match chans with
  | [] => none
  | (c, ls) :: rest => if c = ch then some ls else lookup rest ch

def setChan (chans : List (Chan × List Listener)) (ch : Chan) (ls : List Listener) :
    List (Chan × List Listener) :=
  match chans with
  | [] => [(ch, ls)]
  | (c, old) :: rest => if c = ch then (c, ls) :: rest else (c, old) :: setChan rest ch ls

/-- `subscribe`: add (if absent) and (always) overwrite the priority. -/
def subscribe (b : Bus) (ch : Chan) (l : Listener) : Bus :=
  let ls := (lookup b.chans ch).getD []
  let ls' := if ls.any (·.id = l.id) then ls.map (fun x => if x.id = l.id then { x with prio := l.prio } else x)
             else ls ++ [l]
  { b with chans := setChan b.chans ch ls' }

/-- `unsubscribe`: discard if present. -/
def unsubscribe (b : Bus) (ch : Chan) (id : Nat) : Bus :=
  match lookup b.chans ch with
  | none => b
  | some ls => if ls.any (·.id = id) then { b with chans := setChan b.chans ch (ls.filter (·.id ≠ id)) } else b

/-- insert `l` *before* equal priorities (it came first in the input). -/
def insertByPrio (l : Listener) : List Listener → List Listener
  | [] => [l]
  | y :: ys => if l.prio ≤ y.prio then l :: y :: ys else y :: insertByPrio l ys

/-- `sorted(items, key=priority)`: stable insertion sort, structural so it reduces in the kernel. -/
def sortByPrio : List Listener → List Listener
  | [] => []
  | x :: xs => insertByPrio x (sortByPrio xs)

/-- The SystemExit code fix-up in `publish`: `if exc and e.code == 0: e.code = 1`. -/
def fixCode (fails : List Nat) (code : Nat) : Nat :=
  if !fails.isEmpty && code == 0 then 1 else code

/-- A publish function for nested (re-entrant) use: open recursion keeps every definition
    structural (on `acts`, on `items`, on the fuel), so the kernel can evaluate the model. -/
abbrev Pub := W → Chan → W × Option Exc

/-- The re-entrant part of a listener's script. -/
def runActs (pub : Pub) (w : W) : List Act → W × Option Exc
  | [] => (w, none)
  | .sub ch id prio out :: rest =>
    runActs pub { w with bus := subscribe w.bus ch ⟨id, prio, [], out⟩ } rest
  | .unsub ch id :: rest =>
    runActs pub { w with bus := unsubscribe w.bus ch id } rest
  | .pub ch :: rest =>
    match pub w ch with
    | (w', none) => runActs pub w' rest
    | (w', some e) => (w', some e)
  | .call _ :: _ => (w, some .outOfFuel)

/-- `except Exception:` branch of the publish loop: log unless the channel is `log`.
    Returns `some e` when `self.log` itself raised (that exception leaves `publish` at once). -/
def logFailure (pub : Pub) (ch : Chan) (w : W) : W × Option Exc :=
  if ch = .log then (w, none) else pub w .log

/-- The whole `except Exception:` branch: log, then continue with `k` unless logging raised. -/
def raised (pub : Pub) (ch : Chan) (w : W) (k : W → W × Option Exc) : W × Option Exc :=
  match logFailure pub ch w with
  | (w3, none) => k w3
  | (w3, some e) => (w3, some e)

/-- The `for priority, listener in items:` loop; `fails` = failures collected so far. -/
def pubLoop (pub : Pub) (ch : Chan) : List Listener → W → List Nat → W × Option Exc
  | [], w, fails => (w, if fails.isEmpty then none else some (.chanFail fails))
  | l :: rest, w, fails =>
    let w1 : W := { w with j := w.j ++ [⟨ch, l.id, w.bus.state, l.prio⟩] }
    let (w2, r) := runActs pub w1 l.acts
    -- how the listener call ended: nested ChannelFailures is an ordinary Exception
    let ended : Out ⊕ Exc :=
      match r with
      | some (.chanFail _) => .inl .raise
      | some (.sysExit c) => .inl (.sysExit c)
      | some .kbdInt => .inl .kbdInt
      | some .outOfFuel => .inr .outOfFuel
      | none => .inl l.out
    match ended with
    | .inr e => (w2, some e)
    | .inl .ok => pubLoop pub ch rest w2 fails
    | .inl .kbdInt => (w2, some .kbdInt)
    | .inl (.sysExit c) => (w2, some (.sysExit (fixCode fails c)))
    | .inl .raise => raised pub ch w2 (fun w3 => pubLoop pub ch rest w3 (fails ++ [l.id]))

/-- `Bus.publish(channel)`.  Returns the new world and `none` (returned) or the exception.
    `fuel` bounds the re-entrancy depth (listener → publish → listener …). -/
def publish : Nat → Pub
  | 0 => fun w _ => (w, some .outOfFuel)
  | fuel + 1 => fun w ch =>
    match lookup w.bus.chans ch with
    | none => (w, none)
    | some ls => pubLoop (publish fuel) ch (sortByPrio ls) w []

def log (fuel : Nat) (w : W) : W × Option Exc := publish fuel w .log

def setState (w : W) (s : St) : W := { w with bus := { w.bus with state := s } }

/-- `Bus.stop`. -/
def stop (fuel : Nat) (w : W) : W × Option Exc :=
  let w := setState w .stopping
  match log fuel w with
  | (w, some e) => (w, some e)
  | (w, none) =>
  match publish fuel w .stop with
  | (w, some e) => (w, some e)
  | (w, none) =>
  let w := setState w .stopped
  log fuel w

def isException : Exc → Bool
  | .chanFail _ => true
  | .outOfFuel => true   -- RecursionError is an Exception
  | _ => false

/-- `Bus.exit`. -/
def exit (fuel : Nat) (w : W) : W × Res :=
  let exitstate := w.bus.state
  -- try:
  let body : W × Option Exc :=
    match stop fuel w with
    | (w, some e) => (w, some e)
    | (w, none) =>
    let w := setState w .exiting
    match log fuel w with
    | (w, some e) => (w, some e)
    | (w, none) =>
    match publish fuel w .exit with
    | (w, some e) => (w, some e)
    | (w, none) => log fuel w
  match body with
  | (w, some e) => if isException e then (w, .procExit 70) else (w, .exc e)
  | (w, none) => if exitstate = .starting then (w, .procExit 70) else (w, .ret)

/-- `Bus.start`. -/
def start (fuel : Nat) (w : W) : W × Res :=
  let w := setState w .starting
  match log fuel w with
  | (w, some e) => (w, .exc e)
  | (w, none) =>
  -- try: publish('start'); state = STARTED; log
  let body : W × Option Exc :=
    match publish fuel w .start with
    | (w, some e) => (w, some e)
    | (w, none) => log fuel (setState w .started)
  match body with
  | (w, none) => (w, .ret)
  | (w, some e) =>
    if !isException e then (w, .exc e) else
    -- except Exception: log; try: self.exit() except Exception: pass; raise e_info
    match log fuel w with
    | (w, some e') => (w, .exc e')
    | (w, none) =>
    match exit fuel w with
    | (w, .procExit c) => (w, .procExit c)
    | (w, .exc e') => (w, .exc e')     -- only SystemExit / KeyboardInterrupt leave `exit`
    | (w, .ret) => (w, .exc e)

/-- `Bus.restart`. -/
def restart (fuel : Nat) (w : W) : W × Res :=
  exit fuel { w with bus := { w.bus with execv := true } }

/-- `Bus.graceful`. -/
def graceful (fuel : Nat) (w : W) : W × Res :=
  match log fuel w with
  | (w, some e) => (w, .exc e)
  | (w, none) =>
  match publish fuel w .graceful with
  | (w, some e) => (w, .exc e)
  | (w, none) => (w, .ret)

/-- Calls the harness (or an application) makes on the bus. -/
inductive Call where
  | start | stop | exit | restart | graceful
  | publish (ch : Chan)
  | subscribe (ch : Chan) (l : Listener)
  | unsubscribe (ch : Chan) (id : Nat)
  deriving Repr, Inhabited

def optToRes : W × Option Exc → W × Res
  | (w, none) => (w, .ret)
  | (w, some e) => (w, .exc e)

def call (fuel : Nat) (w : W) : Call → W × Res
  | .start => start fuel w
  | .stop => optToRes (stop fuel w)
  | .exit => exit fuel w
  | .restart => restart fuel w
  | .graceful => graceful fuel w
  | .publish ch => optToRes (publish fuel w ch)
  | .subscribe ch l => ({ w with bus := subscribe w.bus ch l }, .ret)
  | .unsubscribe ch id => ({ w with bus := unsubscribe w.bus ch id }, .ret)

/-- Run a call sequence; a `procExit` ends the process, so later calls do not happen. -/
def runCalls (fuel : Nat) (w : W) : List Call → W × List Res
  | [] => (w, [])
  | c :: cs =>
    match call fuel w c with
    | (w', .procExit k) => (w', [.procExit k])
    | (w', r) =>
      let (w'', rs) := runCalls fuel w' cs
      (w'', r :: rs)

/-! ## Second generation: re-entrant lifecycle calls, nesting depth, state trace, atexit, wait/block

  Everything above is the call-free fragment (listeners re-enter through subscribe / unsubscribe /
  publish only).  Below, a listener may also call `start/stop/exit/restart/graceful` on the bus
  (`Act.call`), every invocation is journalled with its publish-nesting depth, every assignment to
  `self.state` is recorded in `tr`, `start()` registers `_clean_exit` with `atexit`, and the
  single-threaded state logic of `wait` / `block` / `start_with_callback` / `_do_execv` is modelled
  (sleep outcomes are a fault plan; `os.execv`, `os._exit`, and a poll loop that never ends are
  terminal outcomes).  The driver runs THIS model; `CpProofs.C18X.conservative` shows it agrees
  with the first generation on call-free scripts. -/

structure XEntry where
  ch : Chan
  id : Nat
  st : St
  prio : Nat
  depth : Nat
  deriving DecidableEq, Repr, Inhabited

/-- What can leave a bus method.  The last four never return to any Python frame of the bus
    (`os._exit`, `os.execv`, an endless poll loop, model fuel exhausted). -/
inductive XExc where
  | chanFail (ids : List Nat)
  | sysExit (code : Nat)
  | kbdInt
  | ioErr                 -- `IOError` out of `time.sleep` (only `wait` produces it)
  | procExit (code : Nat)
  | execv
  | hang
  | outOfFuel
  deriving DecidableEq, Repr, Inhabited

/-- `isinstance(e, Exception)`: what `except Exception:` catches. -/
def XExc.caught : XExc → Bool
  | .chanFail _ => true
  | .ioErr => true
  | _ => false

/-- The process (or the model) is gone: no later call happens. -/
def XExc.terminal : XExc → Bool
  | .procExit _ => true
  | .execv => true
  | .hang => true
  | .outOfFuel => true
  | _ => false

abbrev XO := Option XExc

structure XW where
  bus : Bus
  j : List XEntry := []
  depth : Nat := 0            -- number of `publish` frames on the Python stack
  tr : List St := []          -- every value assigned to `self.state`, in order
  atexit : Nat := 0           -- `_clean_exit` handlers registered so far
  warns : Nat := 0            -- RuntimeWarnings issued by `_clean_exit`
  deriving Repr, Inhabited

abbrev XPub := XW → Chan → XW × XO

/-- What a listener can re-enter (one fuel level down). -/
structure Re where
  pub : XPub
  call : XW → Meth → XW × XO

def xbind (r : XW × XO) (k : XW → XW × XO) : XW × XO :=
  match r with
  | (w, none) => k w
  | (w, some e) => (w, some e)

def runActsX (re : Re) (w : XW) : List Act → XW × XO
  | [] => (w, none)
  | .sub ch id prio out :: rest =>
    runActsX re { w with bus := subscribe w.bus ch ⟨id, prio, [], out⟩ } rest
  | .unsub ch id :: rest =>
    runActsX re { w with bus := unsubscribe w.bus ch id } rest
  | .pub ch :: rest =>
    match re.pub w ch with
    | (w', none) => runActsX re w' rest
    | (w', some e) => (w', some e)
  | .call m :: rest =>
    match re.call w m with
    | (w', none) => runActsX re w' rest
    | (w', some e) => (w', some e)

/-- How the listener call ended, as seen by the `try/except` of the publish loop. -/
inductive Ended where
  | out (o : Out)
  | prop (e : XExc)

def ended (l : Listener) : XO → Ended
  | none => .out l.out
  | some (.chanFail _) => .out .raise
  | some .ioErr => .out .raise
  | some (.sysExit c) => .out (.sysExit c)
  | some .kbdInt => .out .kbdInt
  | some (.procExit c) => .prop (.procExit c)
  | some .execv => .prop .execv
  | some .hang => .prop .hang
  | some .outOfFuel => .prop .outOfFuel

def pubLoopX (re : Re) (ch : Chan) : List Listener → XW → List Nat → XW × XO
  | [], w, fails => (w, if fails.isEmpty then none else some (.chanFail fails))
  | l :: rest, w, fails =>
    match runActsX re { w with j := w.j ++ [⟨ch, l.id, w.bus.state, l.prio, w.depth⟩] } l.acts with
    | (w2, r) =>
    match ended l r with
    | .prop e => (w2, some e)
    | .out .ok => pubLoopX re ch rest w2 fails
    | .out .kbdInt => (w2, some .kbdInt)
    | .out (.sysExit c) => (w2, some (.sysExit (fixCode fails c)))
    | .out .raise =>
      if ch = .log then pubLoopX re ch rest w2 (fails ++ [l.id]) else
      match re.pub w2 .log with
      | (w3, none) => pubLoopX re ch rest w3 (fails ++ [l.id])
      | (w3, some e) => (w3, some e)

/-- `Bus.publish(channel)`: snapshot of the channel's listeners sorted by priority, the loop one
    publish frame deeper, the frame popped however the loop ends. -/
def publishWith (re : Re) : XPub := fun w ch =>
  match lookup w.bus.chans ch with
  | none => (w, none)
  | some ls =>
    match pubLoopX re ch (sortByPrio ls) { w with depth := w.depth + 1 } [] with
    | (w', r) => ({ w' with depth := w.depth }, r)

/-- `self.state = s` -/
def setSt (w : XW) (s : St) : XW :=
  { w with bus := { w.bus with state := s }, tr := w.tr ++ [s] }

def stopW (pub : XPub) (w : XW) : XW × XO :=
  xbind (pub (setSt w .stopping) .log) fun w1 =>
  xbind (pub w1 .stop) fun w2 =>
  pub (setSt w2 .stopped) .log

def exitW (pub : XPub) (w : XW) : XW × XO :=
  match (xbind (stopW pub w) fun w1 =>
         xbind (pub (setSt w1 .exiting) .log) fun w2 =>
         xbind (pub w2 .exit) fun w3 => pub w3 .log) with
  | (w', some e) => if e.caught then (w', some (.procExit 70)) else (w', some e)
  | (w', none) => if w.bus.state = .starting then (w', some (.procExit 70)) else (w', none)

/-- The handlers of `start()`'s `try`: `KeyboardInterrupt`/`SystemExit` (and the process being
    gone) pass; an `Exception` is logged, the bus is shut down (`exit()`, whose own `Exception`s
    are swallowed), and the original error is re-raised. -/
def startFailW (pub : XPub) (w3 : XW) (e : XExc) : XW × XO :=
  if !e.caught then (w3, some e) else
  xbind (pub w3 .log) fun w4 =>
  match exitW pub w4 with
  | (w5, none) => (w5, some e)
  | (w5, some e') => if e'.caught then (w5, some e) else (w5, some e')

def startW (pub : XPub) (w : XW) : XW × XO :=
  xbind (pub (setSt { w with atexit := w.atexit + 1 } .starting) .log) fun w1 =>
  match (xbind (pub w1 .start) fun w2 => pub (setSt w2 .started) .log) with
  | (w3, none) => (w3, none)
  | (w3, some e) => startFailW pub w3 e

def restartW (pub : XPub) (w : XW) : XW × XO :=
  exitW pub { w with bus := { w.bus with execv := true } }

def gracefulW (pub : XPub) (w : XW) : XW × XO :=
  xbind (pub w .log) fun w1 => pub w1 .graceful

def callWith (pub : XPub) (w : XW) : Meth → XW × XO
  | .start => startW pub w
  | .stop => stopW pub w
  | .exit => exitW pub w
  | .restart => restartW pub w
  | .graceful => gracefulW pub w

/-- What a listener running at re-entrancy level `n` can re-enter. -/
def reAt : Nat → Re
  | 0 => ⟨fun w _ => (w, some .outOfFuel), fun w _ => (w, some .outOfFuel)⟩
  | n + 1 => ⟨publishWith (reAt n), callWith (publishWith (reAt n))⟩

def publishX (fuel : Nat) : XPub := publishWith (reAt fuel)
def callX (fuel : Nat) (w : XW) (m : Meth) : XW × XO := callWith (publishX fuel) w m

/-- `Bus._clean_exit` (the atexit handler). -/
def cleanExitW (pub : XPub) (w : XW) : XW × XO :=
  if w.bus.state = .exiting then (w, none) else exitW pub { w with warns := w.warns + 1 }

/-- The interpreter runs every registered handler; an exception in one is reported and the
    next one still runs, unless the process is gone. -/
def atexitRun (pub : XPub) : Nat → XW → XW × List XO
  | 0, w => (w, [])
  | n + 1, w =>
    match cleanExitW pub w with
    | (w', some e) =>
      if e.terminal then (w', [some e]) else
      match atexitRun pub n w' with
      | (w'', rs) => (w'', some e :: rs)
    | (w', none) =>
      match atexitRun pub n w' with
      | (w'', rs) => (w'', none :: rs)

/-- How one `time.sleep(interval)` of the poll loop ends. -/
inductive Sleep where
  | ok | kbd | ioerr | sysExit (code : Nat)
  deriving DecidableEq, Repr, Inhabited

/-- `Bus.wait(state, interval, channel)`: `ticks` bounds the number of sleeps (one more = the loop
    never ends as far as the harness looks: `hang`). -/
def waitW (pub : XPub) (targets : List St) (ch : Option Chan) : Nat → List Sleep → XW → XW × XO
  | 0, _, w => if targets.contains w.bus.state then (w, none) else (w, some .hang)
  | n + 1, plan, w =>
    if targets.contains w.bus.state then (w, none) else
    match plan.headD .ok with
    | .kbd => (w, some .kbdInt)
    | .ioerr => (w, some .ioErr)
    | .sysExit c => (w, some (.sysExit c))
    | .ok =>
      xbind (match ch with | none => (w, none) | some c => pub w c) fun w' =>
      waitW pub targets ch n plan.tail w'

/-- `Bus._do_execv` up to the `os.execv` call. -/
def doExecvW (pub : XPub) (w : XW) : XW × XO :=
  xbind (pub w .log) fun w1 => (w1, some .execv)

/-- `Bus.block` without other threads. -/
def blockW (pub : XPub) (ticks : Nat) (plan : List Sleep) (w : XW) : XW × XO :=
  xbind (match waitW pub [.exiting] (some .main) ticks plan w with
         | (w1, none) => (w1, none)
         | (w1, some .kbdInt) => xbind (pub w1 .log) fun w2 => exitW pub w2
         | (w1, some .ioErr) => xbind (pub w1 .log) fun w2 => exitW pub w2
         | (w1, some (.sysExit c)) =>
           xbind (pub w1 .log) fun w2 => xbind (exitW pub w2) fun w3 => (w3, some (.sysExit c))
         | (w1, some e) => (w1, some e)) fun w4 =>
  xbind (pub w4 .log) fun w5 =>
  if w5.bus.execv then doExecvW pub w5 else (w5, none)

/-- `Bus.start_with_callback(func)`: the callback thread's `wait(STARTED); func()` is run after
    `start()` came back (second result: `none` = `func` was called). -/
def swcW (pub : XPub) (ticks : Nat) (w : XW) : XW × List XO :=
  match startW pub w with
  | (w1, r) =>
    if (r.map XExc.terminal).getD false then (w1, [r]) else
    match waitW pub [.started] none ticks [] w1 with
    | (w2, r2) => (w2, [r, r2])

def defaultPriority : Nat := 50

/-- `if priority is None: priority = getattr(callback, 'priority', 50)` -/
def effPrio (arg attr : Option Nat) : Nat := arg.getD (attr.getD defaultPriority)

inductive XCall where
  | meth (m : Meth)
  | publish (ch : Chan)
  | subscribe (ch : Chan) (id : Nat) (arg attr : Option Nat) (acts : List Act) (out : Out)
  | unsubscribe (ch : Chan) (id : Nat)
  | atexit
  | wait (targets : List St) (ch : Option Chan) (plan : List Sleep)
  | block (plan : List Sleep)
  | swc
  deriving Repr, Inhabited

/-- poll-loop bound shared with the harness -/
def tickCap : Nat := 4

def callTop (fuel : Nat) (w : XW) : XCall → XW × List XO
  | .meth m => match callX fuel w m with | (w', r) => (w', [r])
  | .publish ch => match publishX fuel w ch with | (w', r) => (w', [r])
  | .subscribe ch id arg attr acts out =>
    ({ w with bus := subscribe w.bus ch ⟨id, effPrio arg attr, acts, out⟩ }, [none])
  | .unsubscribe ch id => ({ w with bus := unsubscribe w.bus ch id }, [none])
  | .atexit => atexitRun (publishX fuel) (min 1 w.atexit) w   -- equal handlers are run once by the harness
  | .wait ts ch plan => match waitW (publishX fuel) ts ch tickCap plan w with | (w', r) => (w', [r])
  | .block plan => match blockW (publishX fuel) tickCap plan w with | (w', r) => (w', [r])
  | .swc => swcW (publishX fuel) tickCap w

def anyTerminal (rs : List XO) : Bool := rs.any fun r => (r.map XExc.terminal).getD false

/-- Run a call sequence; once the process is gone later calls do not happen. -/
def runCallsX (fuel : Nat) (w : XW) : List XCall → XW × List (List XO)
  | [] => (w, [])
  | c :: cs =>
    match callTop fuel w c with
    | (w', rs) =>
      if anyTerminal rs then (w', [rs]) else
      match runCallsX fuel w' cs with
      | (w'', rss) => (w'', rs :: rss)

/-! ### `ChannelFailures` and `Bus.log` as data -/

/-- `ChannelFailures`: the exception instances collected so far (`handle_exception` appends the
    current one, `get_instances` returns a copy, `__bool__` = non-empty). -/
structure CF where
  excs : List Nat := []
  deriving Repr, Inhabited

def CF.handle (c : CF) (e : Nat) : CF := ⟨c.excs ++ [e]⟩
def CF.truthy (c : CF) : Bool := !c.excs.isEmpty
def CF.instances (c : CF) : List Nat := c.excs

/-- `Bus.log(msg, level, traceback)`: the arguments the `log` listeners receive; `excText` is the
    formatted current exception. -/
def logArgs (msg : List Char) (level : Nat) (tb : Bool) (excText : List Char) : List Char × Nat :=
  (if tb then msg ++ '\n' :: excText else msg, level)

end CpModel.Bus
