/-
  Model of `cherrypy.process.wspbus.Bus` (publish / start / stop / exit / restart / graceful /
  subscribe / unsubscribe), transcribed statement by statement.  Core Lean only.

  What is modelled
  * `listeners : channel → set(callback)` + `_priorities` as an association list
    `channel → List Listener` in subscription order.  Python iterates a `set`, so the order
    inside a priority tie is arbitrary in the code; the model uses subscription order and the
    harness compares journals modulo order inside a tie group.
  * a listener = identity + priority + a finite script: re-entrant actions (subscribe,
    unsubscribe, publish) followed by an outcome (return / raise Exception / SystemExit code /
    KeyboardInterrupt).
  * `Bus.log` = `publish('log', …)`; a failing log listener therefore makes *every* `self.log`
    call raise `ChannelFailures`, exactly as in the code.
  * `os._exit(70)` is the terminal result `procExit 70`.
  Not modelled: `atexit`, `block`/`wait` (C20), `execv`, the log message text.
-/
namespace CpModel.Bus

/-- Channels: the six built-in ones plus any number of custom ones. -/
inductive Chan where
  | start | stop | exit | graceful | log | main
  | custom (n : Nat)
  deriving DecidableEq, Repr, Inhabited

inductive St where
  | stopped | starting | started | stopping | exiting
  deriving DecidableEq, Repr, Inhabited

/-- How a listener call ends. -/
inductive Out where
  | ok | raise | sysExit (code : Nat) | kbdInt
  deriving DecidableEq, Repr, Inhabited

/-- Re-entrant actions a listener performs on the bus before it ends. -/
inductive Act where
  | sub (ch : Chan) (id prio : Nat) (out : Out)
  | unsub (ch : Chan) (id : Nat)
  | pub (ch : Chan)
  deriving DecidableEq, Repr, Inhabited

structure Listener where
  id : Nat
  prio : Nat
  acts : List Act
  out : Out
  deriving DecidableEq, Repr, Inhabited

/-- Python exceptions that can leave a bus method. `chanFail ids` = `ChannelFailures` carrying
    the failures of the listeners `ids` (in invocation order). -/
inductive Exc where
  | chanFail (ids : List Nat)
  | sysExit (code : Nat)
  | kbdInt
  | outOfFuel            -- model artefact: re-entrancy deeper than the fuel; never compared
  deriving DecidableEq, Repr, Inhabited

/-- Result of a bus method call. -/
inductive Res where
  | ret
  | exc (e : Exc)
  | procExit (code : Nat)
  deriving DecidableEq, Repr, Inhabited

structure Entry where
  ch : Chan
  id : Nat
  st : St
  prio : Nat
  deriving DecidableEq, Repr, Inhabited

structure Bus where
  state : St := .stopped
  execv : Bool := false
  chans : List (Chan × List Listener) := []
  deriving Repr, Inhabited

/-- World = bus + journal of listener invocations (most recent last). -/
structure W where
  bus : Bus
  j : List Entry := []
  deriving Repr, Inhabited

def builtinChannels : List Chan := [.start, .stop, .exit, .graceful, .log, .main]

def Bus.init : Bus := { chans := builtinChannels.map fun c => (c, []) }

def lookup (chans : List (Chan × List Listener)) (ch : Chan) : Option (List Listener) :=
  match chans with
  | [] => none
  | (c, ls) :: rest => if c = ch then some ls else lookup rest ch

def setChan (chans : List (Chan × List Listener)) (ch : Chan) (ls : List Listener) :
    List (Chan × List Listener) :=
  match chans with
  | [] => [(ch, ls)]
  | (c, old) :: rest => if c = ch then (c, ls) :: rest else (c, old) :: setChan rest ch ls

/-- `subscribe`: add (if absent) and (always) overwrite the priority. -/
def subscribe (b : Bus) (ch : Chan) (l : Listener) : Bus :=
  let ls := (lookup b.chans ch).getD []
  let ls' := if ls.any (·.id = l.id) then ls.map (fun x => if x.id = l.id then { x with prio := l.prio } else x)
             else ls ++ [l]
  { b with chans := setChan b.chans ch ls' }

/-- `unsubscribe`: discard if present. -/
def unsubscribe (b : Bus) (ch : Chan) (id : Nat) : Bus :=
  match lookup b.chans ch with
  | none => b
  | some ls => if ls.any (·.id = id) then { b with chans := setChan b.chans ch (ls.filter (·.id ≠ id)) } else b

/-- insert `l` *before* equal priorities (it came first in the input). -/
def insertByPrio (l : Listener) : List Listener → List Listener
  | [] => [l]
  | y :: ys => if l.prio ≤ y.prio then l :: y :: ys else y :: insertByPrio l ys

/-- `sorted(items, key=priority)`: stable insertion sort, structural so it reduces in the kernel. -/
def sortByPrio : List Listener → List Listener
  | [] => []
  | x :: xs => insertByPrio x (sortByPrio xs)

/-- The SystemExit code fix-up in `publish`: `if exc and e.code == 0: e.code = 1`. -/
def fixCode (fails : List Nat) (code : Nat) : Nat :=
  if !fails.isEmpty && code == 0 then 1 else code

/-- A publish function for nested (re-entrant) use: open recursion keeps every definition
    structural (on `acts`, on `items`, on the fuel), so the kernel can evaluate the model. -/
abbrev Pub := W → Chan → W × Option Exc

/-- The re-entrant part of a listener's script. -/
def runActs (pub : Pub) (w : W) : List Act → W × Option Exc
  | [] => (w, none)
  | .sub ch id prio out :: rest =>
    runActs pub { w with bus := subscribe w.bus ch ⟨id, prio, [], out⟩ } rest
  | .unsub ch id :: rest =>
    runActs pub { w with bus := unsubscribe w.bus ch id } rest
  | .pub ch :: rest =>
    match pub w ch with
    | (w', none) => runActs pub w' rest
    | (w', some e) => (w', some e)

/-- `except Exception:` branch of the publish loop: log unless the channel is `log`.
    Returns `some e` when `self.log` itself raised (that exception leaves `publish` at once). -/
def logFailure (pub : Pub) (ch : Chan) (w : W) : W × Option Exc :=
  if ch = .log then (w, none) else pub w .log

/-- The whole `except Exception:` branch: log, then continue with `k` unless logging raised. -/
def raised (pub : Pub) (ch : Chan) (w : W) (k : W → W × Option Exc) : W × Option Exc :=
  match logFailure pub ch w with
  | (w3, none) => k w3
  | (w3, some e) => (w3, some e)

/-- The `for priority, listener in items:` loop; `fails` = failures collected so far. -/
def pubLoop (pub : Pub) (ch : Chan) : List Listener → W → List Nat → W × Option Exc
  | [], w, fails => (w, if fails.isEmpty then none else some (.chanFail fails))
  | l :: rest, w, fails =>
    let w1 : W := { w with j := w.j ++ [⟨ch, l.id, w.bus.state, l.prio⟩] }
    let (w2, r) := runActs pub w1 l.acts
    -- how the listener call ended: nested ChannelFailures is an ordinary Exception
    let ended : Out ⊕ Exc :=
      match r with
      | some (.chanFail _) => .inl .raise
      | some (.sysExit c) => .inl (.sysExit c)
      | some .kbdInt => .inl .kbdInt
      | some .outOfFuel => .inr .outOfFuel
      | none => .inl l.out
    match ended with
    | .inr e => (w2, some e)
    | .inl .ok => pubLoop pub ch rest w2 fails
    | .inl .kbdInt => (w2, some .kbdInt)
    | .inl (.sysExit c) => (w2, some (.sysExit (fixCode fails c)))
    | .inl .raise => raised pub ch w2 (fun w3 => pubLoop pub ch rest w3 (fails ++ [l.id]))

/-- `Bus.publish(channel)`.  Returns the new world and `none` (returned) or the exception.
    `fuel` bounds the re-entrancy depth (listener → publish → listener …). -/
def publish : Nat → Pub
  | 0 => fun w _ => (w, some .outOfFuel)
  | fuel + 1 => fun w ch =>
    match lookup w.bus.chans ch with
    | none => (w, none)
    | some ls => pubLoop (publish fuel) ch (sortByPrio ls) w []

def log (fuel : Nat) (w : W) : W × Option Exc := publish fuel w .log

def setState (w : W) (s : St) : W := { w with bus := { w.bus with state := s } }

/-- `Bus.stop`. -/
def stop (fuel : Nat) (w : W) : W × Option Exc :=
  let w := setState w .stopping
  match log fuel w with
  | (w, some e) => (w, some e)
  | (w, none) =>
  match publish fuel w .stop with
  | (w, some e) => (w, some e)
  | (w, none) =>
  let w := setState w .stopped
  log fuel w

def isException : Exc → Bool
  | .chanFail _ => true
  | .outOfFuel => true   -- RecursionError is an Exception
  | _ => false

/-- `Bus.exit`. -/
def exit (fuel : Nat) (w : W) : W × Res :=
  let exitstate := w.bus.state
  -- try:
  let body : W × Option Exc :=
    match stop fuel w with
    | (w, some e) => (w, some e)
    | (w, none) =>
    let w := setState w .exiting
    match log fuel w with
    | (w, some e) => (w, some e)
    | (w, none) =>
    match publish fuel w .exit with
    | (w, some e) => (w, some e)
    | (w, none) => log fuel w
  match body with
  | (w, some e) => if isException e then (w, .procExit 70) else (w, .exc e)
  | (w, none) => if exitstate = .starting then (w, .procExit 70) else (w, .ret)

/-- `Bus.start`. -/
def start (fuel : Nat) (w : W) : W × Res :=
  let w := setState w .starting
  match log fuel w with
  | (w, some e) => (w, .exc e)
  | (w, none) =>
  -- try: publish('start'); state = STARTED; log
  let body : W × Option Exc :=
    match publish fuel w .start with
    | (w, some e) => (w, some e)
    | (w, none) => log fuel (setState w .started)
  match body with
  | (w, none) => (w, .ret)
  | (w, some e) =>
    if !isException e then (w, .exc e) else
    -- except Exception: log; try: self.exit() except Exception: pass; raise e_info
    match log fuel w with
    | (w, some e') => (w, .exc e')
    | (w, none) =>
    match exit fuel w with
    | (w, .procExit c) => (w, .procExit c)
    | (w, .exc e') => (w, .exc e')     -- only SystemExit / KeyboardInterrupt leave `exit`
    | (w, .ret) => (w, .exc e)

/-- `Bus.restart`. -/
def restart (fuel : Nat) (w : W) : W × Res :=
  exit fuel { w with bus := { w.bus with execv := true } }

/-- `Bus.graceful`. -/
def graceful (fuel : Nat) (w : W) : W × Res :=
  match log fuel w with
  | (w, some e) => (w, .exc e)
  | (w, none) =>
  match publish fuel w .graceful with
  | (w, some e) => (w, .exc e)
  | (w, none) => (w, .ret)

/-- Calls the harness (or an application) makes on the bus. -/
inductive Call where
  | start | stop | exit | restart | graceful
  | publish (ch : Chan)
  | subscribe (ch : Chan) (l : Listener)
  | unsubscribe (ch : Chan) (id : Nat)
  deriving Repr, Inhabited

def optToRes : W × Option Exc → W × Res
  | (w, none) => (w, .ret)
  | (w, some e) => (w, .exc e)

def call (fuel : Nat) (w : W) : Call → W × Res
  | .start => start fuel w
  | .stop => optToRes (stop fuel w)
  | .exit => exit fuel w
  | .restart => restart fuel w
  | .graceful => graceful fuel w
  | .publish ch => optToRes (publish fuel w ch)
  | .subscribe ch l => ({ w with bus := subscribe w.bus ch l }, .ret)
  | .unsubscribe ch id => ({ w with bus := unsubscribe w.bus ch id }, .ret)

/-- Run a call sequence; a `procExit` ends the process, so later calls do not happen. -/
def runCalls (fuel : Nat) (w : W) : List Call → W × List Res
  | [] => (w, [])
  | c :: cs =>
    match call fuel w c with
    | (w', .procExit k) => (w', [.procExit k])
    | (w', r) =>
      let (w'', rs) := runCalls fuel w' cs
      (w'', r :: rs)

end CpModel.Bus
