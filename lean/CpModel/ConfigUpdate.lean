import CpModel.Config
import CpModel.Gen.C08Env
/-!
  `cherrypy.config.update(...)` (C08): `_cpconfig.Config.update/_apply` on top of `reprconf.Config._apply`.
  Core Lean only.

  * the input is a dict, a file object or a file name; files (and dicts of sections) arrive as sections
    (`Parser.load` → `dict_from_file` → `as_dict`); when the entry `global` is a dict, that section IS the
    config and the other sections are dropped (`checker.global_config_contained_paths`); a dict of sections
    without `global` makes the sections themselves entries (not modelled: `none`);
  * `tools.staticdir.dir` in the update adds `tools.staticdir.section = 'global'`;
  * `environment`: when the update holds a truthy `environment` entry, the entries of
    `Config.environments[<that>]` (table regenerated from the live module, `Gen.C08.environments`) are
    added for the keys the update does not hold itself (`KeyError` for an unknown name);
  * `dict.update(self, config)`; then exactly these entries (not the whole config) go to the namespaces.
-/
namespace CpModel.ConfigUpdate
open CpModel.Dispatch CpModel.Config

inductive Input where
  /-- a dict whose `global` entry (if any) is not a dict -/
  | flat (c : Conf)
  /-- an INI file / file name / dict of sections -/
  | sections (secs : List (List Char × Conf))
  deriving Repr, Inhabited

def globalName : List Char := "global".toList
def environmentKey : Name := "environment".toList

/-- the flat dict `_cpconfig.Config._apply` goes on with -/
def globalOf : Input → Option Conf
  | .flat c => some c
  | .sections secs => lookup secs globalName

def withStaticdir (c : Conf) : Conf :=
  if hasKey c staticdirDirKey then c ++ [(staticdirSectionKey, .str globalName)] else c

inductive Err where
  /-- `self.environments[which_env]` → KeyError -/
  | unknownEnvironment
  deriving DecidableEq, Repr, Inhabited

/-- `reprconf.Config._apply`, first half: `for k in env: if k not in config: config[k] = env[k]` -/
def expandEnv (envs : List (List Char × Conf)) (c : Conf) : Except Err Conf :=
  match cget c environmentKey with
  | none => .ok c
  | some v =>
    if !truthy v then .ok c else
    match v with
    | .str n =>
      match lookup envs n with
      | some env => .ok (c ++ (toDict env).filter fun (k, _) => !hasKey c k)
      | none => .error .unknownEnvironment
    | _ => .error .unknownEnvironment

structure Result where
  /-- the global config afterwards (as an update list) -/
  config : Conf
  /-- the entries handed to `self.namespaces(...)` -/
  handed : Conf
  deriving Repr, Inhabited

/-- `cherrypy.config.update(input)` -/
def update (envs : List (List Char × Conf)) (cfg : Conf) (i : Input) : Option (Except Err Result) :=
  (globalOf i).map fun c =>
    match expandEnv envs (withStaticdir c) with
    | .ok c' => .ok ⟨cfg ++ c', c'⟩
    | .error e => .error e

/-- `cherrypy.config[k] = v` (`Config.__setitem__`): the one entry is stored and handed to the namespaces;
    no `[global]` unwrapping, no environment expansion -/
def setItem (cfg : Conf) (k : Name) (v : Val) : Result := ⟨cfg ++ [(k, v)], [(k, v)]⟩

def liveEnvs : List (List Char × Conf) := Gen.C08.environments

end CpModel.ConfigUpdate
