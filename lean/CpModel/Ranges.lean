import CpModel.Gen.C16Tables
/-!
  C16 (range part) — transcription of

    cherrypy/lib/httputil.py   get_ranges / _get_ranges / _range_pos
    cherrypy/lib/static.py     _serve_fileobj   (the Range handling)

  on the raw header text (`List Char`) and a content byte list.

  Modelled statement by statement (quirks included):
    * `if not headervalue: return None`; `headervalue.split('=', 1)` (unpacking a 1-element list
      raises ValueError, caught by `get_ranges` -> None); `bytesunit.strip().lower() != 'bytes'`;
      `byteranges.split(',')`; `brange.split('-', 1)` (ValueError when there is no '-');
      `x.strip()` with Python's *str* whitespace set (regenerated from the interpreter into
      `Gen.C16.pySpace`); `_range_pos` (1*DIGIT, ASCII digits only, else ValueError); the order of
      the `stop < start` / `start >= content_length` tests; `min(stop, content_length - 1) + 1`;
      suffix ranges incl. suffix 0 / empty entity / suffix longer than the entity; the
      `continue` (unsatisfiable spec skipped) vs `return None` (whole header ignored) branches.
    * `_serve_fileobj`: HTTP/1.0, or a file object whose length `serve_fileobj` could not
      determine (`content_length is None`, e.g. io.BytesIO) => whole entity, no Accept-Ranges; `r == []` => 416 with
      `Content-Range: bytes */len`; one range => (dead) clamp, 206, Content-Range, Content-Length,
      `seek(start)` + `file_generator_limited(fileobj, r_len)` (64 KiB chunks until `count` bytes
      or EOF, modelled chunk by chunk in `readLimited`); several ranges => multipart/byteranges
      parts each with its own Content-range and slice; `None` => whole entity with Content-Length.
  Not modelled: the multipart boundary text (`email.generator._make_boundary`), `os.stat`, the
  textual framing of the multipart body (the harness decodes the parts), debug logging.
  Python ints are unbounded and `content_length - 1` is -1 for an empty entity; the model uses
  `Nat` (truncated subtraction), which is only reached behind `start >= content_length`
  (always true for an empty entity), so the two agree (see `CpProofs.C16.parseSpec_len_zero`).
  `int()` refuses more than 4300 digits (ValueError -> header ignored); the model has no such
  limit, the generator stays below it (stated as an assumption).
-/
namespace CpModel.Ranges

abbrev Text := List Char
abbrev Bytes := List UInt8

/-! ### Python `str` primitives -/

/-- `c.isspace()` — the characters `str.strip()` removes -/
def isSpace (c : Char) : Bool := Gen.C16.pySpace.contains c.toNat

def lstrip : Text → Text
  | [] => []
  | c :: cs => if isSpace c then lstrip cs else c :: cs

def rstrip : Text → Text
  | [] => []
  | c :: cs =>
    match rstrip cs with
    | [] => if isSpace c then [] else [c]
    | r :: rs => c :: r :: rs

/-- `s.strip()` -/
def strip (s : Text) : Text := rstrip (lstrip s)

/-- `s.split(sep, 1)`: `none` when `sep` does not occur (the result would have one element). -/
def split1 (sep : Char) : Text → Option (Text × Text)
  | [] => none
  | c :: cs =>
    if c = sep then some ([], cs)
    else match split1 sep cs with
      | none => none
      | some (a, b) => some (c :: a, b)

/-- head and tail of `s.split(sep)` (the result is never empty) -/
def splitHT (sep : Char) : Text → Text × List Text
  | [] => ([], [])
  | c :: cs =>
    let r := splitHT sep cs
    if c = sep then ([], r.1 :: r.2) else (c :: r.1, r.2)

/-- `s.split(sep)` -/
def splitAll (sep : Char) (s : Text) : List Text := (splitHT sep s).1 :: (splitHT sep s).2

/-- does `chr(c).lower()` equal the ASCII letter `target`?  (table regenerated from the interpreter;
    only consulted for targets b, y, t, e, s) -/
def lowersTo (c target : Char) : Bool := Gen.C16.lowerToBytes.contains (c.toNat, target.toNat)

/-- `u.lower() == 'bytes'`.  `str.lower()` maps every character to a non-empty string and the only
    multi-character image (U+0130) is not ASCII, so the comparison is character-wise. -/
def isBytesUnit : Text → Bool
  | [c0, c1, c2, c3, c4] =>
    lowersTo c0 'b' && lowersTo c1 'y' && lowersTo c2 't' && lowersTo c3 'e' && lowersTo c4 's'
  | _ => false

def isAsciiDigit (c : Char) : Bool := 48 ≤ c.toNat && c.toNat ≤ 57

def digitVal (c : Char) : Nat := c.toNat - 48

/-- `int(v)` for a string of ASCII digits -/
def decVal (v : Text) : Nat := v.foldl (fun n c => 10 * n + digitVal c) 0

/-- `_range_pos`: `none` = ValueError (not 1*DIGIT) -/
def rangePos (v : Text) : Option Nat :=
  if v.isEmpty then none
  else if v.all isAsciiDigit then some (decVal v) else none

/-! ### `_get_ranges` -/

/-- what one `brange` of the loop body does -/
inductive Item
  | bad                       -- `return None` or ValueError: the whole header is ignored
  | skip                      -- `continue`: unsatisfiable spec
  | rng (start stop : Nat)    -- `result.append((start, stop))`
  deriving DecidableEq, Repr

/-- the loop body once `start` and `stop` are split and stripped -/
def parseTokens (len : Nat) (start stop : Text) : Item :=
  if !start.isEmpty then
    match rangePos start with
    | none => .bad
    | some s =>
      if !stop.isEmpty then
        match rangePos stop with
        | none => .bad
        | some e =>
          if e < s then .bad                      -- syntactically invalid
          else if s ≥ len then .skip
          else .rng s (min e (len - 1) + 1)
      else
        if s ≥ len then .skip
        else .rng s (min (len - 1) (len - 1) + 1)
  else
    if stop.isEmpty then .bad
    else match rangePos stop with
      | none => .bad
      | some n =>
        if n = 0 ∨ len = 0 then .skip
        else if n > len then .rng 0 len
        else .rng (len - n) len

def parseSpec (len : Nat) (brange : Text) : Item :=
  match split1 '-' brange with
  | none => .bad                                  -- `start, stop = [...]` unpack error
  | some (a, b) => parseTokens len (strip a) (strip b)

/-- the `for brange in byteranges.split(',')` loop with its accumulator -/
def loop (len : Nat) : List Text → List (Nat × Nat) → Option (List (Nat × Nat))
  | [], acc => some acc
  | b :: bs, acc =>
    match parseSpec len b with
    | .bad => none
    | .skip => loop len bs acc
    | .rng s e => loop len bs (acc ++ [(s, e)])

/-- `_get_ranges` with the ValueError handler of `get_ranges` folded in -/
def getRangesText (hv : Text) (len : Nat) : Option (List (Nat × Nat)) :=
  match split1 '=' hv with
  | none => none
  | some (unit, byteranges) =>
    if !isBytesUnit (strip unit) then none
    else loop len (splitAll ',' byteranges) []

/-- `httputil.get_ranges(headervalue, content_length)`; `hv = none` is an absent header. -/
def getRanges (hv : Option Text) (len : Nat) : Option (List (Nat × Nat)) :=
  match hv with
  | none => none
  | some [] => none
  | some (c :: cs) => getRangesText (c :: cs) len

/-! ### `_serve_fileobj` -/

/-- `file_generator_limited(fileobj, count, chunk_size)` after `fileobj.seek(pos)`: the chunks
    yielded.  `fuel` bounds the `while remaining > 0` loop (each round consumes ≥ 1 byte). -/
def readLimited (chunk : Nat) (content : Bytes) : Nat → Nat → Nat → List Bytes
  | 0, _, _ => []
  | fuel + 1, pos, remaining =>
    if remaining = 0 then []
    else
      let c := (content.drop pos).take (min chunk remaining)
      if c.length = 0 then []
      else c :: readLimited chunk content fuel (pos + c.length) (remaining - c.length)

/-- bytes delivered for `seek(start)` + `file_generator_limited(fileobj, count)` -/
def readSlice (content : Bytes) (start count : Nat) : Bytes :=
  (readLimited 65536 content (count + 1) start count).flatten

structure Part where
  first : Nat
  last : Nat
  total : Nat
  body : Bytes
  deriving DecidableEq, Repr

inductive Served
  /-- status untouched (200), `Content-Length: clen`, body = the file object -/
  | whole (acceptRanges : Bool) (clen : Nat) (body : Bytes)
  /-- `HTTPError(416)` with `Content-Range: bytes */total` -/
  | unsat (total : Nat)
  /-- 206, `Content-Range: bytes first-last/total`, `Content-Length: clen` -/
  | single (first last total clen : Nat) (body : Bytes)
  /-- 206 multipart/byteranges, one part per range, in order -/
  | multi (parts : List Part)
  deriving DecidableEq, Repr

def serveFileobj (proto11 lenKnown : Bool) (range : Option Text) (content : Bytes) : Served :=
  let len := content.length
  if proto11 && lenKnown then
    match getRanges range len with
    | some [] => .unsat len
    | some [(start, stop)] =>
      let stop := if stop > len then len else stop
      let rlen := stop - start
      .single start (stop - 1) len rlen (readSlice content start rlen)
    | some rs =>
      .multi (rs.map fun (start, stop) =>
        ⟨start, stop - 1, len, readSlice content start (stop - start)⟩)
    | none => .whole true len content
  else .whole false len content

/-! ### the multipart/byteranges body (`file_ranges()` in `_serve_fileobj`)

  `boundary` (from `email.generator._make_boundary`) and `ctype` (the entity's Content-Type) are
  parameters.  The generator yields: CRLF, then per range `--boundary`, `CRLF Content-type: ctype`,
  `CRLF Content-range: bytes a-b/total CRLF CRLF`, the slice, CRLF; finally `--boundary--`, CRLF. -/

def digitChar (d : Nat) : Char := Char.ofNat (48 + d)

/-- `'%s' % n` for a non-negative int; `fuel` bounds the number of digits -/
def toDec : Nat → Nat → Text
  | 0, _ => []
  | fuel + 1, n => if n < 10 then [digitChar n] else toDec fuel (n / 10) ++ [digitChar (n % 10)]

def dec (n : Nat) : Text := toDec (n + 1) n

/-- `ntob(s, 'ascii')` -/
def ascii (s : Text) : Bytes := s.map fun c => UInt8.ofNat c.toNat

def crlf : Bytes := [13, 10]
def dashes : Bytes := [45, 45]

def partHeader (boundary ctype : Bytes) (p : Part) : Bytes :=
  dashes ++ boundary ++ crlf ++ ascii "Content-type: ".toList ++ ctype ++ crlf ++
    ascii "Content-range: bytes ".toList ++ ascii (dec p.first) ++ [45] ++ ascii (dec p.last) ++
    [47] ++ ascii (dec p.total) ++ crlf ++ crlf

def renderMultipart (boundary ctype : Bytes) (parts : List Part) : Bytes :=
  crlf ++ (parts.flatMap fun p => partHeader boundary ctype p ++ p.body ++ crlf) ++
    dashes ++ boundary ++ dashes ++ crlf

end CpModel.Ranges
