import CpModel.Auth
/-!
  Concrete instances of the `CpModel.Auth.Prims` parameters, used by the driver (and by witness theorems):

  * `md5` (RFC 1321) over byte lists, `md5Hex` = `md5(s.encode('utf-8')).hexdigest()`;
  * `b64decode` = `base64.b64decode(s.encode('ascii'))`, a transcription of the non-strict loop of CPython 3.12's
    `binascii.a2b_base64` (characters outside the alphabet skipped, the first complete pad run ends the parse,
    leftover 1 / 2-3 data characters ⇒ `binascii.Error`), and `b64encode` (RFC 4648, what an RFC 7617 client does);
  * codecs: UTF-8 (core Lean's validating decoder), ISO-8859-1, ASCII.

  None of these is used by the general theorems (which quantify over all `Prims`); each is cross-checked against
  CPython by the harness on every run (`md5`, `b64`, `utf8` ops of the driver).
-/
namespace CpModel.AuthPrims
open CpModel.Auth

/-! ### MD5 -/

def sTab : Array Nat := #[
  7, 12, 17, 22, 7, 12, 17, 22, 7, 12, 17, 22, 7, 12, 17, 22,
  5, 9, 14, 20, 5, 9, 14, 20, 5, 9, 14, 20, 5, 9, 14, 20,
  4, 11, 16, 23, 4, 11, 16, 23, 4, 11, 16, 23, 4, 11, 16, 23,
  6, 10, 15, 21, 6, 10, 15, 21, 6, 10, 15, 21, 6, 10, 15, 21]

def kTab : Array UInt32 := #[
  0xd76aa478, 0xe8c7b756, 0x242070db, 0xc1bdceee, 0xf57c0faf, 0x4787c62a, 0xa8304613, 0xfd469501,
  0x698098d8, 0x8b44f7af, 0xffff5bb1, 0x895cd7be, 0x6b901122, 0xfd987193, 0xa679438e, 0x49b40821,
  0xf61e2562, 0xc040b340, 0x265e5a51, 0xe9b6c7aa, 0xd62f105d, 0x02441453, 0xd8a1e681, 0xe7d3fbc8,
  0x21e1cde6, 0xc33707d6, 0xf4d50d87, 0x455a14ed, 0xa9e3e905, 0xfcefa3f8, 0x676f02d9, 0x8d2a4c8a,
  0xfffa3942, 0x8771f681, 0x6d9d6122, 0xfde5380c, 0xa4beea44, 0x4bdecfa9, 0xf6bb4b60, 0xbebfbc70,
  0x289b7ec6, 0xeaa127fa, 0xd4ef3085, 0x04881d05, 0xd9d4d039, 0xe6db99e5, 0x1fa27cf8, 0xc4ac5665,
  0xf4292244, 0x432aff97, 0xab9423a7, 0xfc93a039, 0x655b59c3, 0x8f0ccc92, 0xffeff47d, 0x85845dd1,
  0x6fa87e4f, 0xfe2ce6e0, 0xa3014314, 0x4e0811a1, 0xf7537e82, 0xbd3af235, 0x2ad7d2bb, 0xeb86d391]

def rotl (x : UInt32) (c : Nat) : UInt32 :=
  (x <<< (UInt32.ofNat c)) ||| (x >>> (UInt32.ofNat (32 - c)))

def md5Pad (msg : Bytes) : Bytes :=
  let len := msg.length
  let zeros := (56 + 64 - (len + 1) % 64) % 64
  let bits := len * 8
  msg ++ [(0x80 : UInt8)] ++ List.replicate zeros (0 : UInt8)
    ++ (List.range 8).map fun i => UInt8.ofNat ((bits >>> (8 * i)) % 256)

def word (chunk : Array UInt8) (i : Nat) : UInt32 :=
  (chunk.getD (4 * i) 0).toUInt32 ||| ((chunk.getD (4 * i + 1) 0).toUInt32 <<< 8)
    ||| ((chunk.getD (4 * i + 2) 0).toUInt32 <<< 16) ||| ((chunk.getD (4 * i + 3) 0).toUInt32 <<< 24)

abbrev MdSt := UInt32 × UInt32 × UInt32 × UInt32

def md5Round (m : Array UInt32) (st : MdSt) (i : Nat) : MdSt :=
  let (a, b, c, d) := st
  let (f, g) : UInt32 × Nat :=
    if i < 16 then ((b &&& c) ||| (~~~ b &&& d), i)
    else if i < 32 then ((d &&& b) ||| (~~~ d &&& c), (5 * i + 1) % 16)
    else if i < 48 then (b ^^^ c ^^^ d, (3 * i + 5) % 16)
    else (c ^^^ (b ||| ~~~ d), (7 * i) % 16)
  let f' := f + a + kTab.getD i 0 + m.getD g 0
  (d, b + rotl f' (sTab.getD i 0), b, c)

def md5Chunk (st : MdSt) (chunk : Array UInt8) : MdSt :=
  let m : Array UInt32 := (Array.range 16).map (word chunk)
  let (a, b, c, d) := (List.range 64).foldl (md5Round m) st
  (st.1 + a, st.2.1 + b, st.2.2.1 + c, st.2.2.2 + d)

def chunks64 : Nat → Bytes → List (Array UInt8)
  | 0, _ => []
  | n + 1, bs => if bs.isEmpty then [] else (bs.take 64).toArray :: chunks64 n (bs.drop 64)

def le32 (x : UInt32) : Bytes :=
  [x.toUInt8, (x >>> 8).toUInt8, (x >>> 16).toUInt8, (x >>> 24).toUInt8]

def md5 (msg : Bytes) : Bytes :=
  let p := md5Pad msg
  let (a, b, c, d) := (chunks64 (p.length / 64 + 1) p).foldl md5Chunk
    ((0x67452301, 0xefcdab89, 0x98badcfe, 0x10325476) : MdSt)
  le32 a ++ le32 b ++ le32 c ++ le32 d

def hexDigit (n : Nat) : Char :=
  if n < 10 then Char.ofNat (48 + n) else Char.ofNat (87 + n)

def hexOf (b : Bytes) : Str := b.flatMap fun x => [hexDigit (x.toNat / 16), hexDigit (x.toNat % 16)]

def utf8Encode (s : Str) : Bytes := (String.ofList s).toUTF8.data.toList

/-- `md5_hex(s)` of auth_digest -/
def md5Hex (s : Str) : Str := hexOf (md5 (utf8Encode s))

/-! ### base64 -/

def b64Val? (c : Char) : Option Nat :=
  if 'A' ≤ c ∧ c ≤ 'Z' then some (c.toNat - 65)
  else if 'a' ≤ c ∧ c ≤ 'z' then some (c.toNat - 97 + 26)
  else if '0' ≤ c ∧ c ≤ '9' then some (c.toNat - 48 + 52)
  else if c = '+' then some 62
  else if c = '/' then some 63
  else none

/-- state of the `a2b_base64` loop; `out` reversed -/
structure B64St where
  quadPos : Nat := 0
  leftchar : Nat := 0
  pads : Nat := 0
  out : Bytes := []

/-- the non-strict loop of `binascii.a2b_base64`; `none` = `binascii.Error` -/
def b64Go : Str → B64St → Option Bytes
  | [], st => if st.quadPos ≠ 0 then none else some st.out.reverse
  | c :: cs, st =>
    if c = '=' then
      if st.quadPos ≥ 2 ∧ st.quadPos + (st.pads + 1) ≥ 4 then some st.out.reverse
      else b64Go cs { st with pads := if st.quadPos ≥ 2 then st.pads + 1 else st.pads }
    else match b64Val? c with
      | none => b64Go cs st
      | some v =>
        match st.quadPos with
        | 0 => b64Go cs { st with quadPos := 1, leftchar := v, pads := 0 }
        | 1 => b64Go cs { quadPos := 2, leftchar := v % 16, pads := 0,
                          out := UInt8.ofNat ((st.leftchar * 4 + v / 16) % 256) :: st.out }
        | 2 => b64Go cs { quadPos := 3, leftchar := v % 4, pads := 0,
                          out := UInt8.ofNat ((st.leftchar * 16 + v / 4) % 256) :: st.out }
        | _ => b64Go cs { quadPos := 0, leftchar := 0, pads := 0,
                          out := UInt8.ofNat ((st.leftchar * 64 + v) % 256) :: st.out }

/-- `base64.b64decode(params.encode('ascii'))`; `none` = `UnicodeEncodeError` or `binascii.Error` -/
def b64decode (s : Str) : Option Bytes :=
  if s.all (fun c => c.toNat < 128) then b64Go s {} else none

def b64Char (n : Nat) : Char :=
  if n < 26 then Char.ofNat (65 + n)
  else if n < 52 then Char.ofNat (97 + (n - 26))
  else if n < 62 then Char.ofNat (48 + (n - 52))
  else if n = 62 then '+' else '/'

/-- RFC 4648 base64 with padding -/
def b64encode : Bytes → Str
  | [] => []
  | [a] => [b64Char (a.toNat / 4), b64Char (a.toNat % 4 * 16), '=', '=']
  | [a, b] => [b64Char (a.toNat / 4), b64Char (a.toNat % 4 * 16 + b.toNat / 16), b64Char (b.toNat % 16 * 4), '=']
  | a :: b :: c :: rest =>
    b64Char (a.toNat / 4) :: b64Char (a.toNat % 4 * 16 + b.toNat / 16)
      :: b64Char (b.toNat % 16 * 4 + c.toNat / 64) :: b64Char (c.toNat % 64) :: b64encode rest

/-! ### codecs -/

def utf8Decode (b : Bytes) : Option Str := (String.fromUTF8? (ByteArray.mk b.toArray)).map String.toList

def asciiDecode (b : Bytes) : Option Str :=
  if b.all (fun x => x.toNat < 128) then some (latin1Decode b) else none

def latin1DecodeSome (b : Bytes) : Option Str := some (latin1Decode b)

end CpModel.AuthPrims
