import Std.Data.HashSet
/-
  C20: trace inclusion modulo stuttering, generic over a transition system
  `step : σ → τ → σ` (one model step of thread `t`), an enabledness test and an observation
  function `obs : σ → ο`.  Core Lean only.

  The real threads are driven at SHARED-STATE ACCESSES AND PRIMITIVE CALLS (not at source lines).
  After every effective turn of a real thread `t` the harness records the observable shared state
  `o`.  The implementation trace `[(t₁,o₁), (t₂,o₂), …]` is ADMITTED by the model when there is a
  model run that, for every `i`, lets thread `tᵢ` (and only `tᵢ`) take `nᵢ ≥ 0` model steps and then
  shows the observation `oᵢ`.  Model steps that do not change the observation (thread-local lines:
  temporaries, log calls, helper-call frames, `else`/`return` lines) are stuttering steps, so any
  edit of the source that adds, removes or moves such lines leaves the admitted traces unchanged.

  `follow` is the subset construction: the set of model states consistent with the observed prefix.
  `prune` may drop states (removal of duplicates); it can make admission fail, never succeed wrongly
  (see `CpProofs/C20Admit.lean`: `admits_sound`).
-/
namespace CpModel.C20Admit

variable {σ τ ο : Type}

/-- `n` consecutive steps of thread `t` -/
def iter (step : σ → τ → σ) (t : τ) : Nat → σ → σ
  | 0, c => c
  | n + 1, c => iter step t n (step c t)

/-- the states reached from `c` by `0 .. fuel` consecutive steps of thread `t`; the chain ends
    where `t` is not enabled (a further step would be a no-op) -/
def chain (step : σ → τ → σ) (en : σ → τ → Bool) (t : τ) : Nat → σ → List σ
  | 0, c => [c]
  | n + 1, c => if en c t then c :: chain step en t n (step c t) else [c]

/-- the states of `chain` that show observation `o`, computed with an early exit: once the chain has
    shown `o` and left it again it is not followed any further (in the three models a thread never
    brings the observation back to an earlier value: counters only grow) -/
def chainTo [DecidableEq ο] (step : σ → τ → σ) (en : σ → τ → Bool) (obs : σ → ο) (t : τ) (o : ο) :
    Nat → Bool → σ → List σ
  | fuel, seen, c =>
    let here := decide (obs c = o)
    if seen && !here then [] else
    let rest := match fuel with
      | 0 => []
      | n + 1 => if en c t then chainTo step en obs t o n (seen || here) (step c t) else []
    if here then c :: rest else rest

/-- one observed turn of thread `t` ending in observation `o` -/
def advance [DecidableEq ο] (step : σ → τ → σ) (en : σ → τ → Bool) (obs : σ → ο)
    (prune : List σ → List σ) (fuel : Nat) (S : List σ) (t : τ) (o : ο) : List σ :=
  prune (S.flatMap fun c => chainTo step en obs t o fuel false c)

/-- the model states consistent with the whole observed trace -/
def follow [DecidableEq ο] (step : σ → τ → σ) (en : σ → τ → Bool) (obs : σ → ο)
    (prune : List σ → List σ) (fuel : Nat) : List σ → List (τ × ο) → List σ
  | S, [] => S
  | S, (t, o) :: r => follow step en obs prune fuel (advance step en obs prune fuel S t o) r

def admits [DecidableEq ο] (step : σ → τ → σ) (en : σ → τ → Bool) (obs : σ → ο)
    (prune : List σ → List σ) (fuel : Nat) (S : List σ) (tr : List (τ × ο)) : Bool :=
  !(follow step en obs prune fuel S tr).isEmpty

/-- index of the first turn the model cannot follow (diagnostics only) -/
def failAt [DecidableEq ο] (step : σ → τ → σ) (en : σ → τ → Bool) (obs : σ → ο)
    (prune : List σ → List σ) (fuel : Nat) : List σ → List (τ × ο) → Nat → Option (Nat × List σ)
  | _, [], _ => none
  | S, (t, o) :: r, i =>
    let S' := advance step en obs prune fuel S t o
    if S'.isEmpty then some (i, S) else failAt step en obs prune fuel S' r (i + 1)

/-- keep the first state of every key class -/
def pruneGo (key : σ → String) : List σ → Std.HashSet String → List σ
  | [], _ => []
  | x :: xs, seen =>
    let k := key x
    if seen.contains k then pruneGo key xs seen else x :: pruneGo key xs (seen.insert k)

def pruneBy (key : σ → String) (l : List σ) : List σ := pruneGo key l {}

/-- the test the driver runs: the initial observation is the model's, and the trace is followed from
    the model's initial state (duplicates removed by `key`) -/
def admitsInit [DecidableEq ο] (step : σ → τ → σ) (en : σ → τ → Bool) (obs : σ → ο) (key : σ → String)
    (fuel : Nat) (c0 : σ) (o0 : ο) (tr : List (τ × ο)) : Bool :=
  admits step en obs (pruneBy key) fuel (if obs c0 = o0 then [c0] else []) tr

/-- how many consecutive model steps of one thread a single observed turn may stand for -/
def FUEL : Nat := 14

/-- "the implementation trace is a sampling of a model run": `cs` are the model states at the
    sample points, thread `tᵢ` alone moves between sample `i-1` and sample `i` -/
inductive Follows (step : σ → τ → σ) (obs : σ → ο) : σ → List (τ × ο) → List σ → Prop where
  | nil (c : σ) : Follows step obs c [] []
  | cons {c : σ} {t : τ} {o : ο} {r : List (τ × ο)} {cs : List σ} (n : Nat) :
      obs (iter step t n c) = o → Follows step obs (iter step t n c) r cs →
      Follows step obs c ((t, o) :: r) (iter step t n c :: cs)

end CpModel.C20Admit
