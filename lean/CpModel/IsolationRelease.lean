import CpModel.Isolation
/-
  C10, release protocol with faults, and the thread-local container.  Core Lean only.

  1. `Application.release_serving` as a small structured program (`Stmt`): the primitives are the four things the
     method does - publish `after_request` on the engine bus, `req.close()` (which runs the `on_end_request` hooks),
     `cherrypy.serving.clear()`, leaving `released_show_tracebacks` behind for the exception trapper - plus logging;
     the control structure is `seq`, `try … except Exception`, `try … finally`, with Python's semantics (an
     `except Exception` clause does not catch other `BaseException`s; a `finally` block runs whatever the outcome
     and its own exception replaces a pending one).  A FAULT PLAN says how the two callbacks into foreign code end:
     normally, with an `Exception`, or with another `BaseException`.
     `repairedProg` is the method as it is (try/finally nesting, repo ed63972), `headProg` the method before that
     repair (repo ba474ca, finding F24), `seededProg` the shape of seeded change C10-3 (clear inside the try).
     The behaviour of the LIVE method under all nine plans is measured on every run (`Gen.C10.releaseTable`).
  2. `_Serving(_local)`: a per-thread attribute dict in front of class-level defaults (`LServing`): `load`,
     `clear`, `setattr`, `getattr`.
-/
namespace CpModel.IsolationRelease

/-- How a call into foreign code ends. -/
inductive Out where
  | ok | exc | base
  deriving DecidableEq, Repr, Inhabited

def Out.all : List Out := [.ok, .exc, .base]

theorem Out.mem_all (o : Out) : o ∈ Out.all := by cases o <;> decide

structure Plan where
  pub : Out       -- the `after_request` listeners
  close : Out     -- `req.close()` = the `on_end_request` hooks (or an overridden close)
  deriving DecidableEq, Repr, Inhabited

inductive Stmt where
  | publish | close | clear | leftover | log
  | seq (a b : Stmt)
  | tryExcept (body handler : Stmt)       -- `except Exception:`
  | tryFinally (body fin : Stmt)
  deriving Repr, Inhabited

/-- What is observable of the thread's container afterwards. -/
structure RState where
  cleared : Bool := false      -- request / response / ad-hoc attributes are gone
  closed : Bool := false       -- `req.close()` was called
  leftover : Bool := false     -- `released_show_tracebacks` is set (dropped again by the trapper / the next load)
  deriving DecidableEq, Repr, Inhabited

def exec (p : Plan) : Stmt → RState → RState × Out
  | .publish, s => (s, p.pub)
  | .close, s => ({ s with closed := true }, p.close)
  | .clear, s => ({ s with cleared := true, leftover := false }, .ok)
  | .leftover, s => ({ s with leftover := true }, .ok)
  | .log, s => (s, .ok)
  | .seq a b, s =>
    match exec p a s with
    | (s1, .ok) => exec p b s1
    | r => r
  | .tryExcept body handler, s =>
    match exec p body s with
    | (s1, .exc) => exec p handler s1
    | r => r
  | .tryFinally body fin, s =>
    match exec p body s with
    | (s1, o1) =>
      match exec p fin s1 with
      | (s2, .ok) => (s2, o1)
      | r => r

/-- `release_serving` before the repair (repo ba474ca). -/
def headProg : Stmt :=
  .seq .publish (.seq (.tryExcept .close .log) (.seq .clear .leftover))

/-- `release_serving` as it is (repo ed63972, proposed_fixes/C10-release-finally.diff). -/
def repairedProg : Stmt :=
  .tryFinally (.tryFinally .publish (.tryExcept .close .log)) (.seq .clear .leftover)

/-- The shape of seeded change C10-3: `clear()` next to `close()` inside the `try`. -/
def seededProg : Stmt :=
  .seq .publish (.seq (.tryExcept (.seq .close .clear) .log) .leftover)

structure Obs where
  cleared : Bool
  closed : Bool
  raised : Out
  deriving DecidableEq, Repr, Inhabited

def behaviour (prog : Stmt) (p : Plan) : Obs :=
  let r := exec p prog {}
  { cleared := r.1.cleared, closed := r.1.closed, raised := r.2 }

/-- A measured behaviour table: plan ↦ observation. -/
abbrev RTable := Out → Out → Obs

def RTable.agrees (t : RTable) (prog : Stmt) : Bool :=
  Out.all.all fun a => Out.all.all fun b => t a b == behaviour prog ⟨a, b⟩

/-- The plans the property statement speaks about: listeners do not fail, hooks end normally or with an
    `Exception` (a `KeyboardInterrupt` / `SystemExit` from a hook is there to stop the server). -/
def Plan.ordinary (p : Plan) : Bool := p.pub == .ok && p.close != .base

/-! ### effect on the serving container of the history model -/
open CpModel.Isolation in
/-- What the release does to thread `t`'s entry of the history model, given the observed outcome. -/
def releaseStep (lc : Lifecycle) (o : Obs) (st : State) (t : Nat) : State :=
  if o.cleared then
    { st with serving := upd st.serving (key lc t) none, sattrs := upd st.sattrs (key lc t) [] }
  else st

/-! ### the thread-local container -/

/-- Attribute names of the container: 0 = request, 1 = response, 2 = released_show_tracebacks, others ad hoc. -/
abbrev ADict := List (Nat × Nat)

def aget : ADict → Nat → Option Nat
  | [], _ => none
  | (k, v) :: r, a => if k = a then some v else aget r a

def aerase : ADict → Nat → ADict
  | [], _ => []
  | (k, v) :: r, a => if k = a then aerase r a else (k, v) :: aerase r a

def aset (d : ADict) (a v : Nat) : ADict := (a, v) :: aerase d a

/-- `_Serving(_local)`: per-thread instance dicts; `dflt` are the class attributes (the default request/response). -/
structure LServing where
  dict : Nat → ADict
  dflt : Nat → Option Nat

def LServing.getattr (s : LServing) (t a : Nat) : Option Nat :=
  match aget (s.dict t) a with
  | some v => some v
  | none => s.dflt a

def LServing.setattr (s : LServing) (t a v : Nat) : LServing :=
  { s with dict := fun x => if x = t then aset (s.dict t) a v else s.dict x }

/-- `self.__dict__.pop('released_show_tracebacks', None); self.request = request; self.response = response` -/
def LServing.load (s : LServing) (t rq rs : Nat) : LServing :=
  { s with dict := fun x => if x = t then aset (aset (aerase (s.dict t) 2) 0 rq) 1 rs else s.dict x }

/-- `self.__dict__.clear()` -/
def LServing.clear (s : LServing) (t : Nat) : LServing :=
  { s with dict := fun x => if x = t then [] else s.dict x }

def LServing.names (s : LServing) (t : Nat) : List Nat := (s.dict t).map (·.1)

end CpModel.IsolationRelease
