import CpModel.Ranges
/-!
  C16 — the Last-Modified text: `httputil.HTTPDate = functools.partial(email.utils.formatdate, usegmt=True)`

      dt = datetime.fromtimestamp(timeval, timezone.utc); now = dt.timetuple()
      '%s, %02d %s %04d %02d:%02d:%02d GMT' % (
          ['Mon', 'Tue', 'Wed', 'Thu', 'Fri', 'Sat', 'Sun'][now[6]], now[2],
          ['Jan', …, 'Dec'][now[1] - 1], now[0], now[3], now[4], now[5])

  for an integer number of seconds since the epoch, 0 ≤ t < 253402300800 (years 1970 … 9999, the range of
  `datetime`).  The calendar (proleptic Gregorian, as `datetime` implements it) is computed with the
  days-to-civil arithmetic over 400-year eras; `now[6]` is Monday = 0 and 1970-01-01 was a Thursday.

  `validate_since` compares the header text with this text for equality.  `CpProofs.C16Date` shows that the
  rendering is injective, i.e. the string comparison IS the comparison of the two timestamps for equality
  (neither an earlier nor a later date is "equal").

  Not modelled: fractional `timeval` (`fromtimestamp` rounds to microseconds, half to even, which can carry
  into the seconds); the comparison stream uses integer seconds, files get mtimes with a fraction that
  does not carry.
-/
namespace CpModel.HttpDate
open CpModel.Ranges

/-- (year, month, day) of the day `days` after 1970-01-01 -/
def civilOfDoe (doe : Nat) : Nat × Nat × Nat :=
  let yoe := (doe - doe / 1460 + doe / 36524 - doe / 146096) / 365
  let doy := doe - (365 * yoe + yoe / 4 - yoe / 100)
  let mp := (5 * doy + 2) / 153
  let d := doy - (153 * mp + 2) / 5 + 1
  let m := if mp < 10 then mp + 3 else mp - 9
  (yoe, m, d)

def civil (days : Nat) : Nat × Nat × Nat :=
  let z := days + 719468
  let c := civilOfDoe (z % 146097)
  (c.1 + z / 146097 * 400 + (if c.2.1 ≤ 2 then 1 else 0), c.2.1, c.2.2)

def dg (n : Nat) : Char := Char.ofNat (48 + n)

def dayChars : Nat → Char × Char × Char
  | 0 => ('M', 'o', 'n') | 1 => ('T', 'u', 'e') | 2 => ('W', 'e', 'd') | 3 => ('T', 'h', 'u')
  | 4 => ('F', 'r', 'i') | 5 => ('S', 'a', 't') | _ => ('S', 'u', 'n')

def monChars : Nat → Char × Char × Char
  | 1 => ('J', 'a', 'n') | 2 => ('F', 'e', 'b') | 3 => ('M', 'a', 'r') | 4 => ('A', 'p', 'r')
  | 5 => ('M', 'a', 'y') | 6 => ('J', 'u', 'n') | 7 => ('J', 'u', 'l') | 8 => ('A', 'u', 'g')
  | 9 => ('S', 'e', 'p') | 10 => ('O', 'c', 't') | 11 => ('N', 'o', 'v') | _ => ('D', 'e', 'c')

/-- the fields of the time tuple (`wd`: Monday = 0) -/
structure Fields where
  y : Nat
  m : Nat
  d : Nat
  hh : Nat
  mm : Nat
  ss : Nat
  wd : Nat
  deriving DecidableEq, Repr

def fields (t : Nat) : Fields :=
  let days := t / 86400
  let sod := t % 86400
  let c := civil days
  ⟨c.1, c.2.1, c.2.2, sod / 3600, sod % 3600 / 60, sod % 60, (days + 3) % 7⟩

/-- `'%s, %02d %s %04d %02d:%02d:%02d GMT'` of the fields -/
def renderFields (f : Fields) : Text :=
  [(dayChars f.wd).1, (dayChars f.wd).2.1, (dayChars f.wd).2.2, ',', ' ', dg (f.d / 10), dg (f.d % 10), ' ',
   (monChars f.m).1, (monChars f.m).2.1, (monChars f.m).2.2, ' ',
   dg (f.y / 1000), dg (f.y / 100 % 10), dg (f.y / 10 % 10), dg (f.y % 10), ' ',
   dg (f.hh / 10), dg (f.hh % 10), ':', dg (f.mm / 10), dg (f.mm % 10), ':', dg (f.ss / 10), dg (f.ss % 10),
   ' ', 'G', 'M', 'T']

/-- `httputil.HTTPDate(t)` for an integer `t` -/
def httpDate (t : Nat) : Text := renderFields (fields t)

end CpModel.HttpDate
