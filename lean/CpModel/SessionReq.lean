/-
  C13 (c) — request-level life cycle of the session lock.

  Transcribed:
    * `SessionTool._setup` (_cptools.py): which hooks the tool attaches for `locking` =
      implicit / early / explicit, with which priority and fail-safe mark
        before_request_body : sessions.init   prio 50
                              _lock_session   prio 60   (early only)
        before_handler      : _lock_session   prio 50   (implicit only)
        before_finalize     : sessions.save   prio 50   FAILSAFE
        on_end_request      : sessions.close  prio 90   FAILSAFE
      and, attached by `sessions.save` itself when the response is streamed,
        on_end_request      : session.save    prio 50   (a bound method: not fail-safe)
    * `HookMap.run` / `run_hooks` (_cprequest.py): stable sort by priority, run until the first
      failure, then only the fail-safe hooks of the remainder; the exception that propagates is the
      last one raised.  (This is the part of the C09 model needed here, re-stated locally.)
    * `Request.respond / _do_respond / handle_error / close` as far as they decide WHICH hook
      points run for which outcome: HTTPError/HTTPRedirect re-run before_finalize, any other
      exception skips it; on_end_resource always runs; on_end_request runs when the WSGI
      iterable is closed (after the body was sent, or abandoned).
    * `sessions.save`, `sessions.close`, `Session.save` (`finally: release`), `Session.load`,
      `Session._regenerate` (delete, release old, new id, acquire new), RamSession / FileSession
      `acquire_lock` / `release_lock` on the level of "how many times does this request hold the
      lock of session id k" (`held k`).

  User code: the page handler is a script of session actions followed by an outcome; a streamed or
  generator body may touch the session and may raise; user hooks (no session effect) with arbitrary
  priority / fail-safe mark / outcome sit at before_request_body, before_handler, before_finalize
  and on_end_request; the on_end_resource hook has an outcome.

  Not modelled: InternalRedirect, the response status / body (property C01/C09), several
  applications, session actions inside a generator other than data access.  A handler that acquires
  a lock it already holds or releases one it does not hold IS modelled (RamSession: the re-entrant
  count grows / `release_lock` raises; FileSession with `lock_timeout`: LockTimeout) — the theorem
  `C13_released_at_end` is about handlers that do not (`wellBehaved`), `C13_double_acquire_leaks_ram`
  shows what happens otherwise.  A failing 'after_request' engine listener does not keep `close()`
  from running (`release_serving`: try / finally), so it is no dimension of the model.
-/
namespace CpModel.SessionReq

inductive Mode | implicit | early | explicit
  deriving DecidableEq, Repr

/-- outcome of a callback: return, raise HTTPError, raise HTTPRedirect, raise another Exception -/
inductive Out | ok | http | redirect | exc
  deriving DecidableEq, Repr

inductive Act | touch | acquire | release | regen
  deriving DecidableEq, Repr

inductive HAct | user | init | lock | save | close | sessSave
  deriving DecidableEq, Repr

structure Hook where
  prio : Nat
  failsafe : Bool
  act : HAct := .user
  out : Out := .ok
  deriving DecidableEq, Repr

inductive Consume | full | abandon
  deriving DecidableEq, Repr

structure Plan where
  mode : Mode
  file : Bool            -- FileSession (asserts `locked` on load / delete) or RamSession
  acts : List Act        -- the page handler's session actions …
  out : Out              -- … and how it ends
  stream : Bool          -- response.stream
  gen : Bool             -- the body is a generator (runs in collapse_body, or while streaming)
  genTouch : Bool        -- the generator accesses session data
  genRaise : Bool        -- the generator raises
  consume : Consume      -- the server reads the whole body / closes it early
  saveFails : Bool       -- the storage's `_save` raises
  oerOut : Out           -- on_end_resource user hook
  brb : List Hook        -- user hooks
  bh : List Hook
  bf : List Hook
  eer : List Hook        -- on_end_request
  deriving Repr

structure S where
  hasSess : Bool := false
  locked : Bool := false
  cur : Nat := 0
  held : Nat → Nat := fun _ => 0
  loaded : Bool := false
  saved : Bool := false
  deferred : Bool := false
  streaming : Bool := false   -- `response.stream`, set by the handler just before it returns
  hasGen : Bool := false      -- `response.body` is the generator the handler returned
  journal : List (Char × Bool × Nat) := []    -- (observation point, Session.locked, held cur)

def S.obs (s : S) (c : Char) : S := { s with journal := s.journal ++ [(c, s.locked, s.held s.cur)] }

/-- `acquire_lock`: RamSession: `self.locked = True; locks.setdefault(id, RLock()).acquire()`
    (re-entrant); FileSession: a new FileLock on `<path>.lock`. -/
def acquireLock (s : S) : S :=
  { s with locked := true, held := fun k => if k = s.cur then s.held k + 1 else s.held k }

/-- `release_lock`; `none` = it raised (RamSession: lock object not owned / absent). -/
def releaseLock (s : S) : Option S :=
  if s.held s.cur = 0 then none
  else some { s with locked := false, held := fun k => if k = s.cur then s.held k - 1 else s.held k }

/-- data access: `Session.load` on first use (FileSession asserts `self.locked`) -/
def touch (p : Plan) (s : S) : S × Out :=
  if s.loaded then (s, .ok)
  else if p.file && !s.locked then (s, .exc)
  else ({ s with loaded := true }, .ok)

/-- `Session.regenerate()` -/
def regen (p : Plan) (s : S) : S × Out :=
  if p.file && !s.locked then (s, .exc)            -- FileSession._delete asserts `locked`
  else if s.locked then
    match releaseLock s with
    | none => (s, .exc)
    | some s1 => (acquireLock { s1 with cur := s1.cur + 1 }, .ok)
  else ({ s with cur := s.cur + 1 }, .ok)

def runActs (p : Plan) : List Act → S → S × Out
  | [], s => (s, .ok)
  | a :: rest, s =>
    if !s.hasSess then (s, .exc) else       -- `cherrypy.session` proxies serving.session: AttributeError
    let (s1, o) := match a with
      | .touch => touch p s
      | .acquire =>
        -- FileSession: a second FileLock on the path this request already holds never succeeds; with
        -- `lock_timeout` the polling loop ends in LockTimeout (without it the request hangs: not a plan)
        if p.file && decide (0 < s.held s.cur) then (s, .exc) else (acquireLock s, .ok)
      | .release => match releaseLock s with | some s1 => (s1, .ok) | none => (s, .exc)
      | .regen => regen p s
    match o with
    | .ok => runActs p rest s1
    | e => (s1, e)

/-- `Session.save()`: `try: if loaded: _save(...)  finally: if locked: release_lock()` -/
def sessionSave (p : Plan) (s : S) : S × Out :=
  let o : Out := if s.loaded && p.saveFails then .exc else .ok
  if s.locked then
    match releaseLock s with
    | some s1 => (s1, o)
    | none => (s, .exc)
  else (s, o)

/-- the generator body (if any): session access, then maybe an exception -/
def runGen (p : Plan) (s : S) : S × Out :=
  if !s.hasGen then (s, .ok) else
  let (s1, o) := if p.genTouch then touch p s else (s, .ok)
  match o with
  | .ok => (s1, if p.genRaise then .exc else .ok)
  | e => (s1, e)

/-- `sessions.save()` (the before_finalize hook) -/
def saveHook (p : Plan) (s : S) : S × Out :=
  if !s.hasSess then (s, .ok)
  else if s.saved then (s, .ok)
  else
    let s := { s with saved := true }
    if s.streaming then ({ s with deferred := true }, .ok)
    else
      -- `if is_iterator(response.body): response.collapse_body()` runs the generator NOW
      let (s1, o) := runGen p s
      match o with
      | .ok => sessionSave p s1
      | e => (s1, e)

/-- `sessions.close()` (the on_end_request hook) -/
def closeHook (s : S) : S × Out :=
  if s.hasSess && s.locked then
    match releaseLock s with
    | some s1 => (s1, .ok)
    | none => (s, .exc)
  else (s, .ok)

def runAct (p : Plan) (h : Hook) (s : S) : S × Out :=
  match h.act with
  | .user => (s, h.out)
  | .init => ({ s with hasSess := true }, .ok)
  | .lock => if s.hasSess then (acquireLock s, .ok) else (s, .exc)   -- AttributeError: no serving.session
  | .save => saveHook p s
  | .close => closeHook s
  | .sessSave => sessionSave p s

/-- stable insertion sort by priority (`sorted(self[point])`, `Hook.__lt__`) -/
def insertByPrio (h : Hook) : List Hook → List Hook
  | [] => [h]
  | x :: xs => if h.prio < x.prio then h :: x :: xs else x :: insertByPrio h xs

def sortByPrio : List Hook → List Hook
  | [] => []
  | h :: rest => insertByPrio h (sortByPrio rest)

/-- `run_hooks(safe)`: only fail-safe hooks; a failure continues with the rest; last exception wins -/
def runSafe (p : Plan) : List Hook → S → S × Out
  | [], s => (s, .ok)
  | h :: rest, s =>
    if h.failsafe then
      let (s1, o) := runAct p h s
      let (s2, o2) := runSafe p rest s1
      (s2, if o2 = .ok then o else o2)
    else runSafe p rest s

/-- `HookMap.run_hooks` on the sorted list -/
def runHooks (p : Plan) : List Hook → S → S × Out
  | [], s => (s, .ok)
  | h :: rest, s =>
    let (s1, o) := runAct p h s
    match o with
    | .ok => runHooks p rest s1
    | e =>
      let (s2, o2) := runSafe p rest s1
      (s2, if o2 = .ok then e else o2)

def runPoint (p : Plan) (hooks : List Hook) (s : S) : S × Out := runHooks p (sortByPrio hooks) s

/-- hooks attached by `SessionTool._setup` -/
def toolBRB (m : Mode) : List Hook :=
  [⟨50, false, .init, .ok⟩] ++ (if m = .early then [⟨60, false, .lock, .ok⟩] else [])
def toolBH (m : Mode) : List Hook := if m = .implicit then [⟨50, false, .lock, .ok⟩] else []
def toolBF : List Hook := [⟨50, true, .save, .ok⟩]
def toolEnd (s : S) : List Hook :=
  [⟨90, true, .close, .ok⟩] ++ (if s.deferred then [⟨50, false, .sessSave, .ok⟩] else [])

def isHttp (o : Out) : Bool := o = .http || o = .redirect

/-- `_do_respond` up to the page handler: before_request_body, (body.process), before_handler -/
def preHandler (p : Plan) (s : S) : S × Out :=
  let (s, o) := runPoint p (p.brb ++ toolBRB p.mode) s
  if o ≠ .ok then (s, o) else
  runPoint p (p.bh ++ toolBH p.mode) s

/-- `_do_respond` from before_request_body on -/
def doRespond (p : Plan) (s : S) : S × Out :=
  let (s, o) := preHandler p s
  if o ≠ .ok then (s, o) else
  let s := s.obs 'H'
  let (s, o) := runActs p p.acts s
  if o ≠ .ok then (s, o) else
  if p.out ≠ .ok then (s, p.out) else
  runPoint p (p.bf ++ toolBF) { s with streaming := p.stream, hasGen := p.gen }

/-- `respond`: returns the state when the WSGI application call returns, and whether the response
    body is still the handler's (no error page replaced it) -/
def respond (p : Plan) (s : S) : S × Bool :=
  let (s, o) := doRespond p s
  -- except (HTTPRedirect, HTTPError): set_response; before_finalize; finalize
  let (s, o2) := if isHttp o then runPoint p (p.bf ++ toolBF) { s with hasGen := false } else (s, o)
  -- finally: on_end_resource;  except Exception: handle_error()  (no session hooks there)
  (s, o = .ok && o2 = .ok && p.oerOut = .ok)

/-- the whole request: respond, the server iterates (or abandons) the body, close() -/
def runRequest (p : Plan) : S :=
  let (s, bodyIsHandlers) := respond p {}
  let s := s.obs 'B'
  -- a streamed generator body runs while the server iterates it
  let s := if p.stream && bodyIsHandlers && p.consume = .full then (runGen p s).1 else s
  let (s, _) := runPoint p (p.eer ++ toolEnd s) s
  s.obs 'E'

/-- the handler never acquires a lock it holds and never releases one it does not hold -/
def wellBehavedFrom : Bool → List Act → Bool
  | _, [] => true
  | l, .touch :: rest => wellBehavedFrom l rest
  | l, .acquire :: rest => !l && wellBehavedFrom true rest
  | l, .release :: rest => l && wellBehavedFrom false rest
  | l, .regen :: rest => wellBehavedFrom l rest

def wellBehaved (p : Plan) : Bool := wellBehavedFrom (p.mode != .explicit) p.acts

/-- the same, relative to the lock state the handler really starts in -/
def wellBehavedRun (p : Plan) : Bool := wellBehavedFrom (preHandler p {}).1.locked p.acts

def userOnly (hs : List Hook) : Bool := hs.all fun h => h.act == .user

end CpModel.SessionReq
