import CpModel.Gen.C17Tables
/-
  C17 model, part 1: the hand-rolled gzip member of `cherrypy/lib/encoding.py: compress()`.

  Modelled (statement by statement):
    * the 10-byte header: ID1 ID2 CM FLG, MTIME = `int(time.time()) & 0xFFFFFFFF` little endian
      (MTIME is a parameter), XFL by level (9 -> 2, 1 -> 4, else 0), OS = 255;
    * the loop `size += len(line); crc = zlib.crc32(line, crc); yield zobj.compress(line)` followed by
      `yield zobj.flush()`: CRC and size are accumulated chunk by chunk exactly as the code does;
    * the trailer `pack('<L', crc & 0xFFFFFFFF)`, `pack('<L', size & 0xFFFFFFFF)`.
    * `crc32` is the concrete bitwise CRC-32 (polynomial 0xEDB88320, reflected) with zlib's running
      interface `crc32(data, crc)`; it is compared with `zlib.crc32` on every run.
  Parameters (NOT modelled): zlib's raw deflate.  `Z` carries `deflate` (per input chunk outputs of
  `compressobj.compress` plus the final `flush`) and `inflate` (a raw-deflate decoder that consumes
  one self-terminating stream from the front and returns the unused tail).  `Z.Lawful` is the
  contract "inflate inverts deflate for every chunking and level"; the harness validates the real
  zlib against it (decompressobj(-15) on the real payload) but it is not proved.
  `gunzip` is a checking parser for the member format written from RFC 1952 (FLG = 0 members only):
  magic, CM, FLG, then a deflate stream, then CRC32 and ISIZE which must match the inflated data.
-/
namespace CpModel.Gzip

abbrev Bytes := List UInt8

/-! ### CRC-32 -/

def crcBit (c : UInt32) : UInt32 :=
  if c &&& 1 = 1 then (c >>> 1) ^^^ 0xEDB88320 else c >>> 1

def crcByte (c : UInt32) (b : UInt8) : UInt32 :=
  crcBit (crcBit (crcBit (crcBit (crcBit (crcBit (crcBit (crcBit (c ^^^ b.toUInt32))))))))

/-- the raw register update over a byte string -/
def crcRaw (c : UInt32) (data : Bytes) : UInt32 := data.foldl crcByte c

/-- `zlib.crc32(data, crc)`: the running interface takes and returns the finalised value. -/
def crc32 (data : Bytes) (crc : UInt32 := 0) : UInt32 :=
  crcRaw (crc ^^^ 0xFFFFFFFF) data ^^^ 0xFFFFFFFF

/-! ### little-endian 32-bit fields (`struct.pack('<L', n & 0xFFFFFFFF)`) -/

def le32 (n : Nat) : Bytes :=
  [UInt8.ofNat (n % 256), UInt8.ofNat (n / 256 % 256), UInt8.ofNat (n / 65536 % 256),
   UInt8.ofNat (n / 16777216 % 256)]

def rd32 (a b c d : UInt8) : Nat :=
  a.toNat + 256 * b.toNat + 65536 * c.toNat + 16777216 * d.toNat

/-! ### the deflate parameter -/

structure Z where
  /-- level, input chunks ↦ outputs of `zobj.compress(chunk)` for each chunk, then `zobj.flush()` -/
  deflate : Nat → List Bytes → List Bytes
  /-- decode one raw-deflate stream from the front: (data, unused tail) -/
  inflate : Bytes → Option (Bytes × Bytes)

/-- zlib's contract: the concatenated output is a self-terminating stream for the concatenated input. -/
def Z.Lawful (z : Z) : Prop :=
  ∀ (lvl : Nat) (chunks : List Bytes) (tail : Bytes),
    z.inflate ((z.deflate lvl chunks).flatten ++ tail) = some (chunks.flatten, tail)

/-! ### `compress(body, compress_level)` -/

/-- `_COMPRESSION_LEVEL_BEST` / `_COMPRESSION_LEVEL_FAST` come from the generated table -/
def xfl (level : Nat) : UInt8 :=
  if level = Gen.C17.levelBest then 2 else if level = Gen.C17.levelFast then 4 else 0

/-- the six header yields -/
def headerChunks (level mtime : Nat) : List Bytes :=
  [[0x1f, 0x8b], [0x08], [0x00], le32 (mtime % 4294967296), [xfl level], [0xff]]

/-- state of the `for line in body` loop -/
structure Acc where
  crc : UInt32
  size : Nat

def Acc.init : Acc := ⟨crc32 [], 0⟩

def Acc.feed (a : Acc) (line : Bytes) : Acc := ⟨crc32 line a.crc, a.size + line.length⟩

def trailerChunks (a : Acc) : List Bytes :=
  [le32 (a.crc.toNat % 4294967296), le32 (a.size % 4294967296)]

/-- every chunk the generator yields, in order -/
def frame (z : Z) (level mtime : Nat) (body : List Bytes) : List Bytes :=
  headerChunks level mtime ++ z.deflate level body ++ trailerChunks (body.foldl Acc.feed Acc.init)

/-- the bytes on the wire -/
def member (z : Z) (level mtime : Nat) (body : List Bytes) : Bytes :=
  (frame z level mtime body).flatten

/-! ### checking parser (RFC 1952, FLG = 0) -/

def gunzip (z : Z) : Bytes → Option Bytes
  | 0x1f :: 0x8b :: 0x08 :: flg :: _m0 :: _m1 :: _m2 :: _m3 :: _xfl :: _os :: rest =>
    if flg ≠ 0 then none else
    match z.inflate rest with
    | none => none
    | some (data, tail) =>
      match tail with
      | [c0, c1, c2, c3, s0, s1, s2, s3] =>
        if rd32 c0 c1 c2 c3 = (crc32 data).toNat ∧ rd32 s0 s1 s2 s3 = data.length % 4294967296
        then some data else none
      | _ => none
  | _ => none

/-! ### the general member header of RFC 1952 §2.3 (optional fields by FLG bit)

  `gunzip` above refuses every FLG ≠ 0.  `gunzipFull` is the reader a conforming decompressor
  implements: FLG bit 2 FEXTRA (XLEN little endian + XLEN bytes), bit 3 FNAME and bit 4 FCOMMENT
  (zero-terminated), bit 1 FHCRC (two bytes, skipped, not verified), bits 5..7 reserved (must be
  zero), bit 0 FTEXT (a hint, no field).  The theorems show that for the members `compress()` builds
  none of the optional fields is present and the deflate stream starts at offset 10. -/

def flagBit (flg : UInt8) (k : Nat) : Bool := flg.toNat / 2 ^ k % 2 = 1

/-- drop a zero-terminated string (terminator included) -/
def dropZString : Bytes → Option Bytes
  | [] => none
  | b :: r => if b = 0 then some r else dropZString r

def skipExtra : Bytes → Option Bytes
  | l0 :: l1 :: r =>
    let n := l0.toNat + 256 * l1.toNat
    if n ≤ r.length then some (r.drop n) else none
  | _ => none

/-- what follows the ten fixed header bytes, after the optional fields announced by `flg` -/
def skipOptional (flg : UInt8) (rest : Bytes) : Option Bytes :=
  if flagBit flg 5 ∨ flagBit flg 6 ∨ flagBit flg 7 then none else
  (if flagBit flg 2 then skipExtra rest else some rest).bind fun r1 =>
  (if flagBit flg 3 then dropZString r1 else some r1).bind fun r2 =>
  (if flagBit flg 4 then dropZString r2 else some r2).bind fun r3 =>
  if flagBit flg 1 then (match r3 with | _ :: _ :: r4 => some r4 | _ => none) else some r3

def gunzipFull (z : Z) : Bytes → Option Bytes
  | 0x1f :: 0x8b :: 0x08 :: flg :: _m0 :: _m1 :: _m2 :: _m3 :: _xfl :: _os :: rest =>
    match skipOptional flg rest with
    | none => none
    | some rest' =>
      match z.inflate rest' with
      | none => none
      | some (data, tail) =>
        match tail with
        | [c0, c1, c2, c3, s0, s1, s2, s3] =>
          if rd32 c0 c1 c2 c3 = (crc32 data).toNat ∧ rd32 s0 s1 s2 s3 = data.length % 4294967296
          then some data else none
        | _ => none
  | _ => none

/-! ### file-like bodies: `lib.file_generator` / `lib.file_generator_limited`

  A file object is seen through what its successive `read(n)` calls return (any sizes: pipes, sockets
  and capped readers return fewer than `n` bytes before the data ends; `b''` means end of file). -/

/-- the chunks `file_generator` yields: every read up to the first empty one -/
def fileGen : List Bytes → List Bytes
  | [] => []
  | r :: rs => if r = [] then [] else r :: fileGen rs

/-- `file_generator_limited(fileobj, count)`: reads while `remaining > 0`, stops at an empty read -/
def fileGenLimited (remaining : Nat) : List Bytes → List Bytes
  | [] => []
  | r :: rs =>
    if remaining = 0 then [] else if r = [] then [] else r :: fileGenLimited (remaining - r.length) rs

end CpModel.Gzip
