import CpModel.Gen.C15Tables
/-
  Model of `cherrypy.lib.caching` (MemoryCache + the tool functions `get` / `tee_output`) and of
  `_cptools.CachingTool._wrapper`, transcribed statement by statement.  Core Lean only.

  What is modelled
  * `MemoryCache.store`      : uri → AntiStampedeCache{selecting_headers, key → variant | Event}
                               as association lists (Python dicts; only lookup and `len` matter).
                               The `threading.Event` placeholder that `AntiStampedeCache.wait`
                               leaves behind on a miss is the slot `sentinel`
                               (`antistampede_timeout = None`: a sentinel is never waited for).
  * `MemoryCache.expirations`: flat list of `(due, size, uri, key)` in insertion order (= dict
                               order of the buckets under a monotone clock).  The key the sweep
                               deletes is the tuple of selecting header VALUES of the put (repaired
                               code) or, when `Cfg.sweepByNames`, the selecting header NAMES (the
                               code before repair 72a7a7e, which never found such a variant).  Which
                               one the live module does is probed on every run
                               (`Gen.C15.sweepKeyIsNames`); the theorems hold for both values.
  * `MemoryCache.cursize`    : an `Int`, exactly as Python computes it (never decremented by
                               `delete`, decremented by the sweep only when its `del` succeeds).
  * `get`, `put` (object / size limits, `selecting_headers` fixed at the first put, in
    `header_elements` order = descending string order), `delete`, `expire_cache` (one sweep).
  * tool `get`: invalidating methods (generated table), `Pragma: no-cache`, the Cache-Control
    loop over `header_elements` order (descending by value) with `max-age` (400 when malformed) and
    `no-cache`, `age = int(response.time - create_time)`, `age > max_age` ⇒ miss, hit ⇒ `Age`.
    `max_age` is capped by `delay` (the repaired code, finding F16a).
  * `tee_output`: request `no-store`, response `no-store` / `Pragma: no-cache`, empty body ⇒
    `delete`, else `put` — and nothing at all unless the tee generator ran to its end
    (`Plan.completes`: handler exception, body iterator raising at chunk k, abandoned stream,
    streamed HEAD leave the cache, placeholder included, as it is).
  * `_wrapper`: hit ⇒ handler skipped; miss ⇒ tee attached iff `request.cacheable`.
  * the clock: `Nat` ticks, `tps = 4` ticks per second (so `int()` truncation is exercised);
    a request happens at one instant (`response.time`).

  * `validate_since` on a hit (`validateSince`, `finalise`: 304 / 412 built from the cached headers);
    header-name folding (`title`, used by `hget`).
  Header-string tokenisation (`RE_HEADER_SPLIT`, `parse_header`, `strip`) is `CpModel.CacheHdr`
  (`parseReq` / `parsePlan` produce the `Req` / `Plan` of this file); thread interleavings are
  `CpModel.CacheConc`.  Not modelled: tot_* statistics, `normalize_path` inside `cherrypy.url`.
-/
namespace CpModel.Cache

abbrev Str := List Char

/-- clock ticks per second -/
def tps : Nat := 4

/-! ### association lists (Python dicts; insertion order is never observed) -/
section AList
variable {κ : Type} {β : Type} [DecidableEq κ]

def aget : List (κ × β) → κ → Option β
  | [], _ => none
  | (a, b) :: t, k => if a = k then some b else aget t k

def aset : List (κ × β) → κ → β → List (κ × β)
  | [], k, v => [(k, v)]
  | (a, b) :: t, k, v => if a = k then (a, v) :: t else (a, b) :: aset t k v

def adel : List (κ × β) → κ → List (κ × β)
  | [], _ => []
  | (a, b) :: t, k => if a = k then adel t k else (a, b) :: adel t k

end AList

/-! ### Python string primitives used by the anchored code -/

/-- `a < b` on `str` (code-point lexicographic) -/
def strLt : Str → Str → Bool
  | [], [] => false
  | [], _ :: _ => true
  | _ :: _, [] => false
  | a :: as, b :: bs =>
    if a.toNat < b.toNat then true else if b.toNat < a.toNat then false else strLt as bs

def insDesc (x : Str) : List Str → List Str
  | [] => [x]
  | y :: ys => if strLt x y then y :: insDesc x ys else x :: y :: ys

/-- `list(reversed(sorted(values)))`: the order `header_elements` returns plain elements in. -/
def sortDesc : List Str → List Str
  | [] => []
  | x :: xs => insDesc x (sortDesc xs)

/-- `v.split('=', 1)` as (first atom, rest if there was an `=`) -/
def splitEq : Str → Str × Option Str
  | [] => ([], none)
  | c :: cs => if c = '=' then ([], some cs) else ((c :: (splitEq cs).1), (splitEq cs).2)

/-- `re.fullmatch('[0-9]{1,18}', s)`: the accepted `max-age` arguments -/
def isDigits (s : Str) : Bool := !s.isEmpty && decide (s.length ≤ 18) && s.all Char.isDigit

/-- `int(s)` for a string of ASCII digits -/
def toNat (s : Str) : Nat := s.foldl (fun n c => 10 * n + (c.toNat - 48)) 0

def sMaxAge : Str := ['m', 'a', 'x', '-', 'a', 'g', 'e']
def sNoCache : Str := ['n', 'o', '-', 'c', 'a', 'c', 'h', 'e']
def sNoStore : Str := ['n', 'o', '-', 's', 't', 'o', 'r', 'e']

/-- `.replace('%', '%25').replace('?', '%3F')` -/
def escPath : Str → Str
  | [] => []
  | c :: cs =>
    if c = '%' then '%' :: '2' :: '5' :: escPath cs
    else if c = '?' then '%' :: '3' :: 'F' :: escPath cs
    else c :: escPath cs

/-- the store key of a resource, up to the constant prefix `base + script_name` (path normalisation is not
    modelled).  `esc = false`: `cherrypy.url(qs=request.query_string)` = `path_info + ('?' + qs if qs else '')`
    (finding C15-N1: not injective); `esc = true`: the repaired key, `%` and `?` of the path percent-encoded. -/
def uriKeyWith (esc : Bool) (path qs : Str) : Str :=
  if qs = [] then (if esc then escPath path else path) else (if esc then escPath path else path) ++ '?' :: qs

/-- the key the live module builds (probed on every run: `Gen.C15.keyEscapesPath`) -/
def uriKey (path qs : Str) : Str := uriKeyWith Gen.C15.keyEscapesPath path qs

/-! ### data -/

structure Cfg where
  delay : Nat
  maxobjects : Nat
  maxobjSize : Nat
  maxsize : Nat
  invalid : List Str := Gen.C15.invalidMethods
  sweepByNames : Bool := Gen.C15.sweepKeyIsNames
  deriving Repr

structure Req where
  method : Str
  uri : Str                      -- `cherrypy.url(qs=request.query_string)`
  hdrs : List (Str × Str)        -- request headers (name, value)
  pragma : List Str              -- element values of `Pragma`
  cc : List Str                  -- element values of `Cache-Control`, source order
  ims : Str := []                -- `If-Modified-Since` ([] = absent or empty)
  ius : Str := []                -- `If-Unmodified-Since`
  deriving Repr, DecidableEq

/-- What the page handler answers if it is reached by this request. -/
structure Plan where
  vary : List Str                -- element values of the response's `Vary`, source order
  size : Nat                     -- len(body)
  noStore : Bool                 -- response `Cache-Control: no-store`
  pragmaNoCache : Bool           -- response `Pragma: no-cache`
  stream : Bool := false         -- `response.stream`: the body is iterated by the WSGI consumer, not by finalize
  bodyOk : Bool := true          -- the handler returned and its body iterator runs to its end without raising
  drained : Bool := true         -- the client reads a streamed body to its end (no early `close()`)
  lastMod : Str := []            -- the response's `Last-Modified` header ([] = none)
  deriving Repr, DecidableEq

def sHead : Str := ['H', 'E', 'A', 'D']

/-- Did the `tee` generator run to its end (the only place where `put` / `delete` happen)?
    Buffered: `finalize` (or the encode tool, before the tee exists) drains the body, so it does iff the
    handler and its iterator do not raise.  Streamed: only when the client drains it, and never for HEAD
    (`Request.run` replaces the body by `[]`). -/
def Plan.completes (p : Plan) (r : Req) : Bool :=
  p.bodyOk && (!p.stream || (p.drained && decide (r.method ≠ sHead)))

def isAsciiAlpha (c : Char) : Bool :=
  ('a'.toNat ≤ c.toNat && c.toNat ≤ 'z'.toNat) || ('A'.toNat ≤ c.toNat && c.toNat ≤ 'Z'.toNat)

def titleAux : Bool → Str → Str
  | _, [] => []
  | prevCased, c :: cs =>
    if isAsciiAlpha c then (if prevCased then c.toLower else c.toUpper) :: titleAux true cs
    else c :: titleAux false cs

/-- `s.title()` (the key folding of `CaseInsensitiveDict`) for strings whose cased characters are ASCII
    letters: header names are ASCII tokens -/
def title (s : Str) : Str := titleAux false s

/-- `request.headers.get(h, '')`: the HeaderMap folds the name (`title`); its own keys were folded when the
    request was read (`Req.hdrs` holds folded names) -/
def hget (r : Req) (h : Str) : Str := (aget r.hdrs (title h)).getD []

structure Variant where
  gen : Nat                      -- which handler output (status, headers, body) this is
  created : Nat                  -- `response.time` of the storing request, in ticks
  deriving Repr, DecidableEq

inductive Slot where
  | sentinel                     -- a `threading.Event` placeholder
  | val (v : Variant)
  deriving Repr, DecidableEq

structure UriCache where
  sel : List Str                 -- `selecting_headers`
  slots : List (List Str × Slot)
  deriving Repr

structure Entry where
  due : Nat
  size : Nat
  uri : Str
  key : List Str
  deriving Repr

structure Cache where
  store : List (Str × UriCache) := []
  exps : List Entry := []
  cursize : Int := 0
  deriving Repr

/-! ### MemoryCache -/

/-- `MemoryCache.get` with `antistampede_timeout = None` (`AntiStampedeCache.wait` inlined). -/
def Cache.get (c : Cache) (r : Req) : Cache × Option Variant :=
  match aget c.store r.uri with
  | none => (c, none)
  | some uc =>
    let key := uc.sel.map (hget r)
    match aget uc.slots key with
    | some (.val v) => (c, some v)
    | some .sentinel => (c, none)
    | none => ({ c with store := aset c.store r.uri { uc with slots := aset uc.slots key .sentinel } }, none)

/-- `MemoryCache.put` -/
def Cache.put (cfg : Cfg) (c : Cache) (r : Req) (p : Plan) (gen now : Nat) : Cache :=
  let uc : UriCache := match aget c.store r.uri with
    | some uc => uc
    | none => { sel := sortDesc p.vary, slots := [] }
  let store1 := match aget c.store r.uri with
    | some _ => c.store
    | none => aset c.store r.uri uc
  if store1.length < cfg.maxobjects then
    let total : Int := c.cursize + p.size
    if p.size < cfg.maxobjSize ∧ total < cfg.maxsize then
      let key := uc.sel.map (hget r)
      { store := aset store1 r.uri { uc with slots := aset uc.slots key (.val ⟨gen, now⟩) }
        exps := c.exps ++ [⟨now + tps * cfg.delay, p.size, r.uri, if cfg.sweepByNames then uc.sel else key⟩]
        cursize := total }
    else { c with store := store1 }
  else { c with store := store1 }

/-- `MemoryCache.delete` -/
def Cache.delete (c : Cache) (uri : Str) : Cache := { c with store := adel c.store uri }

/-- one expired bucket entry: `del self.store[uri][tuple(key)]`, KeyError swallowed -/
def sweepOne (store : List (Str × UriCache)) (cursize : Int) (e : Entry) : List (Str × UriCache) × Int :=
  match aget store e.uri with
  | none => (store, cursize)
  | some uc =>
    match aget uc.slots e.key with
    | none => (store, cursize)
    | some _ => (aset store e.uri { uc with slots := adel uc.slots e.key }, cursize - e.size)

/-- one pass of `expire_cache` at time `now`; returns the store, cursize and the entries kept -/
def sweepAll (now : Nat) : List Entry → List (Str × UriCache) → Int → List (Str × UriCache) × Int × List Entry
  | [], store, cur => (store, cur, [])
  | e :: es, store, cur =>
    if e.due ≤ now then
      sweepAll now es (sweepOne store cur e).1 (sweepOne store cur e).2
    else
      ((sweepAll now es store cur).1, (sweepAll now es store cur).2.1, e :: (sweepAll now es store cur).2.2)

def Cache.sweep (c : Cache) (now : Nat) : Cache :=
  { store := (sweepAll now c.exps c.store c.cursize).1
    cursize := (sweepAll now c.exps c.store c.cursize).2.1
    exps := (sweepAll now c.exps c.store c.cursize).2.2 }

/-! ### the tool -/

inductive Scan where
  | proceed (reqMaxAge : Option Nat)
  | noCache
  | bad
  deriving Repr, DecidableEq

/-- the `for v in [e.value for e in request.headers.elements('Cache-Control')]` loop, on the
    element values already in `header_elements` order -/
def scanCC : List Str → Scan
  | [] => .proceed none
  | v :: rest =>
    if (splitEq v).1 = sMaxAge then
      match (splitEq v).2 with
      | some a => if isDigits a then .proceed (some (toNat a)) else .bad
      | none => .bad
    else if (splitEq v).1 = sNoCache then .noCache
    else scanCC rest

inductive Outcome where
  | hit (gen age : Nat)                 -- served from the cache with `Age: age`; request.cached
  | miss (gen : Nat) (cacheable : Bool) -- the handler ran and produced generation `gen`
  | bad400                              -- HTTPError(400) from the max-age check; handler skipped
  deriving Repr, DecidableEq

structure World where
  cache : Cache := {}
  now : Nat := 0
  nextGen : Nat := 1
  deriving Repr

/-- `tee_output` + the drained `tee` generator, for a request that reached the handler with
    `request.cacheable = True`; `gen` is the generation the handler just produced. -/
def tee (cfg : Cfg) (c : Cache) (r : Req) (p : Plan) (gen now : Nat) : Cache :=
  if p.completes r = false then c
  else if sNoStore ∈ r.cc then c
  else if p.pragmaNoCache ∨ p.noStore then c
  else if p.size = 0 then c.delete r.uri
  else c.put cfg r p gen now

/-- the handler runs (generation `w.nextGen`), then the tee -/
def runHandler (cfg : Cfg) (w : World) (c : Cache) (r : Req) (p : Plan) : World × Outcome :=
  ({ w with cache := tee cfg c r p w.nextGen w.now, nextGen := w.nextGen + 1 }, .miss w.nextGen true)

/-- `max_age` after the Cache-Control loop (repaired code: never beyond `delay`) -/
def effMaxAge (cfg : Cfg) : Option Nat → Nat
  | none => cfg.delay
  | some n => min cfg.delay n

/-- one request through `CachingTool._wrapper` (+ handler + tee when it is a miss) -/
def request (cfg : Cfg) (w : World) (r : Req) (p : Plan) : World × Outcome :=
  if r.method ∈ cfg.invalid then
    ({ w with cache := w.cache.delete r.uri, nextGen := w.nextGen + 1 }, .miss w.nextGen false)
  else if sNoCache ∈ r.pragma then runHandler cfg w w.cache r p
  else
    match (w.cache.get r).2 with
    | none => runHandler cfg w (w.cache.get r).1 r p
    | some v =>
      match scanCC (sortDesc r.cc) with
      | .bad => (w, .bad400)
      | .noCache => runHandler cfg w w.cache r p
      | .proceed m =>
        if (w.now - v.created) / tps > effMaxAge cfg m then runHandler cfg w w.cache r p
        else (w, .hit v.gen ((w.now - v.created) / tps))

inductive Op where
  | req (r : Req) (p : Plan)
  | tick (n : Nat)
  | sweep
  deriving Repr

/-- what happened at a request: the request, the handler plan, the outcome and the time -/
structure Ev where
  r : Req
  p : Plan
  out : Outcome
  t : Nat
  deriving Repr, DecidableEq

def step (cfg : Cfg) (w : World) : Op → World × Option Ev
  | .req r p => ((request cfg w r p).1, some ⟨r, p, (request cfg w r p).2, w.now⟩)
  | .tick n => ({ w with now := w.now + n }, none)
  | .sweep => ({ w with cache := w.cache.sweep w.now }, none)

/-- run a history; the events of its requests, in order -/
def exec (cfg : Cfg) : World → List Op → List Ev
  | _, [] => []
  | w, op :: ops =>
    match (step cfg w op).2 with
    | some e => e :: exec cfg (step cfg w op).1 ops
    | none => exec cfg (step cfg w op).1 ops

def runOps (cfg : Cfg) : World → List Op → World
  | w, [] => w
  | w, op :: ops => runOps cfg (step cfg w op).1 ops

/-! ### conditional requests answered from the cache -/

inductive Cond where
  | serve
  | notModified                  -- HTTPRedirect([], 304)
  | precondFailed                -- HTTPError(412)
  deriving Repr, DecidableEq

def sGet : Str := ['G', 'E', 'T']

/-- `cptools.validate_since()` as `caching.get` calls it on a hit: the response headers are the cached ones,
    `response.status` is still unset (`valid_status` makes that 200), the values are compared as strings -/
def validateSince (method ims ius lastMod : Str) : Cond :=
  if lastMod = [] then .serve
  else if ius ≠ [] ∧ ius ≠ lastMod then .precondFailed
  else if ims ≠ [] ∧ ims = lastMod then
    (if method = sGet ∨ method = sHead then .notModified else .precondFailed)
  else .serve

/-- what the client finally gets -/
inductive Final where
  | served (gen age : Nat)       -- the cached response, `Age: age`
  | notModified (gen age : Nat)  -- 304 built from the cached headers
  | precond (gen : Nat)          -- 412
  | handler (gen : Nat) (cacheable : Bool)
  | bad400
  deriving Repr, DecidableEq

/-- the event of the handler run that produced generation `g` (the stored headers are its headers) -/
def producerOf (L : List Ev) (g : Nat) : Option Ev := L.find? fun e => e.out = .miss g true

/-- the tool's answer for event `e`, given the earlier events `L`: on a hit, `validate_since` against the
    producer's `Last-Modified` -/
def finalise (L : List Ev) (e : Ev) : Final :=
  match e.out with
  | .miss g c => .handler g c
  | .bad400 => .bad400
  | .hit g a =>
    match producerOf L g with
    | none => .served g a
    | some e' =>
      match validateSince e.r.method e.r.ims e.r.ius e'.p.lastMod with
      | .serve => .served g a
      | .notModified => .notModified g a
      | .precondFailed => .precond g

def finaliseAll : List Ev → List Ev → List Final
  | _, [] => []
  | L, e :: es => finalise L e :: finaliseAll (L ++ [e]) es

/-- number of stored responses (value slots) -/
def countVals (store : List (Str × UriCache)) : Nat :=
  (store.map fun p => (p.2.slots.filter fun s => match s.2 with | .val _ => true | .sentinel => false).length).sum

end CpModel.Cache
