/-
  C13 (b) — `FileSession` locking and file operations, relative to the `filelock.FileLock` contract.

  Contract assumed for `FileLock(path)` (a fresh object, hence a fresh file descriptor, per attempt —
  `flock` is per open file description, so two threads of one process exclude each other exactly
  like two processes): `acquire(timeout=0.1)` returns iff no other FileLock object currently holds
  the lock of that path, and raises `Timeout` otherwise; `release()` frees it; the lock file is never
  unlinked.  Under this contract threads and processes are the same kind of actor.

  One model step = one operation on the shared file system / lock (plus the thread-local code up
  to the next one).  One contended session id; its file is `absent`, `empty` (just truncated by
  `open(path, 'wb')`) or holds `(counter, expiration time)`.

    request   (`FileSession.__init__`, `acquire_lock`, `Session.load/_load`, handler, `Session.save/_save`,
               `release_lock`)
      init    `os.path.exists(path)`         (absent -> the request generates a private id …
      gex     `os.path.exists(<new path>)`   … checks that it is unused and leaves the race: `gone`)
      acq     `while not checker.expired(): FileLock(path).acquire(timeout=0.1)` — Timeout, sleep, retry
              is a disabled (stutter) step; `LockChecker.expired()` raising `LockTimeout` is the
              nondeterministic event `expire i` (only with `lock_timeout`): `locked` stays False, `failed`
      openr   `open(path, 'rb')`              (IOError -> `_load` returns None -> fresh `{}`)
      load    `pickle.load(f)`                (EOFError on an empty file -> None; `exp < now` -> `{}`);
              the handler increments; `Session.save` computes `now + timeout`
      trunc   `open(path, 'wb')`              (creates / truncates)
      dump    `pickle.dump((data, exp), f)`
      rel     `self.lock.release()`
      -- the page handler is a script of `FOp`s run between `acq` and `Session.save`: `rmw` (load on first
      -- use; the data is a private copy), `delete` (`del`: `os.unlink(path)`, OSError ignored, `_data = {}`,
      -- `loaded = False`), `regen` (`rdel`: `_delete()`; `rrel`: `release_lock()` — the request then goes
      -- on under a fresh private id, i.e. on another path and another lock file).  Nothing the code does
      -- ever unlinks the LOCK file: lock identity is the lock file (its inode), see the contract above.

    sweeper   (`FileSession.clean_up`, restarted for ever; takes the SAME lock via `acquire_lock(path)`)
      list    `now = self.now(); os.listdir(storage_path)`   (no session file -> next sweep)
      acq     as above
      openr   `open(path, 'rb')`              (IOError -> contents None -> release)
      load    `pickle.load`; `if expiration_time < now:` -> unlink, else release
      unlink  `os.unlink(path)`               (absent -> OSError propagates after the `finally: release`)
      rel     `self.release_lock(path)`

    tick d    the clock advances (timeout = 2 units)
    fault k   the environment arms a fault for the sweep's next file operation (0: open / pickle.load
              fails — `_load` traps it and answers None; 1: the stored expiry cannot be compared with
              `now` — TypeError; 2: `os.unlink` fails — OSError).  1 and 2 propagate out of `clean_up`
              THROUGH the `finally: release_lock(path)`: the sweep dies, the lock is free.

  Ghost: `version` counts dumps; a request remembers the version it loaded (`seen`), the sweeper the
  version it checked; `lost` is set when a dump is based on an overtaken load or when the sweep
  unlinks a file that was dumped after its check.
-/
namespace CpModel.SessionFile

inductive Actor
  | req (i : Nat)
  | sweep
  | tick (d : Nat)
  | expire (i : Nat)     -- LockChecker timer of request i expires
  | fault (k : Nat)      -- the environment arms a fault for the sweep: 0 = its next open / pickle.load of the
                         -- session file fails, 1 = the stored expiry cannot be compared with now(),
                         -- 2 = its next os.unlink fails
  deriving DecidableEq, Repr

inductive FileC
  | absent | empty | data (v exp : Nat)
  deriving DecidableEq, Repr

/-- what the page handler does inside the locked region -/
inductive FOp | rmw | delete | regen
  deriving DecidableEq, Repr

inductive Pc | init | gex | acq | openr | load | del | rdel | rrel | trunc | dump | rel | done | gone | failed
  deriving DecidableEq, Repr

inductive SPc | list | acq | openr | load | unlink | rel | crashed
  deriving DecidableEq, Repr

structure Thr where
  pc : Pc := .init
  prog : List FOp := [.rmw]
  loaded : Bool := false
  tmp : Nat := 0        -- the counter in this request's copy of the data
  texp : Nat := 0
  seen : Nat := 0
  deriving DecidableEq, Repr

structure Sweeper where
  pc : SPc := .list
  snow : Nat := 0       -- `now` read at the start of clean_up
  seen : Nat := 0
  err : Bool := false   -- an exception is propagating through the `finally: release`
  sweeps : Nat := 0     -- ghost: number of clean_up invocations started
  fault : Option Nat := none    -- armed fault
  deriving DecidableEq, Repr

def timeout : Nat := 2

structure St where
  file : FileC
  flock : Option Actor          -- whose FileLock object holds `<id>.lock`
  thr : Nat → Thr
  sw : Sweeper
  hasTimeout : Nat → Bool       -- request i runs with `lock_timeout` configured
  now : Nat
  version : Nat
  lost : Bool
  faulted : Bool                -- ghost: a fault was armed at some point

def init (f : FileC) (hasTimeout : Nat → Bool := fun _ => false) (progs : List (List FOp) := []) : St :=
  { file := f, flock := none,
    thr := fun i => match progs[i]? with | some p => { prog := p } | none => {},
    sw := {}, hasTimeout := hasTimeout, now := 0, version := 0, lost := false, faulted := false }

def setThr (s : St) (i : Nat) (t : Thr) : St :=
  { s with thr := fun j => if j = i then t else s.thr j }

def setSw (s : St) (w : Sweeper) : St := { s with sw := w }

/-- program points between `acquire_lock` and the completion of `release_lock` -/
def inCS (p : Pc) : Bool :=
  match p with
  | .openr | .load | .del | .rdel | .rrel | .trunc | .dump | .rel => true
  | _ => false

def swInCS (p : SPc) : Bool :=
  match p with
  | .openr | .load | .unlink | .rel => true
  | _ => false

/-- Thread-local dispatch on the rest of the handler script (the data is a private copy: a
    read-modify-write of loaded data touches no file); at its end `Session.save`, which reads the clock
    and writes only when the data were loaded. -/
def next (now : Nat) : List FOp → Thr → Thr
  | [], t => if t.loaded then { t with pc := .trunc, prog := [], texp := now + timeout }
             else { t with pc := .rel, prog := [] }
  | .rmw :: rest, t =>
    if t.loaded then next now rest { t with tmp := t.tmp + 1 }
    else { t with pc := .openr, prog := .rmw :: rest }
  | .delete :: rest, t => { t with pc := .del, prog := rest }
  | .regen :: rest, t => { t with pc := .rdel, prog := rest }

/-- the counter `Session.load` finds: an expired or unreadable record is a fresh `{}` -/
def loadVal (s : St) : Nat :=
  match s.file with
  | .data v exp => if exp < s.now then 0 else v
  | _ => 0

def stepReq (s : St) (i : Nat) : St :=
  let t := s.thr i
  match t.pc with
  | .init => setThr s i { t with pc := if s.file = .absent then .gex else .acq }
  | .gex => setThr s i { t with pc := .gone }
  | .acq =>
    match s.flock with
    | none => setThr { s with flock := some (.req i) } i (next s.now t.prog t)
    | some _ => s                      -- Timeout, sleep, retry
  | .openr =>
    match s.file with
    | .absent => setThr s i (next s.now t.prog { t with loaded := true, tmp := 0, seen := s.version })
    | _ => setThr s i { t with pc := .load }
  | .load => setThr s i (next s.now t.prog { t with loaded := true, tmp := loadVal s, seen := s.version })
  | .del =>       -- Session.delete(): os.unlink (OSError ignored), `_data = {}`, `loaded = False`
    setThr { s with file := .absent } i (next s.now t.prog { t with loaded := false, tmp := 0 })
  | .rdel => setThr { s with file := .absent } i { t with pc := .rrel }     -- _regenerate: _delete()
  | .rrel =>      -- … release_lock(); the request goes on under a fresh private id (another path)
    setThr { s with flock := if s.flock = some (.req i) then none else s.flock } i
      { t with pc := .done, loaded := false }
  | .trunc => setThr { s with file := .empty } i { t with pc := .dump }
  | .dump =>
    setThr { s with file := .data t.tmp t.texp, version := s.version + 1,
                    lost := s.lost || (t.seen != s.version) } i { t with pc := .rel }
  | .rel =>
    setThr { s with flock := if s.flock = some (.req i) then none else s.flock } i
      { t with pc := .done, loaded := false }
  | .done | .gone | .failed => s

def stepSweep (s : St) : St :=
  let w := s.sw
  match w.pc with
  | .list =>
    if s.file = .absent then setSw s { w with snow := s.now, err := false, sweeps := w.sweeps + 1 }
    else setSw s { w with pc := .acq, snow := s.now, err := false, sweeps := w.sweeps + 1 }
  | .acq =>
    match s.flock with
    | none => setSw { s with flock := some .sweep } { w with pc := .openr }
    | some _ => s
  | .openr =>
    if w.fault = some 0 then setSw s { w with pc := .rel, fault := none }     -- `_load` traps it: None
    else match s.file with
    | .absent => setSw s { w with pc := .rel }
    | _ => setSw s { w with pc := .load, seen := s.version }
  | .load =>
    if w.fault = some 0 then setSw s { w with pc := .rel, fault := none }
    else match s.file with
    | .data _ exp =>
      if w.fault = some 1 then setSw s { w with pc := .rel, err := true, fault := none }   -- TypeError
      else if exp < w.snow then setSw s { w with pc := .unlink, seen := s.version }
      else setSw s { w with pc := .rel }
    | _ => setSw s { w with pc := .rel }
  | .unlink =>
    if w.fault = some 2 then setSw s { w with pc := .rel, err := true, fault := none }     -- OSError
    else match s.file with
    | .absent => setSw s { w with pc := .rel, err := true }
    | _ => setSw { s with file := .absent, lost := s.lost || (w.seen != s.version) } { w with pc := .rel }
  | .rel =>       -- `finally: self.release_lock(path)`, then the pending exception (if any) goes on
    setSw { s with flock := if s.flock = some .sweep then none else s.flock }
      { w with pc := if w.err then .crashed else .list }
  | .crashed => s

def step (s : St) (a : Actor) : St :=
  match a with
  | .req i => stepReq s i
  | .sweep => stepSweep s
  | .tick d => { s with now := s.now + d }
  | .expire i =>
    let t := s.thr i
    if t.pc = .acq ∧ s.hasTimeout i = true then setThr s i { t with pc := .failed } else s
  | .fault k => { setSw s { s.sw with fault := some k } with faulted := true }

def run (s : St) : List Actor → St
  | [] => s
  | a :: rest => run (step s a) rest

def trace (s : St) : List Actor → List St
  | [] => []
  | a :: rest => let s' := step s a; s' :: trace s' rest

def enabled (s : St) (a : Actor) : Bool :=
  match a with
  | .req i =>
    match (s.thr i).pc with
    | .acq => s.flock.isNone
    | .done | .gone | .failed => false
    | _ => true
  | .sweep => if s.sw.pc = .acq then s.flock.isNone else s.sw.pc != .crashed
  | _ => true

/-! ### observation, final observation, duplicate key, labels (admission of recorded traces) -/

def actorCode : Option Actor → Nat
  | none => 0
  | some (.req i) => 1 + i
  | some .sweep => 1001
  | some (.tick _) => 999
  | some (.expire _) => 998
  | some (.fault _) => 997

def pcCode : Pc → Nat
  | .init => 0 | .gex => 10 | .acq => 1 | .openr => 2 | .load => 3 | .trunc => 4 | .dump => 5 | .rel => 6
  | .done => 7 | .gone => 8 | .failed => 9 | .del => 11 | .rdel => 12 | .rrel => 13

def spcCode : SPc → Nat
  | .list => 0 | .acq => 1 | .openr => 2 | .load => 3 | .unlink => 4 | .rel => 5 | .crashed => 6

/-- 0 running / blocked, 1 done, 2 gone, 3 failed (LockTimeout) -/
def statusCode : Pc → Nat
  | .done => 1 | .gone => 2 | .failed => 3 | _ => 0

/-- who holds the lock; the file (0 absent | 1 empty | 2, counter, expiry); lost flag; status of every
    request; crashed flag and number of started sweeps of the sweeper -/
def obs (n : Nat) (s : St) : List Nat :=
  [actorCode s.flock] ++
  (match s.file with | .absent => [0] | .empty => [1] | .data v e => [2, v, e]) ++
  [if s.lost then 1 else 0] ++
  (List.range n).map (fun i => statusCode (s.thr i).pc) ++
  [if s.sw.pc = .crashed then 1 else 0, s.sw.sweeps]

/-- which requests are blocked for ever: unfinished, not enabled, and the lock is not held by a
    sweep that can go on -/
def fin (n : Nat) (s : St) : List Nat :=
  let sweepMoves := s.flock = some .sweep && enabled s .sweep
  (List.range n).map fun i =>
    if statusCode (s.thr i).pc = 0 && !enabled s (.req i) && !sweepMoves then 1 else 0

def key (n : Nat) (s : St) : List Nat :=
  obs n s ++ [s.now, s.version] ++
  (List.range n).flatMap (fun i =>
    let t := s.thr i
    if statusCode t.pc != 0 then [pcCode t.pc] else
    [pcCode t.pc, t.tmp, t.texp, t.seen, if t.loaded then 1 else 0, t.prog.length] ++
    t.prog.map (fun o => match o with | .rmw => 0 | .delete => 1 | .regen => 2)) ++
  [spcCode s.sw.pc, s.sw.snow, s.sw.seen, if s.sw.err then 1 else 0,
   match s.sw.fault with | some k => k + 1 | none => 0]

/-- `(0,0)` the session's data file, `(1,0)` its lock, `(2,0)` the directory listing -/
def lab (s : St) (a : Actor) : Option (Nat × Nat) :=
  match a with
  | .req i =>
    match (s.thr i).pc with
    | .init | .gex | .openr | .load | .trunc | .dump | .del | .rdel => some (0, 0)
    | .acq | .rel | .rrel => some (1, 0)
    | _ => none
  | .sweep =>
    match s.sw.pc with
    | .list => some (2, 0)
    | .acq | .rel => some (1, 0)
    | .openr | .load | .unlink => some (0, 0)
    | .crashed => none
  | _ => none

def isLocal (_ : St) (_ : Actor) : Bool := false

end CpModel.SessionFile
