/-
  C13 (b) — `FileSession` locking, relative to the `filelock.FileLock` contract.

  Contract assumed for `FileLock(path)` (a fresh object, hence a fresh file descriptor, per attempt —
  `flock` is per open file description, so two threads of one process exclude each other exactly
  like two processes): `acquire(timeout=0.1)` returns iff no other FileLock object currently holds
  the lock of that path, and raises `Timeout` otherwise; `release()` frees it; the lock file is never
  unlinked.  Under this contract threads and processes are the same kind of actor.

  Transcribed (`FileSession.acquire_lock / release_lock / clean_up`, `locking.LockChecker`):
      try_    `while not checker.expired(): lock = FileLock(path); lock.acquire(timeout=0.1)`
              success -> `self.lock = lock; self.locked = True`;  Timeout -> `time.sleep(0.1)`, retry
              (a failed attempt is a stutter step);  `checker.expired()` raising `LockTimeout` is the
              nondeterministic event `expire i` (only when `lock_timeout` is configured): the call
              raises, `locked` stays False and the request fails without touching the data
      load    `pickle.load`            (request)      |   sweeper: `_load(path)`
      write   handler: counter + 1      (request)      |   sweeper: `os.unlink(path)` if expired
      save    `pickle.dump`             (request)
      rel     `self.lock.release()`
  The sweeper (`clean_up`) takes the same lock in the same way (`self.acquire_lock(path)`), so it is
  one more actor whose critical section deletes instead of incrementing (`sweeper i = true`).
-/
namespace CpModel.SessionFile

inductive Pc | try_ | load | write | save | rel | done | failed
  deriving DecidableEq, Repr

inductive Actor
  | run (i : Nat)        -- next step of actor i
  | expire (i : Nat)     -- LockChecker timer of actor i expires
  deriving DecidableEq, Repr

structure Thr where
  pc : Pc := .try_
  tmp : Nat := 0
  seen : Nat := 0
  deriving DecidableEq, Repr

structure St where
  flock : Option Nat            -- which actor's FileLock object holds `<id>.lock`
  data : Nat                    -- counter in the session file (0 after deletion)
  thr : Nat → Thr
  sweeper : Nat → Bool          -- actor i is a clean_up pass
  hasTimeout : Nat → Bool       -- actor i runs with `lock_timeout` configured
  version : Nat
  lost : Bool

def init (data : Nat) (sweeper hasTimeout : Nat → Bool) : St :=
  { flock := none, data := data, thr := fun _ => {}, sweeper := sweeper, hasTimeout := hasTimeout,
    version := 0, lost := false }

def setThr (s : St) (i : Nat) (t : Thr) : St :=
  { s with thr := fun j => if j = i then t else s.thr j }

def inCS (p : Pc) : Bool :=
  match p with
  | .load | .write | .save | .rel => true
  | _ => false

def step (s : St) (a : Actor) : St :=
  match a with
  | .expire i =>
    let t := s.thr i
    if t.pc = .try_ ∧ s.hasTimeout i = true then setThr s i { t with pc := .failed } else s
  | .run i =>
    let t := s.thr i
    match t.pc with
    | .try_ =>
      match s.flock with
      | none => setThr { s with flock := some i } i { t with pc := .load }
      | some _ => s                      -- Timeout, sleep, retry
    | .load => setThr s i { t with pc := .write, tmp := s.data, seen := s.version }
    | .write =>
      if s.sweeper i then
        -- expired session: unlink the file
        setThr { s with data := 0, version := s.version + 1,
                        lost := s.lost || (t.seen != s.version) } i { t with pc := .rel }
      else setThr s i { t with pc := .save, tmp := t.tmp + 1 }
    | .save =>
      setThr { s with data := t.tmp, version := s.version + 1,
                      lost := s.lost || (t.seen != s.version) } i { t with pc := .rel }
    | .rel =>
      -- `self.lock.release()`: frees the lock held by this actor's FileLock object
      setThr { s with flock := if s.flock = some i then none else s.flock } i { t with pc := .done }
    | .done | .failed => s

def run (s : St) : List Actor → St
  | [] => s
  | a :: rest => run (step s a) rest

def trace (s : St) : List Actor → List St
  | [] => []
  | a :: rest => let s' := step s a; s' :: trace s' rest

end CpModel.SessionFile
