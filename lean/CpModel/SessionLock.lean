/-
  C13 (a) — interleaving model of `cherrypy.lib.sessions.RamSession` for ONE contended session id.

  What is transcribed (one model step = one operation on a shared object — the class-level dicts
  `RamSession.cache` / `RamSession.locks`, or a lock object — plus the thread-local code up to the
  next such operation; each single dict / RLock operation is atomic under the GIL):

    request thread  (what the session tool's hooks make a request do, in hook order)
      init    Session.__init__ : `self.id in self.cache`        (absent -> the request regenerates a
                                                                  private id and leaves the race: `gone`)
      setdef  acquire_lock     : `self.locks.setdefault(self.id, threading.RLock())`
      acq     acquire_lock     : `.acquire()`  (blocking; re-entrant; SEPARATE bytecode from setdefault)
      chk     acquire_lock     : `self.locks.get(self.id) is lock`      (variant `recheck` only)
      rel0    acquire_lock     : `lock.release()` then retry from setdef (variant `recheck` only)
      load    Session.load     : `self.cache.get(self.id)`, expired (`exp < now`) or absent -> a fresh `{}`;
                                 otherwise the session object ALIASES the dict stored in the cache
                                 (RamSession never copies); the handler reads the counter
      write   page handler     : `session['n'] = n + 1` — mutates the (possibly aliased) dict
      save    Session.save     : `self.cache[self.id] = (self._data, now + timeout)`
      lookup  release_lock     : `self.locks[self.id]`           (KeyError -> `crashed`, lock never released)
      rel     release_lock     : `.release()`                    (not the owner: RuntimeError -> `crashed`)

    sweeper  (`RamSession.clean_up`, run again and again by the Monitor thread; a single sweeper)
      copy    `now = self.now(); self.cache.copy()`   -> first loop iff the entry is there and `exp <= now`
      del     `del self.cache[_id]`  (KeyError ignored)
      get     `self.locks[_id]`      (first loop: KeyError ignored; second loop: KeyError propagates)
      try_    `.acquire(blocking=False)`
      pop     `lock = self.locks.pop(_id)`
      rel     `lock.release()`
      list    `list(self.locks)`     -> second loop iff the id has a lock object
      chk     `_id not in self.cache`

    tick d   environment: the clock advances by d units (session timeout = `timeout` units)

  `Variant.orig` is `acquire_lock` without the re-check (the race of finding F20); `Variant.recheck`
  is `acquire_lock` which, after acquiring, verifies that the table still maps the id to the very
  lock object it acquired and otherwise releases and retries.

  Not modelled: other session ids (independent: every operation is keyed by the id), the data
  dictionary beyond one counter, `Session.delete`/`regenerate` (request-level model,
  `CpModel/SessionReq.lean`), several concurrent sweepers, the memcached backend.
  Ghost state: `version` counts handler writes, `seen` remembers the version a thread read, `lost`
  records that some write was based on a read that another write had overtaken (= a lost update).
-/
namespace CpModel.SessionLock

inductive Variant | orig | recheck
  deriving DecidableEq, Repr

inductive Actor
  | req (i : Nat)
  | sweep
  | tick (d : Nat)
  deriving DecidableEq, Repr

structure LockObj where
  owner : Option Actor := none
  count : Nat := 0
  deriving DecidableEq, Repr

inductive Pc
  | init | setdef | acq | chk | rel0 | load | write | save | lookup | rel | done | gone | crashed
  deriving DecidableEq, Repr

structure Thr where
  pc   : Pc  := .init
  my   : Nat := 0     -- lock object returned by setdefault
  r    : Nat := 0     -- lock object looked up by release_lock
  d    : Nat := 0     -- the data dict object this session instance works on (`self._data`)
  tmp  : Nat := 0     -- counter value read by the handler
  texp : Nat := 0     -- `self.now() + timeout`, computed by Session.save before it touches the cache
  seen : Nat := 0     -- ghost: version at the read
  deriving DecidableEq, Repr

inductive SPc | copy | del | get | try_ | pop | rel | list | chk | crashed
  deriving DecidableEq, Repr

structure Sweeper where
  pc     : SPc  := .copy
  second : Bool := false    -- inside the second loop ("remove obsolete lock objects")
  lk     : Nat  := 0
  snow   : Nat  := 0        -- `now` read at the start of clean_up
  deriving DecidableEq, Repr

/-- session timeout in clock units -/
def timeout : Nat := 2

structure St where
  cache   : Option (Nat × Nat)     -- `cache[id]` = (data dict object id, expiration time)
  dicts   : Nat → Nat              -- counter stored in each data dict object
  nextD   : Nat                    -- next fresh dict object id
  table   : Option Nat             -- `locks[id]` : lock object id
  heap    : Nat → LockObj
  next    : Nat                    -- next fresh lock object id
  thr     : Nat → Thr
  sw      : Sweeper
  now     : Nat
  version : Nat
  lost    : Bool

/-- `present`: is the session in the cache at the start (`some (v, exp)`), `tbl`: does the lock
    table already hold a (free) lock object for it. -/
def init (c : Option (Nat × Nat)) (tbl : Bool) (now : Nat := 0) : St where
  cache := c.map fun (_, e) => (0, e)
  dicts := fun k => match c with | some (v, _) => if k = 0 then v else 0 | none => 0
  nextD := 1
  table := if tbl then some 0 else none
  heap := fun _ => {}
  next := if tbl then 1 else 0
  thr := fun _ => {}
  sw := {}
  now := now
  version := 0
  lost := false

def setThr (s : St) (i : Nat) (t : Thr) : St :=
  { s with thr := fun j => if j = i then t else s.thr j }

def setLock (s : St) (l : Nat) (o : LockObj) : St :=
  { s with heap := fun k => if k = l then o else s.heap k }

/-- `RLock.acquire` by actor `a`: `none` when it cannot be taken now. -/
def tryAcquire (s : St) (l : Nat) (a : Actor) : Option St :=
  let o := s.heap l
  if o.owner = none then some (setLock s l ⟨some a, 1⟩)
  else if o.owner = some a then some (setLock s l ⟨some a, o.count + 1⟩)
  else none

/-- `RLock.release` by actor `a`: `none` = RuntimeError (not the owner). -/
def release (s : St) (l : Nat) (a : Actor) : Option St :=
  let o := s.heap l
  if o.owner = some a then
    some (setLock s l (if o.count ≤ 1 then ⟨none, 0⟩ else ⟨some a, o.count - 1⟩))
  else none

def inCS (p : Pc) : Bool :=
  match p with
  | .load | .write | .save | .lookup | .rel => true
  | _ => false

def stepReq (v : Variant) (s : St) (i : Nat) : St :=
  let t := s.thr i
  match t.pc with
  | .init => setThr s i { t with pc := if s.cache.isSome then .setdef else .gone }
  | .setdef =>
    match s.table with
    | some l => setThr s i { t with pc := .acq, my := l }
    | none => setThr { s with table := some s.next, next := s.next + 1 } i
                { t with pc := .acq, my := s.next }
  | .acq =>
    match tryAcquire s t.my (.req i) with
    | some s' => setThr s' i { t with pc := match v with | .orig => .load | .recheck => .chk }
    | none => s            -- blocked: the step is not enabled
  | .chk => setThr s i { t with pc := if s.table = some t.my then .load else .rel0 }
  | .rel0 =>
    match release s t.my (.req i) with
    | some s' => setThr s' i { t with pc := .setdef }
    | none => setThr s i { t with pc := .crashed }
  | .load =>
    match s.cache with
    | some (d, exp) =>
      if exp < s.now then
        setThr { s with nextD := s.nextD + 1 } i
          { t with pc := .write, d := s.nextD, tmp := s.dicts s.nextD, seen := s.version }
      else setThr s i { t with pc := .write, d := d, tmp := s.dicts d, seen := s.version }
    | none =>
      setThr { s with nextD := s.nextD + 1 } i
        { t with pc := .write, d := s.nextD, tmp := s.dicts s.nextD, seen := s.version }
  | .write =>
    setThr { s with dicts := fun k => if k = t.d then t.tmp + 1 else s.dicts k,
                    version := s.version + 1,
                    lost := s.lost || (t.seen != s.version) } i
      { t with pc := .save, texp := s.now + timeout }
  | .save =>
    setThr { s with cache := some (t.d, t.texp) } i { t with pc := .lookup }
  | .lookup =>
    match s.table with
    | some l => setThr s i { t with pc := .rel, r := l }
    | none => setThr s i { t with pc := .crashed }
  | .rel =>
    match release s t.r (.req i) with
    | some s' => setThr s' i { t with pc := .done }
    | none => setThr s i { t with pc := .crashed }
  | .done | .gone | .crashed => s

def setSw (s : St) (w : Sweeper) : St := { s with sw := w }

def stepSweep (s : St) : St :=
  let w := s.sw
  match w.pc with
  | .copy =>
    match s.cache with
    | some (_, exp) =>
      if exp ≤ s.now then setSw s { w with pc := .del, second := false, snow := s.now }
      else setSw s { w with pc := .list, second := false, snow := s.now }
    | none => setSw s { w with pc := .list, second := false, snow := s.now }
  | .del => setSw { s with cache := none } { w with pc := .get }
  | .get =>
    match s.table with
    | some l => setSw s { w with pc := .try_, lk := l }
    | none => setSw s { w with pc := if w.second then .crashed else .list }
  | .try_ =>
    match tryAcquire s w.lk .sweep with
    | some s' => setSw s' { w with pc := .pop }
    | none => setSw s { w with pc := if w.second then .copy else .list }
  | .pop =>
    match s.table with
    | some l => setSw { s with table := none } { w with pc := .rel, lk := l }
    | none => setSw s { w with pc := if w.second then .crashed else .list }
  | .rel =>
    match release s w.lk .sweep with
    | some s' => setSw s' { w with pc := if w.second then .copy else .list }
    | none => setSw s { w with pc := .crashed }
  | .list => setSw s { w with pc := if s.table.isSome then .chk else .copy, second := true }
  | .chk => setSw s { w with pc := if s.cache.isSome then .copy else .get }
  | .crashed => s

def step (v : Variant) (s : St) (a : Actor) : St :=
  match a with
  | .req i => stepReq v s i
  | .sweep => stepSweep s
  | .tick d => { s with now := s.now + d }

def run (v : Variant) (s : St) : List Actor → St
  | [] => s
  | a :: rest => run v (step v s a) rest

/-- All states along a schedule (after each step), for the per-step correspondence. -/
def trace (v : Variant) (s : St) : List Actor → List St
  | [] => []
  | a :: rest => let s' := step v s a; s' :: trace v s' rest

/-- Is the step of actor `a` enabled (not a stutter)?  Used for deadlock detection. -/
def enabled (s : St) (a : Actor) : Bool :=
  match a with
  | .req i =>
    let t := s.thr i
    match t.pc with
    | .acq => (tryAcquire s t.my (.req i)).isSome
    | .done | .gone | .crashed => false
    | _ => true
  | .sweep => s.sw.pc != .crashed
  | .tick _ => true

end CpModel.SessionLock
