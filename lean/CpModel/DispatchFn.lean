import CpModel.Dispatch
/-!
  `Dispatcher.find_handler` with `_cp_dispatch` at full strength.

  `CpModel.Dispatch` describes a `_cp_dispatch` callable by a descriptor (`Disp`: pop k, insert names,
  return a fixed object / self / an attribute; `popargsDisp`).  Here the callable is an **arbitrary
  function**: `DispSem` maps the dispatcher object and the list it is handed (`iternames` without the
  hidden `index` token) to what the call returns, the list as the call leaves it (it may have been
  rewritten in any way) and what the call put into `request.params` — or to the exception it raises.
  `walkF` is the `while iternames:` loop of `find_handler` over such a function, statement by statement
  as in `Dispatch.walk`, and additionally remembers (ghost field `rests`) the list `iternames` as it was
  when each object-trail entry was appended.  `Dispatch.walk` is the instance `semOf g` (the descriptor
  interpreter `runDisp`), proved in `CpProofs.C02Fn` (`walk_refines`, `findHandler_refines`, …), so every
  theorem about `walkF` holds for the model that is compared with the real dispatcher, and the driver also
  runs `walkF` itself over the table of the dispatcher calls the real objects were seen to make
  (`semTable`).

  `WF sem` is what the code relies on ("Custom dispatchers may only remove elements"): the list a call
  leaves behind is a suffix of the list it was given.

  Also here: `Tree.script_name` (longest mounted prefix), `VirtualHost` and `XMLRPCDispatcher` path rewriting
  in front of the default dispatcher.
-/
namespace CpModel.DispatchFn
open CpModel.Dispatch

/-- Result of one `dispatch(vpath=iternames)` call. -/
structure DispOut where
  ret : Option NodeId
  /-- the list after the call -/
  vpath : List Name
  /-- `request.params` updates made by the call, in order -/
  params : List (Name × Name) := []
  deriving DecidableEq, Repr, Inhabited

/-- The `_cp_dispatch` callables of an application: dispatcher object ↦ list ↦ outcome (`.error` = raises). -/
abbrev DispSem := NodeId → List Name → Except Err DispOut

/-- "Custom dispatchers may only remove elements" — and only from the front: the list after the call is a
    suffix of the list before. -/
def WF (sem : DispSem) : Prop :=
  ∀ d vp o, sem d vp = .ok o → ∃ k, o.vpath = vp.drop k

/-- The descriptor interpreter of `CpModel.Dispatch` as a `DispSem`. -/
def semOf (g : Graph) : DispSem := fun d vp =>
  match (g.nodeD d).disp with
  | none => .error .unknownDispatch
  | some dd =>
    match runDisp g dd vp with
    | none => .error .dispatchRaised
    | some (t, vp', ps) => .ok ⟨t, vp', ps⟩

/-- A finite table of observed calls (dispatcher object, list before) ↦ outcome; a call that is not in the
    table is reported as `unknownDispatch`. -/
def semTable (tbl : List (NodeId × List Name × Except Err DispOut)) : DispSem := fun d vp =>
  match tbl.find? (fun e => e.1 = d && e.2.1 = vp) with
  | some e => e.2.2
  | none => .error .unknownDispatch

/-- `Dispatch.resolve` with the dispatcher call abstracted. -/
def resolveF (sem : DispSem) (tr : Name → Name) (g : Graph) (node : Option NodeId) (name : Name)
    (rest : List Name) : Except Err (Option NodeId × List Name × List (Name × Name)) :=
  match g.getattr node (tr name) with
  | some s => .ok (some s, rest, [])
  | none =>
    match g.getattr node dispatchName with
    | none => .ok (none, rest, [])
    | some d =>
      let dn := g.nodeD d
      -- `dispatch and hasattr(dispatch, '__call__') and not getattr(dispatch, 'exposed', False) and pre_len > 1`
      if dn.truthy && dn.callable && !dn.exposed && decide (rest.length + 1 > 1) then
        -- `index_name = iternames.pop()`; `subnode = dispatch(vpath=iternames)`; `iternames.append(index_name)`
        let all := name :: rest
        match sem d all.dropLast with
        | .error e => .error e
        | .ok o => .ok (o.ret, o.vpath ++ (all.getLast?.toList), o.params)
      else .ok (none, rest, [])

/-- Loop state: that of `Dispatch.walk` plus, for every trail entry, `iternames` as it was when the entry was
    appended (ghost: nothing reads it). -/
structure WalkStF extends WalkSt where
  rests : List (List Name)
  deriving Repr, Inhabited

/-- One iteration of `while iternames:` (cf. `Dispatch.walkStep`). -/
def walkStepF (sem : DispSem) (tr : Name → Name) (app : App) (fp : List Name) (st : WalkStF) (name : Name)
    (rest : List Name) : Except Err WalkStF :=
  let preLen := rest.length + 1
  match resolveF sem tr app.g st.node name rest with
  | .error e => .error e
  | .ok (sub, iter1, ps) =>
    if iter1.length > preLen then .error .segmentAdded
    else
      -- `elif segleft == pre_len: iternames.pop(0); segleft -= 1`
      let iter2 := if iter1.length = preLen then iter1.drop 1 else iter1
      let segleft := iter2.length
      let cp : Conf := match sub with
        | none => []
        | some i => ((app.g.nodeD i).conf).getD []
      let L := fp.length
      let existing := L - preLen
      let curpath : List Char := if existing ≠ 0 then '/' :: joinSlash (fp.take existing) else []
      let newSegs := (fp.drop (L - preLen)).take ((L - segleft) - (L - preLen))
      let nodeconf := cp ++ sectionsFor app.sections curpath newSegs
      .ok { node := sub, iter := iter2, trail := st.trail ++ [⟨name, sub, nodeconf, segleft⟩],
            params := st.params ++ ps, rests := st.rests ++ [iter2] }

def walkF (sem : DispSem) (tr : Name → Name) (app : App) (fp : List Name) : Nat → WalkStF → Except Err WalkStF
  | 0, st => if st.iter.isEmpty then .ok st else .error .outOfFuel
  | fuel + 1, st =>
    match st.iter with
    | [] => .ok st
    | name :: rest =>
      match walkStepF sem tr app fp st name rest with
      | .error e => .error e
      | .ok st' => walkF sem tr app fp fuel st'

def initF (app : App) (fp : List Name) : WalkStF :=
  { node := some app.g.root, iter := fp, trail := [rootEntry app fp.length], rests := [fp] }

/-- The loop from the root over `fullpath`. -/
def runF (sem : DispSem) (tr : Name → Name) (app : App) (segs : List Name) : Except Err WalkStF :=
  let fp := fullpathOf segs
  walkF sem tr app fp fp.length (initF app fp)

/-- Result of `find_handler` (cf. `Dispatch.FindResult`) plus the ghost lists. -/
structure FindResultF where
  found : Option Found
  vpath : List Name
  trail : List Entry
  isIndex : Option Bool
  /-- trail before the `default` entry is inserted -/
  walked : List Entry
  rests : List (List Name)
  params : List (Name × Name)
  deriving Repr, Inhabited

def FindResultF.toFindResult (r : FindResultF) : FindResult := ⟨r.found, r.vpath, r.trail, r.isIndex⟩

def findHandlerF (sem : DispSem) (tr : Name → Name) (app : App) (path : List Char) : Except Err FindResultF :=
  let segs := segments path
  let fp := fullpathOf segs
  match runF sem tr app segs with
  | .error e => .error e
  | .ok st =>
    let trail := st.trail
    match scan app.g trail.reverse with
    | none => .ok ⟨none, [], trail, none, trail, st.rests, st.params⟩
    | some f =>
      let isIndex :=
        if f.viaDefault then path.getLast? = some '/'
        else decide (f.idx = trail.length - 1)
      .ok ⟨some f, vpathOf fp f.segleft, insertDefault app.g trail f, some isIndex, trail, st.rests, st.params⟩

/-- `Dispatcher.__call__` after `find_handler` returned (or raised). -/
def dispatchOfFind (app : App) (res : Except Err FindResult) : Outcome :=
  match res with
  | .error e => .error e
  | .ok r =>
    match r.found with
    | none => .notFound
    | some f =>
      if (app.g.nodeD f.handler).truthy then .handler f.handler (r.vpath.map restore2F)
      else .notFound

/-- `MethodDispatcher.__call__` after `find_handler` returned (or raised). -/
def methodOfFind (app : App) (res : Except Err FindResult) (meth : Name) : MethodResult :=
  match res with
  | .error e => ⟨.error e, none, []⟩
  | .ok r =>
    match r.found with
    | none => ⟨.notFound, none, []⟩
    | some f =>
      let g := app.g
      if !(g.nodeD f.handler).truthy then ⟨.notFound, none, []⟩ else
      let allow := allowOf g f.handler
      let func := g.getattr (some f.handler) meth
      let func := match func with
        | none => if meth = headName then g.getattr (some f.handler) getName else none
        | some x => some x
      match func with
      | none => ⟨.notAllowed, some allow, []⟩
      | some fn =>
        if (g.nodeD fn).truthy then
          ⟨.handler fn (r.vpath.map restore2F), some allow, ((g.nodeD fn).conf).getD []⟩
        else ⟨.notAllowed, some allow, []⟩

def dispatchF (sem : DispSem) (tr : Name → Name) (app : App) (path : List Char) : Outcome :=
  dispatchOfFind app ((findHandlerF sem tr app path).map (·.toFindResult))

def methodDispatchF (sem : DispSem) (tr : Name → Name) (app : App) (path : List Char) (meth : Name) :
    MethodResult :=
  methodOfFind app ((findHandlerF sem tr app path).map (·.toFindResult)) meth

/-- `request.params` as the `_cp_dispatch` calls left it. -/
def paramsF (sem : DispSem) (tr : Name → Name) (app : App) (segs : List Name) : List (Name × Name) :=
  match runF sem tr app segs with
  | .error _ => []
  | .ok st => st.params

/-! ### declaratively: one step of matching the path against the tree -/

/-- The `_cp_dispatch` of `node` that `find_handler` would call with `pre_len` names left. -/
def dispatcherOf (g : Graph) (node : Option NodeId) (preLen : Nat) : Option NodeId :=
  match g.getattr node dispatchName with
  | none => none
  | some d =>
    let dn := g.nodeD d
    if dn.truthy && dn.callable && !dn.exposed && decide (preLen > 1) then some d else none

/-- `(node, iternames) ⟶ (node', iternames')`: how one iteration moves through the tree.
    * `attr`: the translated first name is an attribute — one name consumed;
    * `miss`: no attribute and no dispatcher to ask — `None`, one name consumed;
    * `disp`: the dispatcher was asked; whatever it left of the list (hidden `index` re-appended) remains, one
      more name is taken when it removed nothing. -/
inductive Step (sem : DispSem) (tr : Name → Name) (g : Graph) :
    Option NodeId × List Name → Option NodeId × List Name → Prop
  | attr {node name rest s} : g.getattr node (tr name) = some s →
      Step sem tr g (node, name :: rest) (some s, rest)
  | miss {node name rest} : g.getattr node (tr name) = none →
      dispatcherOf g node (rest.length + 1) = none →
      Step sem tr g (node, name :: rest) (none, rest)
  | disp {node name rest d o} : g.getattr node (tr name) = none →
      dispatcherOf g node (rest.length + 1) = some d →
      sem d (name :: rest).dropLast = .ok o →
      (o.vpath ++ (name :: rest).getLast?.toList).length ≤ rest.length + 1 →
      Step sem tr g (node, name :: rest)
        (o.ret, if (o.vpath ++ (name :: rest).getLast?.toList).length = rest.length + 1
                then (o.vpath ++ (name :: rest).getLast?.toList).drop 1
                else o.vpath ++ (name :: rest).getLast?.toList)

/-- Consecutive elements are related. -/
def Chain {α : Type} (R : α → α → Prop) : List α → Prop
  | [] => True
  | [_] => True
  | a :: b :: l => R a b ∧ Chain R (b :: l)

/-! ### mounts, virtual hosts, XML-RPC: path rewriting in front of the dispatcher -/

/-- `path[:path.rfind('/')]` when the path contains a slash. -/
def beforeLastSlash : List Char → Option (List Char)
  | [] => none
  | c :: r =>
    match beforeLastSlash r with
    | some q => some (c :: q)
    | none => if c = '/' then some [] else none

/-- `path[:path.rfind('/')]` (`rfind` = -1 ⇒ `path[:-1]`). -/
def cutLastSlash (p : List Char) : List Char :=
  (beforeLastSlash p).getD p.dropLast

/-- `Tree.script_name(path)`: `while True: if path in apps: return path; if path == '': return None;
    path = path[:path.rfind('/')]` — fuel `len(path) + 1` (every round shortens a non-empty path). -/
def scriptNameFuel (apps : List (List Char)) : Nat → List Char → Option (List Char)
  | 0, _ => none
  | fuel + 1, p =>
    if apps.contains p then some p
    else if p = [] then none
    else scriptNameFuel apps fuel (cutLastSlash p)

def scriptName (apps : List (List Char)) (path : List Char) : Option (List Char) :=
  scriptNameFuel apps (path.length + 1) path

/-- `while '//' in url: url = url.replace('//', '/')` on the final string = squeeze runs of slashes. -/
def squeeze : List Char → List Char
  | [] => []
  | c :: r => if c = '/' ∧ r.head? = some '/' then squeeze r else c :: squeeze r

/-- `httputil.urljoin(a, b)`: `'/'.join([x for x in atoms if x])`, slashes squeezed, `''` ↦ `'/'`. -/
def urljoin (a b : List Char) : List Char :=
  let atoms := [a, b].filter (· ≠ [])
  let u := squeeze (joinSlash atoms)
  if u = [] then ['/'] else u

/-- `Tree.__call__`: which mount serves the request and the `PATH_INFO` it sees
    (`path[len(sn.rstrip('/')):]`; mount keys carry no trailing slash). -/
def treeRoute (apps : List (List Char)) (scriptName0 pathInfo : List Char) :
    Option (List Char × List Char) :=
  let path := urljoin scriptName0 pathInfo
  match scriptName apps path with
  | none => none
  | some sn => some (sn, path.drop sn.length)

/-- `VirtualHost`: `prefix = domains.get(domain, ''); if prefix: path_info = urljoin(prefix, path_info)`. -/
def vhostPath (domains : List (List Char × List Char)) (domain : List Char) (pathInfo : List Char) : List Char :=
  match lookup domains domain with
  | none => pathInfo
  | some pre => if pre = [] then pathInfo else urljoin pre pathInfo

/-- `xmlrpcutil.patched_path`: a trailing slash is added, a leading `/RPC2/` loses `/RPC2`. -/
def patchedPath (p : List Char) : List Char :=
  let p := if p.getLast? = some '/' then p else p ++ ['/']
  if "/RPC2/".toList.isPrefixOf p then p.drop 5 else p

end CpModel.DispatchFn
