import CpModel.Gen.C12Tables
/-!
  C12 — header encoding model (core Lean only).

  Transcribes, statement by statement,

  * `cherrypy/lib/httputil.py`  `HeaderMap.encode`, `HeaderMap.encode_header_item`,
    `HeaderMap.encode_header_items`/`output` (per item), `SanitizedHost._sanitize`;
  * `cherrypy/_cprequest.py`    `Response.finalize`: the status line and the cookie lines.

  Text is `List Char` (Lean `Char` = Unicode scalar value: lone surrogates, which a Python `str`
  can hold, are outside the model; the harness drives them through the oracle only).
  Bytes are `List UInt8`.

  What the code does, quirks included:

  * `encode` tries the codecs in `HeaderMap.encodings` (table: `encodingsLatin1Only`); Latin-1
    succeeds iff every code point is ≤ 255.  Otherwise, when `cls.protocol == (1, 1) and
    cls.use_rfc_2047`, the value becomes `=?utf-8?b?` + base64(utf-8) + `?=`.  `encode` is a
    *classmethod*: `cls.protocol` is the CLASS attribute (table: `classProtocol11`), the instance
    attribute `response.headers.protocol = request.protocol` set in `Request.run` is never
    consulted, so HTTP/1.0 responses are encoded exactly like HTTP/1.1 ones.  Otherwise
    `ValueError`.
  * `encode_header_item` = `encode` (for `str`; `bytes` are taken as they are) followed by
    `translate(None, header_translate_deletechars)` (table: `deleteBytes`).
  * `Response.finalize` (REPAIRED assembly, proposed fix C12-finalize-status-cookie): the reason
    phrase and, per morsel, the name and value of the `Set-Cookie` line go through
    `encode_header_item`.  The assembly of the unrepaired code (`headers.encode(reason)`;
    `cookie.output().split('\r\n')` then `split(': ', 1)`, name as Latin-1, value through
    `encode` only) is kept as `statusLineOld` / `cookieLinesOld` for the negation theorems (F12).

  Not modelled: `str.title()` of header names (the model starts from the keys as stored in the
  header map), `valid_status` (the model starts from the `(code, reason)` it returns),
  `http.cookies.Morsel.output` (the model starts from each morsel's output string and the
  theorems hold for EVERY such string), `email.header.decode_header` on the request side.
-/
namespace CpModel.HeaderEnc
open CpModel.Gen.C12

abbrev Bytes := List UInt8
abbrev Text := List Char

/-! ### base64 (own encoder/decoder; arithmetic on `Nat`, bytes at the boundary) -/

/-- the base64 alphabet: sextet value (< 64) ↦ ASCII code -/
def b64chr (n : Nat) : Nat :=
  if n < 26 then 65 + n
  else if n < 52 then 97 + (n - 26)
  else if n < 62 then 48 + (n - 52)
  else if n = 62 then 43 else 47

/-- ASCII code ↦ sextet value -/
def b64val? (c : Nat) : Option Nat :=
  if 65 ≤ c ∧ c ≤ 90 then some (c - 65)
  else if 97 ≤ c ∧ c ≤ 122 then some (c - 97 + 26)
  else if 48 ≤ c ∧ c ≤ 57 then some (c - 48 + 52)
  else if c = 43 then some 62
  else if c = 47 then some 63
  else none

/-- `binascii.b2a_base64(data).strip(b'\n')` on byte values -/
def b64encN : List Nat → List Nat
  | [] => []
  | [a] => [b64chr (a / 4), b64chr ((a % 4) * 16), 61, 61]
  | [a, b] => [b64chr (a / 4), b64chr ((a % 4) * 16 + b / 16), b64chr ((b % 16) * 4), 61]
  | a :: b :: c :: rest =>
    b64chr (a / 4) :: b64chr ((a % 4) * 16 + b / 16) :: b64chr ((b % 16) * 4 + c / 64)
      :: b64chr (c % 64) :: b64encN rest

/-- a plain base64 decoder (whole quanta, `=` padding only in the last quantum) -/
def b64decN : List Nat → Option (List Nat)
  | [] => some []
  | c0 :: c1 :: c2 :: c3 :: rest =>
    if c3 = 61 then
      if rest = [] then
        if c2 = 61 then
          match b64val? c0, b64val? c1 with
          | some s0, some s1 => some [s0 * 4 + s1 / 16]
          | _, _ => none
        else
          match b64val? c0, b64val? c1, b64val? c2 with
          | some s0, some s1, some s2 => some [s0 * 4 + s1 / 16, (s1 % 16) * 16 + s2 / 4]
          | _, _, _ => none
      else none
    else
      match b64val? c0, b64val? c1, b64val? c2, b64val? c3, b64decN rest with
      | some s0, some s1, some s2, some s3, some r =>
        some ((s0 * 4 + s1 / 16) :: ((s1 % 16) * 16 + s2 / 4) :: ((s2 % 4) * 64 + s3) :: r)
      | _, _, _, _, _ => none
  | _ => none

def b64enc (bs : Bytes) : Bytes := (b64encN (bs.map UInt8.toNat)).map UInt8.ofNat

def b64dec (cs : Bytes) : Option Bytes :=
  (b64decN (cs.map UInt8.toNat)).map fun l => l.map UInt8.ofNat

/-! ### `HeaderMap.encode` / `encode_header_item` -/

/-- `v.encode('ISO-8859-1')` succeeds -/
def isLatin1 (s : Text) : Bool := s.all fun c => c.toNat ≤ 255

def latin1 (s : Text) : Bytes := s.map fun c => UInt8.ofNat c.toNat

/-- `v.encode('utf-8')` (core Lean's verified encoder) -/
def utf8 (s : Text) : Bytes := s.flatMap String.utf8EncodeChar

/-- `b'=?utf-8?b?'` -/
def ewPrefix : Bytes := [61, 63, 117, 116, 102, 45, 56, 63, 98, 63]
/-- `b'?='` -/
def ewSuffix : Bytes := [63, 61]

inductive Err where
  /-- `ValueError('Could not encode header part …')` -/
  | valueError
  /-- `ValueError: not enough values to unpack` from `line.split(': ', 1)` -/
  | unpack
  /-- `UnicodeEncodeError` from `name.encode('ISO-8859-1')` (unrepaired cookie assembly only) -/
  | unicodeEncode
  /-- status code outside 100..599 (`valid_status` → `HTTPError(500)`) -/
  | badStatus
  deriving DecidableEq, Repr

/-- `HeaderMap.encode(v)` -/
def encode (s : Text) : Except Err Bytes :=
  if encodingsLatin1Only && isLatin1 s then .ok (latin1 s)
  else if classProtocol11 && useRfc2047 then .ok (ewPrefix ++ b64enc (utf8 s) ++ ewSuffix)
  else .error .valueError

/-- `item.translate(header_translate_table, header_translate_deletechars)` -/
def deleteCtl (b : Bytes) : Bytes := b.filter fun x => !(deleteBytes.contains x)

/-- `HeaderMap.encode_header_item(item)` for a `str` item -/
def encodeHeaderItem (s : Text) : Except Err Bytes := (encode s).map deleteCtl

/-- `HeaderMap.encode_header_item(item)` for a `bytes` item -/
def encodeHeaderItemBytes (b : Bytes) : Bytes := deleteCtl b

/-- one `(k, v)` of `HeaderMap.output()` -/
def outputItem (k v : Text) : Except Err (Bytes × Bytes) := do
  let k' ← encodeHeaderItem k
  let v' ← encodeHeaderItem v
  pure (k', v')

/-- `HeaderMap.output()` over the stored items -/
def output (items : List (Text × Text)) : Except Err (List (Bytes × Bytes)) :=
  items.mapM fun kv => outputItem kv.1 kv.2

/-! ### `SanitizedHost` -/

/-- `SanitizedHost._sanitize(raw)` = `re.sub('[\n\r]', '', raw)` (class from the generated table) -/
def sanitizeHost (s : Text) : Text := s.filter fun c => !(hostDangerous.contains c.toNat)

/-! ### `Response.finalize`: status line -/

/-- `str(code)` for a three-digit code -/
def digits3 (n : Nat) : Bytes :=
  [UInt8.ofNat (48 + n / 100), UInt8.ofNat (48 + n / 10 % 10), UInt8.ofNat (48 + n % 10)]

/-- REPAIRED: `ntob(str(code)) + b' ' + headers.encode_header_item(reason)` -/
def statusLine (code : Nat) (reason : Text) : Except Err Bytes :=
  if 100 ≤ code ∧ code ≤ 599 then
    (encodeHeaderItem reason).map fun r => digits3 code ++ [32] ++ r
  else .error .badStatus

/-- UNREPAIRED: `ntob(str(code)) + b' ' + headers.encode(reason)` -/
def statusLineOld (code : Nat) (reason : Text) : Except Err Bytes :=
  if 100 ≤ code ∧ code ≤ 599 then
    (encode reason).map fun r => digits3 code ++ [32] ++ r
  else .error .badStatus

/-! ### `Response.finalize`: cookie lines -/

/-- `line.split(': ', 1)`: `none` when the separator does not occur (→ unpack `ValueError`) -/
def splitColonSpace : Text → Option (Text × Text)
  | [] => none
  | c :: rest =>
    if c = ':' then
      match rest with
      | ' ' :: rest' => some ([], rest')
      | _ => (splitColonSpace rest).map fun p => (c :: p.1, p.2)
    else (splitColonSpace rest).map fun p => (c :: p.1, p.2)

/-- REPAIRED, one morsel: `name, value = morsel.output().split(': ', 1)`, both through
    `encode_header_item` -/
def cookieLine (m : Text) : Except Err (Bytes × Bytes) :=
  match splitColonSpace m with
  | none => .error .unpack
  | some (n, v) => outputItem n v

/-- REPAIRED: one header tuple per morsel, in `sorted(cookie.items())` order (the list given) -/
def cookieLines (morsels : List Text) : Except Err (List (Bytes × Bytes)) :=
  morsels.mapM cookieLine

/-- `'\r\n'.join(lines)` -/
def joinCRLF : List Text → Text
  | [] => []
  | [x] => x
  | x :: rest => x ++ '\r' :: '\n' :: joinCRLF rest

/-- `s.split('\r\n')`; `cur` is the current piece, reversed -/
def splitCRLFAux : Text → Text → List Text
  | [], cur => [cur.reverse]
  | '\r' :: '\n' :: rest, cur => cur.reverse :: splitCRLFAux rest []
  | c :: rest, cur => splitCRLFAux rest (c :: cur)

def splitCRLF (s : Text) : List Text := splitCRLFAux s []

/-- UNREPAIRED, one line: name as Latin-1, value through `encode` WITHOUT the delete step -/
def cookieLineOld (line : Text) : Except Err (Bytes × Bytes) :=
  match splitColonSpace line with
  | none => .error .unpack
  | some (n, v) =>
    if isLatin1 n then (encode v).map fun v' => (latin1 n, v') else .error .unicodeEncode

/-- UNREPAIRED: `cookie.output()` (morsel outputs joined by CRLF), `if cookie:`, split on CRLF -/
def cookieLinesOld (morsels : List Text) : Except Err (List (Bytes × Bytes)) :=
  let joined := joinCRLF morsels
  if joined = [] then .ok [] else (splitCRLF joined).mapM cookieLineOld

/-! ### everything `Response.finalize` hands to the server -/

/-- inputs of the emission step, as found on the response object -/
structure Resp where
  code : Nat
  reason : Text
  /-- `response.headers.items()` (values already `str()`-ed) -/
  items : List (Text × Text)
  /-- `morsel.output()` for each morsel in `sorted(response.cookie.items())` order -/
  morsels : List Text

/-- REPAIRED `Response.finalize`: `(output_status, header_list)` -/
def finalizeEmit (r : Resp) : Except Err (Bytes × List (Bytes × Bytes)) := do
  let st ← statusLine r.code r.reason
  let hs ← output r.items
  let cs ← cookieLines r.morsels
  pure (st, hs ++ cs)

end CpModel.HeaderEnc
