import CpModel.UrlEnc
/-
  C03, the request front and back around `CpModel.UrlEnc` (core Lean only):

    cherrypy/_cpwsgi.py     AppResponse.recode_path_qs with `request.uri_encoding`   → `recodePathQs`
    cherrypy/_cpreqbody.py  Entity.process (processor table, exact media type, then its top-level
                            type, then `default_proc`)                                → `selectProc`
                            RequestBody.__init__ (`text/*` gets ISO-8859-1 appended)   → `textFallback`
                            Entity.decode_entity / Part.fullvalue                      → `decodeEntity`
                            process_multipart_form_data / _old_process_multipart (the parameter
                            assembly over the list of parts C04 models the framing of)  → `partsParams`
                            RequestBody.process (411 without a length, processor, merge) → `processBody`
    cherrypy/_cprequest.py  Request._do_respond: `process_request_body`, `methods_with_bodies`
                                                                                      → `ReqX.processBody`, `handleX`

  `handleX` extends `UrlEnc.handle`: a body is processed only when the method allows one and
  `request.process_request_body` is on; without Content-Length / Transfer-Encoding that is a 411; the
  processor is selected by the *exact* media type string (case-sensitive, a quirk: see docs/C03.md), then
  by its top-level type; everything else leaves the body unread and the handler receives the query
  parameters only.  For multipart bodies the model starts from the list of parts (name, filename?,
  content bytes, the part's own `attempt_charsets`): the framing is property C04's model.
  Not modelled: malformed multipart framing (C04: 400), parts whose own Content-Type selects a nested
  processor, `Content-Type` header syntax (C07; the harness reads media type and charset off the header it
  wrote and the run compares the resulting `attempt_charsets` with the real ones).
-/
namespace CpModel.UrlEnc

/-! ## recode_path_qs -/

/-- `AppResponse.recode_path_qs`: path and query string arrive as Latin-1 text; both are re-read in
    `request.uri_encoding` inside ONE `try`; when either fails both stay Latin-1 text.  (For Latin-1
    itself nothing happens, which is the same function.) -/
def recodePathQs (enc : Charset) (path qs : Bytes) : Text :=
  match decode enc path, decode enc qs with
  | some _, some t => t
  | _, _ => latin1Dec qs

/-! ## which processor reads the body -/

inductive Proc where
  /-- `process_urlencoded` -/
  | urlencoded
  /-- `process_multipart_form_data` -/
  | formData
  /-- `_old_process_multipart` (what a RequestBody installs for every other `multipart/*`) -/
  | oldMultipart
  /-- `process_multipart`: parts only, no parameters -/
  | partsOnly
  /-- no entry: `default_proc` leaves the body unread -/
  | unread
  deriving DecidableEq, Repr

def tableGet : List (Text × Proc) → Text → Option Proc
  | [], _ => none
  | (k, p) :: rest, ct => if k = ct then some p else tableGet rest ct

/-- `Entity.process`: `self.processors[ct]`, else `self.processors[ct.split('/', 1)[0]]`, else
    `default_proc`.  String equality: no case folding, no trimming beyond what the header parser did. -/
def selectProc (table : List (Text × Proc)) (ct : Text) : Proc :=
  match tableGet table ct with
  | some p => p
  | none =>
    match tableGet table (partition1 '/' ct).1 with
    | some p => p
    | none => .unread

/-- `RequestBody(...).processors` as shipped (compared with the generated table in `C03Tables`). -/
def defaultProcessors : List (Text × Proc) :=
  [("application/x-www-form-urlencoded".toList, .urlencoded),
   ("multipart".toList, .oldMultipart),
   ("multipart/form-data".toList, .formData)]

/-- `RequestBody.__init__`: for `text/*` ISO-8859-1 is appended unless a Latin-1 spelling is there. -/
def textFallback (ct : Text) (attempts : List Charset) : List Charset :=
  if "text/".toList.isPrefixOf ct ∧ Charset.latin1 ∉ attempts then attempts ++ [Charset.latin1] else attempts

/-- `request.body.attempt_charsets` as the processors find it: `Entity.__init__` (declared charset first),
    `RequestBody.__init__` (`text/*`), then the `request.body.attempt_charsets` config entry, which replaces
    the list wholesale. -/
def requestAttempts (ct : Text) (declared : Option Charset) (configured : Option (List Charset)) : List Charset :=
  match configured with
  | some l => l
  | none => textFallback ct (attemptCharsets declared none)

/-! ## multipart: from the parts to the parameter dict -/

/-- One part as `process_multipart` leaves it. -/
structure Field where
  /-- `Content-Disposition: …; name=` -/
  name : Option Text
  /-- has a `filename`: the handler gets the Part object itself -/
  file : Bool
  value : Bytes
  /-- the part's `attempt_charsets` (its declared charset, then `us-ascii`, `utf-8`) -/
  attempts : List Charset
  deriving Repr

/-- `Entity.decode_entity`: the first attempted charset that decodes the value; `none` = HTTPError 400. -/
def decodeEntity : List Charset → Bytes → Option Text
  | [], _ => none
  | cs :: more, v =>
    match decode cs v with
    | some t => some t
    | none => decodeEntity more v

/-- `Part.attempt_charsets` after `Entity.__init__`. -/
def partAttempts (declared : Option Charset) : List Charset :=
  match declared with
  | some d => d :: [Charset.ascii, Charset.utf8].filter (· ≠ d)
  | none => [Charset.ascii, Charset.utf8]

/-- The loop of `process_multipart_form_data` (`old = false`: unnamed parts stay in `entity.parts`) and of
    `_old_process_multipart` (`old = true`: unnamed parts are collected under the key `parts`); `idx` is
    the wire index of the part.  A field value no attempted charset decodes ends the request with 400. -/
def partsParams (old : Bool) : Nat → List Field → Params → Option Params
  | _, [], d => some d
  | idx, f :: rest, d =>
    match (if old then some (f.name.getD "parts".toList) else f.name) with
    | none => partsParams old (idx + 1) rest d
    | some key =>
      if f.file then partsParams old (idx + 1) rest (addParam d key (.part idx))
      else
        match decodeEntity f.attempts f.value with
        | some t => partsParams old (idx + 1) rest (addParam d key (.str t))
        | none => none

/-! ## the request -/

structure ReqX where
  /-- raw bytes of PATH_INFO and QUERY_STRING -/
  path : Bytes
  qs : Bytes
  /-- `request.uri_encoding` -/
  uriEnc : Charset
  /-- `request.query_string_encoding` -/
  qsEnc : Charset
  /-- `request.process_request_body` after `_do_respond` looked at the method:
      configured on ∧ method ∈ `methods_with_bodies` -/
  processBody : Bool
  /-- a Content-Length or Transfer-Encoding header is present -/
  hasLength : Bool
  /-- `request.body.processors` (the default table unless configured) -/
  processors : List (Text × Proc)
  /-- `request.body.content_type.value` (`''` without a Content-Type header) -/
  ctype : Text
  /-- `request.body.attempt_charsets` -/
  attempts : List Charset
  body : Bytes
  /-- the parts of a multipart body (ignored by the other processors) -/
  fields : List Field

inductive BodyRes where
  /-- `request.process_request_body` is off: `body.process()` is not called -/
  | skipped
  | refused (code : Nat)
  /-- `body.process()` returned; these are `request.body.params` -/
  | params (p : Params)
  deriving Repr

/-- `RequestBody.process` up to (not including) the merge loop. -/
def processBody (r : ReqX) : BodyRes :=
  if !r.processBody then .skipped
  else if !r.hasLength then .refused 411
  else
    match selectProc r.processors r.ctype with
    | .urlencoded =>
      match processUrlencoded (r.attempts.map decode) r.body with
      | some p => .params p
      | none => .refused 400
    | .formData =>
      match partsParams false 0 r.fields [] with
      | some p => .params p
      | none => .refused 400
    | .oldMultipart =>
      match partsParams true 0 r.fields [] with
      | some p => .params p
      | none => .refused 400
    | .partsOnly => .params []
    | .unread => .params []

/-- `_do_respond` from `process_query_string` to the handler call, every body dimension included. -/
def handleX (r : ReqX) : Outcome :=
  match parseQueryString (decode r.qsEnc) (recodePathQs r.uriEnc r.path r.qs) with
  | none => .status 404
  | some p =>
    match processBody r with
    | .skipped => .handler p
    | .refused c => .status c
    | .params bp => .handler (mergeBody p bp)

end CpModel.UrlEnc
