/-
  C20, part T: `plugins.ThreadManager.acquire_thread / release_thread / stop` — any number of
  request threads (each with its own finite script of acquire/release calls) against a thread that
  calls `stop()` (= `graceful`) a number of times.  Core Lean only; one model step = one source line
  at the time of writing (tie to the live code: trace inclusion modulo stuttering over `obsStr`).  Single dict operations (`in`, `len`, `d[k] = v`, `pop`, `clear`, `list(d)`, one
  `next()` of the items iterator) are atomic (GIL).

  Two protocols (`Mode`):
  * `asIs`  – `stop()` iterates `self.threads.items()` live, publishes, and `clear()`s at the end.
              The dict iterator is modelled as CPython implements it: entries live in insertion
              slots, a deleted entry leaves a hole, the iterator remembers a slot position, the
              size it started with and how many items it still expects, and raises `RuntimeError`
              when the size changed or an unexpected item turns up.  Faithful as long as the dict
              is not resized, i.e. at most 5 insertions between two `clear()`s (the harness keeps
              compared cases inside that bound).
  * `fixed` – `stop()` walks `list(self.threads)` and `pop`s each key before publishing (the
              proposed fix `C20-threadmanager-stop`).

  Ghost fields: per request thread `nstart` / `nstop` count the `start_thread` / `stop_thread`
  publications made for that thread's registrations (by whichever thread); `journal` lists all
  publications in order.  Not modelled: listeners that raise, thread-ident reuse by the OS.
-/
namespace CpModel.ThreadMgr

inductive Mode where
  | asIs | fixed
  deriving DecidableEq, Repr, Inhabited

inductive ROp where
  | acq | rel
  deriving DecidableEq, Repr, Inhabited

/-- request thread: `aN` = `acquire_thread`+N, `rN` = `release_thread`+N -/
inductive RPc where
  | a6 | a7 | a10 | a11 | a12 | r2 | r3 | r4 | r5 | done
  deriving DecidableEq, Repr, Inhabited

structure RThread where
  pc : RPc := .done
  ops : List ROp := []
  /-- local `i` -/
  i : Option Nat := none
  nstart : Nat := 0
  nstop : Nat := 0
  deriving DecidableEq, Repr, Inhabited

/-- stopper: `sN` = `ThreadManager.stop`+N in the `asIs` source, `fN` in the `fixed` source; `fr` = the
    sweep is over and the caller's frame (`bus.stop()`: later 'stop' listeners, `state = STOPPED`)
    unwinds — a step of its own, so that "the stopper's call has returned" can be observed later than
    the end of the sweep -/
inductive SPc where
  | s2 | s3 | s4 | f2 | f5 | f6 | f7 | fr | done | rterr
  deriving DecidableEq, Repr, Inhabited

inductive Ev where
  | start (idx : Nat) (by_ : Nat)        -- by_ = publishing request thread
  | stop (idx : Nat) (by_ : Option Nat)  -- none = published by the stopper
  deriving DecidableEq, Repr, Inhabited

structure Cfg where
  /-- `self.threads`: ident ↦ index -/
  d : Nat → Option Nat := fun _ => none
  /-- insertion slots of the dict (a deleted entry leaves `none`) -/
  slots : List (Option Nat) := []
  rs : Nat → RThread := fun _ => {}
  nr : Nat := 0
  spc : SPc := .done
  /-- remaining `stop()` calls after the current one -/
  scalls : Nat := 0
  -- asIs iterator
  itOn : Bool := false
  pos : Nat := 0
  expect : Nat := 0
  left : Nat := 0
  -- fixed
  snapOn : Bool := false
  snap : List Nat := []
  /-- current key / value of the stopper's loop -/
  key : Nat := 0
  si : Option Nat := none
  journal : List Ev := []

instance : Inhabited Cfg := ⟨{}⟩

def used (c : Cfg) : Nat := (c.slots.filter Option.isSome).length

def keys (c : Cfg) : List Nat := c.slots.filterMap id

def setR (c : Cfg) (t : Nat) (r : RThread) : Cfg :=
  { c with rs := fun j => if j = t then r else c.rs j }

def setD (c : Cfg) (k : Nat) (v : Option Nat) : Cfg :=
  { c with d := fun j => if j = k then v else c.d j }

/-- `d[k] = v` -/
def insert (c : Cfg) (k v : Nat) : Cfg :=
  match c.d k with
  | some _ => setD c k (some v)
  | none => { setD c k (some v) with slots := c.slots ++ [some k] }

/-- `d.pop(k, None)` (the value is read by the caller beforehand) -/
def remove (c : Cfg) (k : Nat) : Cfg :=
  { setD c k none with slots := c.slots.map fun s => if s = some k then none else s }

def addJ (c : Cfg) (e : Ev) : Cfg := { c with journal := c.journal ++ [e] }

def enterS (m : Mode) (c : Cfg) : Cfg :=
  { c with spc := match m with | .asIs => .s2 | .fixed => .f2 }

/-- `stop()` returns -/
def retS (m : Mode) (c : Cfg) : Cfg :=
  match c.scalls with
  | 0 => { c with spc := .done }
  | n + 1 => enterS m { c with scalls := n }

def initOps : List ROp → RPc
  | [] => .done
  | .acq :: _ => .a6
  | .rel :: _ => .r2

/-- the current call of request thread `t` returns -/
def retR (c : Cfg) (t : Nat) (r : RThread) : Cfg :=
  let ops := r.ops.tail
  setR c t { r with ops := ops, pc := initOps ops, i := none }

/-- first live slot at or after `pos` -/
def nextSlot : List (Option Nat) → Nat → Option (Nat × Nat)
  | [], _ => none
  | s :: rest, p =>
    match p with
    | p' + 1 => (nextSlot rest p').map fun (i, k) => (i + 1, k)
    | 0 =>
      match s with
      | some k => some (0, k)
      | none => (nextSlot rest 0).map fun (i, k) => (i + 1, k)

def stepS (m : Mode) (c : Cfg) : Cfg :=
  match c.spc with
  | .s2 =>
    let c := if c.itOn then c else { c with itOn := true, pos := 0, expect := used c, left := used c }
    if c.expect ≠ used c then { c with spc := .rterr, itOn := false }
    else
      match nextSlot c.slots c.pos with
      | none => { c with spc := .s4, itOn := false }
      | some (i, k) =>
        if c.left = 0 then { c with spc := .rterr, itOn := false }
        else { c with spc := .s3, pos := i + 1, left := c.left - 1, key := k, si := c.d k }
  | .s3 =>
    match c.si with
    | some v =>
      { setR c c.key { c.rs c.key with nstop := (c.rs c.key).nstop + 1 } with
          spc := .s2, si := none, journal := c.journal ++ [.stop v none] }
    | none => { c with spc := .s2 }
  | .s4 => { c with d := fun _ => none, slots := [], spc := .fr }
  | .f2 =>
    let c := if c.snapOn then c else { c with snapOn := true, snap := keys c }
    match c.snap with
    | [] => { c with snapOn := false, spc := .fr }
    | k :: r => { c with spc := .f5, snap := r, key := k }
  | .f5 => { remove c c.key with spc := .f6, si := c.d c.key }
  | .f6 =>
    match c.si with
    | some _ => { c with spc := .f7 }
    | none => { c with spc := .f2 }
  | .f7 =>
    match c.si with
    | some v =>
      { setR c c.key { c.rs c.key with nstop := (c.rs c.key).nstop + 1 } with
          spc := .f2, si := none, journal := c.journal ++ [.stop v none] }
    | none => { c with spc := .f2 }
  | .fr => retS m c
  | .done => c
  | .rterr => c

def stepR (c : Cfg) (t : Nat) : Cfg :=
  let r := c.rs t
  match r.pc with
  | .a6 => setR c t { r with pc := .a7 }
  | .a7 =>
    match c.d t with
    | none => setR c t { r with pc := .a10 }
    | some _ => retR c t r
  | .a10 => setR c t { r with pc := .a11, i := some (used c + 1) }
  | .a11 =>
    match r.i with
    | some v => setR (insert c t v) t { r with pc := .a12 }
    | none => setR c t { r with pc := .a12 }
  | .a12 =>
    match r.i with
    | some v =>
      addJ (retR c t { r with nstart := r.nstart + 1 }) (.start v t)
    | none => retR c t r
  | .r2 => setR c t { r with pc := .r3 }
  | .r3 => setR (remove c t) t { r with pc := .r4, i := c.d t }
  | .r4 =>
    match r.i with
    | some _ => setR c t { r with pc := .r5 }
    | none => retR c t r
  | .r5 =>
    match r.i with
    | some v =>
      addJ (retR c t { r with nstop := r.nstop + 1 }) (.stop v (some t))
    | none => retR c t r
  | .done => c

inductive Tid where
  | s
  | r (t : Nat)
  deriving DecidableEq, Repr, Inhabited

def enabled (c : Cfg) : Tid → Bool
  | .s => c.spc ≠ .done && c.spc ≠ .rterr
  | .r t => t < c.nr && (c.rs t).pc ≠ .done

def step (m : Mode) (c : Cfg) (t : Tid) : Cfg :=
  if enabled c t then
    match t with
    | .s => stepS m c
    | .r i => stepR c i
  else c

def run (m : Mode) (c : Cfg) : List Tid → Cfg
  | [] => c
  | t :: ts => run m (step m c t) ts

def mkR : Option (List ROp) → RThread
  | some ops => { ops := ops, pc := initOps ops }
  | none => {}

/-- request threads `0 .. scripts.length-1` with the given scripts; the stopper calls `stop()`
    `nstops` times. -/
def init (m : Mode) (scripts : List (List ROp)) (nstops : Nat) : Cfg :=
  let c : Cfg := { rs := fun j => mkR scripts[j]?, nr := scripts.length }
  match nstops with
  | 0 => c
  | n + 1 => enterS m { c with scalls := n }

/-! ### observation of the shared state (trace inclusion, see `CpModel/C20Admit.lean`) -/

def showEv : Ev → String
  | .start i t => s!"+{i}@t{t + 1}"
  | .stop i (some t) => s!"-{i}@t{t + 1}"
  | .stop i none => s!"-{i}@s"

def dash (sep : String) (xs : List String) : String := if xs.isEmpty then "-" else sep.intercalate xs

/-- calls of `stop()` that have returned (`total` = number of calls the stopper makes) -/
def sret (total : Nat) (c : Cfg) : Nat :=
  total - c.scalls - (if c.spc == .done then 0 else 1)

/-- the registry in insertion order, the publication journal, calls returned per request thread
    (`lens` = script lengths), `stop()` calls returned, `stop()` died with RuntimeError -/
def obsStr (lens : List Nat) (nstops : Nat) (c : Cfg) : String :=
  let d := (keys c).map fun k => s!"t{k + 1}:{match c.d k with | some v => toString v | none => "?"}"
  let rs := (List.range c.nr).map fun t => toString (lens.getD t 0 - (c.rs t).ops.length)
  let s := if nstops = 0 then 0 else sret nstops c
  s!"D={dash "," d};J={dash "," (c.journal.map showEv)};r={dash "," rs};s={s};E={if c.spc == .rterr then "1" else "0"}"

def RPc.code : RPc → Nat
  | .a6 => 0 | .a7 => 1 | .a10 => 2 | .a11 => 3 | .a12 => 4 | .r2 => 5 | .r3 => 6 | .r4 => 7 | .r5 => 8
  | .done => 9

def SPc.code : SPc → Nat
  | .s2 => 0 | .s3 => 1 | .s4 => 2 | .f2 => 3 | .f5 => 4 | .f6 => 5 | .f7 => 6 | .done => 7 | .rterr => 8
  | .fr => 9

def optN : Option Nat → String
  | none => "N"
  | some n => toString n

def keyStr (c : Cfg) : String :=
  let d := c.slots.foldl (fun acc s => match s with
    | some k => acc ++ s!"{k}:{optN (c.d k)},"
    | none => acc ++ "_,") ""
  let rs := (List.range c.nr).foldl (fun acc t =>
    let r := c.rs t
    acc ++ s!"{r.pc.code}.{r.ops.length}.{optN r.i}.{r.nstart}.{r.nstop},") ""
  let snap := c.snap.foldl (fun acc k => acc ++ s!"{k},") ""
  s!"{d}|{rs}|{c.spc.code}.{c.scalls}|{c.itOn}{c.pos}.{c.expect}.{c.left}|{c.snapOn}{snap}|{c.key}.{optN c.si}|{c.journal.length}"

end CpModel.ThreadMgr
