import CpModel.Hooks
/-
  Model of one `Request` object's life: `Request.run → respond → _do_respond → handle_error`,
  `Request.close`, `Response.finalize`, `HTTPError/HTTPRedirect.set_response`, `get_error_page`,
  `bare_error` (cherrypy/_cprequest.py, cherrypy/_cperror.py), transcribed statement by statement with
  the exact `try / except / finally` nesting.  Core Lean only.  Shared by C09 and C01.

  A *fault plan* gives every user-supplied callback site of a page an outcome (`Hooks.Out`): the
  custom dispatcher, a config namespace handler, each hook at each of the eight points, the request
  body processor, the page handler (plus the shape of what it returns and the status it sets),
  a custom `request.error_response`, an `error_page.default` callable / template.

  What is modelled
  * order of the stages of `_do_respond` and where hooks become attached: `self.hooks` is an empty
    copy until `self.namespaces(self.config)` ran, so a failure before that point (missing `Host`
    header → `HTTPError(400)` in `process_headers`, failing dispatcher) meets no hooks, the
    class-default `show_tracebacks = True`, the default `error_response`, no `error_page`.
  * `respond`: `except (HTTPRedirect, HTTPError): set_response(); run('before_finalize'); finalize()`
    inside `try … finally: run('on_end_resource')` inside `except throws: raise / except Exception:
    handle_error()`.  Python semantics used: an exception raised in a `finally` block replaces the
    pending one; `InternalRedirect ∈ Request.throws` passes through `respond` and `run`.
  * `handle_error`: `before_error_response`, `error_response()`, `after_error_response`, `finalize()`,
    `except HTTPRedirect: set_response(); finalize()`; everything else propagates to `run`, whose
    `except Exception` produces `bare_error` (traceback iff the request's `show_tracebacks`).
  * `Response.finalize`: status validation (`valid_status`: the generated table
    `Gen.Pipeline.validStatusRanges`, else `HTTPError(500)`), body
    collapse unless streaming (iterating a generator that raises / a non-iterable raises there),
    no-body statuses (tested first, also for a streamed response — which statuses the running code treats that way
    is read from it: `Gen.Pipeline.noBodyStreamRanges`).
  * `HTTPError.set_response`: status, traceback iff `show_tracebacks`, the `error_page` callable
    (its failure is caught and its text appended to the page — finding F2) or a template whose
    interpolation raises; `HTTPRedirect.set_response`: known redirect codes, `ValueError` otherwise.
  * HEAD: body dropped at the end of `run`.
  * the journal: every `hooks.run(point)` call (`visit`), every hook call, handler / custom
    error_response / error_page callable invocations.
  Not modelled: header contents, cookies, `log.access`, tools' own behaviour, hooks with side effects
  on the response, `request.error_response = None`, `throw_errors = True`.
-/
namespace CpModel.Pipeline
open CpModel.Hooks CpModel.Gen.Pipeline

inductive Point where
  | onStartResource | beforeRequestBody | beforeHandler | beforeFinalize
  | onEndResource | onEndRequest | beforeErrorResponse | afterErrorResponse
  deriving DecidableEq, Repr, Inhabited

inductive Method where
  | get | head | post
  deriving DecidableEq, Repr, Inhabited

/-- What the page handler returns. `gen (some k)`: a generator that yields `k` chunks and then
    raises; `gen none`: a generator of two chunks. -/
inductive Shape where
  | bytes | list | gen (raiseAt : Option Nat) | file | none | str | nonIter
  deriving DecidableEq, Repr, Inhabited

structure Handler where
  out : Out := .ok
  shape : Shape := .bytes
  /-- `cherrypy.response.status = n` executed by the handler before it returns -/
  status : Option Nat := none
  deriving DecidableEq, Repr, Inhabited

/-- `error_page.default`: absent, a callable that returns text, a callable that raises, a template
    file whose `%`-interpolation raises. -/
inductive ErrPage where
  | absent | cbOk | cbFail | tmplFail
  deriving DecidableEq, Repr, Inhabited

/-- Everything configured for one path (one section of the application config). -/
structure Page where
  hooks : Point → List Hook := fun _ => []
  dispatch : Out := .ok
  ns : Out := .ok
  body : Out := .ok
  handler : Handler := {}
  /-- `none`: the default `HTTPError(500).set_response`; `some o`: a custom callable with outcome `o`
      (when it returns it has set status 503 and its own body) -/
  errorResponse : Option Out := none
  errorPage : ErrPage := .absent
  showTb : Bool := true
  stream : Bool := false
  deriving Inhabited

/-- Journal events of one Request object. -/
inductive Ev where
  /-- `hooks.run(point)` was called -/
  | visit (p : Point)
  | hook (p : Point) (id : Nat)
  | handler
  /-- the custom `request.error_response` was called -/
  | errorResponse
  /-- the `error_page` callable was called -/
  | errorPage
  deriving DecidableEq, Repr, Inhabited

/-- Kind of the response entity. -/
inductive BodyK where
  | empty
  /-- the handler's return value, as assigned -/
  | page (sh : Shape)
  /-- the handler's body collapsed to one byte string by `finalize` -/
  | pageFlat
  | redirect
  /-- default error template: traceback shown?, "the custom error page failed: <exception text>"? -/
  | errorPage (tb : Bool) (cbMsg : Bool)
  /-- what the `error_page` callable returned (it echoes the `traceback` argument it was given) -/
  | errorCb (tb : Bool)
  /-- what a custom `error_response` produced -/
  | custom
  /-- `bare_error`: "Unrecoverable error in the server." (+ traceback?) -/
  | bare (tb : Bool)
  deriving DecidableEq, Repr, Inhabited

/-- The part of request + response state the control flow depends on. -/
structure St where
  /-- `self.namespaces(self.config)` processed the built-in namespaces: hooks attached,
      `request.*`, `response.*`, `error_page.*` in effect -/
  attached : Bool := false
  /-- `response.status` (`none`: never assigned → 200) -/
  status : Option Nat := none
  body : BodyK := .empty
  /-- status code in `response.output_status` -/
  out : Option Nat := none
  deriving DecidableEq, Repr, Inhabited

/-- Result of a step: journal delta, state, pending exception. -/
structure R where
  j : List Ev := []
  st : St
  exn : Option Exn := none
  deriving Repr, Inhabited

/-- `a; b` with early exit on an exception. -/
def R.andThen (a : R) (f : St → R) : R :=
  match a.exn with
  | some _ => a
  | none => let b := f a.st; { j := a.j ++ b.j, st := b.st, exn := b.exn }

/-- `try: a finally: b` — `b` always runs; its exception replaces a pending one. -/
def R.finallyDo (a : R) (f : St → R) : R :=
  let b := f a.st
  { j := a.j ++ b.j, st := b.st, exn := match b.exn with | some e => some e | none => a.exn }

def raiseIf (o : Option Exn) (s : St) : R := { st := s, exn := o }

section request
variable (pg : Page) (meth : Method) (noHost badQuery : Bool)

/-- hooks in `request.hooks[p]` -/
def hooksAt (s : St) (p : Point) : List Hook := if s.attached then pg.hooks p else []
def showTb (s : St) : Bool := if s.attached then pg.showTb else true
def streaming (s : St) : Bool := s.attached && pg.stream
def errorPageOf (s : St) : ErrPage := if s.attached then pg.errorPage else .absent
def errorResponseOf (s : St) : Option Out := if s.attached then pg.errorResponse else none

/-- `self.hooks.run(point)` -/
def runPoint (p : Point) (s : St) : R :=
  let (ex, e) := Hooks.run (hooksAt pg s p)
  { j := .visit p :: ex.map (fun h => .hook p h.id), st := s, exn := e }

/-- statuses for which `finalize` drops the body (generated table: 1xx, 204, 205, 304) -/
def noBody (code : Nat) : Bool := inRanges noBodyRanges code

/-- does iterating the body to the end raise? -/
def BodyK.iterFails : BodyK → Bool
  | .page (.gen (some _)) => true
  | .page .nonIter => true
  | _ => false

def BodyK.collapsed : BodyK → BodyK
  | .page .none => .empty
  | .page _ => .pageFlat
  | b => b

/-- the code `valid_status(response.status)` works with: `if not status: status = 200` (None, '' and 0
    are falsy) -/
def statusCode (s : St) : Nat :=
  match s.status with
  | none => falsyStatusCode
  | some 0 => falsyStatusCode
  | some c => c

/-- the same for a streamed response (generated table, read from the live `finalize` with `stream = True`:
    empty as long as `elif self.stream` came before the test of the status) -/
def noBodyS (code : Nat) : Bool := inRanges noBodyStreamRanges code

/-- `Response.finalize()` -/
def finalize (s : St) : R :=
  let code := statusCode s
  if !inRanges validStatusRanges code then { st := s, exn := some (.httpError 500) }
  else
    let s1 := { s with status := some code, out := some code }
    if streaming pg s then
      -- bodiless statuses are tested first, streamed or not: `_flush_body()` iterates the body to the end
      if noBodyS code then
        if s.body.iterFails then { st := s1, exn := some .exc } else { st := { s1 with body := .empty } }
      else { st := s1 }
    else if s.body.iterFails then { st := s1, exn := some .exc }
    else if noBody code then { st := { s1 with body := .empty } }
    else { st := { s1 with body := s.body.collapsed } }

/-- `HTTPError(c).set_response()` (including `get_error_page`) -/
def setResponseError (c : Nat) (s : St) : R :=
  let s1 := { s with status := some c }
  let tb := showTb pg s
  match errorPageOf pg s with
  | .absent => { st := { s1 with body := .errorPage tb false } }
  | .cbOk => { j := [.errorPage], st := { s1 with body := .errorCb tb } }
  | .cbFail => { j := [.errorPage], st := { s1 with body := .errorPage tb true } }
  | .tmplFail => { st := s1, exn := some .exc }

/-- redirect codes `HTTPRedirect.set_response` knows (generated table) -/
def redirectKnown (c : Nat) : Bool := redirectKnownCodes.contains c

/-- `HTTPRedirect(url, c).set_response()` -/
def setResponseRedirect (c : Nat) (s : St) : R :=
  let s1 := { s with status := some c }
  if redirectKnown c then { st := { s1 with body := .redirect } }
  else { st := s1, exn := some .exc }

/-- calling the page handler and `response.body = <what it returned>` -/
def callHandler (s : St) : R :=
  match pg.handler.out.raised with
  | some e => { j := [.handler], st := s, exn := some e }
  | none =>
    let s1 := match pg.handler.status with
      | some c => { s with status := some c }
      | none => s
    match pg.handler.shape with
    | .str => { j := [.handler], st := s1, exn := some .exc }     -- ResponseBody.__set__: ValueError
    | sh => { j := [.handler], st := { s1 with body := .page sh } }

/-- `Request._do_respond` -/
def doRespond (s : St) : R :=
  (raiseIf (if noHost then some (.httpError 400) else none) s)      -- process_headers
  |>.andThen (raiseIf pg.dispatch.raised)                            -- get_resource
  |>.andThen (fun s => raiseIf pg.ns.raised { s with attached := true })   -- self.namespaces(self.config)
  |>.andThen (runPoint pg .onStartResource)
  |>.andThen (raiseIf (if badQuery then some (.httpError 404) else none))  -- process_query_string
  |>.andThen (runPoint pg .beforeRequestBody)
  |>.andThen (raiseIf (if meth = .post then pg.body.raised else none))     -- self.body.process()
  |>.andThen (runPoint pg .beforeHandler)
  |>.andThen (callHandler pg)
  |>.andThen (runPoint pg .beforeFinalize)
  |>.andThen (finalize pg)

/-- the `except (HTTPRedirect, HTTPError)` branch of `respond` -/
def exceptBranch (a : R) : R :=
  match a.exn with
  | some (.httpError c) =>
    let b := (setResponseError pg c a.st).andThen (runPoint pg .beforeFinalize) |>.andThen (finalize pg)
    { b with j := a.j ++ b.j }
  | some (.httpRedirect c) =>
    let b := (setResponseRedirect c a.st).andThen (runPoint pg .beforeFinalize) |>.andThen (finalize pg)
    { b with j := a.j ++ b.j }
  | _ => a

/-- `request.error_response()` -/
def callErrorResponse (s : St) : R :=
  match errorResponseOf pg s with
  | none => setResponseError pg 500 s
  | some o =>
    match o.raised with
    | some e => { j := [.errorResponse], st := s, exn := some e }
    | none => { j := [.errorResponse], st := { s with status := some 503, body := .custom } }

/-- the `try` block of `Request.handle_error` -/
def handleErrorTry (s : St) : R :=
  (runPoint pg .beforeErrorResponse s)
    |>.andThen (callErrorResponse pg)
    |>.andThen (runPoint pg .afterErrorResponse)
    |>.andThen (finalize pg)

/-- `Request.handle_error` -/
def handleError (s : St) : R :=
  let a := handleErrorTry pg s
  match a.exn with
  | some (.httpRedirect c) =>
    let b := (setResponseRedirect c a.st).andThen (finalize pg)
    { b with j := a.j ++ b.j }
  | _ => a

/-- the `try: try: … except (HTTPRedirect, HTTPError): … finally: run('on_end_resource')` block of
    `Request.respond` -/
def protectedBlock (s : St) : R :=
  (exceptBranch pg (doRespond pg meth noHost badQuery s)).finallyDo (runPoint pg .onEndResource)

/-- `Request.respond` -/
def respond (s : St) : R :=
  let a := protectedBlock pg meth noHost badQuery s
  match a.exn with
  | none => a
  | some (.internalRedirect _) => a                  -- except self.throws: raise
  | some _ =>
    let b := handleError pg a.st
    { b with j := a.j ++ b.j }

/-- `Request.run`: what is left in `exn` is an `InternalRedirect` leaving `run`. -/
def runRequest : R :=
  let a := respond pg meth noHost badQuery {}
  match a.exn with
  | some (.internalRedirect t) => { a with exn := some (.internalRedirect t) }
  | some _ =>
    -- bare_error(format_exc() if self.show_tracebacks else '')
    let s := { a.st with out := some 500, body := .bare (showTb pg a.st) }
    { j := a.j, st := if meth = .head then { s with body := .empty } else s }
  | none => if meth = .head then { a with st := { a.st with body := .empty } } else a

/-- `Request.close()` on a request that is not yet closed (exceptions of the hooks are logged and
    dropped by `release_serving`). -/
def closeRequest (s : St) : List Ev := (runPoint pg .onEndRequest s).j

end request

end CpModel.Pipeline
