import CpModel.Pipeline
/-
  Model of the WSGI layer around `Request.run` (cherrypy/_cpwsgi.py, cherrypy/_cptree.py):
  `AppResponse.__init__ / __next__ / close`, `Application.release_serving`, `InternalRedirector`,
  `ExceptionTrapper / _TrappedResponse`, and of a WSGI server that iterates the result (completely or
  not) and calls `close()` some number of times.  Core Lean only.  Shared by C09 and C01.

  What is modelled
  * `AppResponse.__init__`: `run()`, the type checks (always pass for the modelled bodies),
    `iter(r.body)` (raises for a non-iterable streamed body), `start_response`; `except BaseException:
    self.close(); raise`.
  * `AppResponse.close`: `streaming = response.stream`, `release_serving()` (→ `Request.close()` guarded
    by `closed`, exceptions of `on_end_request` hooks logged and dropped, `serving.clear()`), then
    `if streaming and is_closable_iterator(self.iter_response)` — which raises `AttributeError` when
    `close()` runs from the `except` block of `__init__` before `self.iter_response` was assigned
    (quirk: an `InternalRedirect` leaving a request whose `response.stream` is true is replaced by
    that `AttributeError`; whether the running code still has the quirk is probed on every run:
    `Gen.Pipeline.closeBeforeIterRaises`, and every theorem holds for both values).
  * `InternalRedirector(recursive=False)`: list of visited URLs (= page index + "has a query string":
    only the original request can carry one, redirect targets never do), `RuntimeError` on a repeated URL after `ir.request.close()` (a no-op: the request
    was closed by `AppResponse.__init__`), the redirected request is a `GET` with an empty body.
  * `_TrappedResponse`: `trap` around the call and around every `next`; an exception becomes
    `bare_error` with the traceback iff `show_tracebacks` of the request being reported on: the current
    request's while one is being served (mid-stream), and — once `release_serving` ran and
    `cherrypy.request` is the default object (`app is None`) — the value the released request left in
    `cherrypy.serving.released_show_tracebacks` (repair of finding F1; before it the class default
    `True` was used).  That value lives only between the release of a request and the end of the same
    WSGI call (dropped when the trapper starts a call, when a new request is loaded, when the trapper's
    response is closed), so within a call it is always the setting of the *last* released Request
    object — the `tb` carried by `Init.raised` / `Redir.raised`.  `start_response(s, h, exc_info)`;
    mid-stream the bare body is returned as one more chunk.
  * the server: `reads = none` iterates to the end, `some m` calls `next` at most `m` times; then
    `closes` calls of `close()`.
  Not modelled: `start_response` / `write` raising, other middleware in `pipeline`, `VirtualHost`,
  `recursive=True`, `engine.publish('after_request')` listeners raising.
-/
namespace CpModel.Wsgi
open CpModel.Hooks CpModel.Pipeline

/-- Journal of the whole conversation. -/
inductive Entry where
  /-- event `e` of Request object number `r` (numbered in creation order) -/
  | req (r : Nat) (e : Ev)
  /-- `start_response(status, headers[, exc_info])` -/
  | start (code : Nat) (excInfo : Bool)
  /-- the server called `close()` on the returned iterable -/
  | closeCall
  deriving DecidableEq, Repr, Inhabited

/-- tag the events of request object `r` -/
def tag (r : Nat) (j : List Ev) : List Entry := j.map (.req r)

structure Plan where
  pages : List Page
  /-- index of the page the request addresses -/
  start : Nat := 0
  meth : Method := .get
  /-- HTTP/1.1 request without a `Host` header -/
  noHost : Bool := false
  /-- query string that is not valid UTF-8 -/
  badQuery : Bool := false
  reads : Option Nat := none
  closes : Nat := 1
  /-- `request.show_tracebacks` in the *global* config: what applies to a path without a section -/
  globalTb : Bool := true
  deriving Inhabited

/-- A path without a config section and without a handler (the probe application's `default` raises
    `NotFound()` for it): only the global config applies. -/
def notFoundPage (globalTb : Bool) : Page := { handler := { out := .httpError 404 }, showTb := globalTb }

/-- How a call of `AppResponse(environ, start_response, cpapp)` ends. -/
inductive Init where
  /-- constructed; `start_response` was called; the request (number `r`, page `pg`) is still being served -/
  | served (st : St)
  /-- an exception left `__init__` (after `self.close()`); `tb` = the `show_tracebacks` attribute the
      released Request object had (`release_serving` leaves it in `cherrypy.serving`) -/
  | raised (e : Exn) (tb : Bool)
  deriving Repr, Inhabited

/-- `AppResponse.__init__` for request object number `r`. -/
def appResponse (pg : Page) (meth : Method) (noHost badQuery : Bool) (r : Nat) : List Entry × Init :=
  let a := runRequest pg meth noHost badQuery
  match a.exn with
  | some e =>
    -- except BaseException: self.close(); raise
    let jc := closeRequest pg a.st
    -- close(): `self.iter_response` is not assigned yet → AttributeError when streaming
    (tag r (a.j ++ jc),
     .raised (if streaming pg a.st && Gen.Pipeline.closeBeforeIterRaises then .exc else e) (showTb pg a.st))
  | none =>
    if a.st.body = .page .nonIter then
      -- iter(r.body) raises TypeError; only a streamed body reaches this point uncollapsed
      (tag r (a.j ++ closeRequest pg a.st), .raised .exc (showTb pg a.st))
    else
      (tag r a.j ++ [.start (a.st.out.getD 0) false], .served a.st)

/-- Result of the `InternalRedirector` loop. -/
inductive Redir where
  | served (st : St) (pg : Page) (r : Nat)
  | raised (e : Exn) (tb : Bool)
  /-- model artefact: never reached with the fuel `call` supplies (`CpProofs.C01.fuel_sufficient`) -/
  | outOfFuel
  deriving Inhabited

/-- `InternalRedirector.__call__` (`recursive=False`). -/
def redirector (pages : List Page) (noHost globalTb : Bool) :
    Nat → List (Nat × Bool) → Nat → Method → Bool → Nat → List Entry × Redir
  | 0, _, _, _, _, _ => ([], .outOfFuel)
  | fuel + 1, visited, cur, meth, badQuery, r =>
    let pg := pages.getD cur (notFoundPage globalTb)
    let ar := appResponse pg meth noHost badQuery r
    match ar.2 with
    | .served st => (ar.1, .served st pg r)
    | .raised e tb =>
      match e with
      | .internalRedirect t =>
        let visited' := visited ++ [(cur, badQuery)]       -- old_uri = path (+ '?' + qs)
        if (t, false) ∈ visited' then
          (ar.1, .raised .exc tb)                  -- ir.request.close() is a no-op; RuntimeError
        else
          let res := redirector pages noHost globalTb fuel visited' t .get false (r + 1)
          (ar.1 ++ res.1, res.2)
      | e => (ar.1, .raised e tb)

structure Result where
  j : List Entry
  /-- entity established when the application callable returned -/
  body : BodyK
  /-- `some tb`: a `bare_error` chunk was appended mid-stream (traceback shown?) -/
  tail : Option Bool := none
  /-- an exception left `__call__`, `__next__` or `close` -/
  escaped : Option Exn := none
  outOfFuel : Bool := false
  /-- `show_tracebacks` attribute of the last Request object (what the statement of C01 calls
      "tracebacks are switched off") -/
  reqShowTb : Bool := true
  /-- the trapper produced the response before the application callable returned, i.e. after the
      request had been released -/
  trappedAtInit : Bool := false
  deriving Inhabited

/-- `_TrappedResponse.trap`: every modelled exception class derives from `Exception`, which `trap`
    catches (only `KeyboardInterrupt` / `SystemExit` / `StopIteration` are re-raised). -/
def trapCatches : Exn → Bool
  | _ => true

/-- does the server's iteration reach the chunk at which the streamed generator raises? -/
def hitsRaise (b : BodyK) (reads : Option Nat) : Bool :=
  match b with
  | .page (.gen (some k)) =>
    match reads with
    | none => true
    | some m => k < m
  | _ => false

/-- the server's `close()` calls: the first one releases the request -/
def closeCalls (pg : Page) (r : Nat) (st : St) : Nat → List Entry
  | 0 => []
  | n + 1 => (.closeCall :: tag r (closeRequest pg st)) ++ List.replicate n .closeCall

/-- The whole conversation: `app(environ, start_response)`, iteration, `close()`. -/
def call (p : Plan) : Result :=
  match redirector p.pages p.noHost p.globalTb (p.pages.length + 2) [] p.start p.meth p.badQuery 0 with
  | (j, .outOfFuel) => { j := j ++ List.replicate p.closes .closeCall, body := .empty, outOfFuel := true }
  | (j, .raised e tb) =>
    if trapCatches e then
      -- the request was released: `cherrypy.request.app is None`, so `trap` uses the released request's
      -- setting (`cherrypy.serving.released_show_tracebacks`)
      { j := j ++ [.start 500 true] ++ List.replicate p.closes .closeCall, body := .bare tb,
        reqShowTb := tb, trappedAtInit := true }
    else { j := j, body := .empty, escaped := some e, reqShowTb := tb }
  | (j, .served st pg r) =>
    if hitsRaise st.body p.reads then
      -- trap(next, …): the request is still current, its own show_tracebacks decides
      { j := j ++ [.start 500 true] ++ closeCalls pg r st p.closes, body := st.body,
        tail := some (showTb pg st), reqShowTb := showTb pg st }
    else
      { j := j ++ closeCalls pg r st p.closes, body := st.body, reqShowTb := showTb pg st }

end CpModel.Wsgi
