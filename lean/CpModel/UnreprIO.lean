import CpModel.Proto
import CpModel.Unrepr
/-!
  Line-protocol syntax for `Unrepr.PyAst` / `Unrepr.PyVal` (driver only; no theorem refers to this).

  ast  = c<lit> | L(ast,…) | U(ast,…) | S(ast,…) | D(k,v,k,v,…) | u<-|+|!|~>(ast) | o<+|-|*|/>(ast,ast)
       | n<text> | a<text>(ast) | C(func,arg,…) | B(ast,ast) | X<text>
  arg  = ast | R(ast)  (`*x`) | K<text>(ast)  (`name=x`) | W(ast)  (`**x`)
  lit  = N | T | F | i<nat> | f<nat> | j<nat> | s<text> | b<text>
  val  = N | T | F | i<int> | f<int> | x<int>:<int> | s<text> | b<text> | L(val,…) | U(val,…) | D(k,v,…)
       | O<text>/<text>/… | A(O<path>,L(args…),D(name,val,…))
  text = `Proto.text` (decimal code points joined by `.`, `-` = empty); env = `-` | path;path;…  (path = text/text/…)
-/
namespace CpModel.UnreprIO
open CpModel CpModel.Unrepr

def isAtomChar (c : Char) : Bool := c.isDigit || c == '.' || c == '-' || c == ':' || c == '/'

def takeAtom (s : List Char) : List Char × List Char := (s.takeWhile isAtomChar, s.dropWhile isAtomChar)

def text? (cs : List Char) : Option (List Char) := Proto.untext? (String.ofList cs)

mutual
def parseA : Nat → List Char → Option (PyAst × List Char)
  | 0, _ => none
  | fuel + 1, s =>
    match s with
    | 'c' :: k :: rest =>
      let (atom, rest') := takeAtom rest
      let lit : Option Lit :=
        if k = 'N' then some .none else if k = 'T' then some (.bool true) else if k = 'F' then some (.bool false)
        else if k = 'i' then (String.ofList atom).toNat?.map .int
        else if k = 'f' then (String.ofList atom).toNat?.map .float
        else if k = 'j' then (String.ofList atom).toNat?.map .imag
        else if k = 's' then (text? atom).map .str
        else if k = 'b' then (text? atom).map .bytes
        else none
      lit.map fun l => (.const l, rest')
    | 'L' :: '(' :: rest => (parseArgs fuel rest).map fun (xs, r) => (.list xs, r)
    | 'U' :: '(' :: rest => (parseArgs fuel rest).map fun (xs, r) => (.tuple xs, r)
    | 'S' :: '(' :: rest => (parseArgs fuel rest).map fun (xs, r) => (.set xs, r)
    | 'D' :: '(' :: rest => (parseArgs fuel rest).map fun (xs, r) => (.dict xs, r)
    | 'C' :: '(' :: rest =>
      match parseArgs fuel rest with
      | some (f :: args, r) => some (.call f args, r)
      | _ => none
    | 'B' :: '(' :: rest =>
      match parseArgs fuel rest with
      | some ([v, i], r) => some (.subscript v i, r)
      | _ => none
    | 'R' :: '(' :: rest =>
      match parseArgs fuel rest with
      | some ([e], r) => some (.starred e, r)
      | _ => none
    | 'W' :: '(' :: rest =>
      match parseArgs fuel rest with
      | some ([e], r) => some (.kwsplat e, r)
      | _ => none
    | 'K' :: rest =>
      let (atom, rest') := takeAtom rest
      match text? atom, rest' with
      | some t, '(' :: r =>
        match parseArgs fuel r with
        | some ([e], r2) => some (.keyword t e, r2)
        | _ => none
      | _, _ => none
    | 'u' :: op :: '(' :: rest =>
      let o : Option UOp := if op = '-' then some .usub else if op = '+' then some .uadd
        else if op = '!' then some .not else if op = '~' then some .invert else none
      match o, parseArgs fuel rest with
      | some o, some ([e], r) => some (.unary o e, r)
      | _, _ => none
    | 'o' :: op :: '(' :: rest =>
      let o : Option BOp := if op = '+' then some .add else if op = '-' then some .sub
        else if op = '*' then some .mult else if op = '/' then some .div else none
      match o, parseArgs fuel rest with
      | some o, some ([l, r'], r) => some (.bin l o r', r)
      | _, _ => none
    | 'n' :: rest =>
      let (atom, rest') := takeAtom rest
      (text? atom).map fun t => (.name t, rest')
    | 'a' :: rest =>
      let (atom, rest') := takeAtom rest
      match text? atom, rest' with
      | some t, '(' :: r =>
        match parseArgs fuel r with
        | some ([e], r2) => some (.attr e t, r2)
        | _ => none
      | _, _ => none
    | 'X' :: rest =>
      let (atom, rest') := takeAtom rest
      (text? atom).map fun t => (.other (String.ofList t), rest')
    | _ => none

/-- after an opening parenthesis: `)` or `a,a,…)` -/
def parseArgs : Nat → List Char → Option (List PyAst × List Char)
  | 0, _ => none
  | fuel + 1, s =>
    match s with
    | ')' :: rest => some ([], rest)
    | _ =>
      match parseA fuel s with
      | none => none
      | some (a, rest) =>
        match rest with
        | ',' :: rest' => (parseArgs fuel rest').map fun (xs, r) => (a :: xs, r)
        | ')' :: rest' => some ([a], rest')
        | _ => none
end

def parseAst (s : String) : Option PyAst :=
  match parseA (s.length + 2) s.toList with
  | some (a, []) => some a
  | _ => none

def int? (cs : List Char) : Option Int := (String.ofList cs).toInt?

mutual
def parseV : Nat → List Char → Option (PyVal × List Char)
  | 0, _ => none
  | fuel + 1, s =>
    match s with
    | 'N' :: rest => some (.none, rest)
    | 'T' :: rest => some (.bool true, rest)
    | 'F' :: rest => some (.bool false, rest)
    | 'i' :: rest => let (a, r) := takeAtom rest; (int? a).map fun i => (.int i, r)
    | 'f' :: rest => let (a, r) := takeAtom rest; (int? a).map fun i => (.float i, r)
    | 'x' :: rest =>
      let (a, r) := takeAtom rest
      match (String.ofList a).splitOn ":" with
      | [re, im] => do pure (.complex (← re.toInt?) (← im.toInt?), r)
      | _ => none
    | 's' :: rest => let (a, r) := takeAtom rest; (text? a).map fun t => (.str t, r)
    | 'b' :: rest => let (a, r) := takeAtom rest; (text? a).map fun t => (.bytes t, r)
    | 'O' :: rest =>
      let (a, r) := takeAtom rest
      (((String.ofList a).splitOn "/").mapM fun t => Proto.untext? t).map fun p => (.obj p, r)
    | 'L' :: '(' :: rest => (parseVs fuel rest).map fun (xs, r) => (.list xs, r)
    | 'U' :: '(' :: rest => (parseVs fuel rest).map fun (xs, r) => (.tuple xs, r)
    | 'D' :: '(' :: rest => (parseVs fuel rest).map fun (xs, r) => (.dict xs, r)
    | 'A' :: '(' :: rest =>
      match parseVs fuel rest with
      | some ([.obj p, .list args, .dict kws], r) => some (.applied p args kws, r)
      | _ => none
    | _ => none

def parseVs : Nat → List Char → Option (List PyVal × List Char)
  | 0, _ => none
  | fuel + 1, s =>
    match s with
    | ')' :: rest => some ([], rest)
    | _ =>
      match parseV fuel s with
      | none => none
      | some (a, rest) =>
        match rest with
        | ',' :: rest' => (parseVs fuel rest').map fun (xs, r) => (a :: xs, r)
        | ')' :: rest' => some ([a], rest')
        | _ => none
end

def parseVal (s : String) : Option PyVal :=
  match parseV (s.length + 2) s.toList with
  | some (a, []) => some a
  | _ => none

def parseEnv (s : String) : Option (List (List (List Char))) :=
  if s == "-" then some [] else
  (s.splitOn ";").mapM fun p => (p.splitOn "/").mapM Proto.untext?

def showLit : Lit → String
  | .none => "N" | .bool true => "T" | .bool false => "F"
  | .int n => s!"i{n}" | .float m => s!"f{m}" | .imag m => s!"j{m}"
  | .str s => "s" ++ Proto.text s | .bytes s => "b" ++ Proto.text s

mutual
def showAst : PyAst → String
  | .const l => "c" ++ showLit l
  | .list xs => "L(" ++ showAsts xs ++ ")"
  | .tuple xs => "U(" ++ showAsts xs ++ ")"
  | .set xs => "S(" ++ showAsts xs ++ ")"
  | .dict xs => "D(" ++ showAsts xs ++ ")"
  | .unary op e => "u" ++ (match op with | .usub => "-" | .uadd => "+" | .not => "!" | .invert => "~") ++ "(" ++ showAst e ++ ")"
  | .bin l op r => "o" ++ (match op with | .add => "+" | .sub => "-" | .mult => "*" | .div => "/") ++ "(" ++ showAst l ++ "," ++ showAst r ++ ")"
  | .name id => "n" ++ Proto.text id
  | .attr e a => "a" ++ Proto.text a ++ "(" ++ showAst e ++ ")"
  | .call f args => "C(" ++ showAst f ++ (if args.isEmpty then "" else "," ++ showAsts args) ++ ")"
  | .starred e => "R(" ++ showAst e ++ ")"
  | .keyword n e => "K" ++ Proto.text n ++ "(" ++ showAst e ++ ")"
  | .kwsplat e => "W(" ++ showAst e ++ ")"
  | .subscript v i => "B(" ++ showAst v ++ "," ++ showAst i ++ ")"
  | .other cls => "X" ++ Proto.text cls.toList

def showAsts : List PyAst → String
  | [] => ""
  | [x] => showAst x
  | x :: y :: r => showAst x ++ "," ++ showAsts (y :: r)
end

mutual
def showVal : PyVal → String
  | .none => "N" | .bool true => "T" | .bool false => "F"
  | .int i => s!"i{i}" | .float m => s!"f{m}" | .complex re im => s!"x{re}:{im}"
  | .str s => "s" ++ Proto.text s | .bytes s => "b" ++ Proto.text s
  | .list xs => "L(" ++ showVals xs ++ ")"
  | .tuple xs => "U(" ++ showVals xs ++ ")"
  | .dict xs => "D(" ++ showVals xs ++ ")"
  | .obj p => "O" ++ "/".intercalate (p.map Proto.text)
  | .applied p args kws => "A(O" ++ "/".intercalate (p.map Proto.text) ++ ",L(" ++ showVals args ++ "),D(" ++ showVals kws ++ "))"

def showVals : List PyVal → String
  | [] => ""
  | [x] => showVal x
  | x :: y :: r => showVal x ++ "," ++ showVals (y :: r)
end

def showErr : Unrepr.Err → String
  | .unrecognised cls => "unrecognised:" ++ cls
  | .unresolvedName => "unresolvedName"
  | .attributeError => "attributeError"
  | .typeError => "typeError"
  | .indexError => "other:IndexError"
  | .keyError => "other:KeyError"
  | .notModelled => "notModelled"

end CpModel.UnreprIO
