import CpModel.SessionLockN
/-!
  C13 (several ids / sweepers / handler scripts) — helper lemmas: projections of the state updates,
  characterisation of `tryAcquire` / `release`, and what the thread-local dispatch `next` can do.
-/
namespace CpProofs.C13N
open CpModel.SessionLockN

@[simp] theorem setThr_thr (s : St) (i : Nat) (t : Thr) (j : Nat) :
    (setThr s i t).thr j = if j = i then t else s.thr j := rfl
@[simp] theorem setThr_heap (s : St) (i : Nat) (t : Thr) : (setThr s i t).heap = s.heap := rfl
@[simp] theorem setThr_table (s : St) (i : Nat) (t : Thr) : (setThr s i t).table = s.table := rfl
@[simp] theorem setThr_cache (s : St) (i : Nat) (t : Thr) : (setThr s i t).cache = s.cache := rfl
@[simp] theorem setThr_sw (s : St) (i : Nat) (t : Thr) : (setThr s i t).sw = s.sw := rfl
@[simp] theorem setThr_version (s : St) (i : Nat) (t : Thr) : (setThr s i t).version = s.version := rfl
@[simp] theorem setThr_lost (s : St) (i : Nat) (t : Thr) : (setThr s i t).lost = s.lost := rfl
@[simp] theorem setThr_now (s : St) (i : Nat) (t : Thr) : (setThr s i t).now = s.now := rfl
@[simp] theorem setThr_dicts (s : St) (i : Nat) (t : Thr) : (setThr s i t).dicts = s.dicts := rfl

@[simp] theorem setLock_heap (s : St) (l : Nat) (o : LockObj) (k : Nat) :
    (setLock s l o).heap k = if k = l then o else s.heap k := rfl
@[simp] theorem setLock_thr (s : St) (l : Nat) (o : LockObj) : (setLock s l o).thr = s.thr := rfl
@[simp] theorem setLock_table (s : St) (l : Nat) (o : LockObj) : (setLock s l o).table = s.table := rfl
@[simp] theorem setLock_cache (s : St) (l : Nat) (o : LockObj) : (setLock s l o).cache = s.cache := rfl
@[simp] theorem setLock_sw (s : St) (l : Nat) (o : LockObj) : (setLock s l o).sw = s.sw := rfl
@[simp] theorem setLock_version (s : St) (l : Nat) (o : LockObj) : (setLock s l o).version = s.version := rfl
@[simp] theorem setLock_lost (s : St) (l : Nat) (o : LockObj) : (setLock s l o).lost = s.lost := rfl
@[simp] theorem setLock_now (s : St) (l : Nat) (o : LockObj) : (setLock s l o).now = s.now := rfl
@[simp] theorem setLock_dicts (s : St) (l : Nat) (o : LockObj) : (setLock s l o).dicts = s.dicts := rfl

@[simp] theorem setSw_sw (s : St) (k : Nat) (w : Sweeper) (j : Nat) :
    (setSw s k w).sw j = if j = k then w else s.sw j := rfl
@[simp] theorem setSw_thr (s : St) (k : Nat) (w : Sweeper) : (setSw s k w).thr = s.thr := rfl
@[simp] theorem setSw_heap (s : St) (k : Nat) (w : Sweeper) : (setSw s k w).heap = s.heap := rfl
@[simp] theorem setSw_table (s : St) (k : Nat) (w : Sweeper) : (setSw s k w).table = s.table := rfl
@[simp] theorem setSw_cache (s : St) (k : Nat) (w : Sweeper) : (setSw s k w).cache = s.cache := rfl
@[simp] theorem setSw_version (s : St) (k : Nat) (w : Sweeper) : (setSw s k w).version = s.version := rfl
@[simp] theorem setSw_lost (s : St) (k : Nat) (w : Sweeper) : (setSw s k w).lost = s.lost := rfl

@[simp] theorem setCache_cache (s : St) (x : Nat) (v : Option (Nat × Nat)) (y : Nat) :
    (setCache s x v).cache y = if y = x then v else s.cache y := rfl
@[simp] theorem setCache_thr (s : St) (x : Nat) (v : Option (Nat × Nat)) : (setCache s x v).thr = s.thr := rfl
@[simp] theorem setCache_heap (s : St) (x : Nat) (v : Option (Nat × Nat)) : (setCache s x v).heap = s.heap := rfl
@[simp] theorem setCache_table (s : St) (x : Nat) (v : Option (Nat × Nat)) : (setCache s x v).table = s.table := rfl
@[simp] theorem setCache_sw (s : St) (x : Nat) (v : Option (Nat × Nat)) : (setCache s x v).sw = s.sw := rfl
@[simp] theorem setCache_version (s : St) (x : Nat) (v : Option (Nat × Nat)) :
    (setCache s x v).version = s.version := rfl
@[simp] theorem setCache_lost (s : St) (x : Nat) (v : Option (Nat × Nat)) : (setCache s x v).lost = s.lost := rfl

@[simp] theorem setTable_table (s : St) (x : Nat) (v : Option Nat) (y : Nat) :
    (setTable s x v).table y = if y = x then v else s.table y := rfl
@[simp] theorem setTable_thr (s : St) (x : Nat) (v : Option Nat) : (setTable s x v).thr = s.thr := rfl
@[simp] theorem setTable_heap (s : St) (x : Nat) (v : Option Nat) : (setTable s x v).heap = s.heap := rfl
@[simp] theorem setTable_cache (s : St) (x : Nat) (v : Option Nat) : (setTable s x v).cache = s.cache := rfl
@[simp] theorem setTable_sw (s : St) (x : Nat) (v : Option Nat) : (setTable s x v).sw = s.sw := rfl
@[simp] theorem setTable_version (s : St) (x : Nat) (v : Option Nat) : (setTable s x v).version = s.version := rfl
@[simp] theorem setTable_lost (s : St) (x : Nat) (v : Option Nat) : (setTable s x v).lost = s.lost := rfl

@[simp] theorem bump_version (s : St) (x y : Nat) :
    (bump s x).version y = if y = x then s.version x + 1 else s.version y := rfl
@[simp] theorem bump_thr (s : St) (x : Nat) : (bump s x).thr = s.thr := rfl
@[simp] theorem bump_heap (s : St) (x : Nat) : (bump s x).heap = s.heap := rfl
@[simp] theorem bump_table (s : St) (x : Nat) : (bump s x).table = s.table := rfl
@[simp] theorem bump_cache (s : St) (x : Nat) : (bump s x).cache = s.cache := rfl
@[simp] theorem bump_sw (s : St) (x : Nat) : (bump s x).sw = s.sw := rfl
@[simp] theorem bump_lost (s : St) (x : Nat) : (bump s x).lost = s.lost := rfl

@[simp] theorem allocDict_thr (s : St) (v : Nat) : (allocDict s v).thr = s.thr := rfl
@[simp] theorem allocDict_heap (s : St) (v : Nat) : (allocDict s v).heap = s.heap := rfl
@[simp] theorem allocDict_table (s : St) (v : Nat) : (allocDict s v).table = s.table := rfl
@[simp] theorem allocDict_cache (s : St) (v : Nat) : (allocDict s v).cache = s.cache := rfl
@[simp] theorem allocDict_sw (s : St) (v : Nat) : (allocDict s v).sw = s.sw := rfl
@[simp] theorem allocDict_version (s : St) (v : Nat) : (allocDict s v).version = s.version := rfl
@[simp] theorem allocDict_lost (s : St) (v : Nat) : (allocDict s v).lost = s.lost := rfl
@[simp] theorem setDict_thr (s : St) (d v : Nat) : (setDict s d v).thr = s.thr := rfl
@[simp] theorem setDict_heap (s : St) (d v : Nat) : (setDict s d v).heap = s.heap := rfl
@[simp] theorem setDict_table (s : St) (d v : Nat) : (setDict s d v).table = s.table := rfl
@[simp] theorem setDict_cache (s : St) (d v : Nat) : (setDict s d v).cache = s.cache := rfl
@[simp] theorem setDict_sw (s : St) (d v : Nat) : (setDict s d v).sw = s.sw := rfl
@[simp] theorem setDict_version (s : St) (d v : Nat) : (setDict s d v).version = s.version := rfl
@[simp] theorem setDict_lost (s : St) (d v : Nat) : (setDict s d v).lost = s.lost := rfl
@[simp] theorem allocId_thr (s : St) : (allocId s).thr = s.thr := rfl
@[simp] theorem allocId_heap (s : St) : (allocId s).heap = s.heap := rfl
@[simp] theorem allocId_table (s : St) : (allocId s).table = s.table := rfl
@[simp] theorem allocId_cache (s : St) : (allocId s).cache = s.cache := rfl
@[simp] theorem allocId_sw (s : St) : (allocId s).sw = s.sw := rfl
@[simp] theorem allocId_version (s : St) : (allocId s).version = s.version := rfl
@[simp] theorem allocId_lost (s : St) : (allocId s).lost = s.lost := rfl
@[simp] theorem setLost_thr (s : St) (b : Bool) : (setLost s b).thr = s.thr := rfl
@[simp] theorem setLost_heap (s : St) (b : Bool) : (setLost s b).heap = s.heap := rfl
@[simp] theorem setLost_table (s : St) (b : Bool) : (setLost s b).table = s.table := rfl
@[simp] theorem setLost_cache (s : St) (b : Bool) : (setLost s b).cache = s.cache := rfl
@[simp] theorem setLost_sw (s : St) (b : Bool) : (setLost s b).sw = s.sw := rfl
@[simp] theorem setLost_version (s : St) (b : Bool) : (setLost s b).version = s.version := rfl
@[simp] theorem setLost_lost (s : St) (b : Bool) : (setLost s b).lost = b := rfl

/-- `RLock.acquire` succeeds exactly when the lock is free or already ours. -/
theorem tryAcquire_some {s s' : St} {l : Nat} {a : Actor} (h : tryAcquire s l a = some s') :
    ((s.heap l).owner = none ∧ s' = setLock s l ⟨some a, 1⟩) ∨
    ((s.heap l).owner = some a ∧ s' = setLock s l ⟨some a, (s.heap l).count + 1⟩) := by
  unfold tryAcquire at h
  simp only at h
  split at h
  · left; exact ⟨by assumption, by simpa using h.symm⟩
  · split at h
    · right; exact ⟨by assumption, by simpa using h.symm⟩
    · simp at h

theorem tryAcquire_none {s : St} {l : Nat} {a : Actor} (h : tryAcquire s l a = none) :
    (s.heap l).owner ≠ none ∧ (s.heap l).owner ≠ some a := by
  unfold tryAcquire at h
  simp only at h
  split at h
  · simp at h
  · split at h
    · simp at h
    · exact ⟨by assumption, by assumption⟩

theorem release_some {s s' : St} {l : Nat} {a : Actor} (h : release s l a = some s') :
    (s.heap l).owner = some a ∧
    s' = setLock s l (if (s.heap l).count ≤ 1 then ⟨none, 0⟩ else ⟨some a, (s.heap l).count - 1⟩) := by
  unfold release at h
  simp only at h
  split at h
  · exact ⟨by assumption, by simpa using h.symm⟩
  · simp at h

theorem release_none {s : St} {l : Nat} {a : Actor} (h : release s l a = none) :
    (s.heap l).owner ≠ some a := by
  unfold release at h
  simp only at h
  split at h
  · simp at h
  · assumption

theorem inCS_holds (p : Pc) (h : inCS p = true) : holds p = true := by
  cases p <;> simp_all [inCS, holds]

/-- What the thread-local dispatch can do: it stays inside the critical section, keeps the lock
    bookkeeping, and a pending write is based on the current version. -/
theorem next_spec (s : St) (t : Thr) :
    (next s t).my = t.my ∧ (next s t).sid = t.sid ∧ (next s t).r = t.r ∧
    inCS (next s t).pc = true ∧ (next s t).pc ≠ .rel ∧ (next s t).pc ≠ .rrel ∧
    ((next s t).pc = .write → (next s t).seen = s.version t.sid) := by
  unfold next
  cases t.prog with
  | nil => by_cases h : t.loaded <;> simp [h, inCS]
  | cons o rest =>
    cases o <;> (try by_cases h : t.loaded) <;> simp_all [inCS]

/-- the same, with what follows from it -/
theorem next_facts (s1 : St) (t : Thr) :
    (next s1 t).my = t.my ∧ (next s1 t).sid = t.sid ∧ (next s1 t).r = t.r ∧
    inCS (next s1 t).pc = true ∧ holds (next s1 t).pc = true ∧ (next s1 t).pc ≠ .rel ∧
    (next s1 t).pc ≠ .rrel ∧ (next s1 t).pc ≠ .crashed ∧
    ((next s1 t).pc = .write → (next s1 t).seen = s1.version t.sid) := by
  obtain ⟨n1, n2, n3, n4, n5, n6, n7⟩ := next_spec s1 t
  refine ⟨n1, n2, n3, n4, inCS_holds _ n4, n5, n6, ?_, n7⟩
  intro hc
  rw [hc] at n4
  simp [inCS] at n4

end CpProofs.C13N
