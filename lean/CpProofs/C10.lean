import CpModel.Isolation
import CpModel.IsolationApp
import CpModel.Gen.C10Tables
/-!
  C10 - requests are isolated from one another across time and threads.

  Generic theorems are stated for EVERY construction table / lifecycle that satisfies the freshness
  obligation `Good` (every per-request attribute denotes a cell owned by the request, the serving
  container is per-thread and emptied on release) and for every site `conf`, every initial class-level
  contents, every interleaved history (no bound on length, threads or requests).  The `_code`
  theorems instantiate them at the table that the harness regenerates from live request objects
  (`CpModel.Gen.C10`): the only thing to discharge there is the freshness obligation, by `decide` over
  the generated table - a dropped `.copy()` in the code changes a table entry and breaks exactly it.
-/
namespace CpProofs.C10
open CpModel.Isolation

/-- The freshness obligation. -/
structure Good (p : Params) : Prop where
  tbl : TableOK p.tbl
  tl : p.lc.threadLocal = true
  rc : p.lc.releaseClears = true

/-! ### reachability / freshness lemmas -/

/-- Under an OK table every attribute of request `rid` denotes the cell `obj rid (root s)`, whose own table
    entry is fresh. -/
theorem cellOf_root {tbl : Table} (h : TableOK tbl) (rid : Nat) (s : Slot) :
    cellOf tbl rid s = .obj rid (root tbl s) ∧ ∃ k, tbl (root tbl s) = .fresh k := by
  have hs := h s
  unfold cellOf root
  cases hts : tbl s with
  | fresh k => simp [hts]
  | aliasClass c => rw [hts] at hs; simp [Src.ok] at hs
  | aliasSlot s' =>
    rw [hts] at hs
    simp only [Src.ok] at hs
    cases hts' : tbl s' with
    | fresh k => simp [hts']
    | aliasClass c => rw [hts'] at hs; simp at hs
    | aliasSlot s'' => rw [hts'] at hs; simp at hs

theorem cellOf_obj {tbl : Table} (h : TableOK tbl) (rid : Nat) (s : Slot) :
    ∃ s' k, cellOf tbl rid s = .obj rid s' ∧ tbl s' = .fresh k := by
  obtain ⟨h1, k, h2⟩ := cellOf_root h rid s
  exact ⟨_, k, h1, h2⟩

theorem aliasedConf_nil {tbl : Table} (h : TableOK tbl) (conf : Conf) (u : Nat) (c : ClassCell) :
    aliasedConf tbl conf u c = [] := by
  unfold aliasedConf
  have : (Slot.all.filter fun s => tbl s = .aliasClass c) = [] := by
    rw [List.filter_eq_nil_iff]
    intro s _ hs
    have hs' := h s
    have : tbl s = .aliasClass c := by simpa using hs
    rw [this] at hs'
    simp [Src.ok] at hs'
  rw [this]; rfl

theorem build_cls {p : Params} (h : TableOK p.tbl) (hp : Heap) (rid u : Nat) (c : ClassCell) :
    build p hp rid u (.cls c) = hp (.cls c) := by
  simp [build, aliasedConf_nil h]

theorem build_obj_ne (p : Params) (hp : Heap) {rid r : Nat} (u : Nat) (s : Slot) (h : r ≠ rid) :
    build p hp rid u (.obj r s) = hp (.obj r s) := by
  simp [build, h]

theorem build_obj_fresh (p : Params) (hp : Heap) (rid u : Nat) (s : Slot) (k : Option ClassCell)
    (h : p.tbl s = .fresh k) : build p hp rid u (.obj rid s) = copyOf hp k ++ p.conf u s := by
  simp [build, h]

@[simp] theorem upd_same {α : Type} (f : Nat → α) (k : Nat) (v : α) : upd f k v k = v := by simp [upd]

theorem upd_ne {α : Type} (f : Nat → α) {k x : Nat} (v : α) (h : x ≠ k) : upd f k v x = f x := by
  simp [upd, h]

theorem hupd_ne (h : Heap) {a x : Addr} (v : List Nat) (hx : x ≠ a) : hupd h a v x = h x := by
  simp [hupd, hx]

theorem key_tl {p : Params} (h : p.lc.threadLocal = true) (t : Nat) : key p.lc t = t := by
  simp [key, h]

/-- The mut-clause of `WF` for one event. -/
def Loaded (p : Params) (st : State) : Ev → Prop
  | .mutate t _ _ => st.serving (key p.lc t) ≠ none
  | _ => True

theorem WF_cons {p : Params} {st : State} {e : Ev} {es : List Ev} :
    WF p st (e :: es) ↔ Loaded p st e ∧ WF p (step p st e) es := by
  cases e <;> simp [WF, Loaded]

/-! ### class-level state is invariant -/

theorem step_class {p : Params} (h : TableOK p.tbl) (st : State) (e : Ev) (hl : Loaded p st e)
    (c : ClassCell) : (step p st e).heap (.cls c) = st.heap (.cls c) := by
  cases e with
  | begin t u => simp [step, build_cls h]
  | done t => simp only [step]; split <;> rfl
  | mutate t tg op =>
    cases tg with
    | serving => simp [step]
    | slot s =>
      simp only [Loaded] at hl
      simp only [step, target]
      cases hs : st.serving (key p.lc t) with
      | none => exact absurd hs hl
      | some rid =>
        obtain ⟨s', k, hc, _⟩ := cellOf_obj h rid s
        simp only [hc]
        exact hupd_ne _ _ (by simp)

/-- **C10_class_state_invariant.** For every interleaved history in which requests mutate whatever they can
    reach (any attribute, any op, any thread, any overlap), every class-level / process-lifetime cell holds
    at the end exactly what it held at the start. -/
theorem C10_class_state_invariant {p : Params} (h : TableOK p.tbl) :
    ∀ (evs : List Ev) (st : State), WF p st evs → ∀ c, (run p st evs).heap (.cls c) = st.heap (.cls c) := by
  intro evs
  induction evs with
  | nil => intro st _ c; rfl
  | cons e es ih =>
    intro st hwf c
    obtain ⟨hl, hwf'⟩ := WF_cons.mp hwf
    simp only [run]
    rw [ih _ hwf' c, step_class h st e hl c]

/-! ### allocation invariant: loaded requests are distinct and already allocated -/

structure Inv (st : State) : Prop where
  bound : ∀ k rid, st.serving k = some rid → rid < st.next
  inj : ∀ k k' rid, st.serving k = some rid → st.serving k' = some rid → k = k'

theorem inv_init (h : Heap) : Inv (State.init h) :=
  ⟨by intro k rid hk; simp [State.init] at hk, by intro k k' rid hk; simp [State.init] at hk⟩

theorem inv_step (p : Params) (st : State) (e : Ev) (hi : Inv st) : Inv (step p st e) := by
  cases e with
  | begin t u =>
    constructor
    · intro k rid hk
      simp only [step] at hk ⊢
      by_cases hkt : k = key p.lc t
      · subst hkt; simp at hk; omega
      · rw [upd_ne _ _ hkt] at hk; have := hi.bound k rid hk; omega
    · intro k k' rid hk hk'
      simp only [step] at hk hk'
      by_cases hkt : k = key p.lc t <;> by_cases hkt' : k' = key p.lc t
      · rw [hkt, hkt']
      · subst hkt; simp at hk; rw [upd_ne _ _ hkt'] at hk'
        have := hi.bound k' rid hk'; omega
      · subst hkt'; simp at hk'; rw [upd_ne _ _ hkt] at hk
        have := hi.bound k rid hk; omega
      · rw [upd_ne _ _ hkt] at hk; rw [upd_ne _ _ hkt'] at hk'
        exact hi.inj k k' rid hk hk'
  | done t =>
    simp only [step]
    split
    · constructor
      · intro k rid hk
        simp only at hk ⊢
        by_cases hkt : k = key p.lc t
        · subst hkt; simp at hk
        · rw [upd_ne _ _ hkt] at hk; exact hi.bound k rid hk
      · intro k k' rid hk hk'
        simp only at hk hk'
        by_cases hkt : k = key p.lc t
        · subst hkt; simp at hk
        · by_cases hkt' : k' = key p.lc t
          · subst hkt'; simp at hk'
          · rw [upd_ne _ _ hkt] at hk; rw [upd_ne _ _ hkt'] at hk'
            exact hi.inj k k' rid hk hk'
    · exact hi
  | mutate t tg op =>
    cases tg with
    | serving => exact ⟨hi.bound, hi.inj⟩
    | slot s =>
      simp only [step]
      split
      · exact ⟨hi.bound, hi.inj⟩
      · exact hi

theorem inv_run (p : Params) : ∀ (evs : List Ev) (st : State), Inv st → Inv (run p st evs) := by
  intro evs
  induction evs with
  | nil => intro st h; exact h
  | cons e es ih => intro st h; exact ih _ (inv_step p st e h)

/-! ### non-interference between threads -/

/-- One mutate op of thread `t` - whatever attribute, whatever op - leaves every OTHER thread's serving
    entry, serving attributes and complete observation, and all class-level cells, unchanged. -/
theorem mut_noninterference {p : Params} (hg : Good p) (st : State) (hi : Inv st)
    (t t' : Nat) (ht : t' ≠ t) (tg : Target) (op : Op) (hl : st.serving (key p.lc t) ≠ none) :
    (step p st (.mutate t tg op)).serving = st.serving ∧
    (step p st (.mutate t tg op)).sattrs (key p.lc t') = st.sattrs (key p.lc t') ∧
    (∀ s, observe p (step p st (.mutate t tg op)) t' s = observe p st t' s) ∧
    (∀ c, (step p st (.mutate t tg op)).heap (.cls c) = st.heap (.cls c)) := by
  have hcls := step_class hg.tbl st (.mutate t tg op) hl
  refine ⟨?_, ?_, ?_, hcls⟩
  · cases tg with
    | serving => rfl
    | slot s => simp only [step]; split <;> rfl
  · cases tg with
    | serving =>
      simp only [step, key_tl hg.tl]
      exact upd_ne _ _ ht
    | slot s => simp only [step]; split <;> rfl
  · intro s0
    cases tg with
    | serving => rfl
    | slot s =>
      simp only [key_tl hg.tl] at hl
      cases hs : st.serving t with
      | none => exact absurd hs hl
      | some rid =>
        obtain ⟨s', k, hc, _⟩ := cellOf_obj hg.tbl rid s
        have hstep : step p st (.mutate t (.slot s) op) =
            { st with heap := hupd st.heap (.obj rid s') (op.apply (st.heap (.obj rid s'))) } := by
          simp [step, target, key_tl hg.tl, hs, hc]
        rw [hstep]
        simp only [observe, target, key_tl hg.tl]
        cases hs' : st.serving t' with
        | none =>
          simp only
          cases p.dflt s0 with
          | none => rfl
          | some c => simp [hupd]
        | some rid' =>
          obtain ⟨s'', k', hc', _⟩ := cellOf_obj hg.tbl rid' s0
          have hne : rid' ≠ rid := by
            intro heq; subst heq
            exact ht (hi.inj t' t rid' hs' hs)
          simp only [Option.map_some, hc']
          congr 1
          exact hupd_ne _ _ (by simp [hne])

/-- **C10_noninterference.** After ANY well-formed interleaved history, a mutate op of one thread's request
    changes nothing that any other thread can see, and no class-level cell. -/
theorem C10_noninterference {p : Params} (hg : Good p) (h0 : Heap) (evs : List Ev)
    (_hwf : WF p (State.init h0) evs) (t t' : Nat) (ht : t' ≠ t) (tg : Target) (op : Op)
    (hl : (run p (State.init h0) evs).serving (key p.lc t) ≠ none) :
    let st := run p (State.init h0) evs
    let st' := step p st (.mutate t tg op)
    st'.serving = st.serving ∧ st'.sattrs (key p.lc t') = st.sattrs (key p.lc t') ∧
    (∀ s, observe p st' t' s = observe p st t' s) ∧ (∀ c, st'.heap (.cls c) = st.heap (.cls c)) :=
  mut_noninterference hg _ (inv_run p evs _ (inv_init h0)) t t' ht tg op hl

/-! ### history independence -/

/-- What request for URL `u` observes in attribute `s` when it is the first request the process ever serves. -/
def baseline (p : Params) (h0 : Heap) (u : Nat) (s : Slot) : Option (List Nat) :=
  observe p (step p (State.init h0) (.begin 0 u)) 0 s

theorem observe_after_begin {p : Params} (hg : Good p) (st : State) (t u : Nat) (s : Slot) :
    ∃ k, p.tbl (root p.tbl s) = .fresh k ∧
      observe p (step p st (.begin t u)) t s = some (copyOf st.heap k ++ p.conf u (root p.tbl s)) := by
  obtain ⟨hc, k, hk⟩ := cellOf_root hg.tbl st.next s
  refine ⟨k, hk, ?_⟩
  simp [observe, target, step, hc, build_obj_fresh p st.heap st.next u _ k hk]

/-- **C10_history_independent.** The initial observation of a request (every attribute) after ANY
    well-formed interleaved history equals its observation as the first request ever: it is a function of
    (site, URL) alone. -/
theorem C10_history_independent {p : Params} (hg : Good p) (h0 : Heap) (evs : List Ev)
    (hwf : WF p (State.init h0) evs) (t u : Nat) (s : Slot) :
    observe p (step p (run p (State.init h0) evs) (.begin t u)) t s = baseline p h0 u s := by
  obtain ⟨k1, hk1, h1⟩ := observe_after_begin hg (run p (State.init h0) evs) t u s
  obtain ⟨k2, hk2, h2⟩ := observe_after_begin hg (State.init h0) 0 u s
  unfold baseline
  rw [h1, h2]
  have hk : k1 = k2 := by rw [hk1] at hk2; exact Src.fresh.inj hk2
  subst hk
  cases k1 with
  | none => rfl
  | some c =>
    simp only [copyOf]
    rw [C10_class_state_invariant hg.tbl evs _ hwf c]

/-- The serving container itself carries nothing over: when the thread has no request loaded (every
    request that began on it was released), the ad-hoc attributes a new request finds there are empty. -/
theorem sattrs_clean {p : Params} (hg : Good p) :
    ∀ (evs : List Ev) (st : State), (∀ k, st.serving k = none → st.sattrs k = []) → WF p st evs →
      ∀ k, (run p st evs).serving k = none → (run p st evs).sattrs k = [] := by
  intro evs
  induction evs with
  | nil => intro st h _ k hk; exact h k hk
  | cons e es ih =>
    intro st h hwf
    obtain ⟨hl, hwf'⟩ := WF_cons.mp hwf
    apply ih _ _ hwf'
    intro k hk
    cases e with
    | begin t u =>
      simp only [step] at hk ⊢
      by_cases hkt : k = key p.lc t
      · subst hkt; simp at hk
      · rw [upd_ne _ _ hkt] at hk; exact h k hk
    | done t =>
      simp only [step, hg.rc, if_true] at hk ⊢
      by_cases hkt : k = key p.lc t
      · subst hkt; simp
      · rw [upd_ne _ _ hkt] at hk; rw [upd_ne _ _ hkt]; exact h k hk
    | mutate t tg op =>
      simp only [Loaded] at hl
      cases tg with
      | serving =>
        simp only [step] at hk ⊢
        by_cases hkt : k = key p.lc t
        · subst hkt; exact absurd hk hl
        · rw [upd_ne _ _ hkt]; exact h k hk
      | slot s =>
        have : (step p st (.mutate t (.slot s) op)).serving = st.serving ∧
            (step p st (.mutate t (.slot s) op)).sattrs = st.sattrs := by
          simp only [step]; split <;> exact ⟨rfl, rfl⟩
        rw [this.1] at hk; rw [this.2]; exact h k hk

theorem C10_serving_attrs_clean {p : Params} (hg : Good p) (h0 : Heap) (evs : List Ev)
    (hwf : WF p (State.init h0) evs) (t u : Nat)
    (hfree : (run p (State.init h0) evs).serving (key p.lc t) = none) :
    (step p (run p (State.init h0) evs) (.begin t u)).sattrs (key p.lc t) = [] := by
  have := sattrs_clean hg evs (State.init h0) (by intro k _; rfl) hwf (key p.lc t) hfree
  simpa [step] using this

/-! ### the serving container: per thread, emptied on release -/

theorem C10_release_clears {p : Params} (hg : Good p) (st : State) (t : Nat) :
    (step p st (.done t)).serving (key p.lc t) = none ∧ (step p st (.done t)).sattrs (key p.lc t) = [] := by
  simp [step, hg.rc]

theorem C10_serving_thread_local {p : Params} (hg : Good p) (st : State) (t t' u : Nat) (ht : t' ≠ t) :
    (step p st (.begin t u)).serving (key p.lc t') = st.serving (key p.lc t') ∧
    (step p st (.done t)).serving (key p.lc t') = st.serving (key p.lc t') ∧
    (step p st (.done t)).sattrs (key p.lc t') = st.sattrs (key p.lc t') := by
  simp only [step, hg.rc, if_true, key_tl hg.tl]
  exact ⟨upd_ne _ _ ht, upd_ne _ _ ht, upd_ne _ _ ht⟩

/-! ### the obligation is necessary: an aliased attribute leaks, a write outside a request hits class state -/

/-- If the table aliases an attribute to a class-level cell, a two-request history leaks: what request 0 adds
    is found by request 1 (a later request on another thread; with or without release in between). -/
theorem C10_alias_leaks (p : Params) (s : Slot) (c : ClassCell) (h : p.tbl s = .aliasClass c)
    (h0 : Heap) (x : Nat) :
    ∃ xs, observe p (run p (State.init h0)
        [.begin 0 0, .mutate 0 (.slot s) (.add x), .done 0, .begin 1 0]) 1 s = some xs ∧ x ∈ xs := by
  have hcell : ∀ rid, cellOf p.tbl rid s = .cls c := by intro rid; simp [cellOf, h]
  have hdone : ∀ st : State, (step p st (.done 0)).heap = st.heap ∧ (step p st (.done 0)).next = st.next := by
    intro st; simp only [step]; split <;> exact ⟨rfl, rfl⟩
  simp only [run]
  generalize hst1 : step p (State.init h0) (.begin 0 0) = st1
  have hs1 : st1.serving (key p.lc 0) = some 0 := by rw [← hst1]; simp [step, State.init]
  generalize hst2 : step p st1 (.mutate 0 (.slot s) (.add x)) = st2
  have hh2 : st2.heap (.cls c) = st1.heap (.cls c) ++ [x] := by
    rw [← hst2]; simp [step, target, hs1, hcell, hupd, Op.apply]
  generalize hst3 : step p st2 (.done 0) = st3
  have hh3 : st3.heap (.cls c) = st1.heap (.cls c) ++ [x] := by rw [← hst3, (hdone st2).1, hh2]
  refine ⟨(build p st3.heap st3.next 0) (.cls c), ?_, ?_⟩
  · simp only [observe, target, step, upd_same, Option.map_some, hcell]
  · simp [build, hh3]

/-- Code running with no request loaded writes to the default objects, i.e. to class-level state: the
    well-formedness hypothesis of the theorems above cannot be dropped. -/
theorem C10_write_outside_request_hits_class_state (p : Params) (st : State) (t : Nat) (s : Slot)
    (c : ClassCell) (op : Op) (hd : p.dflt s = some c) (hn : st.serving (key p.lc t) = none) :
    (step p st (.mutate t (.slot s) op)).heap (.cls c) = op.apply (st.heap (.cls c)) := by
  simp [step, target, hn, hd, hupd]

/-! ### instantiation at the table regenerated from the code under test -/

def codeParams (conf : Conf) : Params :=
  { tbl := CpModel.Gen.C10.requestTable, dflt := CpModel.Gen.C10.defaultTable,
    lc := CpModel.Gen.C10.lifecycle, conf := conf }

/-- The proof obligation on the code: every per-request collection is a fresh object (or another attribute of
    the same request), the serving container is per-thread and emptied on release. -/
theorem gen_table_ok : tableOKb CpModel.Gen.C10.requestTable = true := by decide

theorem gen_lifecycle_ok :
    CpModel.Gen.C10.lifecycle.threadLocal = true ∧ CpModel.Gen.C10.lifecycle.releaseClears = true := by decide

theorem code_good (conf : Conf) : Good (codeParams conf) :=
  ⟨tableOK_of_b gen_table_ok, gen_lifecycle_ok.1, gen_lifecycle_ok.2⟩

theorem C10_class_state_invariant_code (conf : Conf) (h0 : Heap) (evs : List Ev)
    (hwf : WF (codeParams conf) (State.init h0) evs) (c : ClassCell) :
    (run (codeParams conf) (State.init h0) evs).heap (.cls c) = h0 (.cls c) :=
  C10_class_state_invariant (code_good conf).tbl evs _ hwf c

theorem C10_noninterference_code (conf : Conf) (h0 : Heap) (evs : List Ev)
    (hwf : WF (codeParams conf) (State.init h0) evs) (t t' : Nat) (ht : t' ≠ t) (tg : Target) (op : Op)
    (hl : (run (codeParams conf) (State.init h0) evs).serving (key (codeParams conf).lc t) ≠ none) :
    let p := codeParams conf
    let st := run p (State.init h0) evs
    let st' := step p st (.mutate t tg op)
    st'.serving = st.serving ∧ st'.sattrs (key p.lc t') = st.sattrs (key p.lc t') ∧
    (∀ s, observe p st' t' s = observe p st t' s) ∧ (∀ c, st'.heap (.cls c) = st.heap (.cls c)) :=
  C10_noninterference (code_good conf) h0 evs hwf t t' ht tg op hl

theorem C10_history_independent_code (conf : Conf) (h0 : Heap) (evs : List Ev)
    (hwf : WF (codeParams conf) (State.init h0) evs) (t u : Nat) (s : Slot) :
    observe (codeParams conf) (step (codeParams conf) (run (codeParams conf) (State.init h0) evs) (.begin t u)) t s
      = baseline (codeParams conf) h0 u s :=
  C10_history_independent (code_good conf) h0 evs hwf t u s

/-- With the code's default objects, a write outside a request does reach class-level state
    (`cherrypy.request.hooks` with nothing loaded IS `Request.hooks`). -/
theorem C10_default_objects_are_class_level :
    CpModel.Gen.C10.defaultTable .hooks = some .reqHooks := by decide

/-! ### non-vacuity -/

/-- A well-formed history with two overlapping requests on two threads that both mutate. -/
def demo : List Ev :=
  [.begin 0 1, .begin 1 2, .mutate 0 (.slot .hookLists) (.add 7), .mutate 1 (.slot .processors) (.del 3),
   .mutate 1 .serving (.add 9), .done 0, .begin 0 2, .mutate 0 (.slot .requestParams) .clear, .done 1, .done 0]

def demoConf : Conf := fun u s => if s = .hookLists then [u] else []

def demoHeap : Heap := fun a => match a with | .cls .entProcessors => [3, 4] | _ => []

example : WF (codeParams demoConf) (State.init demoHeap) demo := by
  simp [demo, WF, step, target, key, codeParams, CpModel.Gen.C10.lifecycle, State.init, upd]

example : (run (codeParams demoConf) (State.init demoHeap) (demo.take 5)).serving 1 ≠ none := by
  simp [demo, run, step, target, key, codeParams, CpModel.Gen.C10.lifecycle, State.init, upd]

/-- the request on thread 1 really sees its own deletion, the class-level cell does not -/
example : observe (codeParams demoConf) (run (codeParams demoConf) (State.init demoHeap) (demo.take 4)) 1 .processors
    = some [4] ∧ (run (codeParams demoConf) (State.init demoHeap) (demo.take 4)).heap (.cls .entProcessors) = [3, 4] := by
  decide


/-! ### non-interference, trace form: erase every other thread's mutate ops - thread `t'` cannot tell -/

/-- The history with every mutate op of threads other than `t'` erased. -/
def purge (t' : Nat) : List Ev → List Ev
  | [] => []
  | .mutate t tg op :: es => if t = t' then .mutate t tg op :: purge t' es else purge t' es
  | e :: es => e :: purge t' es

/-- Everything thread `t'` can see: its serving entry, the serving attributes, every attribute's contents. -/
def view (p : Params) (st : State) (t' : Nat) : Option Nat × List Nat × (Slot → Option (List Nat)) :=
  (st.serving (key p.lc t'), st.sattrs (key p.lc t'), fun s => observe p st t' s)

/-- Simulation relation between the full run and the purged run, for observer `t'`. -/
structure Sim (p : Params) (t' : Nat) (st st' : State) : Prop where
  next : st.next = st'.next
  serving : st.serving = st'.serving
  sattrs : st.sattrs (key p.lc t') = st'.sattrs (key p.lc t')
  cls : ∀ c, st.heap (.cls c) = st'.heap (.cls c)
  own : ∀ rid s, (st.next ≤ rid ∨ st.serving (key p.lc t') = some rid) → st.heap (.obj rid s) = st'.heap (.obj rid s)

theorem sim_view {p : Params} (hg : Good p) {t' : Nat} {st st' : State} (h : Sim p t' st st') :
    view p st t' = view p st' t' := by
  unfold view
  rw [h.serving, h.sattrs]
  congr 2
  funext s
  simp only [observe, target, ← h.serving]
  cases hs : st.serving (key p.lc t') with
  | none =>
    cases p.dflt s with
    | none => rfl
    | some c => simp [h.cls c]
  | some rid =>
    obtain ⟨s', k, hc, _⟩ := cellOf_obj hg.tbl rid s
    simp [hc, h.own rid s' (Or.inr hs)]

theorem step_mut_some (p : Params) (st : State) (t : Nat) (s : Slot) (op : Op) (rid : Nat) (s' : Slot)
    (hs : st.serving (key p.lc t) = some rid) (hc : cellOf p.tbl rid s = .obj rid s') :
    step p st (.mutate t (.slot s) op) =
      { st with heap := hupd st.heap (.obj rid s') (op.apply (st.heap (.obj rid s'))) } := by
  simp [step, target, hs, hc]

theorem step_mut_none_none (p : Params) (st : State) (t : Nat) (s : Slot) (op : Op)
    (hs : st.serving (key p.lc t) = none) (hd : p.dflt s = none) :
    step p st (.mutate t (.slot s) op) = st := by
  simp [step, target, hs, hd]

theorem step_mut_none_some (p : Params) (st : State) (t : Nat) (s : Slot) (op : Op) (c : ClassCell)
    (hs : st.serving (key p.lc t) = none) (hd : p.dflt s = some c) :
    step p st (.mutate t (.slot s) op) =
      { st with heap := hupd st.heap (.cls c) (op.apply (st.heap (.cls c))) } := by
  simp [step, target, hs, hd]

theorem sim_step_both {p : Params} (hg : Good p) {t' : Nat} {st st' : State} (_hi : Inv st)
    (h : Sim p t' st st') (e : Ev)
    (he : match e with | .mutate t _ _ => t = t' | _ => True) :
    Sim p t' (step p st e) (step p st' e) := by
  cases e with
  | begin t u =>
    have hb : ∀ a, (match a with
        | .cls _ => True
        | .obj rid _ => st.next ≤ rid ∨ st.serving (key p.lc t') = some rid) →
        build p st.heap st.next u a = build p st'.heap st'.next u a := by
      intro a ha
      cases a with
      | cls c => simp [build_cls hg.tbl, h.cls c]
      | obj rid s =>
        rw [← h.next]
        by_cases hr : rid = st.next
        · subst hr
          cases hts : p.tbl s with
          | fresh k =>
            rw [build_obj_fresh p _ _ u s k hts, build_obj_fresh p _ _ u s k hts]
            cases k with
            | none => rfl
            | some c => simp [copyOf, h.cls c]
          | aliasClass c => simp [build, hts, h.own _ s (Or.inl (Nat.le_refl _))]
          | aliasSlot s2 => simp [build, hts, h.own _ s (Or.inl (Nat.le_refl _))]
        · rw [build_obj_ne p _ u s hr, build_obj_ne p _ u s hr]
          exact h.own rid s ha
    constructor
    · simp [step, h.next]
    · simp [step, h.serving, h.next]
    · simp [step, h.sattrs]
    · intro c; simpa [step] using hb (.cls c) trivial
    · intro rid s hr
      simp only [step] at hr ⊢
      apply hb (.obj rid s)
      rcases hr with hr | hr
      · exact Or.inl (by omega)
      · by_cases hk : key p.lc t' = key p.lc t
        · rw [hk] at hr; simp at hr; exact Or.inl (by omega)
        · rw [upd_ne _ _ hk] at hr; exact Or.inr hr
  | done t =>
    simp only [step, hg.rc, if_true]
    constructor
    · exact h.next
    · simp [h.serving]
    · simp only
      by_cases hk : key p.lc t' = key p.lc t
      · rw [hk]; simp
      · rw [upd_ne _ _ hk, upd_ne _ _ hk]; exact h.sattrs
    · exact h.cls
    · intro rid s hr
      simp only at hr
      apply h.own rid s
      rcases hr with hr | hr
      · exact Or.inl hr
      · by_cases hk : key p.lc t' = key p.lc t
        · rw [hk] at hr; simp at hr
        · rw [upd_ne _ _ hk] at hr; exact Or.inr hr
  | mutate t tg op =>
    simp only at he
    subst he
    cases tg with
    | serving =>
      simp only [step]
      constructor
      · exact h.next
      · exact h.serving
      · simp [h.sattrs]
      · exact h.cls
      · exact h.own
    | slot s =>
      cases hs : st.serving (key p.lc t) with
      | some rid =>
        obtain ⟨s', k, hc, _⟩ := cellOf_obj hg.tbl rid s
        have hs' : st'.serving (key p.lc t) = some rid := by rw [← h.serving]; exact hs
        rw [step_mut_some p st t s op rid s' hs hc, step_mut_some p st' t s op rid s' hs' hc]
        have heq := h.own rid s' (Or.inr hs)
        refine ⟨h.next, h.serving, h.sattrs, ?_, ?_⟩
        · intro c
          dsimp only
          simp [hupd, h.cls c]
        · intro rid2 s2 hr
          dsimp only
          by_cases ha : (Addr.obj rid2 s2) = Addr.obj rid s'
          · simp [hupd, ha, heq]
          · rw [hupd_ne _ _ ha, hupd_ne _ _ ha]; exact h.own rid2 s2 hr
      | none =>
        have hs' : st'.serving (key p.lc t) = none := by rw [← h.serving]; exact hs
        cases hd : p.dflt s with
        | none =>
          rw [step_mut_none_none p st t s op hs hd, step_mut_none_none p st' t s op hs' hd]; exact h
        | some c =>
          rw [step_mut_none_some p st t s op c hs hd, step_mut_none_some p st' t s op c hs' hd]
          refine ⟨h.next, h.serving, h.sattrs, ?_, ?_⟩
          · intro c2
            dsimp only
            by_cases hc : c2 = c
            · subst hc; simp [hupd, h.cls]
            · rw [hupd_ne _ _ (by simp [hc]), hupd_ne _ _ (by simp [hc])]; exact h.cls c2
          · intro rid2 s2 hr
            dsimp only
            rw [hupd_ne _ _ (by simp), hupd_ne _ _ (by simp)]; exact h.own rid2 s2 hr

theorem sim_step_left {p : Params} (hg : Good p) {t' : Nat} {st st' : State} (hi : Inv st)
    (h : Sim p t' st st') (t : Nat) (ht : t ≠ t') (tg : Target) (op : Op)
    (hl : st.serving (key p.lc t) ≠ none) :
    Sim p t' (step p st (.mutate t tg op)) st' := by
  have hkt : key p.lc t ≠ key p.lc t' := by simpa [key_tl hg.tl] using ht
  cases tg with
  | serving =>
    simp only [step]
    exact ⟨h.next, h.serving, by simp only; rw [upd_ne _ _ (Ne.symm hkt)]; exact h.sattrs, h.cls, h.own⟩
  | slot s =>
    simp only [step, target]
    cases hs : st.serving (key p.lc t) with
    | none => exact absurd hs hl
    | some rid =>
      obtain ⟨s', k, hc, _⟩ := cellOf_obj hg.tbl rid s
      simp only [hc]
      refine ⟨h.next, h.serving, h.sattrs, ?_, ?_⟩
      · intro c; simp only; rw [hupd_ne _ _ (by simp)]; exact h.cls c
      · intro rid2 s2 hr
        simp only at hr ⊢
        have hne : rid2 ≠ rid := by
          rcases hr with hr | hr
          · have := hi.bound _ _ hs; omega
          · intro heq; subst heq; exact hkt (hi.inj _ _ _ hs hr)
        rw [hupd_ne _ _ (by simp [hne])]
        exact h.own rid2 s2 hr

theorem sim_run {p : Params} (hg : Good p) (t' : Nat) :
    ∀ (evs : List Ev) (st st' : State), Inv st → WF p st evs → Sim p t' st st' →
      Sim p t' (run p st evs) (run p st' (purge t' evs)) := by
  intro evs
  induction evs with
  | nil => intro st st' _ _ h; exact h
  | cons e es ih =>
    intro st st' hi hwf h
    obtain ⟨hl, hwf'⟩ := WF_cons.mp hwf
    have hi' := inv_step p st e hi
    cases e with
    | begin t u => exact ih _ _ hi' hwf' (sim_step_both hg hi h _ trivial)
    | done t => exact ih _ _ hi' hwf' (sim_step_both hg hi h _ trivial)
    | mutate t tg op =>
      simp only [purge]
      by_cases ht : t = t'
      · simp only [ht, if_true, run]
        subst ht
        exact ih _ _ hi' hwf' (sim_step_both hg hi h _ rfl)
      · simp only [ht, if_false]
        exact ih _ _ hi' hwf' (sim_step_left hg hi h t ht tg op hl)

/-- **C10_noninterference_trace.** For every well-formed interleaved history and every thread `t'`: what `t'`
    can see at the end (its serving entry, serving attributes, contents of every attribute of its request)
    is exactly what it would see had no other thread's request performed any of its mutate ops. -/
theorem C10_noninterference_trace {p : Params} (hg : Good p) (h0 : Heap) (evs : List Ev)
    (hwf : WF p (State.init h0) evs) (t' : Nat) :
    view p (run p (State.init h0) evs) t' = view p (run p (State.init h0) (purge t' evs)) t' :=
  sim_view hg (sim_run hg t' evs _ _ (inv_init h0) hwf
    ⟨rfl, rfl, rfl, fun _ => rfl, fun _ _ _ => rfl⟩)

theorem C10_noninterference_trace_code (conf : Conf) (h0 : Heap) (evs : List Ev)
    (hwf : WF (codeParams conf) (State.init h0) evs) (t' : Nat) :
    view (codeParams conf) (run (codeParams conf) (State.init h0) evs) t'
      = view (codeParams conf) (run (codeParams conf) (State.init h0) (purge t' evs)) t' :=
  C10_noninterference_trace (code_good conf) h0 evs hwf t'

/-- purging really removes something: in `demo`, thread 1's view ignores thread 0's ops -/
example : purge 1 demo = [.begin 0 1, .begin 1 2, .mutate 1 (.slot .processors) (.del 3),
    .mutate 1 .serving (.add 9), .done 0, .begin 0 2, .done 1, .done 0] := by decide


/-! ### applications: per-application collections are isolated from each other and from class level -/

/-- A write to an isolated attribute of application `aid` (merge of its config, `log.`/`wsgi.` entries,
    middleware appended to its pipeline) changes no class-level cell and no cell of any other application. -/
theorem C10_app_write_isolated (tbl : AppTable) (st : AState) (aid : Nat) (s : AppSlot) (op : Op)
    (hs : s.isolated tbl = true) :
    (∀ c, (astep tbl st (.write aid s op)).heap (.cls c) = st.heap (.cls c)) ∧
    (∀ aid' s', aid' ≠ aid → (astep tbl st (.write aid s op)).heap (.app aid' s') = st.heap (.app aid' s')) := by
  have hc : appCell tbl aid s = .app aid s := by
    unfold appCell
    cases hts : tbl s with
    | fresh k => rfl
    | aliasClass c => simp [AppSlot.isolated, hts] at hs
  constructor
  · intro c; simp [astep, hc, ahupd]
  · intro aid' s' hne; simp [astep, hc, ahupd, hne]

/-- A new application starts from the class-level contents, whatever other applications were configured with:
    class-level cells never change under writes to isolated attributes. -/
theorem C10_app_class_invariant (tbl : AppTable) :
    ∀ (evs : List AEv) (st : AState),
      (∀ e ∈ evs, match e with | .write _ s _ => s.isolated tbl = true | .newApp => True) →
      ∀ c, (arun tbl st evs).heap (.cls c) = st.heap (.cls c) := by
  intro evs
  induction evs with
  | nil => intro st _ c; rfl
  | cons e es ih =>
    intro st h c
    simp only [arun]
    rw [ih _ (fun e' he' => h e' (List.mem_cons_of_mem _ he')) c]
    have he := h e (List.mem_cons_self ..)
    cases e with
    | newApp => simp [astep, abuild]
    | write aid s op => exact (C10_app_write_isolated tbl st aid s op he).1 c

/-- An aliased application attribute is shared by every application (as `Application.toolboxes` is). -/
theorem C10_app_alias_shared (tbl : AppTable) (s : AppSlot) (c : ClassCell) (h : tbl s = .aliasClass c)
    (st : AState) (aid aid' : Nat) (x : Nat) :
    x ∈ (astep tbl st (.write aid s (.add x))).heap (appCell tbl aid' s) := by
  simp [astep, appCell, h, ahupd, Op.apply]

/-- Obligation on the code: `config`, `namespaces`, the WSGI `pipeline` and `config`, and the log manager are
    per application. -/
theorem gen_app_table_ok :
    ∀ s ∈ [AppSlot.config, .namespaces, .pipeline, .wsgiConfig, .log],
      s.isolated CpModel.Gen.C10.appTable = true := by decide

theorem C10_app_write_isolated_code (st : AState) (aid : Nat) (s : AppSlot) (op : Op)
    (hs : s ∈ [AppSlot.config, .namespaces, .pipeline, .wsgiConfig, .log]) :
    (∀ c, (astep CpModel.Gen.C10.appTable st (.write aid s op)).heap (.cls c) = st.heap (.cls c)) ∧
    (∀ aid' s', aid' ≠ aid →
      (astep CpModel.Gen.C10.appTable st (.write aid s op)).heap (.app aid' s') = st.heap (.app aid' s')) :=
  C10_app_write_isolated _ st aid s op (gen_app_table_ok s hs)

/-- Observed on the unchanged tree (and outside the property's scope, which is about what *requests* set):
    `Application.toolboxes` is ONE class-level dict; registering a toolbox on one application registers it on all. -/
theorem C10_app_toolboxes_shared_code :
    CpModel.Gen.C10.appTable .toolboxes = .aliasClass .appToolboxes := by decide

end CpProofs.C10
