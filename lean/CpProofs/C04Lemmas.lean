import CpModel.Multipart
import CpProofs.C05Lemmas
/-!
  Lemmas for C04: the loop invariant of `read_lines_to_boundary` by induction over the LF-split of the
  content, `strip()` of delimiter lines, `read_headers` and the first-marker search over lists of lines.
-/
namespace CpProofs.C04
open CpModel.Reader CpModel.Cursor CpModel.Multipart
open CpProofs.C05 (takeLine_append_LF takeLine_append_noLF hasLF_append takeLine_eq_nil)

/-! ### bytes primitives -/

theorem endsWith_iff (l suf : Bytes) : endsWith l suf = true ↔ ∃ p, l = p ++ suf := by
  unfold endsWith
  rw [List.isPrefixOf_iff_prefix]
  constructor
  · rintro ⟨t, ht⟩
    refine ⟨t.reverse, ?_⟩
    have := congrArg List.reverse ht
    simpa using this.symm
  · rintro ⟨p, rfl⟩
    exact ⟨p.reverse, by simp⟩

theorem splitTerm_join (L : Bytes) : (splitTerm L).1 ++ (splitTerm L).2.1 = L := by
  unfold splitTerm
  split
  · rename_i h
    obtain ⟨p, rfl⟩ := (endsWith_iff _ _).mp h
    simp [CRLF]
  · split
    · rename_i _ h
      obtain ⟨p, rfl⟩ := (endsWith_iff _ _).mp h
      simp
    · simp

theorem splitTerm_lf (p : Bytes) : (splitTerm (p ++ [LF])).2.2 = true := by
  unfold splitTerm
  split
  · rfl
  · split
    · rfl
    · rename_i _ h
      exact absurd ((endsWith_iff _ _).mpr ⟨p, rfl⟩) h

theorem splitTerm_crlf (p : Bytes) : (splitTerm (p ++ CRLF)).2.1 = CRLF := by
  unfold splitTerm
  split
  · rfl
  · rename_i h
    exact absurd ((endsWith_iff _ _).mpr ⟨p, rfl⟩) h

/-- a complete line: some bytes without LF, then LF -/
def IsLine (l : Bytes) : Prop := ∃ t, l = t ++ [LF] ∧ hasLF t = false

theorem IsLine.ne_nil {l : Bytes} (h : IsLine l) : l ≠ [] := by
  obtain ⟨t, rfl, _⟩ := h; simp

theorem takeLine_line (t rest : Bytes) (h : hasLF t = false) :
    takeLine (t ++ [LF] ++ rest) = t ++ [LF] := by
  rw [List.append_assoc, takeLine_append_noLF _ _ h]
  simp [takeLine]

theorem hasLF_line (t : Bytes) : hasLF (t ++ [LF]) = true := by
  rw [hasLF_append]; simp [hasLF]

theorem readline_line (l rest : Bytes) (done : Bool) (h : IsLine l) :
    Src.readline ⟨l ++ rest, done⟩ = (l, ⟨rest, done⟩) := by
  obtain ⟨t, rfl, ht⟩ := h
  unfold Src.readline
  simp only [takeLine_line t rest ht]
  have : hasLF (t ++ [LF] ++ rest) = true := by rw [hasLF_append, hasLF_line]; rfl
  rw [this]
  simp


/-! ### Part.read_lines_to_boundary: the loop invariant -/

theorem readLines_step (bnd : Bytes) (m fuel : Nat) (l rest : Bytes) (done : Bool) (delim acc : Bytes) (sp : Bool)
    (hl : IsLine l) (hk : delimKind bnd l true = none) :
    readLines bnd m (fuel + 1) ⟨l ++ rest, done⟩ delim true acc sp =
      readLines bnd m fuel ⟨rest, done⟩ (splitTerm (delim ++ l)).2.1 true (acc ++ (splitTerm (delim ++ l)).1)
        (sp || decide ((acc ++ (splitTerm (delim ++ l)).1).length > m)) := by
  have hne : l.isEmpty = false := by
    cases l with
    | nil => exact absurd rfl hl.ne_nil
    | cons _ _ => rfl
  have hpl : (splitTerm (delim ++ l)).2.2 = true := by
    obtain ⟨t, rfl, _⟩ := hl
    rw [← List.append_assoc]; exact splitTerm_lf _
  simp only [readLines, readline_line l rest done hl, hne, hk, Bool.false_eq_true, if_false]
  rw [hpl]

theorem readLines_lines (bnd : Bytes) (m : Nat) :
    ∀ (ls : List Bytes) (T : Bytes) (done : Bool) (k : Nat) (delim acc : Bytes) (sp : Bool),
      (∀ l ∈ ls, IsLine l ∧ delimKind bnd l true = none) →
      ∃ W dF,
        readLines bnd m (ls.length + k) ⟨ls.flatten ++ T, done⟩ delim true acc sp =
          readLines bnd m k ⟨T, done⟩ dF true (acc ++ W)
            (sp || (!ls.isEmpty && decide ((acc ++ W).length > m))) ∧
        W ++ dF = delim ++ ls.flatten ∧
        (ls = [] → dF = delim ∧ W = []) ∧
        (∀ z, ls.getLast? = some z → endsWith z CRLF = true → dF = CRLF) := by
  intro ls
  induction ls with
  | nil =>
    intro T done k delim acc sp _
    exact ⟨[], delim, by simp, by simp, fun _ => ⟨rfl, rfl⟩, by simp⟩
  | cons l ls ih =>
    intro T done k delim acc sp h
    obtain ⟨hl, hk⟩ := h l (by simp)
    have hrest : ∀ l' ∈ ls, IsLine l' ∧ delimKind bnd l' true = none := fun l' h' => h l' (by simp [h'])
    have hfuel : (l :: ls).length + k = (ls.length + k) + 1 := by simp; omega
    have hflat : (l :: ls).flatten ++ T = l ++ (ls.flatten ++ T) := by simp
    rw [hfuel, hflat, readLines_step bnd m _ l _ done delim acc sp hl hk]
    generalize hst : splitTerm (delim ++ l) = st
    obtain ⟨out, d', pl⟩ := st
    have hjoin : out ++ d' = delim ++ l := by
      have := splitTerm_join (delim ++ l); rw [hst] at this; exact this
    obtain ⟨W', dF, e1, e2, e3, e4⟩ := ih T done k d' (acc ++ out) (sp || decide ((acc ++ out).length > m)) hrest
    refine ⟨out ++ W', dF, ?_, ?_, by simp, ?_⟩
    · simp only
      rw [e1]
      have hacc : acc ++ out ++ W' = acc ++ (out ++ W') := by simp
      rw [hacc]
      congr 1
      cases hls : ls with
      | nil =>
        obtain ⟨_, hW⟩ := e3 hls
        subst hW
        simp
      | cons a b =>
        simp only [List.isEmpty_cons, Bool.not_false, Bool.true_and, Bool.or_assoc]
        congr 1
        rw [Bool.eq_iff_iff]
        simp only [Bool.or_eq_true, decide_eq_true_eq, List.length_append]
        omega
    · rw [List.append_assoc, e2, ← List.append_assoc, hjoin]; simp
    · intro z hz hcr
      cases hls : ls with
      | nil =>
        subst hls
        simp only [List.getLast?_singleton, Option.some.injEq] at hz
        subst hz
        obtain ⟨hd, _⟩ := e3 rfl
        rw [hd]
        obtain ⟨p, hp⟩ := (endsWith_iff _ _).mp hcr
        have := splitTerm_crlf (delim ++ p)
        rw [List.append_assoc, ← hp, hst] at this
        exact this
      | cons a b =>
        rw [hls] at hz
        rw [List.getLast?_cons_cons] at hz
        exact e4 z (by rw [hls]; exact hz) hcr

/-! ### decomposition of a content into complete lines and an LF-free tail -/

/-- complete (LF-terminated) lines of `c`, and the LF-free remainder after the last LF -/
def splitLF : Bytes → List Bytes × Bytes
  | [] => ([], [])
  | b :: bs =>
    match splitLF bs with
    | (ls, t) =>
      if b = LF then ([b] :: ls, t)
      else match ls with
        | [] => ([], b :: t)
        | l :: ls' => ((b :: l) :: ls', t)

theorem splitLF_spec (c : Bytes) :
    c = (splitLF c).1.flatten ++ (splitLF c).2 ∧ (∀ l ∈ (splitLF c).1, IsLine l) ∧
      hasLF (splitLF c).2 = false := by
  induction c with
  | nil => simp [splitLF, hasLF]
  | cons b bs ih =>
    obtain ⟨h1, h2, h3⟩ := ih
    simp only [splitLF]
    generalize splitLF bs = r at *
    obtain ⟨ls, t⟩ := r
    simp only at h1 h2 h3 ⊢
    by_cases hb : b = LF
    · simp only [hb, if_true]
      refine ⟨by simp [← h1], ?_, h3⟩
      intro l hl
      simp only [List.mem_cons] at hl
      rcases hl with rfl | hl
      · exact ⟨[], rfl, rfl⟩
      · exact h2 l hl
    · simp only [hb, if_false]
      cases ls with
      | nil =>
        refine ⟨by simp [h1], by simp, ?_⟩
        simp [hasLF, hb, h3]
      | cons l ls' =>
        refine ⟨by simp [h1], ?_, h3⟩
        intro l' hl'
        simp only [List.mem_cons] at hl'
        rcases hl' with rfl | hl'
        · obtain ⟨t', rfl, ht'⟩ := h2 l (by simp)
          exact ⟨b :: t', rfl, by simp [hasLF, hb, ht']⟩
        · exact h2 l' (by simp [hl'])

/-- **The hypothesis of the partial theorem** (decidable): no line of `c ++ CRLF` — starting at offset 0
    or right after an LF — begins with `--` and equals the boundary line or the end marker after
    `strip()`.  `bnd` is the boundary with its two leading dashes. -/
def DelimFree (bnd c : Bytes) : Prop :=
  (∀ l ∈ (splitLF c).1, delimKind bnd l true = none) ∧
  delimKind bnd ((splitLF c).2 ++ CRLF) true = none

instance (bnd c : Bytes) : Decidable (DelimFree bnd c) := by unfold DelimFree; exact inferInstance

/-- `read_lines_to_boundary` over a delimiter-free content followed by CRLF: everything is written,
    the CRLF is held back as the pending terminator. -/
theorem readLines_content (bnd : Bytes) (m : Nat) (c T : Bytes) (done : Bool) (k : Nat)
    (hc : DelimFree bnd c) :
    readLines bnd m ((splitLF c).1.length + 1 + k) ⟨c ++ CRLF ++ T, done⟩ [] true [] false =
      readLines bnd m k ⟨T, done⟩ CRLF true c (decide (c.length > m)) := by
  obtain ⟨h1, h2, h3⟩ := splitLF_spec c
  unfold DelimFree at hc
  generalize splitLF c = r at *
  obtain ⟨ls, t⟩ := r
  simp only at h1 h2 h3 hc ⊢
  have hlast : IsLine (t ++ CRLF) := ⟨t ++ [CR], by simp [CRLF, CR, LF], by rw [hasLF_append, h3]; rfl⟩
  have hall : ∀ l ∈ ls ++ [t ++ CRLF], IsLine l ∧ delimKind bnd l true = none := by
    intro l hl
    simp only [List.mem_append, List.mem_singleton] at hl
    rcases hl with hl | rfl
    · exact ⟨h2 l hl, hc.1 l hl⟩
    · exact ⟨hlast, hc.2⟩
  obtain ⟨W, dF, e1, e2, _, e4⟩ := readLines_lines bnd m (ls ++ [t ++ CRLF]) T done k [] [] false hall
  have hflat : (ls ++ [t ++ CRLF]).flatten = c ++ CRLF := by
    rw [h1]; simp
  have hlen : (ls ++ [t ++ CRLF]).length + k = ls.length + 1 + k := by simp
  rw [hflat, hlen] at e1
  have hdF : dF = CRLF := e4 (t ++ CRLF) (by simp) ((endsWith_iff _ _).mpr ⟨t, rfl⟩)
  subst hdF
  rw [hflat] at e2
  have hW : W = c := by
    simp only [List.nil_append] at e2
    exact List.append_cancel_right e2
  subst hW
  rw [e1]
  have hne : (ls ++ [t ++ CRLF]).isEmpty = false := by cases ls <;> rfl
  rw [hne]
  simp

/-! ### strip() of a delimiter line -/

theorem lstrip_nonws (b : UInt8) (l : Bytes) (h : isWs b = false) : lstrip (b :: l) = b :: l := by
  simp [lstrip, h]

theorem rstrip_ws_suffix (x : Bytes) (z : UInt8) (w : Bytes) (hz : isWs z = false)
    (hw : ∀ b ∈ w, isWs b = true) : rstrip (x ++ [z] ++ w) = x ++ [z] := by
  unfold rstrip
  have : ∀ (r : Bytes) (rest : Bytes), (∀ b ∈ r, isWs b = true) → lstrip (r ++ z :: rest) = z :: rest := by
    intro r
    induction r with
    | nil => intro rest _; exact lstrip_nonws z rest hz
    | cons a r ih =>
      intro rest hr
      simp only [List.cons_append, lstrip, hr a (by simp), if_true]
      exact ih rest (fun b hb => hr b (by simp [hb]))
  have hrev : (x ++ [z] ++ w).reverse = w.reverse ++ z :: x.reverse := by simp
  rw [hrev, this w.reverse x.reverse (fun b hb => hw b (by simpa using hb))]
  simp

/-- a boundary accepted by `^[ -~]{0,200}[!-~]$` contains no LF and ends in a non-blank byte -/
structure BoundaryOK (boundary : Bytes) : Prop where
  noLF : hasLF boundary = false
  last : ∃ pre z, boundary = pre ++ [z] ∧ isWs z = false

def bndOf (boundary : Bytes) : Bytes := [DASH, DASH] ++ boundary

theorem strip_bnd (boundary : Bytes) (hB : BoundaryOK boundary) (w : Bytes)
    (hw : ∀ b ∈ w, isWs b = true) : strip (bndOf boundary ++ w) = bndOf boundary := by
  obtain ⟨pre, z, hz, hzw⟩ := hB.last
  unfold strip
  have h1 : lstrip (bndOf boundary ++ w) = bndOf boundary ++ w := by
    simp only [bndOf, List.cons_append, List.nil_append]
    exact lstrip_nonws _ _ (by decide)
  rw [h1, hz]
  have : bndOf (pre ++ [z]) ++ w = (([DASH, DASH] ++ pre) ++ [z]) ++ w := by simp [bndOf]
  rw [this, rstrip_ws_suffix _ z w hzw hw]
  simp [bndOf]

theorem strip_endmarker (boundary : Bytes) (w : Bytes) (hw : ∀ b ∈ w, isWs b = true) :
    strip (bndOf boundary ++ [DASH, DASH] ++ w) = bndOf boundary ++ [DASH, DASH] := by
  unfold strip
  have h1 : lstrip (bndOf boundary ++ [DASH, DASH] ++ w) = bndOf boundary ++ [DASH, DASH] ++ w := by
    simp only [bndOf, List.cons_append, List.nil_append]
    exact lstrip_nonws _ _ (by decide)
  rw [h1]
  have : bndOf boundary ++ [DASH, DASH] ++ w = ((bndOf boundary ++ [DASH]) ++ [DASH]) ++ w := by simp
  rw [this, rstrip_ws_suffix _ DASH w (by decide) hw]
  simp

theorem delimKind_boundary (boundary : Bytes) (hB : BoundaryOK boundary) (w : Bytes)
    (hw : ∀ b ∈ w, isWs b = true) : delimKind (bndOf boundary) (bndOf boundary ++ w) true = some false := by
  unfold delimKind
  have hs : startsDashes (bndOf boundary ++ w) = true := by
    simp [bndOf, startsDashes]
  simp only [hs, Bool.and_self, if_true, strip_bnd boundary hB w hw]

theorem delimKind_endmarker (boundary : Bytes) (w : Bytes) (hw : ∀ b ∈ w, isWs b = true) :
    delimKind (bndOf boundary) (bndOf boundary ++ [DASH, DASH] ++ w) true = some true := by
  unfold delimKind
  have hs : startsDashes (bndOf boundary ++ [DASH, DASH] ++ w) = true := by
    simp [bndOf, startsDashes]
  have hne : bndOf boundary ++ [DASH, DASH] ≠ bndOf boundary := by
    intro h
    have := congrArg List.length h
    simp at this
  simp only [hs, Bool.and_self, if_true, strip_endmarker boundary w hw, hne, if_false]

theorem isLine_bnd (boundary : Bytes) (hB : BoundaryOK boundary) : IsLine (bndOf boundary ++ CRLF) := by
  refine ⟨bndOf boundary ++ [CR], by simp [CRLF, CR, LF], ?_⟩
  rw [hasLF_append]
  have : hasLF (bndOf boundary) = false := by
    simp only [bndOf, List.cons_append, List.nil_append, hasLF]
    simp [hB.noLF, DASH, LF]
  rw [this]; rfl

theorem isLine_end (boundary : Bytes) (hB : BoundaryOK boundary) :
    IsLine (bndOf boundary ++ [DASH, DASH] ++ CRLF) := by
  refine ⟨bndOf boundary ++ [DASH, DASH] ++ [CR], by simp [CRLF, CR, LF], ?_⟩
  rw [hasLF_append, hasLF_append]
  have : hasLF (bndOf boundary) = false := by
    simp only [bndOf, List.cons_append, List.nil_append, hasLF]
    simp [hB.noLF, DASH, LF]
  rw [this]; rfl

/-! ### one part: content, then the delimiter line -/

theorem length_le_flatten (ls : List Bytes) (h : ∀ l ∈ ls, l ≠ []) : ls.length ≤ ls.flatten.length := by
  induction ls with
  | nil => simp
  | cons l ls ih =>
    have := ih (fun l' h' => h l' (by simp [h']))
    have hl : 0 < l.length := List.length_pos_iff.mpr (h l (by simp))
    simp only [List.length_cons, List.flatten_cons, List.length_append]; omega

theorem splitLF_count_le (c : Bytes) : (splitLF c).1.length ≤ c.length := by
  obtain ⟨h1, h2, _⟩ := splitLF_spec c
  have := length_le_flatten (splitLF c).1 (fun l hl => (h2 l hl).ne_nil)
  have hc := congrArg List.length h1
  simp only [List.length_append] at hc; omega

theorem crlf_ws : ∀ b ∈ CRLF, isWs b = true := by decide

theorem takeLine_noLF (l : Bytes) (h : hasLF l = false) : takeLine l = l := by
  have := takeLine_append_noLF l [] h
  simpa [takeLine] using this

theorem readLines_part_boundary (boundary : Bytes) (hB : BoundaryOK boundary) (m : Nat) (c T : Bytes)
    (done : Bool) (k : Nat) (hc : DelimFree (bndOf boundary) c) :
    readLines (bndOf boundary) m ((splitLF c).1.length + 2 + k)
        ⟨c ++ CRLF ++ (bndOf boundary ++ CRLF ++ T), done⟩ [] true [] false
      = .ok (c, decide (c.length > m), ⟨T, done⟩) := by
  have h := readLines_content (bndOf boundary) m c (bndOf boundary ++ CRLF ++ T) done (k + 1) hc
  have hf : (splitLF c).1.length + 1 + (k + 1) = (splitLF c).1.length + 2 + k := by omega
  rw [hf] at h
  rw [h]
  have hne : (bndOf boundary ++ CRLF).isEmpty = false := by simp [bndOf]
  simp only [readLines, readline_line _ T done (isLine_bnd boundary hB), hne, Bool.false_eq_true, if_false,
    delimKind_boundary boundary hB CRLF crlf_ws]

theorem readLines_part_end (boundary : Bytes) (hB : BoundaryOK boundary) (m : Nat) (c e : Bytes)
    (done : Bool) (k : Nat) (hc : DelimFree (bndOf boundary) c) :
    readLines (bndOf boundary) m ((splitLF c).1.length + 2 + k)
        ⟨c ++ CRLF ++ (bndOf boundary ++ [DASH, DASH] ++ CRLF ++ e), done⟩ [] true [] false
      = .ok (c, decide (c.length > m), ⟨e, true⟩) := by
  have h := readLines_content (bndOf boundary) m c (bndOf boundary ++ [DASH, DASH] ++ CRLF ++ e) done (k + 1) hc
  have hf : (splitLF c).1.length + 1 + (k + 1) = (splitLF c).1.length + 2 + k := by omega
  rw [hf] at h
  rw [h]
  have hne : (bndOf boundary ++ [DASH, DASH] ++ CRLF).isEmpty = false := by simp [bndOf]
  simp only [readLines, readline_line _ e done (isLine_end boundary hB), hne, Bool.false_eq_true, if_false,
    delimKind_endmarker boundary CRLF crlf_ws, Src.finish]

/-- the close delimiter is the very end of the body (no CRLF, no epilogue) -/
theorem readLines_part_end_bare (boundary : Bytes) (hB : BoundaryOK boundary) (m : Nat) (c : Bytes)
    (done : Bool) (k : Nat) (hc : DelimFree (bndOf boundary) c) :
    readLines (bndOf boundary) m ((splitLF c).1.length + 2 + k)
        ⟨c ++ CRLF ++ (bndOf boundary ++ [DASH, DASH]), done⟩ [] true [] false
      = .ok (c, decide (c.length > m), ⟨[], true⟩) := by
  have h := readLines_content (bndOf boundary) m c (bndOf boundary ++ [DASH, DASH]) done (k + 1) hc
  have hf : (splitLF c).1.length + 1 + (k + 1) = (splitLF c).1.length + 2 + k := by omega
  rw [hf] at h
  rw [h]
  have hno : hasLF (bndOf boundary ++ [DASH, DASH]) = false := by
    rw [hasLF_append]
    have : hasLF (bndOf boundary) = false := by
      simp only [bndOf, List.cons_append, List.nil_append, hasLF]
      simp [hB.noLF, DASH, LF]
    rw [this]; rfl
  have hrl : Src.readline ⟨bndOf boundary ++ [DASH, DASH], done⟩ =
      (bndOf boundary ++ [DASH, DASH], ⟨[], done || true⟩) := by
    simp [Src.readline, takeLine_noLF _ hno, hno]
  have hne : (bndOf boundary ++ [DASH, DASH]).isEmpty = false := by simp [bndOf]
  have hk := delimKind_endmarker boundary [] (by simp)
  simp only [List.append_nil] at hk
  simp only [readLines, hrl, hne, Bool.false_eq_true, if_false, hk, Src.finish]

/-! ### Part.read_headers -/

/-- the header list `read_headers` builds from the header lines (no reader involved) -/
def foldHdr : List Bytes → Option Bytes → List (Bytes × Bytes) → Option (List (Bytes × Bytes))
  | [], _, hs => some hs
  | l :: ls, lk, hs =>
    match hdrStep l lk hs with
    | .error _ => none
    | .ok (lk', hs') => foldHdr ls lk' hs'

structure HdrLineOK (l : Bytes) : Prop where
  line : IsLine l
  crlf : endsWith l CRLF = true
  notBlank : l ≠ CRLF

theorem isLine_crlf : IsLine CRLF := ⟨[CR], rfl, rfl⟩

theorem readHeaders_lines : ∀ (hl : List Bytes) (lk : Option Bytes) (hs r : List (Bytes × Bytes))
    (T : Bytes) (done : Bool) (k : Nat),
    (∀ l ∈ hl, HdrLineOK l) → foldHdr hl lk hs = some r →
    readHeaders (hl.length + 1 + k) ⟨hl.flatten ++ CRLF ++ T, done⟩ lk hs = .ok (r, ⟨T, done⟩) := by
  intro hl
  induction hl with
  | nil =>
    intro lk hs r T done k _ hf
    simp only [foldHdr, Option.some.injEq] at hf
    subst hf
    have : ([] : List Bytes).length + 1 + k = k + 1 := by simp; omega
    rw [this]
    simp only [List.flatten_nil, List.nil_append, readHeaders, readline_line CRLF T done isLine_crlf]
    simp [CRLF]
  | cons l hl ih =>
    intro lk hs r T done k hok hf
    have hl1 := hok l (by simp)
    have hfuel : (l :: hl).length + 1 + k = (hl.length + 1 + k) + 1 := by simp; omega
    have hflat : (l :: hl).flatten ++ CRLF ++ T = l ++ (hl.flatten ++ CRLF ++ T) := by simp
    have hne : l.isEmpty = false := by
      cases l with
      | nil => exact absurd rfl hl1.line.ne_nil
      | cons _ _ => rfl
    simp only [foldHdr] at hf
    cases hstep : hdrStep l lk hs with
    | error e => rw [hstep] at hf; cases hf
    | ok q =>
      obtain ⟨lk', hs'⟩ := q
      rw [hstep] at hf
      simp only at hf
      rw [hfuel, hflat]
      simp only [readHeaders, readline_line l _ done hl1.line, hne, Bool.false_eq_true, if_false,
        hl1.notBlank, hl1.crlf, Bool.not_true, hstep]
      exact ih lk' hs' r T done k (fun l' h' => hok l' (by simp [h'])) hf

/-! ### "Find the first marker" -/

theorem findFirst_pre (boundary : Bytes) (hB : BoundaryOK boundary) :
    ∀ (pre : List Bytes) (T : Bytes) (k : Nat),
      (∀ l ∈ pre, IsLine l ∧ strip l ≠ bndOf boundary) →
      findFirst (bndOf boundary) (pre.length + 1 + k) ⟨pre.flatten ++ (bndOf boundary ++ CRLF ++ T), false⟩
        = some ⟨T, false⟩ := by
  intro pre
  induction pre with
  | nil =>
    intro T k _
    have : ([] : List Bytes).length + 1 + k = k + 1 := by simp; omega
    rw [this]
    have hne : (bndOf boundary ++ CRLF).isEmpty = false := by simp [bndOf]
    simp only [List.flatten_nil, List.nil_append, findFirst, readline_line _ T false (isLine_bnd boundary hB),
      hne, Bool.false_eq_true, if_false, strip_bnd boundary hB CRLF crlf_ws, if_true]
  | cons l pre ih =>
    intro T k h
    obtain ⟨hl, hs⟩ := h l (by simp)
    have hfuel : (l :: pre).length + 1 + k = (pre.length + 1 + k) + 1 := by simp; omega
    have hflat : (l :: pre).flatten ++ (bndOf boundary ++ CRLF ++ T) =
        l ++ (pre.flatten ++ (bndOf boundary ++ CRLF ++ T)) := by simp
    have hne : l.isEmpty = false := by
      cases l with
      | nil => exact absurd rfl hl.ne_nil
      | cons _ _ => rfl
    rw [hfuel, hflat]
    simp only [findFirst, readline_line l _ false hl, hne, Bool.false_eq_true, if_false, hs]
    exact ih T k (fun l' h' => h l' (by simp [h']))
end CpProofs.C04
