import CpModel.SessionFile
/-!
  C13 (b) — `FileSession`: mutual exclusion of requests (threads or processes) AND the expiry
  sweep, at the granularity of single file operations, relative to the `FileLock` contract written
  down in `CpModel/SessionFile.lean`.
-/
namespace CpProofs.C13
open CpModel.SessionFile

namespace File

@[simp] theorem setThr_thr (s : St) (i : Nat) (t : Thr) (j : Nat) :
    (setThr s i t).thr j = if j = i then t else s.thr j := rfl
@[simp] theorem setThr_flock (s : St) (i : Nat) (t : Thr) : (setThr s i t).flock = s.flock := rfl
@[simp] theorem setThr_version (s : St) (i : Nat) (t : Thr) : (setThr s i t).version = s.version := rfl
@[simp] theorem setThr_lost (s : St) (i : Nat) (t : Thr) : (setThr s i t).lost = s.lost := rfl
@[simp] theorem setThr_file (s : St) (i : Nat) (t : Thr) : (setThr s i t).file = s.file := rfl
@[simp] theorem setThr_sw (s : St) (i : Nat) (t : Thr) : (setThr s i t).sw = s.sw := rfl
@[simp] theorem setSw_sw (s : St) (w : Sweeper) : (setSw s w).sw = w := rfl
@[simp] theorem setSw_thr (s : St) (w : Sweeper) : (setSw s w).thr = s.thr := rfl
@[simp] theorem setSw_flock (s : St) (w : Sweeper) : (setSw s w).flock = s.flock := rfl
@[simp] theorem setSw_version (s : St) (w : Sweeper) : (setSw s w).version = s.version := rfl
@[simp] theorem setSw_lost (s : St) (w : Sweeper) : (setSw s w).lost = s.lost := rfl
@[simp] theorem setSw_file (s : St) (w : Sweeper) : (setSw s w).file = s.file := rfl

structure Inv (s : St) : Prop where
  r1 : ∀ i, inCS (s.thr i).pc = true → s.flock = some (.req i)
  r2 : ∀ i, s.flock = some (.req i) → inCS (s.thr i).pc = true
  w1 : swInCS s.sw.pc = true → s.flock = some .sweep
  w2 : s.flock = some .sweep → swInCS s.sw.pc = true
  o1 : ∀ d, s.flock ≠ some (.tick d)
  o2 : ∀ i, s.flock ≠ some (.expire i)
  v1 : ∀ i, ((s.thr i).pc = .trunc ∨ (s.thr i).pc = .dump) → (s.thr i).seen = s.version
  v2 : s.sw.pc = .unlink → s.sw.seen = s.version ∧ s.file ≠ .absent
  e1 : s.sw.err = true → s.sw.pc = .rel ∨ s.sw.pc = .crashed
  e2 : s.sw.err = false ∧ s.sw.pc ≠ .crashed
  l1 : s.lost = false

macro "file_close" : tactic =>
  `(tactic| (refine ⟨?_, ?_, ?_, ?_, ?_, ?_, ?_, ?_, ?_, ?_, ?_⟩ <;>
      simp only [setThr_thr, setThr_flock, setThr_version, setThr_lost, setThr_file, setThr_sw,
        setSw_sw, setSw_thr, setSw_flock, setSw_version, setSw_lost, setSw_file] <;>
      grind [inCS, swInCS]))

theorem inv_stepReq (s : St) (i : Nat) (h : Inv s) : Inv (stepReq s i) := by
  obtain ⟨r1, r2, w1, w2, o1, o2, v1, v2, e1, e2, l1⟩ := h
  unfold stepReq
  cases hpc : (s.thr i).pc <;> simp only [hpc]
  case init => file_close
  case gex => file_close
  case acq => split <;> first | file_close | exact ⟨r1, r2, w1, w2, o1, o2, v1, v2, e1, e2, l1⟩
  case openr => split <;> file_close
  case load => file_close
  case trunc => file_close
  case dump => file_close
  case rel => file_close
  all_goals exact ⟨r1, r2, w1, w2, o1, o2, v1, v2, e1, e2, l1⟩

theorem inv_stepSweep (s : St) (h : Inv s) : Inv (stepSweep s) := by
  obtain ⟨r1, r2, w1, w2, o1, o2, v1, v2, e1, e2, l1⟩ := h
  unfold stepSweep
  cases hpc : s.sw.pc <;> simp only [hpc]
  case list => split <;> file_close
  case acq => split <;> first | file_close | exact ⟨r1, r2, w1, w2, o1, o2, v1, v2, e1, e2, l1⟩
  case openr => split <;> file_close
  case load => split <;> (try split) <;> file_close
  case unlink => split <;> file_close
  case rel => file_close
  case crashed => exact ⟨r1, r2, w1, w2, o1, o2, v1, v2, e1, e2, l1⟩

theorem inv_step (s : St) (a : Actor) (h : Inv s) : Inv (step s a) := by
  cases a with
  | req i => exact inv_stepReq s i h
  | sweep => exact inv_stepSweep s h
  | tick d =>
    obtain ⟨r1, r2, w1, w2, o1, o2, v1, v2, e1, e2, l1⟩ := h
    exact ⟨r1, r2, w1, w2, o1, o2, v1, v2, e1, e2, l1⟩
  | expire i =>
    obtain ⟨r1, r2, w1, w2, o1, o2, v1, v2, e1, e2, l1⟩ := h
    unfold step
    simp only []
    split
    · file_close
    · exact ⟨r1, r2, w1, w2, o1, o2, v1, v2, e1, e2, l1⟩

theorem inv_init (f : FileC) (to : Nat → Bool) : Inv (init f to) := by
  refine ⟨?_, ?_, ?_, ?_, ?_, ?_, ?_, ?_, ?_, ?_, ?_⟩ <;> simp [init, inCS, swInCS]

theorem inv_run (s : St) (sched : List Actor) (h : Inv s) : Inv (run s sched) := by
  induction sched generalizing s with
  | nil => exact h
  | cons a rest ih => exact ih _ (inv_step s a h)

end File

/-- **C13_file_mutex.**  For any number of request threads / processes, the clean_up sweep, the clock,
    any schedule and any placement of lock-timeout expiries, from every initial file state:
    at most one request is between `acquire_lock` and `release_lock`, and none while the sweep is
    between its acquire and its release; no dump is based on an overtaken load and the sweep never
    unlinks a file that was written after its locked check; the sweep never raises; the lock is
    free whenever nobody is inside. -/
theorem C13_file_mutex (f : FileC) (to : Nat → Bool) (sched : List Actor) :
    let s := run (init f to) sched
    (∀ i j, inCS (s.thr i).pc = true → inCS (s.thr j).pc = true → i = j) ∧
    (swInCS s.sw.pc = true → ∀ i, inCS (s.thr i).pc = false) ∧
    s.lost = false ∧ s.sw.pc ≠ .crashed ∧
    ((∀ i, inCS (s.thr i).pc = false) → swInCS s.sw.pc = false → s.flock = none) := by
  intro s
  have h : File.Inv s := File.inv_run _ sched (File.inv_init f to)
  refine ⟨?_, ?_, h.l1, h.e2.2, ?_⟩
  · intro i j hi hj
    have a := h.r1 i hi
    have b := h.r1 j hj
    rw [a] at b
    injection b with b
    injection b
  · intro hs i
    have a := h.w1 hs
    cases hc : inCS (s.thr i).pc with
    | false => rfl
    | true =>
      have b := h.r1 i hc
      rw [a] at b
      injection b with b
      cases b
  · intro hall hsw
    cases hf : s.flock with
    | none => rfl
    | some a =>
      cases a with
      | req i => have := h.r2 i hf; rw [hall i] at this; cases this
      | sweep => have := h.w2 hf; rw [hsw] at this; cases this
      | tick d => exact absurd hf (h.o1 d)
      | expire i => exact absurd hf (h.o2 i)

/-- **C13_file_ops_locked.**  Every destructive or mutating file operation (truncate, dump, unlink)
    is executed by the actor that holds the session's file lock. -/
theorem C13_file_ops_locked (f : FileC) (to : Nat → Bool) (sched : List Actor) :
    let s := run (init f to) sched
    (∀ i, ((s.thr i).pc = .trunc ∨ (s.thr i).pc = .dump) → s.flock = some (.req i)) ∧
    (s.sw.pc = .unlink → s.flock = some .sweep) := by
  intro s
  have h : File.Inv s := File.inv_run _ sched (File.inv_init f to)
  constructor
  · intro i hp
    apply h.r1 i
    rcases hp with hp | hp <;> simp [hp, inCS]
  · intro hp
    apply h.w1
    simp [hp, swInCS]

/-- non-vacuity: two requests and the sweep really contend on an expired session; request 1 has a
    lock timeout that fires -/
example :
    let s := run (init (.data 5 0) (fun i => i == 1))
      [.tick 3, .req 0, .req 1, .sweep, .sweep, .req 0, .expire 1, .sweep, .sweep, .sweep, .sweep, .req 0, .req 0]
    (s.thr 1).pc = .failed ∧ s.file = .absent ∧ s.sw.pc = .list ∧ (s.thr 0).pc = .trunc ∧
    s.flock = some (.req 0) := by decide

end CpProofs.C13
