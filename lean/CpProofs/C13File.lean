import CpModel.SessionFile
/-!
  C13 (b) — `FileSession`: mutual exclusion across threads and processes, relative to the
  `FileLock` contract written down in `CpModel/SessionFile.lean`.
-/
namespace CpProofs.C13
open CpModel.SessionFile

namespace File

@[simp] theorem setThr_thr (s : St) (i : Nat) (t : Thr) (j : Nat) :
    (setThr s i t).thr j = if j = i then t else s.thr j := rfl
@[simp] theorem setThr_flock (s : St) (i : Nat) (t : Thr) : (setThr s i t).flock = s.flock := rfl
@[simp] theorem setThr_version (s : St) (i : Nat) (t : Thr) : (setThr s i t).version = s.version := rfl
@[simp] theorem setThr_lost (s : St) (i : Nat) (t : Thr) : (setThr s i t).lost = s.lost := rfl

structure Inv (s : St) : Prop where
  f1 : ∀ i, inCS (s.thr i).pc = true → s.flock = some i
  f2 : ∀ i, s.flock = some i → inCS (s.thr i).pc = true
  f3 : ∀ i, ((s.thr i).pc = .write ∨ (s.thr i).pc = .save) → (s.thr i).seen = s.version
  f4 : s.lost = false

theorem inv_step (s : St) (a : Actor) (h : Inv s) : Inv (step s a) := by
  obtain ⟨f1, f2, f3, f4⟩ := h
  cases a with
  | expire i =>
    unfold step
    simp only []
    split
    · rename_i hc
      refine ⟨?_, ?_, ?_, ?_⟩ <;> simp only [setThr_thr, setThr_flock, setThr_version, setThr_lost] <;>
        grind [inCS]
    · exact ⟨f1, f2, f3, f4⟩
  | run i =>
    unfold step
    cases hpc : (s.thr i).pc <;> simp only [hpc]
    case try_ =>
      split
      · refine ⟨?_, ?_, ?_, ?_⟩ <;> simp only [setThr_thr, setThr_flock, setThr_version, setThr_lost] <;>
          grind [inCS]
      · exact ⟨f1, f2, f3, f4⟩
    case load =>
      refine ⟨?_, ?_, ?_, ?_⟩ <;> simp only [setThr_thr, setThr_flock, setThr_version, setThr_lost] <;>
        grind [inCS]
    case write =>
      split <;> (refine ⟨?_, ?_, ?_, ?_⟩ <;>
        simp only [setThr_thr, setThr_flock, setThr_version, setThr_lost] <;> grind [inCS])
    case save =>
      refine ⟨?_, ?_, ?_, ?_⟩ <;> simp only [setThr_thr, setThr_flock, setThr_version, setThr_lost] <;>
        grind [inCS]
    case rel =>
      refine ⟨?_, ?_, ?_, ?_⟩ <;> simp only [setThr_thr, setThr_flock, setThr_version, setThr_lost] <;>
        grind [inCS]
    all_goals exact ⟨f1, f2, f3, f4⟩

theorem inv_init (d : Nat) (sw to : Nat → Bool) : Inv (init d sw to) := by
  refine ⟨?_, ?_, ?_, ?_⟩ <;> simp [init, inCS]

theorem inv_run (s : St) (sched : List Actor) (h : Inv s) : Inv (run s sched) := by
  induction sched generalizing s with
  | nil => exact h
  | cons a rest ih => exact ih _ (inv_step s a h)

end File

/-- **C13_file_mutex.**  For any number of request threads / processes and clean_up passes, any
    schedule and any placement of lock-timeout expiries: at most one actor is between
    `acquire_lock` and `release_lock`; no read-modify-write of the session file is lost; an actor
    whose `LockChecker` expired never enters; the lock is free whenever nobody is inside. -/
theorem C13_file_mutex (d : Nat) (sw to : Nat → Bool) (sched : List Actor) :
    let s := run (init d sw to) sched
    (∀ i j, inCS (s.thr i).pc = true → inCS (s.thr j).pc = true → i = j) ∧
    s.lost = false ∧
    ((∀ i, inCS (s.thr i).pc = false) → s.flock = none) := by
  intro s
  have h : File.Inv s := File.inv_run _ sched (File.inv_init d sw to)
  refine ⟨?_, h.f4, ?_⟩
  · intro i j hi hj
    have a := h.f1 i hi
    have b := h.f1 j hj
    rw [a] at b
    injection b
  · intro hall
    cases hf : s.flock with
    | none => rfl
    | some i =>
      have := h.f2 i hf
      rw [hall i] at this
      cases this

/-- non-vacuity: two requests and a clean_up pass really contend, one request times out -/
example :
    let s := run (init 5 (fun i => i == 2) (fun i => i == 1))
      [.run 0, .run 1, .run 2, .expire 1, .run 0, .run 0, .run 0, .run 0, .run 2, .run 2]
    (s.thr 0).pc = .done ∧ (s.thr 1).pc = .failed ∧ (s.thr 2).pc = .write ∧ s.data = 6 := by decide

end CpProofs.C13
