import CpModel.SessionFile
/-!
  C13 (b) — `FileSession`: mutual exclusion of requests (threads or processes) AND the expiry
  sweep, at the granularity of single file operations, relative to the `FileLock` contract written
  down in `CpModel/SessionFile.lean`.
-/
namespace CpProofs.C13
open CpModel.SessionFile

namespace File

@[simp] theorem setThr_thr (s : St) (i : Nat) (t : Thr) (j : Nat) :
    (setThr s i t).thr j = if j = i then t else s.thr j := rfl
@[simp] theorem setThr_flock (s : St) (i : Nat) (t : Thr) : (setThr s i t).flock = s.flock := rfl
@[simp] theorem setThr_version (s : St) (i : Nat) (t : Thr) : (setThr s i t).version = s.version := rfl
@[simp] theorem setThr_lost (s : St) (i : Nat) (t : Thr) : (setThr s i t).lost = s.lost := rfl
@[simp] theorem setThr_file (s : St) (i : Nat) (t : Thr) : (setThr s i t).file = s.file := rfl
@[simp] theorem setThr_sw (s : St) (i : Nat) (t : Thr) : (setThr s i t).sw = s.sw := rfl
@[simp] theorem setSw_sw (s : St) (w : Sweeper) : (setSw s w).sw = w := rfl
@[simp] theorem setSw_thr (s : St) (w : Sweeper) : (setSw s w).thr = s.thr := rfl
@[simp] theorem setSw_flock (s : St) (w : Sweeper) : (setSw s w).flock = s.flock := rfl
@[simp] theorem setSw_version (s : St) (w : Sweeper) : (setSw s w).version = s.version := rfl
@[simp] theorem setSw_lost (s : St) (w : Sweeper) : (setSw s w).lost = s.lost := rfl
@[simp] theorem setSw_file (s : St) (w : Sweeper) : (setSw s w).file = s.file := rfl

@[simp] theorem setThr_faulted (s : St) (i : Nat) (t : Thr) : (setThr s i t).faulted = s.faulted := rfl
@[simp] theorem setSw_faulted (s : St) (w : Sweeper) : (setSw s w).faulted = s.faulted := rfl

/-- what the thread-local dispatch can do -/
theorem next_spec (now : Nat) : ∀ (prog : List FOp) (t : Thr),
    (next now prog t).loaded = t.loaded ∧ (next now prog t).seen = t.seen ∧
    inCS (next now prog t).pc = true ∧
    ((next now prog t).pc = .trunc ∨ (next now prog t).pc = .dump → t.loaded = true) := by
  intro prog
  induction prog with
  | nil => intro t; unfold next; by_cases h : t.loaded <;> simp [h, inCS]
  | cons o rest ih =>
    intro t
    cases o with
    | rmw =>
      unfold next
      by_cases h : t.loaded
      · simp only [h, if_true]
        have := ih { t with tmp := t.tmp + 1 }
        simpa [h] using this
      · simp [h, inCS]
    | delete => simp [next, inCS]
    | regen => simp [next, inCS]

structure Inv (s : St) : Prop where
  r1 : ∀ i, inCS (s.thr i).pc = true → s.flock = some (.req i)
  r2 : ∀ i, s.flock = some (.req i) → inCS (s.thr i).pc = true
  w1 : swInCS s.sw.pc = true → s.flock = some .sweep
  w2 : s.flock = some .sweep → swInCS s.sw.pc = true
  o1 : ∀ d, s.flock ≠ some (.tick d)
  o2 : ∀ i, s.flock ≠ some (.expire i)
  o3 : ∀ k, s.flock ≠ some (.fault k)
  v1 : ∀ i, (s.thr i).loaded = true → inCS (s.thr i).pc = true
  v4 : ∀ i, (s.thr i).loaded = true → (s.thr i).pc ≠ .rel → (s.thr i).seen = s.version
  v3 : ∀ i, ((s.thr i).pc = .trunc ∨ (s.thr i).pc = .dump) → (s.thr i).loaded = true
  v2 : s.sw.pc = .unlink → s.sw.seen = s.version ∧ s.file ≠ .absent
  e1 : s.sw.err = true → s.sw.pc = .rel ∨ s.sw.pc = .crashed
  e2 : s.faulted = false → s.sw.err = false ∧ s.sw.pc ≠ .crashed ∧ s.sw.fault = none
  l1 : s.lost = false

macro "file_simp" : tactic =>
  `(tactic| simp only [setThr_thr, setThr_flock, setThr_version, setThr_lost, setThr_file, setThr_sw,
      setSw_sw, setSw_thr, setSw_flock, setSw_version, setSw_lost, setSw_file, setThr_faulted, setSw_faulted])

macro "file_close" : tactic =>
  `(tactic| (refine ⟨?_, ?_, ?_, ?_, ?_, ?_, ?_, ?_, ?_, ?_, ?_, ?_, ?_, ?_⟩ <;> file_simp <;>
      grind [inCS, swInCS]))

/-- a step of request `i`, inside its critical section, that ends with the dispatch `next` and keeps the
    lock, the sweeper and the version as they are -/
theorem inv_next (s s1 : St) (i : Nat) (t : Thr) (h : Inv s)
    (ef : s1.flock = some (.req i)) (et : s1.thr = s.thr) (ew : s1.sw = s.sw) (ev : s1.version = s.version)
    (el : s1.lost = s.lost) (efa : s1.faulted = s.faulted) (hfile : s.sw.pc = .unlink → s1.file = s.file)
    (hfl : s.flock = some (.req i) ∨ (s.flock = none ∧ ∀ j, inCS (s.thr j).pc = false))
    (hload : t.loaded = true → t.seen = s.version) :
    Inv (setThr s1 i (next s.now t.prog t)) := by
  obtain ⟨r1, r2, w1, w2, o1, o2, o3, v1, v4, v3, v2, e1, e2, l1⟩ := h
  obtain ⟨n1, n2, n3, n4⟩ := next_spec s.now t.prog t
  generalize next s.now t.prog t = tn at *
  refine ⟨?_, ?_, ?_, ?_, ?_, ?_, ?_, ?_, ?_, ?_, ?_, ?_, ?_, ?_⟩ <;> file_simp <;>
    simp only [ef, et, ew, ev, el, efa] <;> grind [inCS, swInCS]

theorem inv_req_acq (s : St) (i : Nat) (h : Inv s) (hpc : (s.thr i).pc = .acq) : Inv (stepReq s i) := by
  unfold stepReq
  simp only [hpc]
  cases hf : s.flock with
  | some a => simp only []; exact h
  | none =>
    simp only []
    have hnone : ∀ j, inCS (s.thr j).pc = false := by
      intro j
      cases hc : inCS (s.thr j).pc with
      | false => rfl
      | true => have := h.r1 j hc; rw [hf] at this; cases this
    have hnl : (s.thr i).loaded = true → (s.thr i).seen = s.version := by
      intro hl
      have := h.v1 i hl
      rw [hpc] at this
      simp [inCS] at this
    exact inv_next s { s with flock := some (.req i) } i (s.thr i) h rfl rfl rfl rfl rfl rfl (fun _ => rfl)
      (Or.inr ⟨hf, hnone⟩) hnl

theorem inv_req_openr (s : St) (i : Nat) (h : Inv s) (hpc : (s.thr i).pc = .openr) : Inv (stepReq s i) := by
  have hin : inCS (s.thr i).pc = true := by simp [hpc, inCS]
  have hfl := h.r1 i hin
  unfold stepReq
  simp only [hpc]
  split
  · have key := inv_next s s i { s.thr i with loaded := true, tmp := 0, seen := s.version } h hfl rfl rfl rfl
      rfl rfl (fun _ => rfl) (Or.inl hfl) (fun _ => rfl)
    simp only [hpc] at key
    exact key
  · obtain ⟨r1, r2, w1, w2, o1, o2, o3, v1, v4, v3, v2, e1, e2, l1⟩ := h
    file_close

theorem inv_req_load (s : St) (i : Nat) (h : Inv s) (hpc : (s.thr i).pc = .load) : Inv (stepReq s i) := by
  have hin : inCS (s.thr i).pc = true := by simp [hpc, inCS]
  have hfl := h.r1 i hin
  unfold stepReq
  simp only [hpc]
  have key := inv_next s s i { s.thr i with loaded := true, tmp := loadVal s, seen := s.version }
    h hfl rfl rfl rfl rfl rfl (fun _ => rfl) (Or.inl hfl) (fun _ => rfl)
  simp only [hpc] at key
  exact key

theorem inv_req_del (s : St) (i : Nat) (h : Inv s) (hpc : (s.thr i).pc = .del) : Inv (stepReq s i) := by
  have hin : inCS (s.thr i).pc = true := by simp [hpc, inCS]
  have hfl := h.r1 i hin
  unfold stepReq
  simp only [hpc]
  have hu : s.sw.pc = .unlink → ({ s with file := .absent } : St).file = s.file := by
    intro hu
    have := h.w1 (by simp [hu, swInCS])
    rw [hfl] at this
    cases this
  have key := inv_next s { s with file := .absent } i { s.thr i with loaded := false, tmp := 0 } h hfl rfl rfl rfl
    rfl rfl hu (Or.inl hfl) (fun hl => by cases hl)
  simp only [hpc] at key
  exact key

theorem inv_stepReq (s : St) (i : Nat) (h : Inv s) : Inv (stepReq s i) := by
  cases hpc : (s.thr i).pc
  case acq => exact inv_req_acq s i h hpc
  case openr => exact inv_req_openr s i h hpc
  case load => exact inv_req_load s i h hpc
  case del => exact inv_req_del s i h hpc
  all_goals
    obtain ⟨r1, r2, w1, w2, o1, o2, o3, v1, v4, v3, v2, e1, e2, l1⟩ := h
    unfold stepReq
    simp only [hpc]
  case init => file_close
  case gex => file_close
  case rdel => file_close
  case rrel => file_close
  case trunc => file_close
  case dump => file_close
  case rel => file_close
  all_goals exact ⟨r1, r2, w1, w2, o1, o2, o3, v1, v4, v3, v2, e1, e2, l1⟩

theorem inv_stepSweep (s : St) (h : Inv s) : Inv (stepSweep s) := by
  obtain ⟨r1, r2, w1, w2, o1, o2, o3, v1, v4, v3, v2, e1, e2, l1⟩ := h
  unfold stepSweep
  cases hpc : s.sw.pc <;> simp only [hpc]
  case list => split <;> file_close
  case acq => split <;> first | file_close | exact ⟨r1, r2, w1, w2, o1, o2, o3, v1, v4, v3, v2, e1, e2, l1⟩
  case openr => split <;> (try split) <;> file_close
  case load => split <;> (try split) <;> (try split) <;> (try split) <;> file_close
  case unlink => split <;> (try split) <;> file_close
  case rel => file_close
  case crashed => exact ⟨r1, r2, w1, w2, o1, o2, o3, v1, v4, v3, v2, e1, e2, l1⟩

theorem inv_step (s : St) (a : Actor) (h : Inv s) : Inv (step s a) := by
  cases a with
  | req i => exact inv_stepReq s i h
  | sweep => exact inv_stepSweep s h
  | tick d =>
    obtain ⟨r1, r2, w1, w2, o1, o2, o3, v1, v4, v3, v2, e1, e2, l1⟩ := h
    exact ⟨r1, r2, w1, w2, o1, o2, o3, v1, v4, v3, v2, e1, e2, l1⟩
  | expire i =>
    obtain ⟨r1, r2, w1, w2, o1, o2, o3, v1, v4, v3, v2, e1, e2, l1⟩ := h
    unfold step
    simp only []
    split
    · file_close
    · exact ⟨r1, r2, w1, w2, o1, o2, o3, v1, v4, v3, v2, e1, e2, l1⟩
  | fault k =>
    obtain ⟨r1, r2, w1, w2, o1, o2, o3, v1, v4, v3, v2, e1, e2, l1⟩ := h
    exact ⟨r1, r2, w1, w2, o1, o2, o3, v1, v4, v3, v2, e1, (fun hf => by cases hf), l1⟩

theorem inv_init (f : FileC) (to : Nat → Bool) (progs : List (List FOp)) : Inv (init f to progs) := by
  have hthr : ∀ i, ((init f to progs).thr i).pc = .init ∧ ((init f to progs).thr i).loaded = false := by
    intro i
    simp only [init]
    split <;> exact ⟨rfl, rfl⟩
  refine ⟨?_, ?_, ?_, ?_, ?_, ?_, ?_, ?_, ?_, ?_, ?_, ?_, ?_, ?_⟩
  · intro i hi; rw [(hthr i).1] at hi; simp [inCS] at hi
  · intro i hi; simp [init] at hi
  · intro hi; simp [init, swInCS] at hi
  · intro hi; simp [init] at hi
  · intro d; simp [init]
  · intro i; simp [init]
  · intro k; simp [init]
  · intro i hi; rw [(hthr i).2] at hi; cases hi
  · intro i hi; rw [(hthr i).2] at hi; cases hi
  · intro i hi; rw [(hthr i).1] at hi; simp at hi
  · intro hi; simp [init] at hi
  · intro hi; simp [init] at hi
  · intro _; simp [init]
  · simp [init]

theorem inv_run (s : St) (sched : List Actor) (h : Inv s) : Inv (run s sched) := by
  induction sched generalizing s with
  | nil => exact h
  | cons a rest ih => exact ih _ (inv_step s a h)

end File

/-- **C13_file_mutex.**  For any number of request threads / processes, the clean_up sweep, the clock,
    any schedule and any placement of lock-timeout expiries, from every initial file state:
    at most one request is between `acquire_lock` and `release_lock`, and none while the sweep is
    between its acquire and its release; no dump is based on an overtaken load and the sweep never
    unlinks a file that was written after its locked check; the sweep never raises unless a fault
    was injected; the lock is free whenever nobody is inside — in particular after a sweep that died of an
    injected fault (`crashed` is outside the sweep's locked region), and whatever the handler scripts
    (delete, regenerate inside the lock) are. -/
theorem C13_file_mutex (f : FileC) (to : Nat → Bool) (progs : List (List FOp)) (sched : List Actor) :
    let s := run (init f to progs) sched
    (∀ i j, inCS (s.thr i).pc = true → inCS (s.thr j).pc = true → i = j) ∧
    (swInCS s.sw.pc = true → ∀ i, inCS (s.thr i).pc = false) ∧
    s.lost = false ∧ (s.faulted = false → s.sw.pc ≠ .crashed) ∧
    ((∀ i, inCS (s.thr i).pc = false) → swInCS s.sw.pc = false → s.flock = none) := by
  intro s
  have h : File.Inv s := File.inv_run _ sched (File.inv_init f to progs)
  refine ⟨?_, ?_, h.l1, fun hf => (h.e2 hf).2.1, ?_⟩
  · intro i j hi hj
    have a := h.r1 i hi
    have b := h.r1 j hj
    rw [a] at b
    injection b with b
    injection b
  · intro hs i
    have a := h.w1 hs
    cases hc : inCS (s.thr i).pc with
    | false => rfl
    | true =>
      have b := h.r1 i hc
      rw [a] at b
      injection b with b
      cases b
  · intro hall hsw
    cases hf : s.flock with
    | none => rfl
    | some a =>
      cases a with
      | req i => have := h.r2 i hf; rw [hall i] at this; cases this
      | sweep => have := h.w2 hf; rw [hsw] at this; cases this
      | tick d => exact absurd hf (h.o1 d)
      | expire i => exact absurd hf (h.o2 i)
      | fault k => exact absurd hf (h.o3 k)

/-- **C13_file_ops_locked.**  Every destructive or mutating file operation (truncate, dump, unlink)
    is executed by the actor that holds the session's file lock. -/
theorem C13_file_ops_locked (f : FileC) (to : Nat → Bool) (progs : List (List FOp)) (sched : List Actor) :
    let s := run (init f to progs) sched
    (∀ i, ((s.thr i).pc = .trunc ∨ (s.thr i).pc = .dump ∨ (s.thr i).pc = .del ∨ (s.thr i).pc = .rdel) →
      s.flock = some (.req i)) ∧
    (s.sw.pc = .unlink → s.flock = some .sweep) := by
  intro s
  have h : File.Inv s := File.inv_run _ sched (File.inv_init f to progs)
  constructor
  · intro i hp
    apply h.r1 i
    rcases hp with hp | hp | hp | hp <;> simp [hp, inCS]
  · intro hp
    apply h.w1
    simp [hp, swInCS]

/-- non-vacuity: two requests and the sweep really contend on an expired session; request 1 has a
    lock timeout that fires -/
example :
    let s := run (init (.data 5 0) (fun i => i == 1))
      [.tick 3, .req 0, .req 1, .sweep, .sweep, .req 0, .expire 1, .sweep, .sweep, .sweep, .sweep, .req 0, .req 0]
    (s.thr 1).pc = .failed ∧ s.file = .absent ∧ s.sw.pc = .list ∧ (s.thr 0).pc = .trunc ∧
    s.flock = some (.req 0) := by decide

/-- non-vacuity of the fault clause: the sweep holds the lock of an expired session, its `os.unlink` fails,
    the exception leaves `clean_up` through the `finally`: the sweep is dead and the lock is free; a
    request that deletes and goes on working keeps the lock until its save -/
example :
    let s := run (init (.data 5 0) (fun _ => false) [[.rmw, .delete, .rmw], [.rmw]])
      [.tick 3, .req 0, .req 1, .fault 2, .sweep, .sweep, .sweep, .sweep, .sweep, .sweep,
       .req 0, .req 0, .req 0, .req 0, .req 1]
    s.sw.pc = .crashed ∧ s.faulted = true ∧ (s.thr 0).pc = .openr ∧ s.file = .absent ∧
    s.flock = some (.req 0) ∧ enabled s (.req 1) = false := by decide

end CpProofs.C13
