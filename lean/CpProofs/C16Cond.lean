import CpModel.Validators
import CpProofs.C16
/-!
  C16, conditional part: the validator decision table.

  What each header dictates, read from the statement ("compared for equality with the current
  ones"):
    * `sinceFails`  If-Unmodified-Since present and ≠ the current Last-Modified        → 412
    * `sinceHolds`  If-Modified-Since present and = the current Last-Modified           → not modified
    * `imFails`     If-Match present, not `*`, current ETag not among the tags        → 412
    * `inmMatches`  If-None-Match is `*` or lists the current ETag                      → not modified
  "not modified" is 304 for GET/HEAD and 412 for every other method.

  `validateSince_table` / `validateEtags_table` show the two functions ARE that table (with the
  status guards); `respond_file_table` / `respond_gen_table` flatten the whole request (handler,
  exceptions, before_finalize tool, finalize, HEAD) into one table with the code's precedence
  If-Unmodified-Since > If-Modified-Since > Range(416) > If-Match > If-None-Match; the corollaries
  are the statement: 304/412 exactly when dictated, the full (or ranged) entity otherwise, 304 only
  for GET/HEAD and never with a body or entity headers.
-/
namespace CpProofs.C16
open CpModel.Ranges CpModel.Validators CpModel.Gen.C16

def sinceFails (lm ius : Option Text) : Bool := truthy lm && truthy ius && ius != lm
def sinceHolds (lm ims : Option Text) : Bool := truthy lm && truthy ims && ims == lm
def imFails (etag : Option Text) (im : List Text) : Bool :=
  !im.isEmpty && !(im == [star] || etagIn etag im)
def inmMatches (etag : Option Text) (inm : List Text) : Bool := inm == [star] || etagIn etag inm
def nmVerdict (getHead : Bool) : Verdict := if getHead then .notModified else .precondFailed

/-! ### the two functions are the table -/

theorem validateSince_table (lm : Option Text) (st : Nat) (h2 : is2xx st = true) (gh : Bool)
    (ius ims : Option Text) :
    validateSince lm st gh ius ims =
      if sinceFails lm ius then .precondFailed
      else if sinceHolds lm ims then nmVerdict gh else .pass := by
  unfold validateSince sinceFails sinceHolds nmVerdict
  cases hl : truthy lm <;> simp [h2]

/-- no Last-Modified, no validation -/
theorem validateSince_no_lastmod (lm : Option Text) (hl : truthy lm = false) (st : Nat) (gh : Bool)
    (ius ims : Option Text) : validateSince lm st gh ius ims = .pass := by
  simp [validateSince, hl]

/-- the status guards: a response that is neither 2xx nor 412 / 304 is left alone -/
theorem validateSince_guard (lm : Option Text) (st : Nat) (h2 : is2xx st = false)
    (h412 : st ≠ 412) (h304 : st ≠ 304) (gh : Bool) (ius ims : Option Text) :
    validateSince lm st gh ius ims = .pass := by
  simp [validateSince, h2, h412, h304]

theorem validateEtags_table (etag : Option Text) (st : Nat) (h2 : is2xx st = true) (gh : Bool)
    (im inm : List Text) :
    validateEtags etag st gh im inm =
      if imFails etag im then .precondFailed
      else if inmMatches etag inm then nmVerdict gh else .pass := by
  simp [validateEtags, h2, imFails, inmMatches, nmVerdict]

theorem validateEtags_non2xx (etag : Option Text) (st : Nat) (h2 : is2xx st = false) (gh : Bool)
    (im inm : List Text) : validateEtags etag st gh im inm = .pass := by
  simp [validateEtags, h2]

/-- absent headers dictate nothing -/
theorem absent_headers_pass (lm etag : Option Text) (st : Nat) (gh : Bool) :
    validateSince lm st gh none none = .pass ∧ validateEtags etag st gh [] [] = .pass := by
  constructor
  · simp [validateSince, truthy]
  · cases etag <;> simp [validateEtags, etagIn]

/-- `*` : If-Match passes whatever the ETag, If-None-Match matches whatever the ETag -/
theorem star_semantics (etag : Option Text) :
    imFails etag [star] = false ∧ inmMatches etag [star] = true := by
  simp [imFails, inmMatches]

/-- equality comparison: a weak tag never matches its strong form and vice versa -/
theorem weak_is_not_equal (e : Text) :
    etagIn (some e) ['W' :: '/' :: e] = false ∧ etagIn (some ('W' :: '/' :: e)) [e] = false := by
  have h1 : e ≠ 'W' :: '/' :: e := by
    intro h
    have := congrArg List.length h
    simp only [List.length_cons] at this
    omega
  constructor
  · simp [etagIn, h1]
  · simp [etagIn, h1.symm]

/-- without a current ETag only `*` can satisfy If-Match, and only `*` matches If-None-Match -/
theorem no_etag (conds : List Text) :
    imFails none conds = (!conds.isEmpty && !(conds == [star])) ∧
    inmMatches none conds = (conds == [star]) := by
  simp [imFails, inmMatches, etagIn]

/-! ### the whole request as one table -/

theorem etagPhase_table (r : Req) (st : Nat) (h2 : is2xx st = true) (ok : Option Text → Resp) :
    etagPhase r st ok =
      if r.etagsOn && imFails (etagOf r st) r.im then
        finish r (conditionalResp .precondFailed (etagOf r st))
      else if r.etagsOn && inmMatches (etagOf r st) r.inm then
        finish r (conditionalResp (nmVerdict r.getHead) (etagOf r st))
      else finish r (ok (etagOf r st)) := by
  unfold etagPhase
  cases he : r.etagsOn
  · simp
  · simp only [if_true, Bool.true_and]
    rw [validateEtags_table _ _ h2]
    by_cases h1 : imFails (etagOf r st) r.im = true
    · simp [h1]
    · by_cases h3 : inmMatches (etagOf r st) r.inm = true
      · cases hg : r.getHead <;> simp [h1, h3, nmVerdict]
      · simp [h1, h3]

theorem etagPhase_non2xx (r : Req) (st : Nat) (h2 : is2xx st = false) (ok : Option Text → Resp) :
    etagPhase r st ok = finish r (ok (etagOf r st)) := by
  unfold etagPhase
  cases he : r.etagsOn <;> simp [validateEtags_non2xx _ _ h2]

/-- the flat decision table for a served file -/
def fileTable (r : Req) : Resp :=
  if sinceFails r.lastmod r.ius then finish r (conditionalResp .precondFailed r.handlerEtag)
  else if sinceHolds r.lastmod r.ims then
    finish r (conditionalResp (nmVerdict r.getHead) r.handlerEtag)
  else
    let s := serveFileobj r.proto11 r.lenKnown r.range r.content
    let e := etagOf r (servedStatus s)
    if servedStatus s = 416 then finish r (servedResp s none)
    else if r.etagsOn && imFails e r.im then finish r (conditionalResp .precondFailed e)
    else if r.etagsOn && inmMatches e r.inm then finish r (conditionalResp (nmVerdict r.getHead) e)
    else finish r (servedResp s e)

theorem nmVerdict_ne_pass (gh : Bool) : nmVerdict gh ≠ .pass := by
  cases gh <;> simp [nmVerdict]

/-- **C16_validators (file resources).**  The whole request — `serve_file` raising 304 / 412 / 416
    out of the handler, `tools.etags` in before_finalize, finalize, HEAD — equals the flat table. -/
theorem respond_file_table (r : Req) (hk : r.kind = .file) : respond r = fileTable r := by
  unfold respond handler fileTable
  simp only [hk]
  rw [validateSince_table r.lastmod 200 (by decide)]
  by_cases h1 : sinceFails r.lastmod r.ius = true
  · simp [h1]
  · by_cases h3 : sinceHolds r.lastmod r.ims = true
    · cases hg : r.getHead <;> simp [h1, h3, nmVerdict]
    · simp only [h1, h3, Bool.false_eq_true, if_false]
      cases hs : serveFileobj r.proto11 r.lenKnown r.range r.content with
      | unsat total => simp [servedStatus]
      | whole ar clen body =>
        simp only [servedStatus]
        rw [etagPhase_table r 200 (by decide)]
        simp
      | single a b total clen body =>
        simp only [servedStatus]
        rw [etagPhase_table r 206 (by decide)]
        simp
      | multi ps =>
        simp only [servedStatus]
        rw [etagPhase_table r 206 (by decide)]
        simp

/-- the flat table for a handler-generated body that answers 2xx -/
def genTable (r : Req) : Resp :=
  if r.callSince && sinceFails r.lastmod r.ius then
    finish r (conditionalResp .precondFailed r.handlerEtag)
  else if r.callSince && sinceHolds r.lastmod r.ims then
    finish r (conditionalResp (nmVerdict r.getHead) r.handlerEtag)
  else
    let e := etagOf r r.baseStatus
    if r.etagsOn && imFails e r.im then finish r (conditionalResp .precondFailed e)
    else if r.etagsOn && inmMatches e r.inm then finish r (conditionalResp (nmVerdict r.getHead) e)
    else finish r (plainResp r r.baseStatus e)

/-- **C16_validators (handler-generated bodies).** -/
theorem respond_gen_table (r : Req) (hk : r.kind = .gen) (h2 : is2xx r.baseStatus = true) :
    respond r = genTable r := by
  unfold respond handler genTable
  simp only [hk]
  cases hc : r.callSince
  · simp only [Bool.false_eq_true, if_false, Bool.false_and]
    rw [etagPhase_table r _ h2]
  · simp only [if_true, Bool.true_and]
    rw [validateSince_table r.lastmod _ h2]
    by_cases h1 : sinceFails r.lastmod r.ius = true
    · simp [h1]
    · by_cases h3 : sinceHolds r.lastmod r.ims = true
      · cases hg : r.getHead <;> simp [h1, h3, nmVerdict]
      · simp only [h1, h3, Bool.false_eq_true, if_false]
        rw [etagPhase_table r _ h2]

/-- a handler answer outside 2xx / 304 / 412 is never touched by the validators -/
theorem respond_gen_non2xx (r : Req) (hk : r.kind = .gen) (h2 : is2xx r.baseStatus = false)
    (h412 : r.baseStatus ≠ 412) (h304 : r.baseStatus ≠ 304) :
    respond r = finish r (plainResp r r.baseStatus (etagOf r r.baseStatus)) := by
  unfold respond handler
  simp only [hk]
  cases hc : r.callSince
  · simp [etagPhase_non2xx r _ h2]
  · simp [validateSince_guard r.lastmod _ h2 h412 h304, etagPhase_non2xx r _ h2]

/-! ### the statement, read off the table -/

@[simp] theorem finish_status (r : Req) (x : Resp) : (finish r x).status = x.status := by
  unfold finish; split <;> rfl

theorem conditionalResp_status (v : Verdict) (e : Option Text) :
    (conditionalResp v e).status = if v = .notModified then 304 else 412 := by
  cases v <;> simp [conditionalResp]

theorem servedResp_status (s : Served) (e : Option Text) : (servedResp s e).status = servedStatus s := by
  cases s <;> simp [servedResp, servedStatus]

theorem servedStatus_cases (s : Served) : servedStatus s = 200 ∨ servedStatus s = 206 ∨ servedStatus s = 416 := by
  cases s <;> simp [servedStatus]

/-- does any of the four headers dictate something, for a served file?  (`e` is the current ETag) -/
def dictatedFile (r : Req) : Bool :=
  sinceFails r.lastmod r.ius || sinceHolds r.lastmod r.ims ||
    (let s := serveFileobj r.proto11 r.lenKnown r.range r.content
     let e := etagOf r (servedStatus s)
     servedStatus s != 416 && r.etagsOn && (imFails e r.im || inmMatches e r.inm))

/-- the status column of the flat table -/
def statusTable (r : Req) : Nat :=
  if sinceFails r.lastmod r.ius then 412
  else if sinceHolds r.lastmod r.ims then (if r.getHead then 304 else 412)
  else
    let st := servedStatus (serveFileobj r.proto11 r.lenKnown r.range r.content)
    let e := etagOf r st
    if st = 416 then 416
    else if r.etagsOn && imFails e r.im then 412
    else if r.etagsOn && inmMatches e r.inm then (if r.getHead then 304 else 412)
    else st

theorem file_status_table (r : Req) (hk : r.kind = .file) : (respond r).status = statusTable r := by
  rw [respond_file_table r hk]
  unfold fileTable statusTable
  by_cases h1 : sinceFails r.lastmod r.ius = true
  · simp [h1, conditionalResp]
  · by_cases h3 : sinceHolds r.lastmod r.ims = true
    · cases hg : r.getHead <;> simp [h1, h3, nmVerdict, conditionalResp]
    · simp only [h1, h3, Bool.false_eq_true, ↓reduceIte]
      generalize serveFileobj r.proto11 r.lenKnown r.range r.content = s
      by_cases h4 : servedStatus s = 416
      · simp [h4, servedResp_status]
      · by_cases h5 : (r.etagsOn && imFails (etagOf r (servedStatus s)) r.im) = true
        · simp [h4, h5, conditionalResp]
        · by_cases h6 : (r.etagsOn && inmMatches (etagOf r (servedStatus s)) r.inm) = true
          · cases hg : r.getHead <;> simp [h4, h5, h6, nmVerdict, conditionalResp]
          · simp [h4, h5, h6, servedResp_status]

/-- **304 / 412 exactly when the validators dictate** (file resources). -/
theorem file_conditional_iff_dictated (r : Req) (hk : r.kind = .file) :
    ((respond r).status = 304 ∨ (respond r).status = 412) ↔ dictatedFile r = true := by
  rw [file_status_table r hk]
  unfold statusTable dictatedFile
  simp only []
  have hs := servedStatus_cases (serveFileobj r.proto11 r.lenKnown r.range r.content)
  generalize servedStatus (serveFileobj r.proto11 r.lenKnown r.range r.content) = n at hs ⊢
  generalize sinceFails r.lastmod r.ius = a
  generalize sinceHolds r.lastmod r.ims = b
  generalize imFails (etagOf r n) r.im = d
  generalize inmMatches (etagOf r n) r.inm = f
  generalize r.etagsOn = c
  generalize r.getHead = g
  rcases hs with rfl | rfl | rfl <;> cases a <;> cases b <;> cases c <;> cases d <;> cases f <;> cases g <;> decide

/-- **…and the full (or ranged) entity otherwise**: with nothing dictated the answer is exactly what
    `_serve_fileobj` prepared (200 whole / 206 slice(s) / 416), see `ranges_conform`. -/
theorem file_not_dictated_full (r : Req) (hk : r.kind = .file) (hd : dictatedFile r = false) :
    respond r = finish r (servedResp (serveFileobj r.proto11 r.lenKnown r.range r.content)
      (if servedStatus (serveFileobj r.proto11 r.lenKnown r.range r.content) = 416 then none
       else etagOf r (servedStatus (serveFileobj r.proto11 r.lenKnown r.range r.content)))) := by
  rw [respond_file_table r hk]
  unfold fileTable
  unfold dictatedFile at hd
  simp only [Bool.or_eq_false_iff] at hd
  obtain ⟨⟨h1, h3⟩, h4⟩ := hd
  simp only [h1, h3, Bool.false_eq_true, if_false]
  generalize serveFileobj r.proto11 r.lenKnown r.range r.content = s at h4 ⊢
  by_cases h416 : servedStatus s = 416
  · simp [h416]
  · simp only [h416, if_false]
    have hne : (servedStatus s != 416) = true := by simpa using h416
    simp only [hne, Bool.true_and] at h4
    cases he : r.etagsOn
    · simp
    · simp only [he, Bool.true_and, Bool.or_eq_false_iff] at h4
      simp [h4.1, h4.2]

/-- a 304 is only ever sent for GET / HEAD (file resources) -/
theorem file_304_getHead (r : Req) (hk : r.kind = .file) (h : (respond r).status = 304) :
    r.getHead = true := by
  rw [respond_file_table r hk] at h
  unfold fileTable at h
  cases hg : r.getHead
  · exfalso
    simp only [hg, nmVerdict, Bool.false_eq_true, if_false] at h
    generalize serveFileobj r.proto11 r.lenKnown r.range r.content = s at h
    have hs := servedStatus_cases s
    repeat' split at h
    all_goals simp [conditionalResp, servedResp_status] at h
    all_goals omega
  · rfl

/-- 412 for a file only when a precondition failed, or a "not modified" on a method other than GET/HEAD -/
theorem file_412_reason (r : Req) (hk : r.kind = .file) (h : (respond r).status = 412) :
    sinceFails r.lastmod r.ius = true ∨ (sinceHolds r.lastmod r.ims = true ∧ r.getHead = false) ∨
    (r.etagsOn = true ∧
      let e := etagOf r (servedStatus (serveFileobj r.proto11 r.lenKnown r.range r.content))
      (imFails e r.im = true ∨ (inmMatches e r.inm = true ∧ r.getHead = false))) := by
  rw [respond_file_table r hk] at h
  unfold fileTable at h
  by_cases h1 : sinceFails r.lastmod r.ius = true
  · exact Or.inl h1
  · by_cases h3 : sinceHolds r.lastmod r.ims = true
    · cases hg : r.getHead
      · exact Or.inr (Or.inl ⟨h3, rfl⟩)
      · simp [h1, h3, hg, nmVerdict, conditionalResp] at h
    · simp only [h1, h3, Bool.false_eq_true, if_false] at h
      generalize serveFileobj r.proto11 r.lenKnown r.range r.content = s at h ⊢
      have hs := servedStatus_cases s
      by_cases h4 : servedStatus s = 416
      · simp [h4, servedResp_status] at h
      · simp only [h4, if_false] at h
        by_cases h5 : (r.etagsOn && imFails (etagOf r (servedStatus s)) r.im) = true
        · simp only [Bool.and_eq_true] at h5
          exact Or.inr (Or.inr ⟨h5.1, Or.inl h5.2⟩)
        · simp only [h5, Bool.false_eq_true, if_false] at h
          by_cases h6 : (r.etagsOn && inmMatches (etagOf r (servedStatus s)) r.inm) = true
          · simp only [Bool.and_eq_true] at h6
            cases hg : r.getHead
            · exact Or.inr (Or.inr ⟨h6.1, Or.inr ⟨h6.2, rfl⟩⟩)
            · simp [h6.1, h6.2, hg, nmVerdict, conditionalResp] at h
          · simp only [h6, Bool.false_eq_true, if_false, finish_status, servedResp_status] at h
            omega

/-- **A 304 carries no body** — and no Content-Range / Content-Length — for every request of the
    model (any kind, any base status, any headers). -/
theorem respond_304_no_body (r : Req) (h : (respond r).status = 304) :
    (respond r).body = .empty ∧ (respond r).contentRange = none ∧ (respond r).contentLength = none := by
  have key : ∀ x : Resp, (x.status = 304 → x.body = .empty ∧ x.contentRange = none ∧ x.contentLength = none) →
      (finish r x).status = 304 →
      (finish r x).body = .empty ∧ (finish r x).contentRange = none ∧ (finish r x).contentLength = none := by
    intro x hx hf
    rw [finish_status] at hf
    have := hx hf
    unfold finish
    split
    · exact ⟨rfl, this.2.1, this.2.2⟩
    · exact this
  have hcond : ∀ v e, (conditionalResp v e).status = 304 →
      (conditionalResp v e).body = .empty ∧ (conditionalResp v e).contentRange = none ∧
      (conditionalResp v e).contentLength = none := by
    intro v e hv
    cases v <;> simp_all [conditionalResp]
  have hserved : ∀ s e, (servedResp s e).status = 304 →
      (servedResp s e).body = .empty ∧ (servedResp s e).contentRange = none ∧
      (servedResp s e).contentLength = none := by
    intro s e hv
    cases s <;> simp [servedResp] at hv
  have hplain : ∀ st e, (plainResp r st e).status = 304 →
      (plainResp r st e).body = .empty ∧ (plainResp r st e).contentRange = none ∧
      (plainResp r st e).contentLength = none := by
    intro st e hv
    by_cases hn : noBodyStatus st = true
    · simp [plainResp, hn]
    · simp [plainResp, hn] at hv
      subst hv
      simp [noBodyStatus] at hn
  have hphase : ∀ st (ok : Option Text → Resp),
      (∀ e, (ok e).status = 304 → (ok e).body = .empty ∧ (ok e).contentRange = none ∧ (ok e).contentLength = none) →
      (etagPhase r st ok).status = 304 →
      (etagPhase r st ok).body = .empty ∧ (etagPhase r st ok).contentRange = none ∧
      (etagPhase r st ok).contentLength = none := by
    intro st ok hok
    unfold etagPhase
    simp only []
    split
    · exact key _ (hok _)
    · exact key _ (hcond _ _)
    · exact key _ (hcond _ _)
  revert h
  unfold respond
  split
  · exact key _ (hcond _ _)
  · exact key _ (hserved _ _)
  · exact hphase _ _ (hserved _)
  · exact hphase _ _ (hplain _)

/-- no conditional headers at all: the validators never interfere, whatever the resource -/
theorem respond_unconditional_file (r : Req)
    (h1 : r.im = []) (h2 : r.inm = []) (h3 : r.ims = none) (h4 : r.ius = none) :
    dictatedFile r = false := by
  unfold dictatedFile
  simp [sinceFails, sinceHolds, imFails, inmMatches, truthy, h1, h2, h3, h4, etagIn]
  intro _ _
  cases etagOf r (servedStatus (serveFileobj r.proto11 r.lenKnown r.range r.content)) <;> simp

/-- HEAD never carries a body -/
theorem head_no_body (r : Req) (hh : r.isHead = true) : (respond r).body = .empty := by
  have key : ∀ x, (finish r x).body = .empty := by intro x; simp [finish, hh]
  unfold respond
  split
  · exact key _
  · exact key _
  · unfold etagPhase; simp only []; split <;> exact key _
  · unfold etagPhase; simp only []; split <;> exact key _

/-- **End to end.**  A file on HTTP/1.1 whose validators dictate nothing, asked with any header of the
    byte-range grammar, answers exactly what the statement prescribes for those specs. -/
theorem file_range_end_to_end (r : Req) (hk : r.kind = .file) (h11 : r.proto11 = true)
    (hl : r.lenKnown = true) (hd : dictatedFile r = false) (h : Header) (wf : h.WF)
    (hr : r.range = some h.render) :
    respond r = finish r (servedResp (specServe (h.items.map PSpec.spec) r.content)
      (if servedStatus (specServe (h.items.map PSpec.spec) r.content) = 416 then none
       else etagOf r (servedStatus (specServe (h.items.map PSpec.spec) r.content)))) := by
  have := file_not_dictated_full r hk hd
  rw [h11, hl, hr, ranges_conform h wf r.content] at this
  exact this

/-- **HTTP/1.0 requests always get the whole entity** (when no validator dictates otherwise),
    whatever the Range header says. -/
theorem file_http10_whole_entity (r : Req) (hk : r.kind = .file) (h10 : r.proto11 = false)
    (hd : dictatedFile r = false) (hh : r.isHead = false) :
    (respond r).status = 200 ∧ (respond r).body = .bytes r.content ∧
      (respond r).contentRange = none ∧ (respond r).contentLength = some r.content.length := by
  have := file_not_dictated_full r hk hd
  rw [h10, http10_whole] at this
  rw [this]
  simp [finish, hh, servedResp, servedStatus]

/-- does any header dictate something, for a handler-generated 200? -/
def dictatedGen (r : Req) : Bool :=
  (r.callSince && (sinceFails r.lastmod r.ius || sinceHolds r.lastmod r.ims)) ||
  (r.etagsOn && (imFails (etagOf r 200) r.im || inmMatches (etagOf r 200) r.inm))

/-- 304 / 412 exactly when dictated (handler-generated 200 with autotags or its own validators) -/
theorem gen_conditional_iff_dictated (r : Req) (hk : r.kind = .gen) (h200 : r.baseStatus = 200) :
    ((respond r).status = 304 ∨ (respond r).status = 412) ↔ dictatedGen r = true := by
  rw [respond_gen_table r hk (by rw [h200]; decide)]
  unfold genTable dictatedGen
  simp only [h200]
  generalize sinceFails r.lastmod r.ius = a
  generalize sinceHolds r.lastmod r.ims = b
  generalize imFails (etagOf r 200) r.im = d
  generalize inmMatches (etagOf r 200) r.inm = f
  generalize r.etagsOn = c
  generalize r.callSince = k
  generalize hg : r.getHead = g
  cases a <;> cases b <;> cases c <;> cases d <;> cases f <;> cases g <;> cases k <;>
    simp [conditionalResp, nmVerdict, plainResp, noBodyStatus]

/-- …and the full 200 otherwise -/
theorem gen_not_dictated_full (r : Req) (hk : r.kind = .gen) (h200 : r.baseStatus = 200)
    (hd : dictatedGen r = false) (hh : r.isHead = false) :
    respond r = ⟨200, none, some r.content.length, etagOf r 200, .bytes r.content⟩ := by
  rw [respond_gen_table r hk (by rw [h200]; decide)]
  unfold genTable
  unfold dictatedGen at hd
  simp only [h200]
  simp only [Bool.or_eq_false_iff, Bool.and_eq_false_iff] at hd
  obtain ⟨h1, h2⟩ := hd
  have e1 : (r.callSince && sinceFails r.lastmod r.ius) = false := by
    rcases h1 with h | h
    · simp [h]
    · simp [h.1]
  have e2 : (r.callSince && sinceHolds r.lastmod r.ims) = false := by
    rcases h1 with h | h
    · simp [h]
    · simp [h.2]
  have e3 : (r.etagsOn && imFails (etagOf r 200) r.im) = false := by
    rcases h2 with h | h
    · simp [h]
    · simp [h.1]
  have e4 : (r.etagsOn && inmMatches (etagOf r 200) r.inm) = false := by
    rcases h2 with h | h
    · simp [h]
    · simp [h.2]
  simp [e1, e2, e3, e4, finish, hh, plainResp, noBodyStatus]

/-! ### obligations over the tables regenerated from the live modules -/

/-- every RFC 2616 §7.1 entity header is stripped from a 304 by `HTTPRedirect.set_response` -/
theorem entity_headers_stripped_304 :
    ∀ h ∈ ["Allow", "Content-Encoding", "Content-Language", "Content-Length", "Content-Location",
           "Content-MD5", "Content-Range", "Content-Type", "Expires", "Last-Modified"],
      h ∈ stripped304 := by decide

/-- …while the validator and caching headers a 304 must keep survive -/
theorem validator_headers_kept_304 :
    ∀ h ∈ ["ETag", "Date", "Cache-Control", "Vary"], h ∈ kept304 := by decide

/-- `clean_headers` keeps Content-Range on 416 and only there (the model's `servedResp`/`conditionalResp`) -/
theorem content_range_kept_only_416 :
    ∀ p ∈ errorKeepsContentRange, p.2 = (p.1 == 416) := by decide

/-- the method split of the model (`getHead`) is the code's: 304 for exactly GET and HEAD -/
theorem not_modified_methods : notModifiedMethods = ["GET", "HEAD"] := by decide

/-! ### non-vacuity: concrete requests through the table -/

def reqExample : Req :=
  { kind := .file, getHead := true, isHead := false, proto11 := true, lenKnown := true,
    baseStatus := 200, callSince := false, etagsOn := true, autotags := true, handlerEtag := none,
    autoTag := "\"t\"".toList, lastmod := some "D".toList, im := [], inm := ["\"t\"".toList],
    ims := none, ius := none, range := none, content := [1, 2, 3] }

example : (respond reqExample).status = 304 := by decide
example : dictatedFile { reqExample with inm := [] } = false := by decide
example : dictatedGen { reqExample with kind := .gen, callSince := true, inm := [] } = false := by decide
example : dictatedFile reqExample = true := by decide
example : (respond { reqExample with getHead := false }).status = 412 := by decide
example : (respond { reqExample with inm := ["W/\"t\"".toList] }).status = 200 := by decide
example : (respond { reqExample with inm := [], range := some "bytes=1-1".toList }) =
    ⟨206, some (some (1, 1), 3), some 1, none, .bytes [2]⟩ := by decide
example : (respond { reqExample with inm := [], ius := some "E".toList }).status = 412 := by decide
example : (respond { reqExample with inm := [], range := some "bytes=5-".toList }).status = 416 := by decide

end CpProofs.C16
