import CpModel.Reader
import CpModel.Cursor
/-!
  Lemmas for C05: the socket loop, `read`, `readline`, `readlines` of the SizedReader model each
  satisfy a post-condition phrased over the abstraction `rest` (undelivered bytes of the declared body).
-/
namespace CpProofs.C05
open CpModel.Reader CpModel.Cursor

theorem fpCount_le (s : St) (n : Nat) : fpCount s n ≤ n := by
  unfold fpCount; split <;> omega

theorem fpCount_le_src (s : St) (n : Nat) : fpCount s n ≤ s.src.length := by
  unfold fpCount; omega

theorem fpCount_pos (s : St) (n : Nat) (hn : 0 < n) (hs : 0 < s.src.length) : 0 < fpCount s n := by
  unfold fpCount; split <;> omega

theorem fpRead_cases (s : St) (n : Nat) :
    (fpRead s n = (none, s) ∧ s.failAt = some 0) ∨
    (fpRead s n = (some (s.src.take (fpCount s n)),
        { s with src := s.src.drop (fpCount s n), frag := s.frag.tail, off := s.off + fpCount s n,
                 failAt := s.failAt.map (· - 1) })) := by
  unfold fpRead
  split
  · left; simp_all
  · right; rfl

theorem take_isEmpty {α} (l : List α) (k : Nat) (h : k ≤ l.length) :
    (l.take k).isEmpty = decide (k = 0) := by
  cases k with
  | zero => simp
  | succ k => cases l with
    | nil => simp at h
    | cons a l => simp

def loopK (rem : Option Nat) (n : Nat) : Nat := match rem with | none => n | some r => min r n
def loopEof (rem : Option Nat) (n : Nat) : Bool := match rem with | none => true | some r => decide (n < r)

def LoopPost (cfg : Cfg) (s : St) (rem : Option Nat) (acc : Bytes) (p : Res Bytes × St) : Prop :=
  ∃ d, p.2.off = s.off + d ∧ p.2.bytesRead = s.bytesRead + d ∧ p.2.buffer = s.buffer ∧
    p.2.src = s.src.drop d ∧ d ≤ loopK rem s.src.length ∧
    p.2.failAt.isSome = s.failAt.isSome ∧
    p.1 ≠ .fuel ∧
    (p.1 = .err413 → over cfg p.2.bytesRead = true ∨ s.failAt.isSome = true) ∧
    (∀ x, p.1 = .ok x → x = acc ++ s.src.take d ∧ d = loopK rem s.src.length ∧
        p.2.done = (s.done || loopEof rem s.src.length) ∧
        (over cfg p.2.bytesRead = false ∨ d = 0))

theorem readLoop_post (cfg : Cfg) (hb : 1 ≤ cfg.bufsize) :
    ∀ fuel s rem acc, s.src.length < fuel → LoopPost cfg s rem acc (readLoop cfg fuel s rem acc) := by
  intro fuel
  induction fuel with
  | zero => intro s rem acc h; omega
  | succ fuel ih =>
    intro s rem acc hf
    simp only [readLoop]
    by_cases h0 : rem = some 0
    · subst h0
      refine ⟨0, ?_⟩
      simp [loopK, loopEof]
    · simp only [h0, if_false]
      have hchunk : 0 < chunkOf cfg rem := by
        unfold chunkOf
        cases rem with
        | none => simp; omega
        | some r => have : r ≠ 0 := fun h => h0 (by rw [h]); simp; omega
      have hcle : ∀ r, rem = some r → chunkOf cfg rem ≤ r := by
        intro r hr; subst hr; simp [chunkOf]; omega
      generalize chunkOf cfg rem = chunk at *
      rcases fpRead_cases s chunk with ⟨h, hfa⟩ | h
      · rw [h]
        refine ⟨0, ?_⟩
        simp [hfa]
      · rw [h]
        have hk1 := fpCount_le s chunk
        have hk2 := fpCount_le_src s chunk
        have hk3 := fpCount_pos s chunk hchunk
        generalize fpCount s chunk = k at *
        simp only [take_isEmpty _ _ hk2]
        by_cases hk : k = 0
        · subst hk
          have hsrc : s.src.length = 0 := by
            rcases Nat.eq_zero_or_pos s.src.length with h | h
            · exact h
            · have := hk3 h; omega
          refine ⟨0, ?_⟩
          have hK : loopK rem s.src.length = 0 := by
            unfold loopK; cases rem <;> simp [hsrc]
          have hE : loopEof rem s.src.length = true := by
            unfold loopEof
            cases rem with
            | none => rfl
            | some r => have : r ≠ 0 := fun h => h0 (by rw [h]); simp [hsrc]; omega
          simp [finish, hK, hE]
        · simp only [hk, decide_false, Bool.false_eq_true, if_false]
          have hlen : (s.src.take k).length = k := by simp; omega
          simp only [hlen]
          have hkK : k ≤ loopK rem s.src.length := by
            unfold loopK
            cases rem with
            | none => simpa using hk2
            | some r => have := hcle r rfl; simp; omega
          by_cases hov : over cfg (s.bytesRead + k) = true
          · rw [if_pos hov]
            refine ⟨k, ?_⟩
            simp [hov, hkK]
          · rw [if_neg hov]
            have := ih { src := s.src.drop k, frag := s.frag.tail, failAt := s.failAt.map (· - 1),
                         off := s.off + k, buffer := s.buffer, bytesRead := s.bytesRead + k, done := s.done, fins := s.fins }
                       (rem.map (· - k)) (acc ++ s.src.take k) (by simp; omega)
            obtain ⟨d, h1, h2, h3, h4, h5, h6, h7, h8, h9⟩ := this
            refine ⟨k + d, ?_⟩
            simp only at h1 h2 h3 h4 h5 h6 h8 h9
            have hK' : loopK (rem.map (· - k)) (s.src.drop k).length = loopK rem s.src.length - k := by
              unfold loopK
              cases rem with
              | none => simp
              | some r => simp; omega
            have hE' : loopEof (rem.map (· - k)) (s.src.drop k).length = loopEof rem s.src.length := by
              unfold loopEof
              cases rem with
              | none => rfl
              | some r => have := hcle r rfl; simp; omega
            rw [hK'] at h5 h9
            rw [hE'] at h9
            refine ⟨by omega, by omega, h3, ?_, by omega, ?_, h7, ?_, ?_⟩
            · rw [h4, List.drop_drop]
            · rw [h6]; cases s.failAt <;> simp
            · intro he
              rcases h8 he with h | h
              · left; exact h
              · right; revert h; cases s.failAt <;> simp
            · intro x hx
              obtain ⟨e1, e2, e3, e4⟩ := h9 x hx
              refine ⟨?_, by omega, e3, ?_⟩
              · rw [e1, List.append_assoc, List.take_add]
              · left
                rcases e4 with e4 | e4
                · exact e4
                · rw [h2, e4]; simpa using hov

/-! ### abstraction: the undelivered rest of the declared body -/

/-- how many bytes of `src` still belong to the declared body -/
def cap (cfg : Cfg) (s : St) : Nat :=
  match cfg.length with
  | some L => L - s.off
  | none => s.src.length

def tailOf (cfg : Cfg) (s : St) : Bytes := s.src.take (cap cfg s)

/-- undelivered bytes of the declared body: push-back buffer, then what the stream still holds -/
def rest (cfg : Cfg) (s : St) : Bytes := s.buffer ++ tailOf cfg s

structure Inv (cfg : Cfg) (s : St) : Prop where
  acct : s.off = s.bytesRead + s.buffer.length
  bound : ∀ L, cfg.length = some L → s.off ≤ L

/-- the stream holds at least the declared number of bytes -/
def Enough (cfg : Cfg) (s : St) : Prop := ∀ L, cfg.length = some L → L ≤ s.off + s.src.length

/-- delivered + undelivered: constant along every history -/
def total (cfg : Cfg) (s : St) : Nat := s.bytesRead + (rest cfg s).length

theorem rest_length (cfg : Cfg) (s : St) :
    (rest cfg s).length = s.buffer.length + min (cap cfg s) s.src.length := by
  simp [rest, tailOf]

def ReadPost (cfg : Cfg) (s : St) (size : Option Nat) (p : Res Bytes × St) : Prop :=
  Inv cfg p.2 ∧ p.2.failAt.isSome = s.failAt.isSome ∧ total cfg p.2 = total cfg s ∧ p.1 ≠ .fuel ∧
  (Enough cfg s → Enough cfg p.2) ∧
  (p.1 = .err413 → over cfg p.2.bytesRead = true ∨ s.failAt.isSome = true) ∧
  (∀ x, p.1 = .ok x →
      x = (rest cfg s).take (loopK (remainingOf cfg s size) (rest cfg s).length) ∧
      rest cfg p.2 = (rest cfg s).drop (loopK (remainingOf cfg s size) (rest cfg s).length) ∧
      p.2.bytesRead = s.bytesRead + x.length ∧
      (Enough cfg s → cfg.length.isSome = true →
        p.2.done = (s.done || decide (remainingOf cfg s size = some 0))) ∧
      (over cfg s.bytesRead = false → over cfg p.2.bytesRead = false))

theorem remainingOf_le (cfg : Cfg) (s : St) (size : Option Nat) (L : Nat) (h : cfg.length = some L) :
    ∃ r, remainingOf cfg s size = some r ∧ r ≤ L - s.bytesRead := by
  unfold remainingOf
  rw [h]
  cases size with
  | none => exact ⟨_, rfl, Nat.le_refl _⟩
  | some n =>
    simp only
    split
    · exact ⟨n, rfl, by omega⟩
    · exact ⟨_, rfl, Nat.le_refl _⟩

theorem remainingOf_none (cfg : Cfg) (s : St) (size : Option Nat) (h : cfg.length = none) :
    remainingOf cfg s size = size := by
  unfold remainingOf; rw [h]


theorem take_rest (cfg : Cfg) (s : St) (w : Nat) :
    (rest cfg s).take w = s.buffer.take w ++ s.src.take (min (w - s.buffer.length) (cap cfg s)) := by
  simp [rest, tailOf, List.take_append, List.take_take]

theorem drop_rest (cfg : Cfg) (s : St) (w : Nat) :
    (rest cfg s).drop w =
      s.buffer.drop w ++ (s.src.drop (w - s.buffer.length)).take (cap cfg s - (w - s.buffer.length)) := by
  simp [rest, tailOf, List.drop_append, List.drop_take]

/-- Core of `read`: after the buffer part (`data` taken from the buffer, state `s1`), the socket loop. -/
theorem read_core (cfg : Cfg) (s : St) (size : Option Nat) (rem : Option Nat)
    (hrem : remainingOf cfg s size = rem) (hi : Inv cfg s) (h0 : rem ≠ some 0)
    (p : Res Bytes × St)
    (hp : LoopPost cfg
      { s with buffer := bufDrop rem s.buffer, bytesRead := s.bytesRead + (bufTake rem s.buffer).length }
      (rem.map (· - (bufTake rem s.buffer).length)) (bufTake rem s.buffer) p)
    (hno : ∀ x, p.1 = .ok x → over cfg s.bytesRead = false →
      over cfg (s.bytesRead + (bufTake rem s.buffer).length) = false) :
    ReadPost cfg s size p := by
  obtain ⟨hacct, hbound⟩ := hi
  unfold ReadPost
  rw [hrem]
  have eR := rest_length cfg s
  have eR' := rest_length cfg p.2
  cases rem with
  | none =>
    have hl : cfg.length = none := by
      cases hl : cfg.length with
      | none => rfl
      | some L => obtain ⟨r, hr1, _⟩ := remainingOf_le cfg s size L hl; rw [hrem] at hr1; cases hr1
    obtain ⟨d, h1, h2, h3, h4, h5, h6, h7, h8, h9⟩ := hp
    simp only [loopK, loopEof, Option.map_none, bufTake, bufDrop] at h1 h2 h3 h4 h5 h6 h8 h9
    have eB' : p.2.buffer.length = 0 := by rw [h3]; rfl
    have eS' : p.2.src.length = s.src.length - d := by rw [h4]; simp
    have eC : cap cfg s = s.src.length := by simp [cap, hl]
    have eC' : cap cfg p.2 = s.src.length - d := by simp [cap, hl, eS']
    rw [eB', eS', eC'] at eR'
    rw [eC] at eR
    refine ⟨⟨by omega, by simp [hl]⟩, h6, ?_, h7, by intro _; simp [Enough, hl], h8, ?_⟩
    · simp only [total]; omega
    · intro x hx
      obtain ⟨e1, e2, e3, e4⟩ := h9 x hx
      have hfin : over cfg s.bytesRead = false → over cfg p.2.bytesRead = false := by
        intro hs
        rcases e4 with e4 | e4
        · exact e4
        · have := hno x hx hs
          simp only [bufTake] at this
          rw [h2, e4]; simpa using this
      simp only [loopK]
      rw [eR]
      refine ⟨?_, ?_, ?_, by simp [hl], hfin⟩
      · rw [e1, take_rest, eC]
        congr 1
        · rw [List.take_of_length_le (by omega)]
        · rw [List.take_eq_take_iff]; omega
      · rw [drop_rest, eC]
        show p.2.buffer ++ p.2.src.take (cap cfg p.2) = _
        rw [h3, h4, eC']
        rw [show s.buffer.length + min s.src.length s.src.length - s.buffer.length = d by omega]
        rw [List.drop_of_length_le (l := s.buffer) (by omega)]
      · rw [e1, h2]; simp; omega
  | some r =>
    have hr0 : r ≠ 0 := fun h => h0 (by rw [h])
    obtain ⟨d, h1, h2, h3, h4, h5, h6, h7, h8, h9⟩ := hp
    simp only [loopK, loopEof, Option.map_some, List.length_take, bufTake, bufDrop] at h1 h2 h3 h4 h5 h6 h8 h9
    have eB' : p.2.buffer.length = s.buffer.length - r := by rw [h3]; simp
    have eS' : p.2.src.length = s.src.length - d := by rw [h4]; simp
    cases hl : cfg.length with
    | none =>
      have eC : cap cfg s = s.src.length := by simp [cap, hl]
      have eC' : cap cfg p.2 = s.src.length - d := by simp [cap, hl, eS']
      rw [eB', eS', eC'] at eR'
      rw [eC] at eR
      refine ⟨⟨by omega, by simp [hl]⟩, h6, ?_, h7, by intro _; simp [Enough, hl], h8, ?_⟩
      · simp only [total]; omega
      · intro x hx
        obtain ⟨e1, e2, e3, e4⟩ := h9 x hx
        have hfin : over cfg s.bytesRead = false → over cfg p.2.bytesRead = false := by
          intro hs
          rcases e4 with e4 | e4
          · exact e4
          · have := hno x hx hs
            simp only [bufTake, List.length_take] at this
            rw [h2, e4]; simpa using this
        simp only [loopK]
        rw [eR]
        refine ⟨?_, ?_, ?_, by simp, hfin⟩
        · rw [e1, take_rest, eC]
          congr 1
          · rw [List.take_eq_take_iff]; clear eR eR' h5 h1 h2 eB' eS' eC eC' e2; omega
          · rw [List.take_eq_take_iff]; clear eR eR' h5 h1 h2 eB' eS' eC eC'; omega
        · rw [drop_rest, eC]
          show p.2.buffer ++ p.2.src.take (cap cfg p.2) = _
          rw [h3, h4, eC']
          congr 1
          · rw [List.drop_eq_drop_iff]; omega
          · rw [show min r (s.buffer.length + min s.src.length s.src.length) - s.buffer.length = d by omega]
        · rw [e1, h2]; simp; omega
    | some L =>
      have hrle : r ≤ L - s.bytesRead := by
        obtain ⟨r', hr1, hr2⟩ := remainingOf_le cfg s size L hl
        rw [hrem] at hr1; cases hr1; exact hr2
      have hoff := hbound L hl
      have eC : cap cfg s = L - s.off := by simp [cap, hl]
      have eC' : cap cfg p.2 = L - s.off - d := by simp [cap, hl, h1]; omega
      rw [eB', eS', eC'] at eR'
      rw [eC] at eR
      refine ⟨⟨by omega, ?_⟩, h6, ?_, h7, ?_, h8, ?_⟩
      · intro L' hL'; rw [hl] at hL'; cases hL'; omega
      · simp only [total]; omega
      · intro he L' hL'; rw [hl] at hL'; cases hL'; have := he L hl; omega
      · intro x hx
        obtain ⟨e1, e2, e3, e4⟩ := h9 x hx
        have hfin : over cfg s.bytesRead = false → over cfg p.2.bytesRead = false := by
          intro hs
          rcases e4 with e4 | e4
          · exact e4
          · have := hno x hx hs
            simp only [bufTake, List.length_take] at this
            rw [h2, e4]; simpa using this
        simp only [loopK]
        rw [eR]
        refine ⟨?_, ?_, ?_, ?_, hfin⟩
        · rw [e1, take_rest, eC]
          congr 1
          · rw [List.take_eq_take_iff]; clear eR eR' h5 h1 h2 eB' eS' eC eC' e2; omega
          · rw [List.take_eq_take_iff]; clear eR eR' h5 h1 h2 eB' eS' eC eC'; omega
        · rw [drop_rest, eC]
          show p.2.buffer ++ p.2.src.take (cap cfg p.2) = _
          rw [h3, h4, eC']
          congr 1
          · rw [List.drop_eq_drop_iff]; clear eR eR' h5 h1 h2 eB' eS' eC eC' e2; omega
          · rw [show min r (s.buffer.length + min (L - s.off) s.src.length) - s.buffer.length = d by
                  clear eR eR' h5 h1 h2 eB' eS' eC eC'; omega]
        · rw [e1, h2]; simp; omega
        · intro he _
          have := he L hl
          rw [e3]
          have : decide (s.src.length < r - min r s.buffer.length) = false := by
            simp; omega
          rw [this]; simp [hr0]

theorem read_post (cfg : Cfg) (hb : 1 ≤ cfg.bufsize) (s : St) (size : Option Nat) (hi : Inv cfg s) :
    ReadPost cfg s size (CpModel.Reader.read cfg s size) := by
  unfold CpModel.Reader.read
  simp only
  generalize hrem : remainingOf cfg s size = rem
  by_cases h0 : rem = some 0
  · subst h0
    simp only [if_true]
    unfold ReadPost
    rw [hrem]
    refine ⟨⟨hi.1, hi.2⟩, rfl, rfl, by simp, fun h => h, by simp, ?_⟩
    intro x hx
    simp only [Res.ok.injEq] at hx
    subst hx
    refine ⟨by simp [loopK], ?_, by simp [finish], by simp [finish], by simp [finish]⟩
    simp only [loopK, Nat.zero_min, List.drop_zero]
    rfl
  · simp only [h0, if_false]
    by_cases hbuf : s.buffer.isEmpty = true
    · simp only [hbuf, if_true]
      have hB : s.buffer = [] := by simpa using hbuf
      apply read_core cfg s size rem hrem hi h0
      · have key := readLoop_post cfg hb (s.src.length + 1) s rem [] (by omega)
        cases s with
        | mk src frag failAt off buffer bytesRead done =>
          simp only at hB
          subst hB
          cases rem <;> simpa [bufTake, bufDrop] using key
      · intro x _ hs
        rw [hB]; cases rem <;> simpa [bufTake] using hs
    · simp only [hbuf, Bool.false_eq_true, if_false]
      split
      · rename_i hov
        apply read_core cfg s size rem hrem hi h0
        · refine ⟨0, ?_⟩
          simp [hov, loopK]
        · intro x hx; simp at hx
      · rename_i hov
        apply read_core cfg s size rem hrem hi h0
        · exact readLoop_post cfg hb _ _ _ _ (by simp)
        · intro x _ _; simpa using hov

/-! ### lines -/

theorem over_mono (cfg : Cfg) (a b : Nat) (h : over cfg a = false) (hab : b ≤ a) : over cfg b = false := by
  unfold over at *
  split
  · rename_i m hm
    rw [hm] at h
    simp only [Bool.and_eq_false_iff, decide_eq_false_iff_not] at *
    rcases h with h | h
    · left; exact h
    · right; omega
  · rfl

theorem splitNl_some (data l r : Bytes) (h : splitNl data = some (l, r)) :
    data = l ++ r ∧ l = takeLine data ∧ hasLF data = true ∧ l ≠ [] := by
  induction data generalizing l r with
  | nil => simp [splitNl] at h
  | cons b bs ih =>
    simp only [splitNl] at h
    by_cases hb : b = LF
    · simp only [hb, if_true, Option.some.injEq, Prod.mk.injEq] at h
      obtain ⟨rfl, rfl⟩ := h
      simp [takeLine, hasLF, hb]
    · simp only [hb, if_false] at h
      cases hs : splitNl bs with
      | none => simp [hs] at h
      | some q =>
        obtain ⟨l', r'⟩ := q
        simp only [hs, Option.some.injEq, Prod.mk.injEq] at h
        obtain ⟨rfl, rfl⟩ := h
        obtain ⟨e1, e2, e3, _⟩ := ih l' r' hs
        refine ⟨by simp [← e1], by simp [takeLine, hb, ← e2], by simp [hasLF, hb, e3], by simp⟩

theorem splitNl_none (data : Bytes) (h : splitNl data = none) :
    hasLF data = false ∧ takeLine data = data := by
  induction data with
  | nil => simp [hasLF, takeLine]
  | cons b bs ih =>
    simp only [splitNl] at h
    by_cases hb : b = LF
    · simp [hb] at h
    · simp only [hb, if_false] at h
      cases hs : splitNl bs with
      | none =>
        obtain ⟨e1, e2⟩ := ih hs
        simp [hasLF, takeLine, hb, e1, e2]
      | some q => obtain ⟨l', r'⟩ := q; simp [hs] at h

theorem takeLine_append_noLF (a b : Bytes) (h : hasLF a = false) : takeLine (a ++ b) = a ++ takeLine b := by
  induction a with
  | nil => rfl
  | cons x xs ih =>
    simp only [hasLF] at h
    by_cases hx : x = LF
    · simp [hx] at h
    · simp only [hx, if_false] at h
      simp [takeLine, hx, ih h]

theorem takeLine_append_LF (a b : Bytes) (h : hasLF a = true) : takeLine (a ++ b) = takeLine a := by
  induction a with
  | nil => simp [hasLF] at h
  | cons x xs ih =>
    simp only [hasLF] at h
    by_cases hx : x = LF
    · simp [takeLine, hx]
    · simp only [hx, if_false] at h
      simp [takeLine, hx, ih h]

theorem hasLF_append (a b : Bytes) : hasLF (a ++ b) = (hasLF a || hasLF b) := by
  induction a with
  | nil => simp [hasLF]
  | cons x xs ih =>
    by_cases hx : x = LF
    · simp [hasLF, hx]
    · simp [hasLF, hx, ih]

theorem takeLine_length_le (l : Bytes) : (takeLine l).length ≤ l.length := by
  induction l with
  | nil => simp [takeLine]
  | cons x xs ih =>
    simp only [takeLine]; split <;> simp <;> omega

theorem takeLine_prefix (l : Bytes) : l.take (takeLine l).length = takeLine l := by
  induction l with
  | nil => simp [takeLine]
  | cons x xs ih =>
    simp only [takeLine]; split
    · simp
    · simp [ih]

theorem takeLine_eq_nil (l : Bytes) : takeLine l = [] ↔ l = [] := by
  cases l with
  | nil => simp [takeLine]
  | cons x xs => simp only [takeLine]; split <;> simp

/-- numeric facts about the chunk `read(chunk)` delivers inside `readline` -/
theorem want_facts (cfg : Cfg) (s : St) (chunk : Nat) (hc : 1 ≤ chunk) (hi : Inv cfg s) :
    ((rest cfg s) ≠ [] → 0 < loopK (remainingOf cfg s (some chunk)) (rest cfg s).length) ∧
    (Enough cfg s → cfg.length.isSome = true →
      (remainingOf cfg s (some chunk) = some 0 ↔ rest cfg s = [])) := by
  obtain ⟨hacct, hbound⟩ := hi
  have eR := rest_length cfg s
  cases hl : cfg.length with
  | none =>
    rw [remainingOf_none _ _ _ hl]
    refine ⟨?_, by simp⟩
    intro hne
    have : 0 < (rest cfg s).length := List.length_pos_iff.mpr hne
    simp only [loopK]; omega
  | some L =>
    have hoff := hbound L hl
    have eC : cap cfg s = L - s.off := by simp [cap, hl]
    rw [eC] at eR
    have hrem : remainingOf cfg s (some chunk) =
        some (if chunk ≠ 0 ∧ chunk < L - s.bytesRead then chunk else L - s.bytesRead) := by
      unfold remainingOf; rw [hl]; simp only; split <;> simp_all
    rw [hrem]
    constructor
    · intro hne
      have : 0 < (rest cfg s).length := List.length_pos_iff.mpr hne
      simp only [loopK]
      split <;> omega
    · intro he _
      have := he L hl
      rw [← List.length_eq_zero_iff]
      simp only [Option.some.injEq]
      split <;> omega


def LinePost (cfg : Cfg) (s : St) (acc : Bytes) (p : Res Bytes × St) : Prop :=
  Inv cfg p.2 ∧ p.2.failAt.isSome = s.failAt.isSome ∧ total cfg p.2 = total cfg s ∧ p.1 ≠ .fuel ∧
  (Enough cfg s → Enough cfg p.2) ∧
  (p.1 = .err413 → over cfg p.2.bytesRead = true ∨ s.failAt.isSome = true) ∧
  (∀ x, p.1 = .ok x →
      x = acc ++ takeLine (rest cfg s) ∧
      rest cfg p.2 = (rest cfg s).drop (takeLine (rest cfg s)).length ∧
      p.2.bytesRead = s.bytesRead + (takeLine (rest cfg s)).length ∧
      (Enough cfg s → cfg.length.isSome = true → s.done = false → p.2.done = !hasLF (rest cfg s)) ∧
      (over cfg s.bytesRead = false → over cfg p.2.bytesRead = false) ∧
      (Enough cfg s → cfg.length.isSome = true → rest cfg s = [] → p.2.done = true))

theorem readlineLoop_post (cfg : Cfg) (hb : 1 ≤ cfg.bufsize) (chunk : Nat) (hc : 1 ≤ chunk) :
    ∀ fuel s acc, Inv cfg s → (rest cfg s).length < fuel →
      LinePost cfg s acc (readlineLoop cfg fuel s chunk acc) := by
  intro fuel
  induction fuel with
  | zero => intro s acc _ h; omega
  | succ fuel ih =>
    intro s acc hi hf
    simp only [readlineLoop]
    have hrp := read_post cfg hb s (some chunk) hi
    obtain ⟨wpos, wzero⟩ := want_facts cfg s chunk hc hi
    generalize hw : loopK (remainingOf cfg s (some chunk)) (rest cfg s).length = w at *
    have hwle : w ≤ (rest cfg s).length := by
      rw [← hw]; unfold loopK; split <;> omega
    generalize hp : CpModel.Reader.read cfg s (some chunk) = p at *
    obtain ⟨r, s1⟩ := p
    obtain ⟨i1, f1, t1, nf1, en1, er1, ok1⟩ := hrp
    simp only at i1 f1 t1 nf1 en1 er1 ok1
    cases r with
    | fuel => exact absurd rfl nf1
    | err413 =>
      refine ⟨i1, f1, t1, by simp, en1, er1, by simp⟩
    | ok data =>
      obtain ⟨e1, e2, e3, e4, e5⟩ := ok1 data rfl
      simp only
      have hsplit : rest cfg s = data ++ rest cfg s1 := by
        rw [e1, e2, List.take_append_drop]
      have hdl : data.length = w := by rw [e1]; simp; omega
      by_cases hde : data.isEmpty = true
      · simp only [hde, if_true]
        have hd0 : data = [] := by simpa using hde
        have hR : rest cfg s = [] := by
          by_cases hR : rest cfg s = []
          · exact hR
          · have := wpos hR; rw [hd0] at hdl; simp at hdl; omega
        refine ⟨i1, f1, t1, by simp, en1, by simp, ?_⟩
        intro x hx
        simp only [Res.ok.injEq] at hx
        subst hx
        refine ⟨by simp [hR, takeLine], ?_, by simp [hR, takeLine, e3, hd0], ?_, e5, ?_⟩
        · rw [e2, hR]; simp
        · intro he hl hd
          rw [e4 he hl, hR, hd]
          have := (wzero he hl).mpr hR
          simp [this, hasLF]
        · intro he hl _
          rw [e4 he hl]
          have := (wzero he hl).mpr hR
          simp [this]
      · simp only [hde, Bool.false_eq_true, if_false]
        have hdne : data ≠ [] := by simpa using hde
        have hwpos : 0 < w := by
          rw [← hdl]; exact List.length_pos_iff.mpr hdne
        have hrem0 : remainingOf cfg s (some chunk) ≠ some 0 := by
          intro h; rw [h] at hw; simp [loopK] at hw; omega
        cases hs : splitNl data with
        | some q =>
          obtain ⟨l, r⟩ := q
          simp only
          obtain ⟨d1, d2, d3, d4⟩ := splitNl_some data l r hs
          have hline : takeLine (rest cfg s) = l := by
            rw [hsplit, takeLine_append_LF _ _ d3, ← d2]
          have hrl : r.length ≤ s1.bytesRead := by
            rw [e3, d1]; simp; omega
          have hll : l.length + r.length = w := by rw [← hdl, d1]; simp
          obtain ⟨ia, ib⟩ := i1
          have hrest' : rest cfg { s1 with buffer := r ++ s1.buffer, bytesRead := s1.bytesRead - r.length,
                                           done := if r.isEmpty then s1.done else false }
              = r ++ rest cfg s1 := by
            simp [rest, tailOf, cap]
          refine ⟨⟨by simp; omega, ib⟩, f1, ?_, by simp, ?_, by simp, ?_⟩
          · simp only [total] at t1 ⊢
            rw [hrest']; simp; omega
          · intro he; exact en1 he
          · intro x hx
            simp only [Res.ok.injEq] at hx
            subst hx
            rw [hline]
            have hRne : rest cfg s ≠ [] := by
              rw [hsplit]; intro h; exact hdne (List.append_eq_nil_iff.mp h).1
            refine ⟨rfl, ?_, ?_, ?_, fun hs => over_mono cfg _ _ (e5 hs) (by simp),
              fun _ _ h => absurd h hRne⟩
            · rw [hrest', hsplit]
              conv => rhs; rw [d1, List.append_assoc]
              simp
            · simp only; rw [e3, d1]; simp; omega
            · intro he hl hd
              simp only
              rw [e4 he hl, hsplit, hasLF_append, d3, hd]
              simp [hrem0]
        | none =>
          simp only
          obtain ⟨n1, n2⟩ := splitNl_none data hs
          have hlen1 : (rest cfg s1).length < fuel := by
            have : (rest cfg s).length = data.length + (rest cfg s1).length := by
              rw [hsplit]; simp
            omega
          have := ih s1 (acc ++ data) i1 hlen1
          obtain ⟨j1, j2, j3, j4, j5, j6, j7⟩ := this
          refine ⟨j1, by rw [j2, f1], by rw [j3, t1], j4, fun he => j5 (en1 he), ?_, ?_⟩
          · intro he
            rcases j6 he with h | h
            · left; exact h
            · right; rw [← f1]; exact h
          · intro x hx
            obtain ⟨k1, k2, k3, k4, k5, _⟩ := j7 x hx
            have hRne : rest cfg s ≠ [] := by
              rw [hsplit]; intro h; exact hdne (List.append_eq_nil_iff.mp h).1
            have hline : takeLine (rest cfg s) = data ++ takeLine (rest cfg s1) := by
              rw [hsplit, takeLine_append_noLF _ _ n1]
            refine ⟨by rw [k1, hline, List.append_assoc], ?_, ?_, ?_, fun hs => k5 (e5 hs),
              fun _ _ h => absurd h hRne⟩
            · rw [k2, hline]
              conv => rhs; rw [hsplit]
              simp
            · rw [k3, e3, hline]; simp; omega
            · intro he hl hd
              have hd1 : s1.done = false := by rw [e4 he hl, hd]; simp [hrem0]
              rw [k4 (en1 he) hl hd1]
              conv => rhs; rw [hsplit, hasLF_append, n1]
              simp

theorem rest_length_le (cfg : Cfg) (s : St) : (rest cfg s).length ≤ s.buffer.length + s.src.length := by
  rw [rest_length]; omega

theorem readline_post (cfg : Cfg) (hb : 1 ≤ cfg.bufsize) (s : St) (size : Option Nat) (hi : Inv cfg s)
    (h0 : size ≠ some 0) : LinePost cfg s [] (readline cfg s size) := by
  unfold readline
  simp only [h0, if_false]
  apply readlineLoop_post cfg hb _ _ _ s [] hi
  · have := rest_length_le cfg s; omega
  · cases size with
    | none => exact hb
    | some n =>
      have : n ≠ 0 := fun h => h0 (by rw [h])
      simp only; split <;> omega

theorem readline_zero (cfg : Cfg) (s : St) : readline cfg s (some 0) = (.ok [], s) := by
  simp [readline]

theorem takeLines_nil (sf : Nat) (hint : Option Nat) (seen : Nat) : takeLines sf hint seen [] = [] := by
  cases sf <;> simp [takeLines, takeLine]

/-- how the hint the code computes (`min(sizehint, length - bytes_read)`) relates to the caller's -/
def HintRel (hint' hint : Option Nat) (bound : Nat) : Prop :=
  hint' = hint ∨ ∃ c, bound ≤ c ∧ hint' = some (match hint with | none => c | some h => min h c)

def LinesPost (cfg : Cfg) (s : St) (hint : Option Nat) (seen : Nat) (acc : List Bytes)
    (p : Res (List Bytes) × St) : Prop :=
  Inv cfg p.2 ∧ p.2.failAt.isSome = s.failAt.isSome ∧ total cfg p.2 = total cfg s ∧ p.1 ≠ .fuel ∧
  (Enough cfg s → Enough cfg p.2) ∧
  (p.1 = .err413 → over cfg p.2.bytesRead = true ∨ s.failAt.isSome = true) ∧
  (∀ ls, p.1 = .ok ls → ∃ ls', ls = acc ++ ls' ∧
      (∀ sf, (rest cfg s).length < sf → ls' = takeLines sf hint seen (rest cfg s)) ∧
      rest cfg p.2 = (rest cfg s).drop ls'.flatten.length ∧
      p.2.bytesRead = s.bytesRead + ls'.flatten.length ∧
      (over cfg s.bytesRead = false → over cfg p.2.bytesRead = false))

theorem readlinesLoop_post (cfg : Cfg) (hb : 1 ≤ cfg.bufsize) (hint' hint : Option Nat) :
    ∀ fuel s seen acc, Inv cfg s → (rest cfg s).length < fuel →
      HintRel hint' hint (seen + (rest cfg s).length) →
      LinesPost cfg s hint seen acc (readlinesLoop cfg fuel s hint' seen acc) := by
  intro fuel
  induction fuel with
  | zero => intro s seen acc _ h; omega
  | succ fuel ih =>
    intro s seen acc hi hf hr
    simp only [readlinesLoop]
    have hlp := readline_post cfg hb s none hi (by simp)
    generalize hp : readline cfg s none = p at *
    obtain ⟨r, s1⟩ := p
    obtain ⟨i1, f1, t1, nf1, en1, er1, ok1⟩ := hlp
    simp only at i1 f1 t1 nf1 en1 er1 ok1
    cases r with
    | fuel => exact absurd rfl nf1
    | err413 => exact ⟨i1, f1, t1, by simp, en1, fun _ => er1 rfl, by simp⟩
    | ok line =>
      obtain ⟨e1, e2, e3, _, e5, _⟩ := ok1 line rfl
      simp only [List.nil_append] at e1
      simp only
      have hle := takeLine_length_le (rest cfg s)
      by_cases hle0 : line.isEmpty = true
      · simp only [hle0, if_true]
        have hl0 : line = [] := by simpa using hle0
        have hR : rest cfg s = [] := (takeLine_eq_nil _).mp (by rw [← e1, hl0])
        refine ⟨i1, f1, t1, by simp, en1, by simp, ?_⟩
        intro ls hls
        simp only [Res.ok.injEq] at hls
        subst hls
        refine ⟨[], by simp, ?_, ?_, ?_, e5⟩
        · intro sf _; rw [hR, takeLines_nil]
        · rw [e2, hR]; simp
        · rw [e3, hR]; simp [takeLine]
      · simp only [hle0, Bool.false_eq_true, if_false]
        have hlne : line ≠ [] := by simpa using hle0
        have hlpos : 0 < line.length := List.length_pos_iff.mpr hlne
        have hR1 : (rest cfg s1).length = (rest cfg s).length - line.length := by
          rw [e2, ← e1]; simp
        have hlle : line.length ≤ (rest cfg s).length := by rw [e1]; exact hle
        -- unfolding of the spec on a non-empty line
        have hspec : ∀ sf, (rest cfg s).length < sf →
            takeLines sf hint seen (rest cfg s) =
              if hintReached hint (seen + line.length) then [line]
              else line :: takeLines (sf - 1) hint (seen + line.length) (rest cfg s1) := by
          intro sf hsf
          cases sf with
          | zero => omega
          | succ sf' =>
            simp only [takeLines, ← e1, hle0, Bool.false_eq_true, if_false, e2, Nat.add_sub_cancel]
        by_cases hh' : hintReached hint' (seen + line.length) = true
        · simp only [hh', if_true]
          refine ⟨i1, f1, t1, by simp, en1, by simp, ?_⟩
          intro ls hls
          simp only [Res.ok.injEq] at hls
          subst hls
          refine ⟨[line], rfl, ?_, by simpa using e2.trans (by rw [← e1]), by simp [e3, e1], e5⟩
          intro sf hsf
          rw [hspec sf hsf]
          by_cases hh : hintReached hint (seen + line.length) = true
          · simp [hh]
          · simp only [hh, Bool.false_eq_true, if_false]
            -- the code's hint was reached but the caller's was not: the body is exhausted
            have hR1nil : rest cfg s1 = [] := by
              rw [← List.length_eq_zero_iff, hR1]
              rcases hr with h | ⟨c, hc1, hc2⟩
              · rw [h] at hh'; exact absurd hh' hh
              · rw [hc2] at hh'
                cases hint with
                | none => simp [hintReached] at hh'; omega
                | some h => simp [hintReached] at hh' hh; omega
            rw [hR1nil, takeLines_nil]
        · simp only [hh', Bool.false_eq_true, if_false]
          have hh : hintReached hint (seen + line.length) = false := by
            rcases hr with h | ⟨c, hc1, hc2⟩
            · rw [← h]; simpa using hh'
            · rw [hc2] at hh'
              cases hint with
              | none => rfl
              | some h => simp [hintReached] at hh' ⊢; omega
          have hr1 : HintRel hint' hint (seen + line.length + (rest cfg s1).length) := by
            rcases hr with h | ⟨c, hc1, hc2⟩
            · left; exact h
            · right; exact ⟨c, by omega, hc2⟩
          have := ih s1 (seen + line.length) (acc ++ [line]) i1 (by omega) hr1
          obtain ⟨j1, j2, j3, j4, j5, j6, j7⟩ := this
          refine ⟨j1, by rw [j2, f1], by rw [j3, t1], j4, fun he => j5 (en1 he), ?_, ?_⟩
          · intro he
            rcases j6 he with h | h
            · left; exact h
            · right; rw [← f1]; exact h
          · intro ls hls
            obtain ⟨ls1, k1, k2, k3, k4, k5⟩ := j7 ls hls
            refine ⟨line :: ls1, by rw [k1]; simp, ?_, ?_, ?_, fun hs => k5 (e5 hs)⟩
            · intro sf hsf
              rw [hspec sf hsf, hh]
              simp only [Bool.false_eq_true, if_false]
              rw [← k2 (sf - 1) (by omega)]
            · rw [k3, e2, ← e1, List.drop_drop]; simp
            · rw [k4, e3, ← e1]; simp; omega

theorem readlines_post (cfg : Cfg) (hb : 1 ≤ cfg.bufsize) (s : St) (hint : Option Nat) (hi : Inv cfg s) :
    LinesPost cfg s hint 0 [] (readlines cfg s hint) := by
  unfold readlines
  simp only
  apply readlinesLoop_post cfg hb _ hint _ s 0 [] hi
  · have := rest_length_le cfg s; omega
  · cases hl : cfg.length with
    | none => left; rfl
    | some L =>
      right
      refine ⟨L - s.bytesRead, ?_, ?_⟩
      · have := rest_length cfg s
        have hc : cap cfg s = L - s.off := by simp [cap, hl]
        have := hi.acct
        have := hi.bound L hl
        omega
      · cases hint <;> rfl

end CpProofs.C05
