import CpModel.HookAttach
/-!
  C09: a request's `HookMap` is a copy that shares no list object with the class-level `Request.hooks`
  (`HookMap.copy`: `newmap[k] = v[:]`), over the heap model of `CpModel.HookAttach` (list objects = heap cells,
  a `HookMap` = the address of the list of every hook point).
-/
namespace CpProofs.C09
open CpModel CpModel.Pipeline CpModel.HookAttach

theorem read_def (h : Heap) (a : Nat) : h.read a = h.cells[a]?.getD [] := by
  simp [Heap.read, List.getD_eq_getElem?_getD]

@[simp] theorem append_length (h : Heap) (a : Nat) (x : AHook) : (h.append a x).cells.length = h.cells.length := by
  simp [Heap.append]

theorem read_append_ne (h : Heap) (a b : Nat) (x : AHook) (hab : a ≠ b) : (h.append a x).read b = h.read b := by
  simp [read_def, Heap.append, hab]

theorem read_append_eq (h : Heap) (a : Nat) (x : AHook) (ha : a < h.cells.length) :
    (h.append a x).read a = h.read a ++ [x] := by
  simp [read_def, Heap.append, ha]

theorem pointIdx_lt (p : Point) : pointIdx p < 8 := by cases p <;> decide

theorem pointIdx_inj (p q : Point) (h : pointIdx p = pointIdx q) : p = q := by
  cases p <;> cases q <;> first | rfl | (exact absurd h (by decide))

theorem allPoints_get (p : Point) : allPoints[pointIdx p]? = some p := by cases p <;> rfl

/-- `HookMap.copy()`: old cells untouched, the new map's cells are fresh and hold copies -/
theorem copyMap_spec (h : Heap) (m : HMap) :
    (copyMap h m).1.cells.length = h.cells.length + 8
    ∧ (∀ a, a < h.cells.length → (copyMap h m).1.read a = h.read a)
    ∧ (∀ p, (copyMap h m).2 p = h.cells.length + pointIdx p)
    ∧ (∀ p, (copyMap h m).1.read ((copyMap h m).2 p) = h.read (m p)) := by
  refine ⟨by simp [copyMap, allPoints], ?_, fun p => rfl, ?_⟩
  · intro a ha
    simp [copyMap, read_def, List.getElem?_append_left ha]
  · intro p
    simp only [copyMap, read_def]
    rw [List.getElem?_append_right (by omega)]
    simp [allPoints_get]

/-- appending through a map whose cells exist and are pairwise distinct -/
theorem appendAll_spec (m : HMap) (hinj : ∀ p q, m p = m q → p = q) (att : List (Point × AHook)) :
    ∀ h : Heap, (∀ p, m p < h.cells.length) →
      (appendAll h m att).cells.length = h.cells.length
      ∧ (∀ p, (appendAll h m att).read (m p) = h.read (m p) ++ (att.filter (·.1 = p)).map (·.2))
      ∧ (∀ a, (∀ p, m p ≠ a) → (appendAll h m att).read a = h.read a) := by
  induction att with
  | nil => intro h _; simp [appendAll]
  | cons e rest ih =>
    intro h hm
    obtain ⟨q, x⟩ := e
    have hm' : ∀ p, m p < (h.append (m q) x).cells.length := by simpa using hm
    obtain ⟨i1, i2, i3⟩ := ih (h.append (m q) x) hm'
    refine ⟨by simpa [appendAll] using i1, ?_, ?_⟩
    · intro p
      simp only [appendAll]
      rw [i2 p]
      by_cases hpq : q = p
      · subst hpq
        rw [read_append_eq _ _ _ (hm q)]
        simp
      · have : m q ≠ m p := fun h' => hpq (hinj _ _ h')
        rw [read_append_ne _ _ _ _ this]
        simp [hpq]
    · intro a ha
      simp only [appendAll]
      rw [i3 a ha, read_append_ne _ _ _ _ (ha q)]

/-- one request: the class-level cells (every old cell) are untouched, the request's lists are the class-level
    lists followed by what the request attached -/
theorem serveRequest_spec (h : Heap) (cls : HMap) (att : List (Point × AHook)) :
    (serveRequest h cls att).1.cells.length = h.cells.length + 8
    ∧ (∀ a, a < h.cells.length → (serveRequest h cls att).1.read a = h.read a)
    ∧ (∀ p, (serveRequest h cls att).2 p < (serveRequest h cls att).1.cells.length)
    ∧ (∀ p, (serveRequest h cls att).1.read ((serveRequest h cls att).2 p)
          = h.read (cls p) ++ (att.filter (·.1 = p)).map (·.2)) := by
  obtain ⟨c1, c2, c3, c4⟩ := copyMap_spec h cls
  have hinj : ∀ p q, (copyMap h cls).2 p = (copyMap h cls).2 q → p = q := by
    intro p q hpq
    rw [c3, c3] at hpq
    exact pointIdx_inj p q (by omega)
  have hm : ∀ p, (copyMap h cls).2 p < (copyMap h cls).1.cells.length := by
    intro p; rw [c3, c1]; have := pointIdx_lt p; omega
  obtain ⟨a1, a2, a3⟩ := appendAll_spec (copyMap h cls).2 hinj att (copyMap h cls).1 hm
  refine ⟨by simpa [serveRequest] using a1.trans c1, ?_, ?_, ?_⟩
  · intro a ha
    have : ∀ p, (copyMap h cls).2 p ≠ a := by intro p; rw [c3]; omega
    simpa [serveRequest] using (a3 a this).trans (c2 a ha)
  · intro p
    simpa [serveRequest, a1] using hm p
  · intro p
    simpa [serveRequest, c4 p] using a2 p

/-- **No aliasing**: serve any number of requests of one request class, each attaching whatever it likes to its
    own `HookMap`: afterwards every list that existed before — the class-level lists in particular — is unchanged,
    and request number `i` holds, at every point, the class-level hooks followed by exactly its own attachments
    (nothing of another request). -/
theorem serveAll_no_alias (cls : HMap) (reqs : List (List (Point × AHook))) :
    ∀ h : Heap, (∀ p, cls p < h.cells.length) →
      (∀ a, a < h.cells.length → (serveAll h cls reqs).1.read a = h.read a)
      ∧ (serveAll h cls reqs).2.length = reqs.length
      ∧ ∀ i, i < reqs.length → ∀ p,
          (serveAll h cls reqs).1.read (((serveAll h cls reqs).2.getD i cls) p)
            = h.read (cls p) ++ ((reqs.getD i []).filter (·.1 = p)).map (·.2) := by
  induction reqs with
  | nil => intro h _; simp [serveAll]
  | cons att rest ih =>
    intro h hc
    obtain ⟨s1, s2, s3, s4⟩ := serveRequest_spec h cls att
    have hc' : ∀ p, cls p < (serveRequest h cls att).1.cells.length := by intro p; rw [s1]; have := hc p; omega
    obtain ⟨i1, i2, i3⟩ := ih (serveRequest h cls att).1 hc'
    refine ⟨?_, by simp [serveAll, i2], ?_⟩
    · intro a ha
      simp only [serveAll]
      rw [i1 a (by rw [s1]; omega), s2 a ha]
    · intro i hi p
      cases i with
      | zero =>
        simp only [serveAll, List.getD_cons_zero]
        rw [i1 _ (s3 p), s4 p]
      | succ n =>
        have hn : n < rest.length := by simpa using hi
        simp only [serveAll, List.getD_cons_succ]
        rw [i3 n hn p, s2 _ (hc p)]

/-- the class-level `HookMap` itself, spelled out -/
theorem class_level_unchanged (cls : HMap) (reqs : List (List (Point × AHook))) (h : Heap)
    (hc : ∀ p, cls p < h.cells.length) (p : Point) :
    (serveAll h cls reqs).1.read (cls p) = h.read (cls p) :=
  (serveAll_no_alias cls reqs h hc).1 _ (hc p)

example : let h0 : Heap := { cells := allPoints.map fun _ => [] }
    let r := serveAll h0 pointIdx [[(.beforeHandler, ⟨.user 1, .int 50, .bool false, []⟩)],
                                   [(.beforeHandler, ⟨.user 2, .int 50, .bool false, []⟩)]]
    (r.1.read (pointIdx .beforeHandler), r.2.map fun m => (r.1.read (m .beforeHandler)).map (·.cb))
      = ([], [[.user 1], [.user 2]]) := by decide

end CpProofs.C09
