import CpModel.ParseSites
import CpModel.Gen.C07Tables
/-!
  C07 — malformed client input is answered with 4xx, never with 5xx.

  A catch-map proof over `CpModel.ParseSites`:

  * the transcribed `try/except` structure (`handlers` + exception hierarchy `parent` + the
    before_finalize rule `httpStatus`) is proved EQUAL to the table the harness re-measures from the live
    code by fault injection on every run, for every site and every class of the universe
    (`catchHand_agrees_table`, `table_covers_universe`, `isSub_agrees_live_hierarchy`): removing or
    narrowing an `except` in the code changes the generated table and breaks these theorems;
  * `C07_catch_table`: every class a site's callee can raise (its contract) ends below 500, except the
    listed known-uncaught pairs, which are proved to be real 500s (`knownUncaught_all_real`,
    `C07_catch_table_full_false`);
  * per parser written in CherryPy itself: for ALL inputs the status produced by the parser's outcome
    through the catch map is < 500 (`C07_getRanges`, `C07_queryString`, `C07_urlencoded`,
    `C07_multipart`, `C07_filenameStar`, `C07_qvalue_accept`, `C07_maxAge`, `C07_bodyFraming`); the one
    parser whose outcome does become a 500 on the unchanged tree (a malformed q-value reaching
    `tools.gzip`) has the full statement, its negation with a witness, and the partial statement.
-/
namespace CpProofs.C07
open CpModel.Parse CpModel.Gen.C07

/-! ### the enumerations are complete -/

theorem allSites_complete (s : Site) : s ∈ allSites := by cases s <;> decide

theorem allExcs_complete (e : Exc) : e ∈ allExcs := by cases e <;> decide

/-! ### the transcribed catch map equals the one measured on the live code -/

/-- every row measured by fault injection on the code under test is what the transcription says -/
theorem catchHand_agrees_table :
    ∀ row ∈ catchTable, catchHand row.1 row.2.1 = row.2.2 := by decide +kernel

/-- the measured table has a row for every site and every class -/
theorem table_covers_universe :
    ∀ s ∈ allSites, ∀ e ∈ allExcs, (catchTable.any fun row => row.1 = s ∧ row.2.1 = e) = true := by
  decide +kernel

/-- `parent` describes the live `__mro__`s -/
theorem isSub_agrees_live_hierarchy :
    ∀ row ∈ baseTable, ∀ b ∈ allExcs, b ≠ .HTTP400 → ((ancestors row.1).contains b = row.2.contains b) := by
  decide +kernel

/-! ### the catch-table theorem -/

def C07_catch_table_full : Prop :=
  ∀ s : Site, ∀ e ∈ contract s, catchHand s e < 500

/-- every class of every contract is answered below 500, or is a listed known-uncaught pair -/
theorem C07_catch_table (s : Site) (e : Exc) (he : e ∈ contract s) :
    catchHand s e < 500 ∨ (s, e) ∈ knownUncaught := by
  have h : ∀ s ∈ allSites, ∀ e ∈ contract s, catchHand s e < 500 ∨ (s, e) ∈ knownUncaught := by
    decide +kernel
  exact h s (allSites_complete s) e he

/-- the listed pairs really are answered with 500 (they are findings, not slack) -/
theorem knownUncaught_all_real :
    ∀ p ∈ knownUncaught, p.2 ∈ contract p.1 ∧ catchHand p.1 p.2 = 500 := by decide

/-- the full statement is false on the unchanged tree: a malformed q-value reaching `tools.gzip` -/
theorem C07_catch_table_full_false : ¬ C07_catch_table_full := by
  intro h
  have := h .qvalueGzip .ValueError (by decide)
  revert this
  decide

/-- an `HTTPError(c)` raised anywhere but under `before_finalize` is answered with `c` -/
theorem http_status_passthrough (s : Site) (c : Nat) (hs : stage s = .early) : httpStatus s c = c := by
  simp [httpStatus, hs]

/-! ### `_get_ranges` -/

theorem rangePos_raises (v : List Char) (r : Raised) (h : rangePos v = .error r) : r = .py .ValueError := by
  unfold rangePos at h
  split at h
  · cases h
  · cases h; rfl

theorem rangeSpec_raises (spec : List Char) (len : Nat) (r : Raised)
    (h : rangeSpec spec len = .error r) : r = .py .ValueError := by
  unfold rangeSpec at h
  split at h
  · cases h; rfl
  · simp only at h
    split at h
    · split at h
      · rename_i h1; cases h; exact rangePos_raises _ _ h1
      · split at h
        · split at h
          · rename_i h2; cases h; exact rangePos_raises _ _ h2
          · split at h
            · cases h
            · split at h <;> cases h
        · split at h <;> cases h
    · split at h
      · cases h
      · split at h
        · rename_i h1; cases h; exact rangePos_raises _ _ h1
        · split at h
          · cases h
          · split at h <;> cases h

theorem rangeLoop_raises (len : Nat) (specs : List (List Char)) (acc : List (Nat × Nat)) (r : Raised)
    (h : rangeLoop len specs acc = .error r) : r = .py .ValueError := by
  induction specs generalizing acc with
  | nil => simp [rangeLoop] at h
  | cons spec rest ih =>
    unfold rangeLoop at h
    split at h
    · rename_i h1; cases h; exact rangeSpec_raises _ _ _ h1
    · cases h
    · exact ih _ h
    · exact ih _ h

/-- whatever the Range header, `_get_ranges` raises nothing but `ValueError` -/
theorem getRangesRaw_raises_only_ValueError (hv : List Char) (len : Nat) (r : Raised)
    (h : getRangesRaw hv len = .error r) : r = .py .ValueError := by
  unfold getRangesRaw at h
  split at h
  · cases h; rfl
  · split at h
    · cases h
    · exact rangeLoop_raises _ _ _ _ h

/-- for every Range header value and every file length the response status is below 500 -/
theorem C07_getRanges (hv : List Char) (len : Nat) : statusOf .getRanges (getRangesRaw hv len) < 500 := by
  cases h : getRangesRaw hv len with
  | ok v => simp [statusOf]
  | error r =>
    have := getRangesRaw_raises_only_ValueError hv len r h
    subst this
    decide

/-! ### query string -/

/-- for every query string: 200 or 404 -/
theorem C07_queryString (qs : List Char) : statusOf .qsUnquote (parseQuery qs) < 500 := by
  unfold parseQuery
  split
  · simp [statusOf]
  · split
    · simp [statusOf]
    · decide

/-! ### url-encoded body -/

theorem tryCharsets_ok_or_400 (atoms : List (List UInt8)) (cs : List Codec) :
    tryCharsets atoms cs = .ok () ∨ tryCharsets atoms cs = .error (.http 400) := by
  induction cs with
  | nil => right; rfl
  | cons c rest ih =>
    unfold tryCharsets
    split
    · left; rfl
    · exact ih

/-- whatever the body bytes and the declared charset (known, unknown, not a text codec):
    accepted or 400 -/
theorem urlencoded_ok_or_400 (body : List UInt8) (d : Option Codec) :
    processUrlencoded body d = .ok () ∨ processUrlencoded body d = .error (.http 400) :=
  tryCharsets_ok_or_400 _ _

theorem C07_urlencoded (body : List UInt8) (d : Option Codec) :
    statusOf .urlencDecode (processUrlencoded body d) < 500 := by
  rcases urlencoded_ok_or_400 body d with h | h <;> rw [h] <;> decide

/-! ### multipart framing -/

theorem readHeaders_raises (lines : List (List UInt8)) (k : Bool) (r : Raised)
    (h : readHeaders lines k = .error r) : r = .py .ValueError ∨ r = .py .EOFError := by
  induction lines generalizing k with
  | nil => simp [readHeaders] at h; right; exact h.symm
  | cons line rest ih =>
    unfold readHeaders at h
    split at h
    · cases h
    · split at h
      · cases h; left; rfl
      · split at h
        · cases h; right; rfl
        · split at h
          · split at h
            · exact ih _ h
            · cases h; left; rfl
          · split at h
            · exact ih _ h
            · cases h; left; rfl

theorem readBody_raises (bnd : List UInt8) (lines : List (List UInt8)) (acc : List UInt8) (p : Bool) (r : Raised)
    (h : readBody bnd lines acc p = .error r) : r = .py .EOFError := by
  induction lines generalizing acc p with
  | nil => simp [readBody] at h; exact h.symm
  | cons line rest ih =>
    unfold readBody at h
    simp only at h
    split at h
    · cases h
    · split at h
      · cases h
      · exact ih _ _ h

theorem partsLoop_raises (bnd : List UInt8) (fuel : Nat) (lines : List (List UInt8)) (d : Bool)
    (acc : List (List UInt8)) (r : Raised)
    (h : partsLoop bnd fuel lines d acc = .error r) : r = .py .ValueError ∨ r = .py .EOFError := by
  induction fuel generalizing lines acc with
  | zero => simp [partsLoop] at h
  | succ n ih =>
    unfold partsLoop at h
    split at h
    · rename_i h1; cases h; exact readHeaders_raises _ _ _ h1
    · split at h
      · rename_i h2; cases h; right; exact readBody_raises _ _ _ _ _ h2
      · split at h
        · cases h
        · exact ih _ _ h

/-- whatever the boundary parameter, the body bytes and the truncation: accepted or 400 -/
theorem multipart_ok_or_400 (ib : List Char) (body : List UInt8) (d : Bool) :
    processMultipart ib body d = .ok () ∨ processMultipart ib body d = .error (.http 400) := by
  unfold processMultipart
  split
  · right; rfl
  · simp only
    split
    · left; rfl
    · split
      · right; rfl
      · right; rfl
      · rename_i r hne1 hne2 h
        rcases partsLoop_raises _ _ _ _ _ _ h with h' | h'
        · exact absurd h' (by intro e; subst e; exact hne1 rfl)
        · exact absurd h' (by intro e; subst e; exact hne2 rfl)
      · split
        · left; rfl
        · right; rfl

theorem C07_multipart (ib : List Char) (body : List UInt8) (d : Bool) :
    statusOf .partHeaders (processMultipart ib body d) < 500 := by
  rcases multipart_ok_or_400 ib body d with h | h <;> rw [h] <;> decide

/-! ### `filename*` -/

theorem C07_filenameStar (v : List Char) (known : Bool) :
    statusOf .filenameStar (filenameStar v known) < 500 := by
  unfold filenameStar
  split
  · split
    · simp [statusOf]
    · split
      · simp [statusOf]
      · decide
  · decide

/-! ### q-values -/

/-- through `tools.accept` (and every other hook point before the handler): 200 or 400 -/
theorem C07_qvalue_accept (v : List Char) : statusOf .qvalueAccept (qvalue v) < 500 := by
  unfold qvalue
  split
  · simp [statusOf]
  · decide

def C07_qvalue_gzip_full : Prop := ∀ v : List Char, statusOf .qvalueGzip (qvalue v) < 500

/-- false on the unchanged tree: `Accept-Encoding: gzip;q=x` on a gzip-enabled resource is a 500 -/
theorem C07_qvalue_gzip_full_false : ¬ C07_qvalue_gzip_full := by
  intro h
  have := h ['x']
  revert this
  decide

/-- what does hold there: every q-value `float()` accepts is fine -/
theorem C07_qvalue_gzip_partial (v : List Char) (hv : pyFloatOk v = true) :
    statusOf .qvalueGzip (qvalue v) < 500 := by
  simp [qvalue, hv, statusOf]

example : pyFloatOk "0.5".toList = true := by decide
example : pyFloatOk "x".toList = false := by decide

/-! ### max-age, body framing -/

theorem C07_maxAge (v : List Char) : statusOf .contentLengthInt (maxAge v) < 500 := by
  unfold maxAge
  split
  · split
    · decide
    · simp [statusOf]
  · split
    · split
      · simp [statusOf]
      · decide
    · simp [statusOf]

theorem C07_bodyFraming (p c t : Bool) : statusOf .contentLengthInt (bodyFraming p c t) < 500 := by
  cases p <;> cases c <;> cases t <;> decide

end CpProofs.C07
