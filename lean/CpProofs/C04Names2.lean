import CpProofs.C04Names
/-!
  C04, names (2): quoted values with `;` (and `=`, blanks, …) INSIDE the quotes.  `_parse_param` only splits
  at a `;` when the piece collected so far holds an even number of unescaped `"`; inside an open quote every
  `;` is accumulated.  For all names / filenames free of `"`, `\` and `,` (semicolons allowed) the declared
  name, filename and content type are extracted.  Escapes (`\"`, `\\`) and the stdlib-style parser's weak
  spot (a value ending in a backslash) are `decide`d witnesses at the end.
-/
namespace CpProofs.C04
open CpModel.Reader CpModel.Cursor CpModel.Multipart

/-- no `"`, no `\`, no `,` — semicolons are fine -/
def NoQ (n : Bytes) : Prop := ∀ b ∈ n, b ≠ 34 ∧ b ≠ 92 ∧ b ≠ 44

instance (n : Bytes) : Decidable (NoQ n) := by unfold NoQ; exact inferInstance

theorem NoQ.tail {b : UInt8} {n : Bytes} (h : NoQ (b :: n)) : NoQ n := fun x hx => h x (by simp [hx])
theorem NoQ.head {b : UInt8} {n : Bytes} (h : NoQ (b :: n)) : b ≠ 34 ∧ b ≠ 92 ∧ b ≠ 44 := h b (by simp)

theorem quoteBalance_noq (n : Bytes) (hn : NoQ n) : ∀ (rest : Bytes) (q e : Nat),
    quoteBalance (n ++ rest) q e = quoteBalance rest q e := by
  induction n with
  | nil => intro rest q e; rfl
  | cons a t ih =>
    intro rest q e
    obtain ⟨h34, h92, _⟩ := hn.head
    cases hrest : t ++ rest with
    | nil =>
      have ht : t = [] := by cases t <;> simp_all
      have hr : rest = [] := by cases t <;> simp_all
      subst ht; subst hr
      simp [quoteBalance, h34]
    | cons c u =>
      have : (a :: t) ++ rest = a :: c :: u := by simp [hrest]
      rw [this]
      simp only [quoteBalance, h34, h92, if_false, decide_false, Bool.false_and, Bool.false_eq_true]
      rw [← hrest]
      exact ih hn.tail rest q e

theorem quoteBalance_nil (q e : Nat) : quoteBalance [] q e = (q, e) := rfl

/-- appending bytes that are neither `"` nor `\` changes neither count -/
theorem quoteBalance_append_noq (x : Bytes) (hx : NoQ x) : ∀ (l : Bytes) (q e : Nat),
    quoteBalance (l ++ x) q e = quoteBalance l q e := by
  intro l
  induction l using List.rec with
  | nil => intro q e; simpa using quoteBalance_noq x hx [] q e
  | cons a t ih =>
    intro q e
    cases t with
    | nil =>
      cases x with
      | nil => rfl
      | cons c u =>
        have hc := hx.head.1
        have := quoteBalance_noq (c :: u) hx [] (if a = 34 then q + 1 else q) e
        simp only [List.append_nil] at this
        simp only [List.cons_append, List.nil_append, quoteBalance, hc, decide_false, Bool.and_false,
          Bool.false_eq_true, if_false, this]
    | cons b u =>
      have := ih (if a = 34 then q + 1 else q) (if a = 92 && b = 34 then e + 1 else e)
      simpa [quoteBalance] using this

theorem unbalanced_append_noq (l x : Bytes) (hx : NoQ x) : unbalanced (l ++ x) = unbalanced l := by
  unfold unbalanced; rw [quoteBalance_append_noq x hx]

/-- inside an open quote nothing splits: every byte of `n` — `;` included — is accumulated -/
theorem splitParams_inquote (n : Bytes) (hn : NoQ n) :
    ∀ (fuel : Nat) (rest cur : Bytes), cur ≠ [] → unbalanced cur.reverse = true →
      splitParams (n.length + fuel) (n ++ rest) cur = splitParams fuel rest (n.reverse ++ cur) := by
  induction n with
  | nil => intro fuel rest cur _ _; simp
  | cons b bs ih =>
    intro fuel rest cur hne hub
    have hf : (b :: bs).length + fuel = (bs.length + fuel) + 1 := by simp; omega
    have hce : cur.isEmpty = false := by cases cur <;> simp_all
    rw [hf]
    simp only [List.cons_append, splitParams, hce, hub, Bool.not_true, Bool.and_false, Bool.false_eq_true,
      if_false]
    have hub' : unbalanced (b :: cur).reverse = true := by
      rw [List.reverse_cons, unbalanced_append_noq _ [b] (fun x hx => by
        simp only [List.mem_singleton] at hx; subst hx; exact hn.head)]
      exact hub
    rw [ih hn.tail fuel rest (b :: cur) (by simp) hub']
    simp

theorem unbalanced_NAMEQ : unbalanced NAMEQ = true := by decide
theorem unbalanced_FNAMEQ : unbalanced FNAMEQ = true := by decide

theorem unbalanced_quoted' (pre : Bytes) (n : Bytes) (hn : NoQ n)
    (hpre : ∀ rest q e, quoteBalance (pre ++ rest) q e = quoteBalance rest (q + 1) e) :
    unbalanced (pre ++ n ++ Q) = false := by
  unfold unbalanced
  rw [List.append_assoc, hpre, quoteBalance_noq n hn]
  simp [Q, quoteBalance]

/-- one quoted piece ` key="n"` starting from an empty accumulator: consumed whole -/
theorem splitParams_piece (pre n : Bytes) (hpre : ∀ b ∈ pre, b ≠ 59) (hpne : pre ≠ [])
    (hub : unbalanced pre = true) (hn : NoQ n) (fuel : Nat) (rest : Bytes) :
    splitParams ((pre ++ n ++ Q).length + fuel) ((pre ++ n ++ Q) ++ rest) [] =
      splitParams fuel rest (pre ++ n ++ Q).reverse := by
  have hf : (pre ++ n ++ Q).length + fuel = pre.length + (n.length + (1 + fuel)) := by simp [Q]; omega
  have e1 : (pre ++ n ++ Q) ++ rest = pre ++ (n ++ (34 :: rest)) := by simp [Q]
  rw [hf, e1, splitParams_walk pre hpre]
  have hne : pre.reverse ++ [] ≠ [] := by cases pre <;> simp_all
  rw [splitParams_inquote n hn _ _ _ hne (by simpa using hub)]
  have : 1 + fuel = fuel + 1 := by omega
  rw [this]
  simp only [splitParams]
  have h34 : ((34 : UInt8) = 59) = False := by decide
  simp [h34, Q]

theorem splitParams_semicolon (fuel : Nat) (rest cur : Bytes) (hne : cur.isEmpty = false)
    (hb : unbalanced cur.reverse = false) :
    splitParams (fuel + 1) (59 :: rest) cur = cur.reverse :: splitParams fuel rest [] := by
  simp [splitParams, hne, hb]

theorem unescape1_noq (n : Bytes) (hn : NoQ n) : unescape1 n = n := by
  induction n with
  | nil => rfl
  | cons b t ih =>
    have hb := hn.head.2.1
    cases t with
    | nil => simp [unescape1]
    | cons c u =>
      have := ih hn.tail
      simp only [unescape1, hb, decide_false, Bool.false_and, Bool.false_eq_true, if_false]
      rw [this]

theorem unescape2_noq (n : Bytes) (hn : NoQ n) : unescape2 n = n := by
  induction n with
  | nil => rfl
  | cons b t ih =>
    have hb := hn.head.2.1
    cases t with
    | nil => simp [unescape2]
    | cons c u =>
      have := ih hn.tail
      simp only [unescape2, hb, decide_false, Bool.false_and, Bool.false_eq_true, if_false]
      rw [this]

theorem unquote_quoted' (n : Bytes) (hn : NoQ n) : unquote (strip (34 :: n ++ [34])) = n := by
  rw [strip_id 34 34 n (by decide) (by decide)]
  unfold unquote
  have h1 : (34 :: n ++ [34] : Bytes).length ≥ 2 := by simp
  have h2 : (34 :: n ++ [34] : Bytes).head? = some 34 := rfl
  have h3 : (34 :: n ++ [34] : Bytes).getLast? = some 34 := by
    have : (34 :: n ++ [34] : Bytes) = (34 :: n) ++ [34] := by simp
    rw [this, List.getLast?_append]; simp
  have h4 : ((34 :: n ++ [34] : Bytes).drop 1).take ((34 :: n ++ [34] : Bytes).length - 2) = n := by
    simp
  simp only [h1, h2, h3, decide_true, Bool.and_self, if_true, h4, unescape1_noq n hn, unescape2_noq n hn]

theorem stripQuotes_noq (n : Bytes) (hn : NoQ n) : stripQuotes n = n := by
  unfold stripQuotes
  cases n with
  | nil => simp
  | cons b t =>
    have hb := hn.head.1
    rw [if_neg]
    intro h
    simp only [List.head?_cons, Bool.and_eq_true, decide_eq_true_eq, Option.some.injEq] at h
    exact hb h.1.1

theorem FD_no59 : ∀ b ∈ FD, b ≠ 59 := by decide

theorem parseHeader_cdName' (n : Bytes) (hn : NoQ n) :
    parseHeader (cdName n) = (FD, [(K_NAME, n)]) := by
  unfold parseHeader cdName
  have hsplit : splitParams ((FD ++ 59 :: (NAMEQ ++ n ++ Q)).length + 1) (FD ++ 59 :: (NAMEQ ++ n ++ Q)) []
      = [FD, NAMEQ ++ n ++ Q] := by
    have hf : (FD ++ 59 :: (NAMEQ ++ n ++ Q)).length + 1 = FD.length + (((NAMEQ ++ n ++ Q).length + 1) + 1) := by
      simp; omega
    rw [hf, splitParams_walk FD FD_no59]
    have hne' : (FD.reverse ++ ([] : Bytes)).isEmpty = false := by decide
    have hb1 : unbalanced (FD.reverse ++ ([] : Bytes)).reverse = false := by decide
    simp only [splitParams, hne', hb1, Bool.not_false, Bool.and_self, decide_true, if_true]
    have := splitParams_piece NAMEQ n (by decide) (by decide) unbalanced_NAMEQ hn 1 []
    simp only [List.append_nil] at this
    rw [this]
    simp [splitParams]
  rw [hsplit]
  have hs1 : strip FD = FD := by decide
  have hs2 : strip (NAMEQ ++ n ++ Q) = [110,97,109,101,61,34] ++ n ++ [34] := by
    have := strip_piece 110 34 ([97,109,101,61,34] ++ n) (by decide) (by decide)
    simpa [NAMEQ, Q] using this
  simp only [List.map_cons, List.map_nil, hs1, hs2]
  have hfe : findEq ([110,97,109,101,61,34] ++ n ++ [34]) = some ([110,97,109,101], 34 :: n ++ [34]) := by
    simp [findEq]
  have hk : lower (strip [110,97,109,101]) = K_NAME := by decide
  simp only [List.filterMap_cons, List.filterMap_nil, hfe, hk, unquote_quoted' n hn]

theorem parseHeader_cdNameFile' (n f : Bytes) (hn : NoQ n) (hf : NoQ f) :
    parseHeader (cdNameFile n f) = (FD, [(K_NAME, n), (K_FILENAME, f)]) := by
  unfold parseHeader cdNameFile
  have hsplit : splitParams ((FD ++ 59 :: ((NAMEQ ++ n ++ Q) ++ 59 :: (FNAMEQ ++ f ++ Q))).length + 1)
      (FD ++ 59 :: ((NAMEQ ++ n ++ Q) ++ 59 :: (FNAMEQ ++ f ++ Q))) []
      = [FD, NAMEQ ++ n ++ Q, FNAMEQ ++ f ++ Q] := by
    have hf1 : (FD ++ 59 :: ((NAMEQ ++ n ++ Q) ++ 59 :: (FNAMEQ ++ f ++ Q))).length + 1 =
        FD.length + ((((NAMEQ ++ n ++ Q).length + (((FNAMEQ ++ f ++ Q).length + 1) + 1))) + 1) := by
      simp; omega
    rw [hf1, splitParams_walk FD FD_no59]
    have hne' : (FD.reverse ++ ([] : Bytes)).isEmpty = false := by decide
    have hb1 : unbalanced (FD.reverse ++ ([] : Bytes)).reverse = false := by decide
    simp only [splitParams, hne', hb1, Bool.not_false, Bool.and_self, decide_true, if_true]
    rw [splitParams_piece NAMEQ n (by decide) (by decide) unbalanced_NAMEQ hn]
    have hne2 : ((NAMEQ ++ n ++ Q).reverse).isEmpty = false := by simp [Q]
    have hb2 : unbalanced ((NAMEQ ++ n ++ Q).reverse).reverse = false := by
      rw [List.reverse_reverse]; exact unbalanced_quoted' NAMEQ n hn qb_NAMEQ
    rw [splitParams_semicolon _ _ _ hne2 hb2, List.reverse_reverse]
    have := splitParams_piece FNAMEQ f (by decide) (by decide) unbalanced_FNAMEQ hf 1 []
    simp only [List.append_nil] at this
    rw [this]
    simp [splitParams]
  rw [hsplit]
  have hs1 : strip FD = FD := by decide
  have hs2 : strip (NAMEQ ++ n ++ Q) = [110,97,109,101,61,34] ++ n ++ [34] := by
    have := strip_piece 110 34 ([97,109,101,61,34] ++ n) (by decide) (by decide)
    simpa [NAMEQ, Q] using this
  have hs3 : strip (FNAMEQ ++ f ++ Q) = [102,105,108,101,110,97,109,101,61,34] ++ f ++ [34] := by
    have := strip_piece 102 34 ([105,108,101,110,97,109,101,61,34] ++ f) (by decide) (by decide)
    simpa [FNAMEQ, Q] using this
  simp only [List.map_cons, List.map_nil, hs1, hs2, hs3]
  have hfe : findEq ([110,97,109,101,61,34] ++ n ++ [34]) = some ([110,97,109,101], 34 :: n ++ [34]) := by
    simp [findEq]
  have hfe2 : findEq ([102,105,108,101,110,97,109,101,61,34] ++ f ++ [34]) =
      some ([102,105,108,101,110,97,109,101], 34 :: f ++ [34]) := by
    simp [findEq]
  have hk : lower (strip [110,97,109,101]) = K_NAME := by decide
  have hk2 : lower (strip [102,105,108,101,110,97,109,101]) = K_FILENAME := by decide
  simp only [List.filterMap_cons, List.filterMap_nil, hfe, hfe2, hk, hk2, unquote_quoted' n hn, unquote_quoted' f hf]

theorem cdName_nocomma' (n : Bytes) (hn : NoQ n) : ∀ b ∈ cdName n, b ≠ 44 := by
  intro b hb
  simp only [cdName, List.mem_append, List.mem_cons] at hb
  rcases hb with hb | rfl | (hb | hb) | hb
  · revert b; decide
  · decide
  · revert b; decide
  · exact (hn b hb).2.2
  · revert b; decide

theorem cdNameFile_nocomma' (n f : Bytes) (hn : NoQ n) (hf : NoQ f) : ∀ b ∈ cdNameFile n f, b ≠ 44 := by
  intro b hb
  simp only [cdNameFile, List.mem_append, List.mem_cons] at hb
  rcases hb with hb | rfl | ((hb | hb) | hb) | rfl | (hb | hb) | hb
  · revert b; decide
  · decide
  · revert b; decide
  · exact (hn b hb).2.2
  · revert b; decide
  · decide
  · revert b; decide
  · exact (hf b hb).2.2
  · revert b; decide

/-- **C04, names with `;` inside the quotes (plain field).** -/
theorem C04_names_field_semicolon (n : Bytes) (hn : NoQ n) :
    partInfo [(K_CD, cdName n)] = { name := some n, filename := none, ctype := TEXT_PLAIN } := by
  have h1 : hdrGet [(K_CD, cdName n)] K_CT = none := by
    have : (lower K_CD = lower K_CT) = False := by decide
    simp [hdrGet, this]
  have h2 : hdrGet [(K_CD, cdName n)] K_CD = some (cdName n) := by simp [hdrGet]
  have h3 : firstElement (cdName n) = some (FD, [(K_NAME, n)]) := by
    rw [firstElement_single _ (by simp [cdName, FD]) (cdName_nocomma' n hn), parseHeader_cdName' n hn]
  have h4 : paramGet [(K_NAME, n)] K_NAME = some n := by simp [paramGet]
  have h5 : paramGet [(K_NAME, n)] K_FILENAME = none := by
    have : (K_NAME = K_FILENAME) = False := by decide
    simp [paramGet, this]
  simp only [partInfo, h1, h2, Option.bind_none, Option.bind_some, h3, h4, h5, Option.map_some, Option.map_none,
    stripQuotes_noq n hn]

/-- **C04, names with `;` inside the quotes (file upload).**  `form-data; name="n"; filename="f"` for all
    `n`, `f` free of `"`, `\`, `,` — semicolons, `=` and blanks inside the quotes do not split the value. -/
theorem C04_names_file_semicolon (n f ct : Bytes) (hn : NoQ n) (hf : NoQ f) (hct : TokenLike ct) :
    partInfo [(K_CD, cdNameFile n f), (K_CT, ct)] = { name := some n, filename := some f, ctype := ct } := by
  have hne : (lower K_CD = lower K_CT) = False := by decide
  have h1 : hdrGet [(K_CD, cdNameFile n f), (K_CT, ct)] K_CT = some ct := by simp [hdrGet, hne]
  have h2 : hdrGet [(K_CD, cdNameFile n f), (K_CT, ct)] K_CD = some (cdNameFile n f) := by simp [hdrGet]
  have h3 : firstElement (cdNameFile n f) = some (FD, [(K_NAME, n), (K_FILENAME, f)]) := by
    rw [firstElement_single _ (by simp [cdNameFile, FD]) (cdNameFile_nocomma' n f hn hf),
      parseHeader_cdNameFile' n f hn hf]
  have h3' : firstElement ct = some (ct, []) := by
    rw [firstElement_single _ hct.ne (fun b hb => (hct.ok b hb).2.1), parseHeader_token ct hct]
  have hnf : (K_NAME = K_FILENAME) = False := by decide
  have hfn : (K_FILENAME = K_NAME) = False := by decide
  have h4 : paramGet [(K_NAME, n), (K_FILENAME, f)] K_NAME = some n := by simp [paramGet, hfn]
  have h5 : paramGet [(K_NAME, n), (K_FILENAME, f)] K_FILENAME = some f := by simp [paramGet]
  simp only [partInfo, h1, h2, Option.bind_some, h3, h3', h4, h5, Option.map_some,
    stripQuotes_noq n hn, stripQuotes_noq f hf]

/-- non-vacuity: `semi;colon`, `k=v; x` satisfy the hypothesis -/
example : NoQ [115,101,109,105,59,99,111,108,111,110] ∧ NoQ [107,61,118,59,32,120] := by decide

/-- **Escapes** (`\"`, `\\`) as the sender writes them come back unescaped … -/
theorem C04_names_escapes :
    -- name="q\"r"  →  q"r          filename="c:\\dir\\x"  →  c:\dir\x
    partInfo [(K_CD, FD ++ [59,32,110,97,109,101,61,34, 113,92,34,114, 34, 59,32,102,105,108,101,110,97,109,101,61,34,
                            99,58,92,92,100,105,114,92,92,120, 34])]
      = { name := some [113,34,114], filename := some [99,58,92,100,105,114,92,120], ctype := TEXT_PLAIN } := by
  decide

/-- … but the parser inherited from the stdlib counts `\"` occurrences, so a value ENDING in a backslash
    (`name="a\\"`, i.e. the name `a\`) looks like an open quote: the following `;` does not split and the
    filename parameter is swallowed into the name (quirk, kept by the model; outside the statement). -/
theorem C04_names_trailing_backslash_quirk :
    (partInfo [(K_CD, FD ++ [59,32,110,97,109,101,61,34, 97,92,92, 34, 59,32,102,105,108,101,110,97,109,101,61,34,
                             102, 34])]).filename = none := by
  decide

end CpProofs.C04
