import CpModel.Ranges
import CpProofs.C16Multipart
/-!
  C16 — the multipart/byteranges framing round trip for an ARBITRARY boundary text, with a receiver that
  does what MIME receivers (and the harness' `parse_multipart`) do: cut the body at every occurrence of the
  delimiter `CRLF "--" boundary`, then read each piece's headers; the payload is whatever is left of the
  piece — the Content-range is NOT trusted for the length (that was `multipart_decodes`).

  * `splitAt1_clean`          the first occurrence of the delimiter behind a piece in which (together with the
                              delimiter that follows) it does not occur earlier, is where the piece ends;
  * `multipart_scan_decodes`  for every boundary, content type and list of parts whose pieces are `Clean`, the
                              scanning receiver gets back exactly the parts — first, last, total and payload;
  * `scan_payload_truthful`   so for what `_serve_fileobj` sends (`serve_multi`), the payload the receiver
                              extracts is `content[first..last]` and its length is `last - first + 1`;
  * `clean_of_no_cr`          a boundary without CR (what `make_boundary()` produces: `=`, digits) makes every
                              piece clean unless the delimiter itself occurs inside the piece;
  * `scan_confused_by_delimiter_in_payload`   the hypothesis is necessary: `_serve_fileobj` calls
                              `make_boundary()` without looking at the file, so a payload that contains the
                              delimiter is cut in two by a scanning receiver (witness `decide`d).  With a random
                              boundary of 15 `=` + 19 digits this is a 10^-19 event per position, not a finding.
-/
namespace CpProofs.C16
open CpModel.Ranges

/-- cut `s` at the first occurrence of `pat` (non-empty): (before, after) -/
def splitAt1 (pat : Bytes) : Bytes → Option (Bytes × Bytes)
  | [] => none
  | b :: bs =>
    match stripPrefix pat (b :: bs) with
    | some rest => some ([], rest)
    | none =>
      match splitAt1 pat bs with
      | none => none
      | some (x, y) => some (b :: x, y)

def delimOf (boundary : Bytes) : Bytes := crlf ++ dashes ++ boundary

/-- the pieces between delimiters, once the first delimiter is consumed; ends at `"--" CRLF` -/
def scanPieces (delim : Bytes) : Nat → Bytes → Option (List Bytes)
  | 0, _ => none
  | fuel + 1, s =>
    if s = dashes ++ crlf then some []
    else
      match splitAt1 delim s with
      | none => none
      | some (piece, rest) => (scanPieces delim fuel rest).map (piece :: ·)

def scanMultipart (boundary body : Bytes) : Option (List Bytes) :=
  match stripPrefix (delimOf boundary) body with
  | none => none
  | some s => scanPieces (delimOf boundary) (s.length + 1) s

def pieceHeader (ctype : Bytes) : Bytes :=
  crlf ++ ascii "Content-type: ".toList ++ ctype ++ crlf ++ ascii "Content-range: bytes ".toList

/-- headers of one piece; the payload is the rest of the piece -/
def parsePiece (ctype piece : Bytes) : Option Part :=
  match stripPrefix (pieceHeader ctype) piece with
  | none => none
  | some s1 =>
    match stripPrefix [45] (parseDec s1).2 with
    | none => none
    | some s2 =>
      match stripPrefix [47] (parseDec s2).2 with
      | none => none
      | some s3 =>
        match stripPrefix (crlf ++ crlf) (parseDec s3).2 with
        | none => none
        | some payload => some ⟨(parseDec s1).1, (parseDec s2).1, (parseDec s3).1, payload⟩

/-- what lies between two delimiters for part `p` -/
def inner (ctype : Bytes) (p : Part) : Bytes :=
  pieceHeader ctype ++ ascii (dec p.first) ++ [45] ++ ascii (dec p.last) ++ [47] ++ ascii (dec p.total) ++
    crlf ++ crlf ++ p.body

/-- the delimiter does not occur in `piece ++ delim` before the end of the piece -/
def Clean (delim piece : Bytes) : Prop :=
  ∀ k, k < piece.length → stripPrefix delim ((piece ++ delim).drop k) = none

/-! ### cutting at the delimiter -/

theorem stripPrefix_none_append (p s r : Bytes) (h : stripPrefix p s = none) (hl : p.length ≤ s.length) :
    stripPrefix p (s ++ r) = none := by
  induction p generalizing s with
  | nil => cases s <;> simp [stripPrefix] at h
  | cons a p ih =>
    cases s with
    | nil => simp at hl
    | cons b s =>
      simp only [stripPrefix, List.cons_append] at h ⊢
      split
      · rename_i e
        simp only [e, if_true] at h
        exact ih s h (by simpa using hl)
      · rfl

theorem clean_tail (delim : Bytes) (b : UInt8) (piece : Bytes) (h : Clean delim (b :: piece)) :
    Clean delim piece := by
  intro k hk
  have := h (k + 1) (by simpa using hk)
  simpa using this

theorem splitAt1_clean (delim piece rest : Bytes) (hd : delim ≠ []) (hc : Clean delim piece) :
    splitAt1 delim (piece ++ delim ++ rest) = some (piece, rest) := by
  induction piece with
  | nil =>
    cases delim with
    | nil => exact absurd rfl hd
    | cons d ds =>
      simp only [List.nil_append, List.cons_append, splitAt1]
      have := stripPrefix_append (d :: ds) rest
      simp only [List.cons_append] at this
      rw [this]
  | cons b piece ih =>
    have h0 := hc 0 (by simp)
    simp only [List.drop_zero] at h0
    have h1 : stripPrefix delim ((b :: piece) ++ delim ++ rest) = none :=
      stripPrefix_none_append delim _ rest h0 (by simp; omega)
    simp only [List.cons_append] at h1 ⊢
    simp only [splitAt1, h1, ih (clean_tail delim b piece hc)]

/-! ### the whole body -/

theorem part_regroup (boundary ctype : Bytes) (p : Part) :
    partHeader boundary ctype p ++ p.body ++ crlf = dashes ++ boundary ++ inner ctype p ++ crlf := by
  simp [partHeader, inner, pieceHeader, List.append_assoc]

theorem render_regroup_aux (boundary ctype : Bytes) (parts : List Part) :
    crlf ++ (parts.flatMap fun p => partHeader boundary ctype p ++ p.body ++ crlf) ++ (dashes ++ boundary) =
      (parts.flatMap fun p => delimOf boundary ++ inner ctype p) ++ delimOf boundary := by
  induction parts with
  | nil => simp [delimOf, List.append_assoc]
  | cons p ps ih =>
    simp only [List.flatMap_cons, part_regroup]
    have : crlf ++ (dashes ++ boundary ++ inner ctype p ++ crlf ++
        (ps.flatMap fun p => partHeader boundary ctype p ++ p.body ++ crlf)) ++ (dashes ++ boundary) =
        delimOf boundary ++ inner ctype p ++
          (crlf ++ (ps.flatMap fun p => partHeader boundary ctype p ++ p.body ++ crlf) ++ (dashes ++ boundary)) := by
      simp [delimOf, List.append_assoc]
    have e2 : (ps.flatMap fun p => dashes ++ boundary ++ inner ctype p ++ crlf) =
        (ps.flatMap fun p => partHeader boundary ctype p ++ p.body ++ crlf) := by
      congr 1; funext q; exact (part_regroup boundary ctype q).symm
    rw [e2, this, ih]
    simp [List.append_assoc]

theorem render_regroup (boundary ctype : Bytes) (parts : List Part) :
    renderMultipart boundary ctype parts =
      (parts.flatMap fun p => delimOf boundary ++ inner ctype p) ++ delimOf boundary ++ dashes ++ crlf := by
  have := render_regroup_aux boundary ctype parts
  unfold renderMultipart
  rw [← this]
  simp [List.append_assoc]

theorem inner_ne_closing (ctype : Bytes) (p : Part) (tail : Bytes) : inner ctype p ++ tail ≠ dashes ++ crlf := by
  intro h
  have := congrArg List.head? h
  simp [inner, pieceHeader, crlf, dashes] at this

theorem scanPieces_render (boundary ctype : Bytes) (parts : List Part)
    (hc : ∀ p ∈ parts, Clean (delimOf boundary) (inner ctype p)) (fuel : Nat) (hf : parts.length < fuel) :
    scanPieces (delimOf boundary) fuel
      ((parts.flatMap fun p => inner ctype p ++ delimOf boundary) ++ dashes ++ crlf) =
      some (parts.map (inner ctype)) := by
  have hd : delimOf boundary ≠ [] := by simp [delimOf, crlf]
  induction parts generalizing fuel with
  | nil =>
    cases fuel with
    | zero => omega
    | succ f => simp [scanPieces]
  | cons p ps ih =>
    cases fuel with
    | zero => omega
    | succ f =>
      simp only [List.flatMap_cons, scanPieces]
      have e : inner ctype p ++ delimOf boundary ++ (ps.flatMap fun p => inner ctype p ++ delimOf boundary) ++
          dashes ++ crlf =
          inner ctype p ++ delimOf boundary ++
            ((ps.flatMap fun p => inner ctype p ++ delimOf boundary) ++ dashes ++ crlf) := by
        simp [List.append_assoc]
      rw [e]
      have hne : inner ctype p ++ delimOf boundary ++
          ((ps.flatMap fun p => inner ctype p ++ delimOf boundary) ++ dashes ++ crlf) ≠ dashes ++ crlf := by
        rw [List.append_assoc]
        exact inner_ne_closing ctype p _
      simp only [hne, if_false]
      rw [splitAt1_clean _ _ _ hd (hc p (by simp))]
      simp only []
      rw [ih (fun q m => hc q (List.mem_cons_of_mem _ m)) f (by simp at hf; omega)]
      rfl

theorem flatMap_inner_length (boundary ctype : Bytes) (parts : List Part) :
    parts.length ≤ (parts.flatMap fun p => inner ctype p ++ delimOf boundary).length := by
  induction parts with
  | nil => simp
  | cons p ps ih =>
    have : 1 ≤ (inner ctype p ++ delimOf boundary).length := by simp [delimOf, crlf]; omega
    simp only [List.flatMap_cons, List.length_append, List.length_cons] at this ⊢
    omega

theorem parsePiece_inner (ctype : Bytes) (p : Part) : parsePiece ctype (inner ctype p) = some p := by
  have e : inner ctype p = pieceHeader ctype ++ (ascii (dec p.first) ++ ([45] ++ (ascii (dec p.last) ++
      ([47] ++ (ascii (dec p.total) ++ (crlf ++ crlf ++ p.body)))))) := by
    simp [inner, List.append_assoc]
  rw [e]
  unfold parsePiece
  rw [stripPrefix_append]
  simp only []
  rw [parseDec_dec p.first _ (by intro b r h; simp at h; rw [← h.1]; decide)]
  simp only []
  rw [stripPrefix_append]
  simp only []
  rw [parseDec_dec p.last _ (by intro b r h; simp at h; rw [← h.1]; decide)]
  simp only []
  rw [stripPrefix_append]
  simp only []
  rw [parseDec_dec p.total _ (by intro b r h; simp [crlf] at h; rw [← h.1]; decide)]
  simp only []
  rw [stripPrefix_append]

/-- **The framing round trip for an arbitrary boundary**: a receiver that cuts the body at the delimiters
    and reads each piece's headers gets back exactly the parts — Content-range numbers AND payload —, for
    every boundary text, content type, number of parts, provided the delimiter does not occur early in a
    piece. -/
theorem multipart_scan_decodes (boundary ctype : Bytes) (parts : List Part)
    (hc : ∀ p ∈ parts, Clean (delimOf boundary) (inner ctype p)) :
    (scanMultipart boundary (renderMultipart boundary ctype parts)).map (fun ps => ps.map (parsePiece ctype)) =
      some (parts.map some) := by
  rw [render_regroup]
  unfold scanMultipart
  have e : (parts.flatMap fun p => delimOf boundary ++ inner ctype p) ++ delimOf boundary ++ dashes ++ crlf =
      delimOf boundary ++ ((parts.flatMap fun p => inner ctype p ++ delimOf boundary) ++ dashes ++ crlf) := by
    induction parts with
    | nil => simp
    | cons p ps ih =>
      simp only [List.flatMap_cons, List.append_assoc] at ih ⊢
      rw [ih (fun q m => hc q (List.mem_cons_of_mem _ m))]
  rw [e, stripPrefix_append]
  simp only []
  rw [scanPieces_render boundary ctype parts hc]
  · simp only [Option.map_some, List.map_map]
    congr 1
    apply List.map_congr_left
    intro p _
    exact parsePiece_inner ctype p
  · have := flatMap_inner_length boundary ctype parts
    simp only [List.length_append]
    omega

/-- **what the receiver extracts is the requested slice**: for ≥ 2 ranges served by `_serve_fileobj`, every
    part recovered by scanning carries `content[first..last]`, exactly `last - first + 1` bytes -/
theorem scan_payload_truthful (range : Option Text) (content : Bytes) (r1 r2 : Nat × Nat)
    (rest : List (Nat × Nat)) (h : getRanges range content.length = some (r1 :: r2 :: rest))
    (boundary ctype : Bytes) :
    ∃ ps, serveFileobj true true range content = .multi ps ∧
      ((∀ p ∈ ps, Clean (delimOf boundary) (inner ctype p)) →
        (scanMultipart boundary (renderMultipart boundary ctype ps)).map (fun l => l.map (parsePiece ctype)) =
          some (ps.map some)) ∧
      ∀ p ∈ ps, p.body = slice content p.first (p.last + 1) ∧ p.body.length = p.last - p.first + 1 ∧
        p.total = content.length := by
  obtain ⟨hs, hb⟩ := serve_multi range content r1 r2 rest h
  refine ⟨_, hs, fun hc => multipart_scan_decodes boundary ctype _ hc, ?_⟩
  intro p hm
  obtain ⟨q, hq, rfl⟩ := List.mem_map.mp hm
  have hq' := hb q hq
  have hpos : 1 ≤ q.2 := by
    have := ranges_in_bounds range content.length _ h q hq
    omega
  refine ⟨?_, hq'.2.2, rfl⟩
  simp only
  rw [Nat.sub_add_cancel hpos]

/-! ### boundaries as `make_boundary()` makes them -/

theorem stripPrefix_some_get (p s r : Bytes) (h : stripPrefix p s = some r) :
    ∀ i, i < p.length → s[i]? = p[i]? := by
  induction p generalizing s with
  | nil => intro i hi; simp at hi
  | cons a p ih =>
    cases s with
    | nil => simp [stripPrefix] at h
    | cons b s =>
      simp only [stripPrefix] at h
      split at h
      · rename_i e
        subst e
        intro i hi
        cases i with
        | zero => simp
        | succ i =>
          simp only [List.getElem?_cons_succ]
          exact ih s h i (by simpa using hi)
      · simp at h

/-- **a boundary without CR** (`make_boundary()`: fifteen `=`, digits, `==`): the delimiter cannot straddle the
    end of a piece, so a piece is clean as soon as the delimiter does not occur INSIDE it -/
theorem clean_of_no_cr (boundary piece : Bytes) (hb : (13 : UInt8) ∉ boundary)
    (hn : ∀ k, k + (delimOf boundary).length ≤ piece.length →
      stripPrefix (delimOf boundary) (piece.drop k) = none) :
    Clean (delimOf boundary) piece := by
  intro k hk
  rw [List.drop_append_of_le_length (by omega)]
  by_cases hfit : k + (delimOf boundary).length ≤ piece.length
  · exact stripPrefix_none_append _ _ _ (hn k hfit) (by simp; omega)
  · cases hs : stripPrefix (delimOf boundary) (piece.drop k ++ delimOf boundary) with
    | none => rfl
    | some r =>
      exfalso
      have hq1 : 1 ≤ (piece.drop k).length := by simp; omega
      have hq2 : (piece.drop k).length < (delimOf boundary).length := by simp; omega
      have hget := stripPrefix_some_get _ _ _ hs (piece.drop k).length hq2
      rw [List.getElem?_append_right (Nat.le_refl _), Nat.sub_self] at hget
      have hd : delimOf boundary = 13 :: (10 :: 45 :: 45 :: boundary) := by
        simp [delimOf, crlf, dashes]
      rw [hd] at hget
      generalize (piece.drop k).length = j at hq1 hget
      cases j with
      | zero => omega
      | succ j =>
        simp only [List.getElem?_cons_zero, List.getElem?_cons_succ] at hget
        have hm := List.mem_of_getElem? hget.symm
        simp only [List.mem_cons] at hm
        rcases hm with h | h | h | h
        · exact absurd h (by decide)
        · exact absurd h (by decide)
        · exact absurd h (by decide)
        · exact hb h

/-! ### the hypothesis is necessary -/

/-- a payload that contains the delimiter: a scanning receiver sees three pieces where two parts were sent
    (boundary `B`, second payload `CR LF - - B`) -/
theorem scan_confused_by_delimiter_in_payload :
    (scanMultipart [66] (renderMultipart [66] [116] [⟨0, 0, 9, [7]⟩, ⟨1, 5, 9, [13, 10, 45, 45, 66]⟩])).map
      List.length = some 3 := by decide

/-! ### non-vacuity -/

-- payloads may contain pieces of the delimiter (boundary `B`: `CR LF - -`, `- - B` not at the start, `CR`)
set_option maxRecDepth 20000 in
example : (scanMultipart [66] (renderMultipart [66] [116] [⟨2, 3, 14, [7, 8]⟩, ⟨9, 13, 14, [13, 10, 45, 45, 13]⟩,
      ⟨0, 4, 14, [1, 45, 45, 66, 13]⟩])).map (fun l => l.map (parsePiece [116])) =
    some [some ⟨2, 3, 14, [7, 8]⟩, some ⟨9, 13, 14, [13, 10, 45, 45, 13]⟩, some ⟨0, 4, 14, [1, 45, 45, 66, 13]⟩] := by
  decide

-- … but a payload that STARTS with `- - B` completes a delimiter with the blank line in front of it
example : (scanMultipart [66] (renderMultipart [66] [116] [⟨10, 13, 14, [45, 45, 66, 13]⟩])).map List.length =
    some 2 := by decide

end CpProofs.C16
