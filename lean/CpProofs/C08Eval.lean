import CpModel.Unrepr
import CpProofs.C08
/-!
  C08, unrepr beyond literals: calls (keyword arguments, `*` / `**`), subscripts, operators, name lookup.
-/
namespace CpProofs.C08
open CpModel.Unrepr

/-! ### keyword arguments (`_build_call35`) -/

def kwGet : Kwargs → List Char → Option PyVal
  | [], _ => none
  | (k, v) :: rest, n => if k = n then some v else kwGet rest n

theorem kwGet_kwSet_same (kw : Kwargs) (n : List Char) (v : PyVal) : kwGet (kwSet kw n v) n = some v := by
  induction kw with
  | nil => simp [kwSet, kwGet]
  | cons x xs ih =>
    obtain ⟨k, w⟩ := x
    by_cases h : k = n
    · simp [kwSet, kwGet, h]
    · simp [kwSet, kwGet, h, ih]

theorem kwGet_kwSet_other (kw : Kwargs) (n m : List Char) (v : PyVal) (h : m ≠ n) :
    kwGet (kwSet kw n v) m = kwGet kw m := by
  induction kw with
  | nil => simp [kwSet, kwGet, Ne.symm h]
  | cons x xs ih =>
    obtain ⟨k, w⟩ := x
    by_cases hk : k = n
    · subst hk
      simp [kwSet, kwGet, Ne.symm h]
    · by_cases hm : k = m
      · subst hm
        simp [kwSet, kwGet, hk]
      · simp [kwSet, kwGet, hk, hm, ih]

theorem kwHas_iff (kw : Kwargs) (n : List Char) : kwHas kw n = (kwGet kw n).isSome := by
  induction kw with
  | nil => rfl
  | cons x xs ih =>
    obtain ⟨k, w⟩ := x
    by_cases h : k = n
    · simp [kwHas, kwGet, h]
    · have : (k == n) = false := by simpa using h
      simp only [kwHas, List.any_cons, this, Bool.false_or, kwGet, h, if_false]
      exact ih

theorem kwGet_append_new (kw : Kwargs) (n m : List Char) (v : PyVal) :
    kwGet (kw ++ [(n, v)]) m = match kwGet kw m with
      | some w => some w
      | none => if n = m then some v else none := by
  induction kw with
  | nil => simp [kwGet]
  | cons x xs ih =>
    obtain ⟨k, w⟩ := x
    by_cases h : k = m
    · simp [kwGet, h]
    · simp [kwGet, h, ih]

/-- **`**mapping` never overrides.**  An entry that is already among the keyword arguments (set by
    `name=value` or by an earlier `**mapping`) survives every later `**mapping`. -/
theorem C08_call_splat_keeps (kw : Kwargs) (m : List PyVal) (n : List Char) (v : PyVal)
    (h : kwGet kw n = some v) : kwGet (kwMerge kw m).1 n = some v := by
  fun_induction kwMerge kw m with
  | case1 kw n' v' rest ih =>
    apply ih
    split
    · exact h
    · rw [kwGet_append_new, h]
  | case2 kw a b rest hne ih => exact ih h
  | case3 kw l h1 => exact h

/-- **`name=value` always wins**, wherever it stands: set after a `**mapping` it overwrites the entry … -/
theorem C08_call_keyword_after_splat (kw : Kwargs) (m : List PyVal) (n : List Char) (v : PyVal) :
    kwGet (kwSet (kwMerge kw m).1 n v) n = some v := kwGet_kwSet_same _ _ _

/-- … and set before it, it is kept. -/
theorem C08_call_keyword_before_splat (kw : Kwargs) (m : List PyVal) (n : List Char) (v : PyVal) :
    kwGet (kwMerge (kwSet kw n v) m).1 n = some v :=
  C08_call_splat_keeps _ m n v (kwGet_kwSet_same _ _ _)

/-- a module attribute / builtin other than `dict`, `list`, `tuple` is called with exactly the arguments
    that were built: positional in order, keywords as collected -/
theorem C08_call_symbolic (p : List (List Char)) (args : List PyVal) (kw : Kwargs)
    (h1 : p ≠ ["dict".toList]) (h2 : p ≠ ["list".toList]) (h3 : p ≠ ["tuple".toList]) :
    applyV (.obj p) args kw = .ok (.applied p args (kwFlat kw)) := by
  unfold applyV
  dsimp only
  rw [if_neg h1, if_neg h2, if_neg h3]

/-- calling something that is no function raises TypeError -/
theorem C08_call_not_callable (args : List PyVal) (kw : Kwargs) (i : Int) :
    applyV (.int i) args kw = .error .typeError := rfl

def fName : List Char := "f".toList
def starCall : PyAst := .call (.name fName) [.starred (.list [.const (.int 1), .const (.int 2)])]

def isApplied (r : Except Err PyVal) (nargs : Nat) : Bool :=
  match r with
  | .ok (.applied _ args _) => args.length == nargs
  | _ => false

/-- `f(*[1, 2])` on the live builder: two arguments when a starred argument contributes its items, ONE (the
    list itself) when it is appended as it is. -/
theorem C08_unrepr_starred :
    isApplied (build liveTable [[fName]] starCall) (if starredSpreads then 2 else 1) = true := by decide

/-- The statement "a `*x` argument contributes the items of `x`" for the live builder. -/
def C08_starred_full : Prop :=
  isApplied (build liveTable [[fName]] starCall) 2 = true

/-- … holds exactly when the live code spreads (after the proposed repair); on a tree that appends it is
    false (finding F31).  Which side is proved is read off the generated flag. -/
theorem C08_unrepr_starred_dichotomy :
    (starredSpreads = true ∧ C08_starred_full) ∨ (starredSpreads = false ∧ ¬ C08_starred_full) := by
  unfold C08_starred_full
  decide

/-! ### subscripts -/

/-- `seq[i]`: positions count from the end for a negative index; outside `-len ≤ i < len` is IndexError -/
theorem C08_subscript_index (len : Nat) (i : Int) (k : Nat) :
    normIndex len i = some k ↔
      (0 ≤ i ∧ i < len ∧ (k : Int) = i) ∨ (i < 0 ∧ -i ≤ len ∧ (k : Int) = len + i) := by
  unfold normIndex
  by_cases h0 : 0 ≤ i
  · rw [if_pos h0]
    by_cases h1 : i.toNat < len
    · rw [if_pos h1]
      constructor
      · intro h; injection h with h; left; omega
      · rintro (⟨_, _, _⟩ | ⟨_, _, _⟩) <;> congr 1 <;> omega
    · rw [if_neg h1]
      constructor
      · intro h; cases h
      · rintro (⟨_, _, _⟩ | ⟨_, _, _⟩) <;> exfalso <;> omega
  · rw [if_neg h0]
    by_cases h1 : (-i).toNat ≤ len
    · rw [if_pos h1]
      constructor
      · intro h; injection h with h; right; omega
      · rintro (⟨_, _, _⟩ | ⟨_, _, _⟩) <;> congr 1 <;> omega
    · rw [if_neg h1]
      constructor
      · intro h; cases h
      · rintro (⟨_, _, _⟩ | ⟨_, _, _⟩) <;> exfalso <;> omega

theorem C08_subscript_list (xs : List PyVal) (i : Int) :
    subscriptV (.list xs) (.int i) =
      match normIndex xs.length i with
      | some k => (match xs[k]? with | some x => .ok x | none => .error .indexError)
      | none => .error .indexError := rfl

example : subscriptV (.list [.int 1, .int 2, .int 3]) (.int (-1)) = .ok (.int 3) := rfl
example : subscriptV (.dict [.str "a".toList, .int 1]) (.str "b".toList) = .error .keyError := rfl
example : subscriptV (.tuple [.int 1]) (.tuple [.int 0, .int 1]) = .error .typeError := rfl

/-! ### operators -/

theorem C08_add_str (x y : List Char) : arith false (.str x) (.str y) = .ok (.str (x ++ y)) := rfl
theorem C08_add_list (x y : List PyVal) : arith false (.list x) (.list y) = .ok (.list (x ++ y)) := rfl
theorem C08_add_mixed (x : List Char) (i : Int) : arith false (.int i) (.str x) = .error .typeError := rfl
theorem C08_sub_str (x y : List Char) : arith true (.str x) (.str y) = .error .typeError := rfl

theorem C08_mult_int (a b : Int) : multV (.int a) (.int b) = .ok (.int (a * b)) := by
  simp [multV, symbolic, num?]

theorem repeatList_length {α : Type} (xs : List α) (n : Nat) : (repeatList xs n).length = xs.length * n := by
  induction n with
  | zero => rfl
  | succ n ih => simp [repeatList, ih, Nat.mul_succ, Nat.add_comm]

/-- `seq * n` and `n * seq` repeat the sequence `max(n, 0)` times -/
theorem C08_mult_seq (xs : List PyVal) (n : Int) :
    multV (.list xs) (.int n) = .ok (.list (repeatList xs n.toNat)) ∧
    multV (.int n) (.list xs) = .ok (.list (repeatList xs n.toNat)) := by
  constructor <;> simp [multV, symbolic, num?, asIndex, seqTimes]

/-! ### names -/

/-- **Name lookup order.**  A name that can be imported denotes the module even when a builtin of that
    name exists; only otherwise the builtin; `None`, `True`, `False` are never looked up. -/
theorem C08_name_lookup_order (importable builtin : List Char → Bool) (id : List Char)
    (hk : id ≠ "None".toList ∧ id ≠ "True".toList ∧ id ≠ "False".toList) :
    nameOrigin importable builtin id =
      if importable id then some .module else if builtin id then some .builtin else none := by
  unfold nameOrigin
  rw [if_neg (not_or.mpr ⟨hk.1, not_or.mpr ⟨hk.2.1, hk.2.2⟩⟩)]

end CpProofs.C08
