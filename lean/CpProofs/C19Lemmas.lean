import CpModel.Auth
/-!
  Helper lemmas for C19: `split1`, nonce validation / staleness, field validation.
-/
namespace CpProofs.C19
open CpModel.Auth CpModel.Gen.C19

/-! ### `str.split(sep, 1)` -/

theorem split1_some {sep : Char} : ∀ (s : Str) {a b : Str},
    split1 sep s = some (a, b) → s = a ++ sep :: b ∧ sep ∉ a
  | [], a, b, h => by simp [split1] at h
  | c :: cs, a, b, h => by
    simp only [split1] at h
    split at h
    · rename_i hc
      simp only [Option.some.injEq, Prod.mk.injEq] at h
      obtain ⟨rfl, rfl⟩ := h
      simp [hc]
    · rename_i hc
      split at h
      · rename_i a' b' heq
        simp only [Option.some.injEq, Prod.mk.injEq] at h
        obtain ⟨rfl, rfl⟩ := h
        obtain ⟨h1, h2⟩ := split1_some cs heq
        refine ⟨by simp [h1], ?_⟩
        intro hm
        rcases List.mem_cons.mp hm with h3 | h3
        · exact hc h3.symm
        · exact h2 h3
      · simp at h

theorem split1_of_append {sep : Char} : ∀ (a b : Str), sep ∉ a → split1 sep (a ++ sep :: b) = some (a, b)
  | [], b, _ => by simp [split1]
  | c :: cs, b, h => by
    have hc : ¬ c = sep := fun e => h (by simp [e])
    have hcs : sep ∉ cs := fun e => h (List.mem_cons_of_mem _ e)
    simp [split1, hc, split1_of_append cs b hcs]

theorem split1_none {sep : Char} : ∀ (s : Str), split1 sep s = none ↔ sep ∉ s
  | [] => by simp [split1]
  | c :: cs => by
    simp only [split1]
    split
    · rename_i hc; simp [hc]
    · rename_i hc
      have ih := split1_none (sep := sep) cs
      split
      · rename_i a b heq
        simp only [reduceCtorEq, false_iff, Classical.not_not]
        have : split1 sep cs ≠ none := by simp [heq]
        have : ¬ sep ∉ cs := fun h => this (ih.mpr h)
        exact List.mem_cons_of_mem _ (Classical.not_not.mp this)
      · rename_i heq
        simp only [true_iff]
        intro hm
        rcases List.mem_cons.mp hm with h3 | h3
        · exact hc h3.symm
        · exact (ih.mp heq) h3

/-- `split(sep, 1)` characterised: the string is cut at the *first* separator. -/
theorem split1_iff {sep : Char} (s a b : Str) :
    split1 sep s = some (a, b) ↔ s = a ++ sep :: b ∧ sep ∉ a :=
  ⟨split1_some s, fun ⟨h1, h2⟩ => h1 ▸ split1_of_append a b h2⟩

/-! ### nonces -/

/-- `validate_nonce` accepts exactly the strings `synthesize_nonce(realm, key, ts)` produces for a
    colon-free `ts`: the hash part must be `H(ts:realm:key)` for the server's realm and key. -/
theorem validateNonce_iff (P : Prims) (nonce s key : Str) :
    validateNonce P nonce s key = true ↔ ∃ ts, ':' ∉ ts ∧ nonce = synthesizeNonce P s key ts := by
  unfold validateNonce
  constructor
  · intro h
    split at h
    · simp at h
    · rename_i ts hp heq
      obtain ⟨h1, h2⟩ := split1_some nonce heq
      have hs : split1 ':' (synthesizeNonce P s key ts) = some (ts, P.H (colon ts (colon s key))) := by
        unfold synthesizeNonce colon
        exact split1_of_append _ _ h2
      rw [hs] at h
      simp only [decide_eq_true_eq] at h
      exact ⟨ts, h2, by rw [h1, ← h]; rfl⟩
  · rintro ⟨ts, h2, rfl⟩
    have hs : split1 ':' (synthesizeNonce P s key ts) = some (ts, P.H (colon ts (colon s key))) := by
      unfold synthesizeNonce colon
      exact split1_of_append _ _ h2
    simp [hs]

/-- `is_nonce_stale` answers "fresh" exactly when the text before the first colon is something `int()` reads
    as `t` with `t + max_age > now`. -/
theorem isNonceStale_false_iff (nonce : Str) (maxAge : Nat) (now : Int) :
    isNonceStale nonce maxAge now = false ↔
      ∃ ts rest t, split1 ':' nonce = some (ts, rest) ∧ pyInt ts = some t ∧ t + maxAge > now := by
  unfold isNonceStale
  constructor
  · intro h
    split at h
    · simp at h
    · rename_i ts rest heq
      split at h
      · rename_i t ht
        refine ⟨ts, rest, t, heq, ht, ?_⟩
        simpa using h
      · simp at h
  · rintro ⟨ts, rest, t, h1, h2, h3⟩
    simp [h1, h2, h3]

/-! ### field validation (`HttpDigestAuthorization.__init__`) -/

theorem truthy_iff (o : Option Str) : truthy o = true ↔ ∃ s, o = some s ∧ s ≠ [] := by
  cases o with
  | none => simp [truthy]
  | some s => cases s <;> simp [truthy]

/-- what a successfully constructed `HttpDigestAuthorization` guarantees -/
structure Valid (a : Auth) : Prop where
  alg : a.algorithm = cs! "MD5" ∨ a.algorithm = cs! "MD5-SESS"
  username : truthy a.username = true
  realm : truthy a.realm = true
  nonce : truthy a.nonce = true
  uri : truthy a.uri = true
  response : truthy a.response = true
  qop : (a.qop = none ∧ truthy a.cnonce = false ∧ truthy a.nc = false) ∨
        ((a.qop = some (cs! "auth") ∨ a.qop = some (cs! "auth-int")) ∧ truthy a.cnonce = true ∧ truthy a.nc = true)

theorem validAlgU : validAlgorithms.map pyUpper = [cs! "MD5", cs! "MD5-SESS"] := by decide

theorem validateFields_ok_iff (a b : Auth) : validateFields a = .ok b ↔ (b = a ∧ Valid a) := by
  unfold validateFields
  rw [validAlgU]
  constructor
  · intro h
    split at h
    · simp at h
    · rename_i halg
      split at h
      · simp at h
      · rename_i hreq
        have hreq := Decidable.not_not.mp hreq
        simp only [Bool.and_eq_true] at hreq
        obtain ⟨⟨⟨⟨hu, hr⟩, hn⟩, huri⟩, hresp⟩ := hreq
        have halg' : a.algorithm = cs! "MD5" ∨ a.algorithm = cs! "MD5-SESS" := by
          simp only [List.contains_cons, List.contains_nil, Bool.or_false, Bool.not_eq_true,
            Bool.or_eq_false_iff, not_and, Bool.not_eq_false] at halg
          by_cases h1 : a.algorithm = cs! "MD5"
          · exact Or.inl h1
          · right
            have : (a.algorithm == cs! "MD5") = false := by simpa using h1
            simpa using halg this
        split at h
        · rename_i q hq
          split at h
          · simp at h
          · rename_i hv
            split at h
            · simp at h
            · rename_i hc
              simp only [Except.ok.injEq] at h
              have hc := Decidable.not_not.mp hc
              simp only [Bool.and_eq_true] at hc
              have hv := Decidable.not_not.mp hv
              refine ⟨h.symm, ⟨halg', hu, hr, hn, huri, hresp, Or.inr ⟨?_, hc.1, hc.2⟩⟩⟩
              have : validQops = [cs! "auth", cs! "auth-int"] := by decide
              rw [this] at hv
              simp only [List.contains_cons, List.contains_nil, Bool.or_false, Bool.or_eq_true,
                beq_iff_eq] at hv
              rcases hv with hv | hv
              · left; rw [hq, hv]
              · right; rw [hq, hv]
        · rename_i hq
          split at h
          · simp at h
          · rename_i hc
            simp only [Except.ok.injEq] at h
            simp only [Bool.or_eq_true, not_or, Bool.not_eq_true] at hc
            exact ⟨h.symm, ⟨halg', hu, hr, hn, huri, hresp, Or.inl ⟨hq, hc.1, hc.2⟩⟩⟩
  · intro ⟨hb, v⟩
    rw [hb]
    have halg : ([cs! "MD5", cs! "MD5-SESS"] : List Str).contains a.algorithm = true := by
      rcases v.alg with h | h <;> rw [h] <;> decide
    rw [if_neg (by rw [halg]; simp)]
    rw [if_neg (by simp [v.username, v.realm, v.nonce, v.uri, v.response])]
    rcases v.qop with ⟨hq, hc, hn⟩ | ⟨hq, hc, hn⟩
    · simp [hq, hc, hn]
    · have : validQops = [cs! "auth", cs! "auth-int"] := by decide
      rcases hq with hq | hq <;> simp [hq, hc, hn, this]

end CpProofs.C19
